import Gengo.Model.Order
/-!
Model of pkg/gengo/internal/dumper.go `ValueLit` on typed value trees.  Leaf literals
(`strconv.Quote`, `%d`, `FormatFloat`, `QuoteRune`, `FormatBool`) are supplied with the value;
type-literal texts (C11) are a parameter.  The result is an expression tree; `show` prints it
byte for byte as the Go code does.
`fixed = false` mirrors the pinned code: the pointer case tests `basicKinds` (no `string`) and
names the *kind*; `SubValue(true)` set for a struct field stays set under pointers and for map
keys/values.
-/
namespace Gengo.Dumper

inductive Kind | basic (name : Str) | string | ptr | struct | map | slice | array | iface
deriving DecidableEq

/-- a reflect.Value as the dumper sees it -/
inductive Val where
  | leaf (kind : Kind) (tyText : Str) (lit : Str) (empty : Bool)   -- scalar or string
  | nilPtr
  | ptr (elem : Val)
  | struct (tyText : Str) (fields : List (Str × Bool × Val))          -- name, exported, value
  | map (tyText : Str) (entries : List (Val × Val))
  | seq (tyText : Str) (elems : List Val)                             -- slice or array
  | iface

def Val.kind : Val → Kind
  | .leaf k _ _ _ => k
  | .nilPtr => .ptr
  | .ptr _ => .ptr
  | .struct .. => .struct
  | .map .. => .map
  | .seq .. => .slice
  | .iface => .iface

/-- the type literal of the value's own type (for the repaired pointer closure) -/
def Val.tyText : Val → Str
  | .leaf _ t _ _ => t
  | .struct t _ => t
  | .map t _ => t
  | .seq t _ => t
  | _ => []

/-- `reflectx.IsEmptyValue` on the cases of the domain -/
def Val.isEmpty : Val → Bool
  | .leaf _ _ _ e => e
  | .nilPtr => true
  | .ptr _ => false
  | .struct .. => false
  | .map _ es => es.isEmpty
  | .seq _ es => es.isEmpty
  | .iface => true

inductive Expr where
  | raw (s : Str)                                  -- a leaf literal, `nil`, or `""` (the SubValue hole)
  | addr (e : Expr)                                -- `&(e)`
  | closure (ty : Str) (e : Expr)                  -- `func(v T) *T { return &v }(e)`
  | comp (ty : Str) (elems : List (Option Str × Expr))    -- `T{` … `}` with optional `key:`

def kwFuncV : Str := "unc(v ".toList
def kwStar : Str := ") *".toList
def kwRet : Str := " { return &v }(".toList

mutual
  def Expr.show : Expr → Str
    | .raw s => s
    | .addr e => '&' :: '(' :: (e.show ++ [')'])
    | .closure ty e => 'f' :: (kwFuncV ++ ty ++ kwStar ++ ty ++ kwRet ++ e.show ++ [')'])
    | .comp ty elems => ty ++ ['{'] ++ (match elems with
        | [] => []
        | _ :: _ => ['\n'] ++ showElems elems) ++ ['}']
  def showElems : List (Option Str × Expr) → Str
    | [] => []
    | (k, e) :: rest =>
      (match k with | some k => k ++ [':'] | none => []) ++ e.show ++ [',', '\n'] ++ showElems rest
end

mutual
  /-- `ValueLit(rv, opts…)`; `sub` is the effective `SubValue` option -/
  def valueLit (fixed : Bool) (sub : Bool) : Val → Expr
    | .nilPtr => .raw "nil".toList
    | .iface => .raw "nil".toList
    | .leaf _ _ lit _ => .raw lit
    | .ptr elem =>
      let isBasic : Bool := match elem.kind with
        | .basic _ => true
        | .string => fixed
        | _ => false
      if isBasic then
        let ty := if fixed then elem.tyText else (match elem.kind with | .basic n => n | _ => [])
        .closure ty (valueLit fixed sub elem)
      else .addr (valueLit fixed (if fixed then false else sub) elem)
    | .struct ty fields =>
      let elems := structFields fixed fields
      if sub && elems.isEmpty then .raw [] else .comp ty elems
    | .map ty entries =>
      -- key literals sorted as strings; (Go keeps one value per distinct key literal)
      let es := mapEntries fixed (if fixed then false else sub) entries
      .comp ty ((sortBy (·.1) es).map fun kv => (some kv.1, kv.2))
    | .seq ty elems => .comp ty (seqElems fixed elems)
  def structFields (fixed : Bool) : List (Str × Bool × Val) → List (Option Str × Expr)
    | [] => []
    | (name, exported, v) :: rest =>
      if exported && !v.isEmpty then
        let e := valueLit fixed true v
        if e.show.isEmpty then structFields fixed rest else (some name, e) :: structFields fixed rest
      else structFields fixed rest
  def mapEntries (fixed : Bool) (sub : Bool) : List (Val × Val) → List (Str × Expr)
    | [] => []
    | (k, v) :: rest => ((valueLit fixed sub k).show, valueLit fixed sub v) :: mapEntries fixed sub rest
  def seqElems (fixed : Bool) : List Val → List (Option Str × Expr)
    | [] => []
    | v :: rest => (none, valueLit fixed false v) :: seqElems fixed rest
end

end Gengo.Dumper
