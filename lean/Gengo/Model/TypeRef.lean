/-!
Model of pkg/types/ref.go `ParseTypeRef` / `(*TypeRef).String`.
`useDepth = false` mirrors the pinned code (a boolean `inTypeParam`); `useDepth = true` the
repaired code (an integer bracket depth).
-/
namespace Gengo.TypeRef

abbrev Str := List Char

inductive TRef where
  | mk (pkg : Str) (name : Str) (args : List TRef)

mutual
  def TRef.print : TRef → Str
    | .mk pkg name args =>
      (if pkg.isEmpty then [] else pkg ++ ['.']) ++ name ++
      (match args with
       | [] => []
       | a :: as => '[' :: (a.print ++ printTail as ++ [']']))
  def printTail : List TRef → Str
    | [] => []
    | a :: as => ',' :: (a.print ++ printTail as)
end

/-- the argument-list scan of `ParseTypeRef`: `d` is the bracket depth (pinned code: 0/1 flag),
    `cur` the current piece reversed -/
def splitTop (useDepth : Bool) : Str → Int → Str → List Str
  | [], _, cur => [cur.reverse]
  | c :: cs, d, cur =>
    if c == '[' then splitTop useDepth cs (if useDepth then d + 1 else 1) (c :: cur)
    else if c == ']' then splitTop useDepth cs (if useDepth then d - 1 else 0) (c :: cur)
    else if c == ',' && d == 0 then cur.reverse :: splitTop useDepth cs d []
    else splitTop useDepth cs d (c :: cur)

def indexOf? (c : Char) : Str → Option Nat
  | [] => none
  | x :: xs => if x == c then some 0 else (indexOf? c xs).map (· + 1)

def lastIndexOf? (c : Char) (l : Str) : Option Nat :=
  (indexOf? c l.reverse).map (fun i => l.length - 1 - i)

/-- the bracket-free branch: last `.` (not at position 0) separates path and name -/
def parseFlat (s : Str) : TRef :=
  match lastIndexOf? '.' s with
  | some i => if i > 0 then .mk (s.take i) (s.drop (i + 1)) [] else .mk [] s []
  | none => .mk [] s []

def parse (useDepth : Bool) : Nat → Str → Option TRef
  | 0, _ => none
  | fuel + 1, s =>
    match indexOf? '[' s with
    | some i =>
      if i > 0 then
        if lastIndexOf? ']' s == some (s.length - 1) then
          match parse useDepth fuel (s.take i) with
          | none => none
          | some (.mk p n _) =>
            let body := (s.drop (i + 1)).take (s.length - i - 2)
            ((splitTop useDepth body 0 []).mapM (parse useDepth fuel)).map (fun as => .mk p n as)
        else none
      else some (parseFlat s)
    | none => some (parseFlat s)

/-- `ParseRef` / `PkgImportPathAndExpose`: both cut at the last `.` before the first `[` -/
def cutIndex (s : Str) : Option Nat :=
  let base := match indexOf? '[' s with
    | some i => if i > 0 then s.take i else s
    | none => s
  match lastIndexOf? '.' base with
  | some i => if i > 0 then some i else none
  | none => none

/-- `ParseRef`: package path and the *whole* rest (type arguments included) -/
def parseRef (s : Str) : Option (Str × Str) := (cutIndex s).map fun i => (s.take i, s.drop (i + 1))

/-- `PkgImportPathAndExpose` without the `/vendor/` cut: package path and bare name -/
def pathAndExpose (s : Str) : Str × Str :=
  let base := match indexOf? '[' s with
    | some i => if i > 0 then s.take i else s
    | none => s
  match lastIndexOf? '.' base with
  | some i => if i > 0 then (base.take i, base.drop (i + 1)) else ([], base)
  | none => ([], base)

/-- the part of `s` both functions look at: everything before the first `[` (at an index > 0) -/
def baseOf (s : Str) : Str :=
  match indexOf? '[' s with
  | some i => if i > 0 then s.take i else s
  | none => s

/-- `strings.LastIndex(s, sub)` -/
def lastIndexOfSub (sub : Str) : Str → Option Nat
  | [] => if sub.isEmpty then some 0 else none
  | c :: cs =>
    match lastIndexOfSub sub cs with
    | some i => some (i + 1)
    | none => if sub.isPrefixOf (c :: cs) then some 0 else none

/-- `gengo.ImportGoPath`: from the last `/vendor/` on (when it is not at index 0) -/
def importGoPath (p : Str) : Str :=
  match lastIndexOfSub "/vendor/".toList p with
  | some i => if i > 0 then p.drop i else p
  | none => p

/-- `gengo.PkgImportPathAndExpose` -/
def pkgImportPathAndExpose (s : Str) : Str × Str :=
  let r := pathAndExpose s
  (if r.1.isEmpty then [] else importGoPath r.1, r.2)

end Gengo.TypeRef
