/-!
Model of pkg/types/ref.go `ParseTypeRef` / `(*TypeRef).String`.
`useDepth = false` mirrors the pinned code (a boolean `inTypeParam`); `useDepth = true` the
repaired code (an integer bracket depth).
-/
namespace Gengo.TypeRef

abbrev Str := List Char

inductive TRef where
  | mk (pkg : Str) (name : Str) (args : List TRef)

mutual
  def TRef.print : TRef → Str
    | .mk pkg name args =>
      (if pkg.isEmpty then [] else pkg ++ ['.']) ++ name ++
      (match args with
       | [] => []
       | a :: as => '[' :: (a.print ++ printTail as ++ [']']))
  def printTail : List TRef → Str
    | [] => []
    | a :: as => ',' :: (a.print ++ printTail as)
end

/-- the argument-list scan of `ParseTypeRef`: `d` is the bracket depth (pinned code: 0/1 flag),
    `cur` the current piece reversed -/
def splitTop (useDepth : Bool) : Str → Int → Str → List Str
  | [], _, cur => [cur.reverse]
  | c :: cs, d, cur =>
    if c == '[' then splitTop useDepth cs (if useDepth then d + 1 else 1) (c :: cur)
    else if c == ']' then splitTop useDepth cs (if useDepth then d - 1 else 0) (c :: cur)
    else if c == ',' && d == 0 then cur.reverse :: splitTop useDepth cs d []
    else splitTop useDepth cs d (c :: cur)

def indexOf? (c : Char) : Str → Option Nat
  | [] => none
  | x :: xs => if x == c then some 0 else (indexOf? c xs).map (· + 1)

def lastIndexOf? (c : Char) (l : Str) : Option Nat :=
  (indexOf? c l.reverse).map (fun i => l.length - 1 - i)

/-- the bracket-free branch: last `.` (not at position 0) separates path and name -/
def parseFlat (s : Str) : TRef :=
  match lastIndexOf? '.' s with
  | some i => if i > 0 then .mk (s.take i) (s.drop (i + 1)) [] else .mk [] s []
  | none => .mk [] s []

def parse (useDepth : Bool) : Nat → Str → Option TRef
  | 0, _ => none
  | fuel + 1, s =>
    match indexOf? '[' s with
    | some i =>
      if i > 0 then
        if lastIndexOf? ']' s == some (s.length - 1) then
          match parse useDepth fuel (s.take i) with
          | none => none
          | some (.mk p n _) =>
            let body := (s.drop (i + 1)).take (s.length - i - 2)
            ((splitTop useDepth body 0 []).mapM (parse useDepth fuel)).map (fun as => .mk p n as)
        else none
      else some (parseFlat s)
    | none => some (parseFlat s)

end Gengo.TypeRef
