import Gengo.Model.TypeLit
/-!
Model of devpkg/partialstruct/partialstruct.go `generate`: the field list of the generated struct.
The tag of a field is rendered through `snippet.ID(string)`, i.e. through `ParseRef`: a string
with a `.` (at an index > 0, before the first `[`) is taken for `pkgpath.Name` and goes through
the namer.  `fixed = false` mirrors that; `fixed = true` renders the tag verbatim.
-/
namespace Gengo.Partial
open Gengo.TypeLit

structure OField where
  name : Str
  ty : GoType
  tag : Str

/-- `ParseRef` accepts the string (so it is *not* printed verbatim) -/
def looksLikeRef (s : Str) : Bool :=
  let base := s.takeWhile (· != '[')
  -- strings.LastIndex(base, ".") > 0
  match base.reverse.dropWhile (· != '.') with
  | [] => false
  | _ :: before => !before.isEmpty

/-- the tag text that ends up between the backquotes; `none` = not the origin's tag any more -/
def tagText (fixed : Bool) (tag : Str) : Option Str :=
  if fixed || !looksLikeRef tag then some tag else none

/-- generated field list: (name, printed type, tag text) for every origin field that is not omitted -/
def genFields (fixed : Bool) (env : Env) (omitted : List Str) (fs : List OField) :
    List (Str × TExpr × Option Str) :=
  (fs.filter fun f => !omitted.contains f.name).map fun f => (f.name, typeLit fixed env f.ty, tagText fixed f.tag)

end Gengo.Partial
