import Gengo.Model.TypeRef
import Gengo.Model.Tracker
/-!
Model of pkg/namer/namer.go `rawNamer.Name` / `processName`: the name a file has to write for a
type reference, and the import registrations that go with it.
-/
namespace Gengo.TypeRef
open Gengo.Tracker

mutual
  /-- `rawNamer.processName`: walk the reference tree (node first, then its arguments left to
      right) and replace every package path by what the file has to write for it -/
  def rewrite (c : Cfg) (self : Str) : Tracker → TRef → TRef × Tracker
    | t, .mk pkg name args =>
      let r : Str × Tracker :=
        if pkg.isEmpty then ([], t)
        else if pkg = self then ([], t)
        else (localNameOf (add c t pkg) pkg, add c t pkg)
      let ra := rewriteList c self r.2 args
      (.mk r.1 name ra.1, ra.2)
  def rewriteList (c : Cfg) (self : Str) : Tracker → List TRef → List TRef × Tracker
    | t, [] => ([], t)
    | t, a :: as =>
      let r1 := rewrite c self t a
      let r2 := rewriteList c self r1.2 as
      (r1.1 :: r2.1, r2.2)
end

def TRef.args : TRef → List TRef
  | .mk _ _ as => as

def TRef.name : TRef → Str
  | .mk _ n _ => n

/-- `processName(name)`: `none` = `ParseTypeRef` fails and the namer panics.  A name without type
    arguments comes back as its bare name (a package path inside it is dropped, nothing is
    registered); otherwise every node of the parsed tree is rewritten. -/
def processName (useDepth : Bool) (c : Cfg) (self : Str) (t : Tracker) (name : Str) : Option (Str × Tracker) :=
  match parse useDepth (name.length + 2) name with
  | none => none
  | some r =>
    if r.args.isEmpty then some (r.name, t)
    else
      let rr := rewrite c self t r
      some (rr.1.print, rr.2)

/-- `rawNamer.Name(Ref(pkg, name))` for a plain reference (no go/types type parameters): the type
    arguments inside `name` are registered first, then the reference's own package. -/
def nameOf (useDepth : Bool) (c : Cfg) (self : Str) (t : Tracker) (pkg name : Str) : Option (Str × Tracker) :=
  match processName useDepth c self t name with
  | none => none
  | some (tn, t1) =>
    if pkg = self then some (if tn.isEmpty then pkg ++ ['.'] ++ name else tn, t1)
    else
      let t2 := add c t1 pkg
      some (localNameOf t2 pkg ++ ['.'] ++ tn, t2)

end Gengo.TypeRef
