/-!
Model of pkg/namer/import_tracker.go `defaultImportTracker`.
`cands p` is the list of candidate local names for path `p` in the order the Go loop tries
them (`golangTrackerLocalName(parts, 1 … len(parts))`); the bijection results below hold for
*every* candidate function, the validity results need the candidates filtered.
`reserved n p` = "`n` is a std short name bound to a path other than `p`".
`fallback p i` = the repaired code's `i`-th fallback name (sanitised base + numeric suffix);
the pinned code has no fallback (`useFallback = false`).
-/
namespace Gengo.Tracker

abbrev Str := List Char

structure Tracker where
  p2n : List (Str × Str)
  n2p : List (Str × Str)

def empty : Tracker := ⟨[], []⟩

structure Cfg where
  cands : Str → List Str
  reserved : Str → Str → Bool
  stdNames : List Str                -- every reserved name is one of these (the std short names)
  valid : Str → Bool                 -- token.IsIdentifier (repaired code only)
  useFallback : Bool
  fallback : Str → Nat → Str

def free (c : Cfg) (t : Tracker) (p n : Str) : Bool :=
  !c.reserved n p && (t.n2p.lookup n).isNone && (!c.useFallback || c.valid n)

/-- first fallback index `< fuel` whose name is free -/
def firstFree (c : Cfg) (t : Tracker) (p : Str) : Nat → Nat → Option Str
  | 0, _ => none
  | fuel + 1, i => if free c t p (c.fallback p i) then some (c.fallback p i) else firstFree c t p fuel (i + 1)

def choose (c : Cfg) (t : Tracker) (p : Str) : Option Str :=
  match (c.cands p).find? (free c t p) with
  | some n => some n
  | none => if c.useFallback then firstFree c t p (t.n2p.length + c.stdNames.length + 1) 0 else none

def add (c : Cfg) (t : Tracker) (p : Str) : Tracker :=
  if (t.p2n.lookup p).isSome then t
  else match choose c t p with
    | none => t
    | some n => ⟨(p, n) :: t.p2n, (n, p) :: t.n2p⟩

def localNameOf (t : Tracker) (p : Str) : Str := (t.p2n.lookup p).getD []

end Gengo.Tracker
