/-!
Model of pkg/camelcase/camelcase.go `Split` (valid UTF-8 branch), parametric in the three
Unicode predicates.  `none` = the Go code panics.
`guarded = false` mirrors the pinned code (`runes[len(runes)-1]` with `runes` possibly empty);
`guarded = true` mirrors the repaired code (`len(runes) > 0 &&` in front of the test).
-/
namespace Gengo.Camel

inductive Class | other | lower | upper | digit
deriving DecidableEq, Repr

structure Preds where
  isLower : Char → Bool
  isUpper : Char → Bool
  isDigit : Char → Bool

def classOf (p : Preds) (r : Char) : Class :=
  if p.isLower r then .lower else if p.isUpper r then .upper else if p.isDigit r then .digit else .other

/-- `runes[len(runes)-1] = append(runes[len(runes)-1], r)`; panics on empty `runes`. -/
def appendToLast : List (List Char) → Char → Option (List (List Char))
  | [], _ => none
  | [g], r => some [g ++ [r]]
  | g :: g' :: gs, r => (appendToLast (g' :: gs) r).map (g :: ·)

def joins (cls last : Class) : Bool :=
  cls == last || (cls == .digit && (last == .upper || last == .lower))

/-- pass 1: group by class -/
def group (p : Preds) (guarded : Bool) : List Char → List (List Char) → Class → Option (List (List Char))
  | [], gs, _ => some gs
  | r :: rs, gs, last =>
    let cls := classOf p r
    if (!guarded || !gs.isEmpty) && joins cls last then
      match appendToLast gs r with
      | none => none
      | some gs' => group p guarded rs gs' cls
    else group p guarded rs (gs ++ [[r]]) cls

/-- pass 2: upper→lower boundary fix-up, left to right, in place.  `cur` is `runes[i]`
    (possibly already extended by the previous step), the list is `runes[i+1:]`. -/
def fixupAux (p : Preds) (cur : List Char) : List (List Char) → Option (List (List Char))
  | [] => some [cur]
  | b :: rest =>
    match cur.head?, b.head? with
    | some a0, some b0 =>
      if p.isUpper a0 && p.isLower b0 then
        match cur.getLast? with
        | none => none
        | some al => (fixupAux p (al :: b) rest).map (cur.dropLast :: ·)
      else (fixupAux p b rest).map (cur :: ·)
    | _, _ => none            -- `runes[i][0]` on an empty group

def fixup (p : Preds) : List (List Char) → Option (List (List Char))
  | [] => some []
  | a :: rest => fixupAux p a rest

def split (p : Preds) (guarded : Bool) (s : List Char) : Option (List (List Char)) :=
  match group p guarded s [] .other with
  | none => none
  | some gs => (fixup p gs).map (·.filter (fun g => !g.isEmpty))

/-- `makeCase(linker, transWord)`: split, drop single graphic non-alphanumeric words, transform and
    join.  `trans`, `dropWord` stand for `strings.ToLower/ToUpper`, `cases.Title`, the `ID` special
    case and the `unicode.IsGraphic/IsLetter/IsDigit` test — total library functions. -/
def makeCase (p : Preds) (guarded : Bool) (linker : List Char) (trans : List Char → Nat → List Char)
    (dropWord : List Char → Bool) (s : List Char) : Option (List Char) :=
  (split p guarded s).map fun ws =>
    let kept := ws.filter (fun w => !dropWord w)
    ((kept.zipIdx.map fun (w, i) => trans w i).intersperse linker).flatten

/-- `Split` as the Go function sees its argument: bytes that may not be valid UTF-8 -/
def splitBytes (p : Preds) (guarded : Bool) (decode : List UInt8 → Option (List Char)) (bs : List UInt8) :
    Option (List (List UInt8) ⊕ List (List Char)) :=
  match decode bs with
  | none => some (.inl [bs])                      -- not valid UTF-8: the whole string, one word
  | some s => (split p guarded s).map .inr

/-- the drop rule of `makeCase`: a word of exactly one byte whose byte is a graphic rune that is neither
    a digit nor a letter.  One byte means ASCII, where `unicode.IsGraphic` is 0x20–0x7e. -/
def asciiDropWord (w : List Char) : Bool :=
  match w with
  | [c] => c.toNat < 128 && 32 ≤ c.toNat && c.toNat ≤ 126 &&
           !(('0' ≤ c && c ≤ '9') || ('a' ≤ c && c ≤ 'z') || ('A' ≤ c && c ≤ 'Z'))
  | _ => false

end Gengo.Camel
