/-!
Model of devpkg/deepcopygen/deepcopy.go and devpkg/deepcopygen/helper/copy_fields.go on the
type graphs of property C17.

A package is a list of type declarations; field types are classified the way
`createFieldSnippet` switches on them.  `prev = true` means the package already contains the
output of an earlier run (so the method scan of a same-package named type sees the generated
`DeepCopy`/`DeepCopyInto`).  `fixed = false` mirrors the pinned code, `fixed = true` the repairs:
pointer-ness of a same-package type decided from its underlying type, on-demand dependencies
generated regardless of their own tag, `processed` keyed by the origin type, nil-package guard.
-/
namespace Gengo.DeepCopy

abbrev Str := List Char

inductive Under | struct | map | scalar          -- underlying type of a declared type
deriving DecidableEq

/-- a field type as `createFieldSnippet` classifies it -/
inductive FT
  | plain                      -- basic, string, bare type parameter, unnamed interface: `default:` assign
  | slice | map                -- unnamed slice / map of scalars
  | localNamed (id : Nat) (inst : Bool)   -- same-package named type (`inst`: an instantiation of a generic type)
  | errorT                     -- the predeclared `error`: a *types.Named whose package is nil
deriving DecidableEq

structure Decl where
  under : Under
  fields : List FT             -- for structs
  enabled : Bool               -- tagged for the generator (package or declaration level)
  generic : Bool := false

abbrev Pkg := List Decl        -- declaration `i` is type id `i`; dispatch order = list order

/-- statement emitted for one struct field -/
inductive Stmt
  | assign                     -- out.F = in.F
  | copySlice                  -- make + copy
  | copyMap                    -- make + range
  | callInto (id : Nat)        -- in.F.DeepCopyInto(&out.F)
  | viaCopy (id : Nat)         -- out.F = in.F.DeepCopy()
  | viaCopyDeref (id : Nat)    -- out.F = *in.F.DeepCopy()
  | panic                      -- nil *types.Package dereferenced
deriving DecidableEq

/-- `PtrResultOrParam` for a same-package named type -/
def ptrFlag (fixed prev : Bool) (p : Pkg) (id : Nat) : Bool :=
  match p[id]? with
  | none => true
  | some d =>
    if fixed then decide (d.under ≠ .map)
    else -- pinned: true unless a previously generated value-receiver method is seen
      !(prev && decide (d.under = .map) && d.enabled)

def fieldStmt (fixed prev : Bool) (p : Pkg) : FT → Stmt
  | .plain => .assign
  | .slice => .copySlice
  | .map => .copyMap
  | .errorT => if fixed then .assign else .panic
  | .localNamed id _ =>
    -- InSamePkg ⇒ HasDeepCopy = HasDeepCopyInto = true
    if ptrFlag fixed prev p id then .callInto id else .viaCopy id

abbrev Seen := List (Nat × Bool)

/-- same-package named field types of a struct declaration (what `OnLocalDep` collects), with the
    "is an instantiation" flag -/
def localDeps (d : Decl) : List (Nat × Bool) :=
  if d.under = .struct then d.fields.filterMap fun
    | .localNamed j i => some (j, i)
    | _ => none
  else []

/-- generate the on-demand dependencies in field order, threading `processed` -/
def emitDeps (rec : Nat → Bool → Seen → List Nat × Seen) : List (Nat × Bool) → Seen → List Nat × Seen
  | [], seen => ([], seen)
  | (j, i) :: rest, seen =>
    let r1 := rec j i seen
    let r2 := emitDeps rec rest r1.2
    (r1.1 ++ r2.1, r2.2)

/-- ids whose methods end up in the generated file, with multiplicity (a duplicate = the same
    methods emitted twice).  `fuel` bounds the on-demand recursion (struct nesting is acyclic). -/
def emit (fixed : Bool) (p : Pkg) : Nat → Nat → Bool → Bool → Seen → List Nat × Seen
  | 0, _, _, _, seen => ([], seen)
  | fuel + 1, id, onDemand, inst, seen =>
    -- `processed` is keyed by *types.Named: an instantiation is a different key than its origin
    let key := (id, if fixed then false else inst)
    if seen.contains key then ([], seen)
    else
      match p[id]? with
      | none => ([], key :: seen)
      | some d =>
        if !(d.enabled || (fixed && onDemand)) then ([], key :: seen)
        else
          let r := emitDeps (fun j i s => emit fixed p fuel j true i s) (localDeps d) (key :: seen)
          (id :: r.1, r.2)

def emitAllAux (fixed : Bool) (p : Pkg) : List Nat → Seen → List Nat
  | [], _ => []
  | id :: rest, seen =>
    let r := emit fixed p (p.length + 1) id false false seen
    r.1 ++ emitAllAux fixed p rest r.2

/-- all methods emitted for the package: the framework calls GenerateType for every *enabled*
    declared type, in (sorted) order (C06) -/
def emitAll (fixed : Bool) (p : Pkg) : List Nat :=
  emitAllAux fixed p ((List.range p.length).filter fun i => (p[i]?.map (·.enabled)).getD false) []

/-- does a field statement type-check against the methods in the file? -/
def isMap (p : Pkg) (id : Nat) : Bool :=
  match p[id]? with
  | some d => decide (d.under = .map)
  | none => false

def stmtCompiles (p : Pkg) (emitted : List Nat) : Stmt → Bool
  | .assign | .copySlice | .copyMap => true
  | .panic => false
  | .callInto id => emitted.contains id && !isMap p id      -- needs `DeepCopyInto(*T)`
  | .viaCopy id => emitted.contains id && isMap p id        -- needs `DeepCopy() T`
  | .viaCopyDeref id => emitted.contains id && !isMap p id

def compiles (fixed prev : Bool) (p : Pkg) : Bool :=
  let em := emitAll fixed p
  decide em.Nodup && em.all fun id => match p[id]? with
    | some d => decide (d.under ≠ .struct) || d.fields.all fun f => stmtCompiles p em (fieldStmt fixed prev p f)
    | none => true

end Gengo.DeepCopy
