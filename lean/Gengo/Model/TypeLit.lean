/-!
Model of pkg/gengo/internal/dumper.go `TypeLit` over the unified reflect/go-types view, for the
type grammar of property C11, and of what the printed text denotes.

The import tracker is abstracted to its final state: `localName path` (C03 proves bindings are
stable and the tables inverse, so such a function exists for every rendering order).  Generic
arguments reach the namer as a string that `ParseTypeRef` re-parses; C15 `parse_print` shows that
step is the identity on well-formed references, so the model recurses on the argument *types*.
`fixed = false` mirrors the pinned code: every interface kind, `error` included, prints as `any`.
-/
namespace Gengo.TypeLit

abbrev Str := List Char

def sError : Str := ['e','r','r','o','r']
def sAny : Str := ['a','n','y']

mutual
  inductive GoType where
    | basic (name : Str)                               -- bool, int…, float…, string, uintptr, …
    | error
    | any
    | named (pkg name : Str) (args : List GoType)      -- defined type / generic instantiation
    | ptr (e : GoType)
    | slice (e : GoType)
    | array (n : Nat) (e : GoType)
    | map (k v : GoType)
    | chan (e : GoType)                                -- bidirectional
    | struct (fields : List Field)
  inductive Field where
    | mk (name : Str) (embedded : Bool) (ty : GoType) (tag : Str)
end

/-- what is printed, as a tree (`show` gives the bytes) -/
inductive TExpr where
  | ident (name : Str)
  | qual (pkgName name : Str)
  | inst (base : TExpr) (args : List TExpr)
  | ptr (e : TExpr)
  | slice (e : TExpr)
  | array (n : Nat) (e : TExpr)
  | map (k v : TExpr)
  | chan (e : TExpr)
  | struct (fields : List (Option Str × TExpr × Str))

structure Env where
  self : Str                        -- package the text is rendered into
  localName : Str → Str             -- final binding path ↦ local name

mutual
  def typeLit (fixed : Bool) (env : Env) : GoType → TExpr
    | .basic n => .ident n
    | .error => .ident (if fixed then sError else sAny)
    | .any => .ident sAny
    | .named pkg name args =>
      let base := if pkg = env.self then TExpr.ident name else TExpr.qual (env.localName pkg) name
      match args with
      | [] => base
      | _ :: _ => .inst base (typeLits fixed env args)
    | .ptr e => .ptr (typeLit fixed env e)
    | .slice e => .slice (typeLit fixed env e)
    | .array n e => .array n (typeLit fixed env e)
    | .map k v => .map (typeLit fixed env k) (typeLit fixed env v)
    | .chan e => .chan (typeLit fixed env e)
    | .struct fs => .struct (fieldLits fixed env fs)
  def typeLits (fixed : Bool) (env : Env) : List GoType → List TExpr
    | [] => []
    | t :: ts => typeLit fixed env t :: typeLits fixed env ts
  def fieldLits (fixed : Bool) (env : Env) : List Field → List (Option Str × TExpr × Str)
    | [] => []
    | .mk name emb ty tag :: fs =>
      ((if emb then none else some name), typeLit fixed env ty, tag) :: fieldLits fixed env fs
end

def natToStr (n : Nat) : Str := (toString n).toList

mutual
  /-- the bytes `TypeLit` returns -/
  def TExpr.show : TExpr → Str
    | .ident n => n
    | .qual p n => p ++ ['.'] ++ n
    | .inst base args => base.show ++ ['['] ++ showArgs args ++ [']']
    | .ptr e => '*' :: e.show
    | .slice e => '[' :: ']' :: e.show
    | .array n e => '[' :: (natToStr n ++ ']' :: e.show)
    | .map k v => 'm' :: 'a' :: 'p' :: '[' :: (k.show ++ ']' :: v.show)
    | .chan e => 'c' :: 'h' :: 'a' :: 'n' :: ' ' :: e.show
    | .struct fs => 's' :: 't' :: 'r' :: 'u' :: 'c' :: 't' :: ' ' :: '{' :: (showFields fs ++ ['}'])
  def showArgs : List TExpr → Str
    | [] => []
    | [a] => a.show
    | a :: rest => a.show ++ [','] ++ showArgs rest
  def showFields : List (Option Str × TExpr × Str) → Str
    | [] => []
    | (name, e, tag) :: rest =>
      (match name with | some n => n ++ [' '] | none => []) ++ e.show ++
      (if tag.isEmpty then [] else ' ' :: '`' :: (tag ++ ['`'])) ++ ['\n'] ++ showFields rest
end

def predeclared : List Str :=
  ["bool","int","int8","int16","int32","int64","uint","uint8","uint16","uint32","uint64","uintptr",
   "float32","float64","complex64","complex128","string"].map String.toList

/-- resolution environment of the generated file: its own package and its import block -/
structure Scope where
  self : Str
  imports : List (Str × Str)        -- local name ↦ path

mutual
  /-- the type a printed expression denotes in the generated file -/
  def denote (sc : Scope) : TExpr → Option GoType
    | .ident n =>
      if n = sError then some .error
      else if n = sAny then some .any
      else if n ∈ predeclared then some (.basic n)
      else some (.named sc.self n [])
    | .qual p n => (sc.imports.lookup p).map fun path => .named path n []
    | .inst base args =>
      match denote sc base, denotes sc args with
      | some (.named pkg n []), some as => some (.named pkg n as)
      | _, _ => none
    | .ptr e => (denote sc e).map .ptr
    | .slice e => (denote sc e).map .slice
    | .array n e => (denote sc e).map (.array n)
    | .map k v => match denote sc k, denote sc v with
      | some k', some v' => some (.map k' v')
      | _, _ => none
    | .chan e => (denote sc e).map .chan
    | .struct fs => (denoteFields sc fs).map .struct
  def denotes (sc : Scope) : List TExpr → Option (List GoType)
    | [] => some []
    | e :: es => match denote sc e, denotes sc es with
      | some t, some ts => some (t :: ts)
      | _, _ => none
  def denoteFields (sc : Scope) : List (Option Str × TExpr × Str) → Option (List Field)
    | [] => some []
    | (name, e, tag) :: fs => match denote sc e, denoteFields sc fs with
      | some t, some rest =>
        -- an embedded field is named after its type
        some (Field.mk (name.getD []) name.isNone t tag :: rest)
      | _, _ => none
end

end Gengo.TypeLit
