import Gengo.Model.Template
import Gengo.Model.Sprintf
/-!
Model of the snippet *tree* of pkg/gengo/snippet: leaves with a fixed rendering (Block, ID, Value,
Comment, GoDirective, Func …), templates `T(format, bindings…)` whose bindings are snippets,
`Sprintf(format, args…)` whose arguments are snippets or values, and `Snippets(…)` sequences, plus
`SnippetWriter.Render` on top.  `f5`/`f6` select the pinned (`false`) or repaired (`true`) template
and Sprintf scanners (findings F5, F6).
-/
namespace Gengo.Template

/-- `names`/`args` of a template are its bindings in the order `T(format, args…)` applies them
    (`t.args[name] = s`: a later binding of the same name replaces an earlier one).
    `sprintf fmt vs ts`: argument `i` renders as `vs[i]` under `%v` and as `ts[i]` under `%T` (the same
    snippet twice when the argument is itself a snippet; `Value(x)` / `ID(x)` otherwise). -/
inductive Snip where
  | leaf (isNil : Bool) (text : Option (List Char))   -- a fixed rendering of `Frag` (`none` = it panics) and the answer of `IsNil()`
  | tmpl (fmt : List Char) (names : List (List Char)) (args : List Snip)
  | sprintf (fmt : List Char) (vs ts : List Snip)
  | seq (parts : List Snip)                           -- `Snippets(…)`

/-- `IsNil()` (snippet.go:29, printer__template.go:75, printer.go:28) -/
def Snip.isNil : Snip → Bool
  | .leaf n _ => n
  | .tmpl fmt _ _ => fmt.isEmpty
  | .sprintf fmt _ _ => fmt.isEmpty
  | .seq _ => false

mutual
  /-- complete rendering of `Frag` (`none` = panic) -/
  def renderS (f5 f6 : Bool) : Snip → Option (List Char)
    | .leaf _ t => t
    | .tmpl fmt names args => render (envList f5 f6 names args) f5 fmt
    | .sprintf fmt vs ts => Sprintf.sprintf f6 fmt (List.zipWith Sprintf.Arg.mk (renderList f5 f6 vs) (renderList f5 f6 ts))
    | .seq parts => renderSeq f5 f6 parts
  /-- `Snippets.Frag`: the non-nil parts, each rendered completely, in order -/
  def renderSeq (f5 f6 : Bool) : List Snip → Option (List Char)
    | [] => some []
    | s :: ss =>
      if s.isNil then renderSeq f5 f6 ss
      else match renderS f5 f6 s with
        | none => none
        | some t => (renderSeq f5 f6 ss).map (t ++ ·)
  /-- the template's argument map; an argument is rendered only when a placeholder asks for it -/
  def envList (f5 f6 : Bool) : List (List Char) → List Snip → Env
    | n :: ns, s :: ss => fun k =>
      match envList f5 f6 ns ss k with
      | some r => some r                               -- a later binding wins
      | none => if k = n then some (if s.isNil then none else some (renderS f5 f6 s)) else none
    | _, _ => fun _ => none
  /-- renderings of a list of snippets (`Sprintf` does not ask `IsNil()`; which of them is actually
      rendered is decided by the scanner: an argument whose verb is never reached is not) -/
  def renderList (f5 f6 : Bool) : List Snip → List (Option (List Char))
    | [] => []
    | s :: ss => renderS f5 f6 s :: renderList f5 f6 ss
end

/-- `SnippetWriter.Render(s)`: nothing for a nil snippet -/
def renderTop (f5 f6 : Bool) (s : Snip) : Option (List Char) :=
  if s.isNil then some [] else renderS f5 f6 s

end Gengo.Template
