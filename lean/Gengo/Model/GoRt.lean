import Gengo.Model.Order
/-!
Run-time library of the Go → Lean translation (`harness/cmd/go2lean`).  `Gengo/Gen/Code.lean` — regenerated from
/repo's sources on every run — is written against exactly these definitions; `Gengo/Props/Tr*.lean` proves every
translated function equal to the hand-written model the property theorems are about.

Abstractions the translator makes (trusted; DESIGN.md section 3a):
* a Go `string` is the list of its code points (so: valid UTF-8; byte offsets that only flow from `strings.Index`
  / `LastIndex` / `range` into slice expressions and comparisons with 0 / `len` become code-point offsets, which
  is sound because every needle the translated functions search for is ASCII); a `byte` or `rune` is a `Char`;
* `int` is `Int` (no overflow: the translated functions only count positions of their input);
* `[]T` is `List T` *without aliasing* (the translator refuses functions that keep two names for one backing array);
* `map[K]V` is an association list with distinct keys, `range` presents it in the order of the list — theorems
  about the callers are stated for every order;
* `bytes.Buffer` / `strings.Builder` / an `io.Writer` parameter is the text written so far; `fmt.Sprintf` / `Fprintf` with a
  constant format whose only verb is `%s` is the concatenation of the format's pieces and the arguments;
* a pointer that the code compares with nil is an `Option` (a `*sumfile.File` is the `Option` of its `Data` map, which
  both places that create one allocate);
* a run-time panic is `Err.panic`; a three-clause `for` is given fuel and running out of it is `Err.fuel`, a result
  distinct from every result of the code (an equivalence theorem therefore shows the fuel sufficed).
-/
namespace Gengo.Go

abbrev Str := List Char

inductive Err | panic | fuel
deriving DecidableEq, Repr

abbrev M := Except Err

/-- outcome of one loop: ran to its end (or `break`) with the loop-carried variables, or hit a `return` -/
inductive Ctl (σ ρ : Type) where
  | next (s : σ)
  | ret (r : ρ)

def len (l : List α) : Int := Int.ofNat l.length

/-- `*p` / a method call through `p`: a nil pointer panics -/
def deref : Option α → M α
  | some a => pure a
  | none => throw .panic

/-- `l[i]` -/
def idx (l : List α) (i : Int) : M α :=
  if i < 0 then throw .panic else
  match l[i.toNat]? with
  | some a => pure a
  | none => throw .panic

/-- `l[i] = v` -/
def setIdx (l : List α) (i : Int) (v : α) : M (List α) :=
  if i < 0 then throw .panic else
  if i.toNat < l.length then pure (l.set i.toNat v) else throw .panic

/-- `l[lo:hi]` (for strings and for slices within their length; capacity is not modelled) -/
def slice (l : List α) (lo hi : Int) : M (List α) :=
  if lo < 0 || hi < lo || len l < hi then throw .panic
  else pure ((l.drop lo.toNat).take (hi.toNat - lo.toNat))

/-- first position at which `sub` occurs in `s`, `-1` if none (`strings.Index`) -/
def strIndexAux (sub : Str) : Str → Nat → Int
  | [], n => if sub.isEmpty then Int.ofNat n else -1
  | c :: cs, n => if sub.isPrefixOf (c :: cs) then Int.ofNat n else strIndexAux sub cs (n + 1)

def strIndex (s sub : Str) : Int := strIndexAux sub s 0

/-- last position at which `sub` occurs in `s`, `-1` if none (`strings.LastIndex`) -/
def strLastIndexAux (sub : Str) : Str → Nat → Int → Int
  | [], n, best => if sub.isEmpty then Int.ofNat n else best
  | c :: cs, n, best => strLastIndexAux sub cs (n + 1) (if sub.isPrefixOf (c :: cs) then Int.ofNat n else best)

def strLastIndex (s sub : Str) : Int := strLastIndexAux sub s 0 (-1)

def hasPrefix (s p : Str) : Bool := p.isPrefixOf s

/-- `strings.Join` -/
def strJoin : List Str → Str → Str
  | [], _ => []
  | [a], _ => a
  | a :: b :: rest, sep => a ++ sep ++ strJoin (b :: rest) sep

/-- `strings.Split(s, sep)` for a non-empty separator: `skip` characters of a separator just found are still to pass -/
def strSplitAux (sep : Str) : Nat → Str → Str → List Str
  | _, [], cur => [cur.reverse]
  | skip + 1, _ :: cs, cur => strSplitAux sep skip cs cur
  | 0, c :: cs, cur =>
    if sep.isPrefixOf (c :: cs) then cur.reverse :: strSplitAux sep (sep.length - 1) cs []
    else strSplitAux sep 0 cs (c :: cur)

def strSplit (s sep : Str) : List Str := strSplitAux sep 0 s []

/-- `unicode.IsSpace` on the Latin-1 range, which is what `bytes.Fields` goes by for single-byte characters -/
def isSpace (c : Char) : Bool :=
  c == ' ' || c == '\t' || c == '\n' || c == '\x0b' || c == '\x0c' || c == '\r' || c == '\u0085' || c == '\u00a0'

/-- `bytes.Fields`: the maximal runs of non-space characters -/
def bytesFieldsAux : Str → Str → List Str
  | [], cur => if cur.isEmpty then [] else [cur.reverse]
  | c :: cs, cur =>
    if isSpace c then (if cur.isEmpty then bytesFieldsAux cs [] else cur.reverse :: bytesFieldsAux cs [])
    else bytesFieldsAux cs (c :: cur)

def bytesFields (s : Str) : List Str := bytesFieldsAux s []

/-- `bytes.Lines`: the data cut after every line feed (the terminator stays with its line) -/
def bytesLinesAux : Str → Str → List Str
  | [], cur => if cur.isEmpty then [] else [cur.reverse]
  | c :: cs, cur => if c == '\n' then (c :: cur).reverse :: bytesLinesAux cs [] else bytesLinesAux cs (c :: cur)

def bytesLines (s : Str) : List Str := bytesLinesAux s []

/-- `strings.Trim(s, cutset)` -/
def strTrim (s cutset : Str) : Str :=
  ((s.dropWhile (cutset.contains ·)).reverse.dropWhile (cutset.contains ·)).reverse

/-- `unicode.IsSpace` in full (White_Space): what `strings.TrimSpace` goes by -/
def isSpaceU (c : Char) : Bool :=
  isSpace c || c == '\u1680' || ('\u2000' ≤ c && c ≤ '\u200a') || c == '\u2028' || c == '\u2029' || c == '\u202f' ||
    c == '\u205f' || c == '\u3000'

/-- `strings.TrimSpace` -/
def trimSpace (s : Str) : Str := ((s.dropWhile isSpaceU).reverse.dropWhile isSpaceU).reverse

/-- `strings.CutPrefix(s, prefix)`: `s` without the prefix and true, or `s` itself and false -/
def cutPrefix (s p : Str) : Str × Bool := if p.isPrefixOf s then (s.drop p.length, true) else (s, false)

/-- `m[k]` with the zero value for a missing key -/
def mapGet [BEq κ] (m : List (κ × ν)) (k : κ) (zero : ν) : ν :=
  match m with
  | [] => zero
  | (k', v) :: rest => if k' == k then v else mapGet rest k zero

/-- `m[k] = v` -/
def mapSet [BEq κ] (m : List (κ × ν)) (k : κ) (v : ν) : List (κ × ν) :=
  match m with
  | [] => [(k, v)]
  | (k', v') :: rest => if k' == k then (k', v) :: rest else (k', v') :: mapSet rest k v

/-- `v, ok := m[k]` -/
def mapHas [BEq κ] (m : List (κ × ν)) (k : κ) : Bool := m.any (·.1 == k)

/-- `slices.Sorted` / `sort.Strings`: ascending in Go's string order (`Gengo.lexLe`, code points = bytes on valid
    UTF-8).  The translated callers sort the keys of a map, which are distinct: the sorted list is then unique. -/
def sortStrs (l : List Str) : List Str := Gengo.sortBy id l

/-- `slices.Index` -/
def sliceIndexAux [BEq α] (v : α) : List α → Nat → Int
  | [], _ => -1
  | x :: xs, i => if x == v then Int.ofNat i else sliceIndexAux v xs (i + 1)

def sliceIndex [BEq α] (l : List α) (v : α) : Int := sliceIndexAux v l 0

/-- `_, err := strconv.ParseInt(s, 10, 64); err == nil`: an optional sign, at least one decimal digit, within int64 -/
def parsesInt (s : Str) : Bool :=
  let (neg, ds) := match s with
    | '+' :: r => (false, r)
    | '-' :: r => (true, r)
    | r => (false, r)
  !ds.isEmpty && ds.all (fun c => '0' ≤ c && c ≤ '9') &&
    (let v := ds.foldl (fun acc c => acc * 10 + (c.toNat - 48)) 0
     if neg then v ≤ 9223372036854775808 else v ≤ 9223372036854775807)

/-- `0 … n-1` (`for i := range n`) -/
def intRange (n : Int) : List Int := (List.range n.toNat).map Int.ofNat

/-- the three `unicode` predicates `camelcase.Split` consults; the theorems hold for every choice -/
structure Preds where
  isLower : Char → Bool
  isUpper : Char → Bool
  isDigit : Char → Bool

end Gengo.Go
