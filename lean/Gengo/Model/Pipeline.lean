import Gengo.Model.Order
import Gengo.Model.Tags
import Gengo.Model.SumFile
/-!
Model of pkg/gengo/context.go (`Execute`, `pkgChanged`, `pkgExecute`, `doGenerate`,
`doGenerateNamedType/AliasType`, `New`) and of the write/remove bookkeeping of genfile.go,
as a function from a loaded universe, arguments and generator prototypes to a *trace of
filesystem effects* and a result.  Go maps are association lists in arbitrary order.
-/
namespace Gengo.Pipeline
open Gengo.Tags

abbrev TagMap := List (Str × List Str)

inductive Kind | named | alias | typeParam | other
deriving DecidableEq

structure TypeObj where
  name : Str
  kind : Kind
  tags : TagMap            -- tags of the declaration's doc comment

inductive Verdict | ok | skip | ignore | fail
deriving DecidableEq

/-- what a deferred callback does when run -/
structure DeferCb where
  id : Nat
  renders : List Str
  fails : Bool

/-- what one GenerateType / GenerateAliasType call does -/
structure Reaction where
  renders : List Str
  defers : List DeferCb
  verdict : Verdict

/-- a generator prototype: `new` is `GeneratorNewer.New` or `reflect.New` of the prototype's
    type; every package starts from `new`.  `σ` is the generator's private state. -/
structure Gen where
  name : Str
  σ : Type
  new : σ
  onType : σ → Str → TypeObj → σ × Reaction          -- package path, type
  onAlias : Option (σ → Str → TypeObj → σ × Reaction)

structure Pkg where
  path : Str
  direct : Bool
  dir : Str
  hash : Str               -- dirhash at load time, "" if it could not be computed
  goFiles : List Str       -- base names of the package's parsed Go files
  pkgTags : TagMap
  types : List TypeObj     -- the name → TypeName table, in arbitrary order

structure Args where
  globals : TagMap
  base : Str               -- OutputFileBaseName
  all : Bool
  force : Bool
  emptyHashChanged : Bool  -- model switch: false = pinned `pkgChanged`, true = repaired (an empty current sum means "changed")

inductive Effect
  | write (dir name : Str) (gen : Str) (body : Str)
  | remove (dir name : Str)
  | writeSum (root : Str) (data : Str)           -- the bytes `sumfile.Bytes()` produces

inductive Err
  | generate (gen pkg : Str)
  | deferred (gen pkg : Str)
  | syntax (dir name : Str)
deriving DecidableEq

/-- `merge(globals, pkgTags, declTags)`: later maps override earlier ones per key -/
def merge3 (g p d : TagMap) : TagMap :=
  d ++ (p.filter fun kv => (d.lookup kv.1).isNone) ++
    (g.filter fun kv => (d.lookup kv.1).isNone && (p.lookup kv.1).isNone)

def sortedTypes (ts : List TypeObj) : List TypeObj := sortBy (·.name) ts

def fileName (base gen : Str) : Str := base ++ ['.'] ++ gen ++ ".go".toList

/-- per-generator context state while a package is processed -/
structure GState (g : Gen) where
  st : g.σ
  body : List Str          -- rendered fragments in order
  defers : List DeferCb
  ignore : Bool
  calls : List (Str × Bool) -- call log: type name, and whether it was GenerateAliasType

/-- `doGenerate`: dispatch over the sorted type table -/
def dispatch (a : Args) (p : Pkg) (g : Gen) : List TypeObj → GState g → Except Err (GState g)
  | [], s => .ok s
  | t :: ts, s =>
    let tags := merge3 a.globals p.pkgTags t.tags
    let call (f : g.σ → Str → TypeObj → g.σ × Reaction) (isNamed : Bool) : Except Err (GState g) :=
      let (st', r) := f s.st p.path t
      let s' : GState g := { st := st', body := s.body ++ r.renders, defers := s.defers ++ r.defers,
                             ignore := s.ignore || (isNamed && r.verdict == .ignore),
                             calls := s.calls ++ [(t.name, !isNamed)] }
      if r.verdict == .fail then .error (.generate g.name p.path) else dispatch a p g ts s'
    match t.kind with
    | .named => if isEnabled g.name tags then call g.onType true else dispatch a p g ts s
    | .alias =>
      if isEnabled g.name tags then
        match g.onAlias with
        | some f => call f false
        | none => dispatch a p g ts s
      else dispatch a p g ts s
    | _ => dispatch a p g ts s

def runDefers (p : Pkg) (g : Gen) : List DeferCb → List Str → Except Err (List Str)
  | [], body => .ok body
  | d :: ds, body => if d.fails then .error (.deferred g.name p.path) else runDefers p g ds (body ++ d.renders)

/-- one generator on one package: `none` = `IsZero()` (nothing to write, nothing kept) -/
def runGen (a : Args) (p : Pkg) (g : Gen) : Except Err (Option (Str × Str)) := do
  let s ← dispatch a p g (sortedTypes p.types) { st := g.new, body := [], defers := [], ignore := false, calls := [] }
  let body ← runDefers p g s.defers s.body
  let text := body.flatten
  if text.isEmpty && !s.ignore then pure none else pure (some (g.name, text))

def gather (a : Args) (p : Pkg) : List Gen → List (Str × Str) → Except Err (List (Str × Str))
  | [], acc => .ok acc
  | g :: gs, acc =>
    match runGen a p g with
    | .error e => .error e
    | .ok none => gather a p gs acc
    | .ok (some w) => gather a p gs (acc ++ [w])

/-- write phase: `ws` in the order `sync.Map.Range` happens to visit them -/
def writes (parses : Str → Bool) (a : Args) (p : Pkg) :
    List (Str × Str) → List Str → List Effect → List Effect × Option Err
  | [], stale, eff => (eff ++ stale.map (Effect.remove p.dir ·), none)
  | (gn, text) :: rest, stale, eff =>
    let fn := fileName a.base gn
    if text.isEmpty then writes parses a p rest (stale.filter (· ≠ fn)) eff          -- ErrIgnore: keep
    else if parses text then writes parses a p rest (stale.filter (· ≠ fn)) (eff ++ [.write p.dir fn gn text])
    else (eff, some (.syntax p.dir fn))

/-- `pkgExecute` after the cache test.  `parses` stands for go/parser accepting the assembled
    file; `order` is the (arbitrary) order in which the written set is visited. -/
def pkgExecute (parses : Str → Bool) (order : List (Str × Str) → List (Str × Str))
    (a : Args) (p : Pkg) (gens : List Gen) : List Effect × Option Err :=
  match gather a p gens [] with
  | .error e => ([], some e)
  | .ok ws => writes parses a p (order ws) (p.goFiles.filter (fun f => (a.base ++ ['.']).isPrefixOf f)) []

def pkgChanged (a : Args) (prev : Option (List (Str × Str))) (p : Pkg) : Bool :=
  a.force || (a.emptyHashChanged && p.hash.isEmpty) ||
  match prev with
  | none => true
  | some m => (m.lookup p.path).getD [] != p.hash

def sortedPkgs (ps : List Pkg) : List Pkg := sortBy (·.path) ps

def goPkgs (parses : Str → Bool) (order : List (Str × Str) → List (Str × Str)) (a : Args) (root : Str)
    (prev : Option (List (Str × Str))) (all : List Pkg) (gens : List Gen) :
    List Pkg → List Effect → List Effect × Option Err
  | [], eff =>
    if a.all then (eff ++ [.writeSum root (SumFile.bytes (all.map fun p => (p.path, p.hash)))], none) else (eff, none)
  | p :: ps, eff =>
    if !a.all && !p.direct then goPkgs parses order a root prev all gens ps eff
    else if !pkgChanged a prev p then goPkgs parses order a root prev all gens ps eff
    else
      match pkgExecute parses order a p gens with
      | (e, some err) => (eff ++ e, some err)
      | (e, none) => goPkgs parses order a root prev all gens ps (eff ++ e)

/-- `Execute`: `prevSum` = what `sumfile.Load` returned (`none` on any error) -/
def execute (parses : Str → Bool) (order : List (Str × Str) → List (Str × Str)) (a : Args) (root : Str)
    (prevSum : Option (List (Str × Str))) (pkgs : List Pkg) (gens : List Gen) : List Effect × Option Err :=
  goPkgs parses order a root (if a.all then prevSum else none) pkgs gens (sortedPkgs pkgs) []

end Gengo.Pipeline
