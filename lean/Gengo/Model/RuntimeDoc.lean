/-!
Model of devpkg/runtimedocgen/runtimedoc.go: which `RuntimeDoc` methods are generated for a
package and what the generated code returns (the meaning of the emitted `switch` /
delegation / `runtimeDoc` helper), plus `Context.Doc`'s first-line trimming.
`fixedTrim = false`: pinned `strings.TrimPrefix(doc[0], typeName)`; `true`: only a whole leading word.
`fixedScalar = false`: pinned non-struct method ignores `names`; `true`: other names ⇒ (nil,false).
-/
namespace Gengo.RuntimeDoc

abbrev Str := List Char

def dropPrefix (pre s : Str) : Option Str := if pre.isPrefixOf s then some (s.drop pre.length) else none

def trimLeft (s : Str) : Str := s.dropWhile (· == ' ')

/-- `Context.Doc`: remove the declared name from the front of the first line; drop the line if
    nothing is left (the spaces model `strings.TrimSpace` on the left; trailing space is already
    trimmed by the comment extractor) -/
def trimDoc (fixedTrim : Bool) (name : Str) : List Str → List Str
  | [] => []
  | l :: ls =>
    let l' : Str :=
      match dropPrefix name l with
      | none => l
      | some rest =>
        if fixedTrim then (match rest with
          | [] => []
          | c :: _ => if c == ' ' then trimLeft rest else l)      -- only a whole word is removed
        else trimLeft rest
    if l'.isEmpty then ls else l' :: ls

inductive FieldCls | inlineStruct | emptyStruct | other
deriving DecidableEq

structure Field where
  name : Str
  exported : Bool
  embedded : Bool
  embPtr : Bool := false
  cls : FieldCls := .other
  doc : List Str                 -- doc lines of the field (tags split off), untrimmed
  target : Option Nat := none    -- embedded: id of the embedded type if it is declared in this package
  targetHasExported : Bool := true

inductive TKind | struct (fields : List Field) | scalar | iface

structure TypeD where
  name : Str
  exported : Bool
  kind : TKind
  doc : List Str

abbrev Pkg := List TypeD

def hasExposeField (fs : List Field) : Bool := fs.any (·.exported)

/-- is a `RuntimeDoc` method generated for this type? -/
def covered (t : TypeD) : Bool :=
  t.exported && match t.kind with
    | .iface => false
    | .struct fs => hasExposeField fs
    | .scalar => true

/-- the `case` list of a struct's method -/
def cases (fixedTrim : Bool) (fs : List Field) : List (Str × List Str) :=
  fs.filterMap fun f =>
    if f.exported && !f.embedded && f.cls = .other then some (f.name, trimDoc fixedTrim f.name f.doc) else none

/-- the delegation list: embedded fields (any exportedness) whose struct has an exported field -/
def embeds (fixedTrim : Bool) (fs : List Field) : List (Option Nat × Str) :=
  fs.filterMap fun f =>
    if f.embedded && f.targetHasExported then
      some (f.target, ((trimDoc fixedTrim f.name f.doc).head?).getD [])
    else none

/-- same-package struct types embedded (by value or pointer) in a type -/
def embeddedTargets (p : Pkg) (id : Nat) : List Nat :=
  match p[id]? with
  | some t => (match t.kind with
    | .struct fs => fs.filterMap fun f => if f.embedded then f.target else none
    | _ => [])
  | none => []

/-- Go's method promotion: a type without a generated `RuntimeDoc` still has one in its method
    set when exactly one embedded type at the shallowest depth provides it (two at the same depth
    make the selector ambiguous).  Found by the differential probe: an unexported struct that
    embeds a documented exported struct answers through the promoted method. -/
def promotedOwner (p : Pkg) : Nat → List Nat → Option Nat
  | 0, _ => none
  | fuel + 1, frontier =>
    let owners := frontier.filter fun id => (p[id]?.map covered).getD false
    match owners with
    | [o] => some o
    | _ :: _ :: _ => none
    | [] =>
      let next := frontier.flatMap (embeddedTargets p)
      if next.isEmpty then none else promotedOwner p fuel next

/-- result of the helper `runtimeDoc(v, prefix, names...)`: prefix the first line -/
def applyPrefix (pre : Str) (doc : List Str) : List Str :=
  match doc with
  | [] => []
  | l :: ls => if pre.isEmpty then l :: ls else (pre ++ l) :: ls

/-- what `(*T).RuntimeDoc(names...)` returns; `none` = `(nil, false)`.  `fuel` bounds the
    delegation depth (struct embedding is acyclic). -/
def runtimeDoc (fixedTrim fixedScalar : Bool) (p : Pkg) : Nat → Nat → List Str → Option (List Str)
  | 0, _, _ => none
  | fuel + 1, id, names =>
    match p[id]? with
    | none => none
    | some t =>
      if !covered t then                 -- no generated method: only a promoted one can answer
        (match promotedOwner p (p.length + 1) (embeddedTargets p id) with
         | some o => runtimeDoc fixedTrim fixedScalar p fuel o names
         | none => none)
      else match t.kind with
        | .iface => none
        | .scalar =>
          (match names with
           | [] => some (trimDoc fixedTrim t.name t.doc)
           | _ :: _ => if fixedScalar then none else some (trimDoc fixedTrim t.name t.doc))
        | .struct fs =>
          match names with
          | [] => some (trimDoc fixedTrim t.name t.doc)
          | n :: _ =>
            match (cases fixedTrim fs).lookup n with
            | some d => some d
            | none =>
              (embeds fixedTrim fs).findSome? fun e =>
                match e.1 with
                | none => none
                | some tid => (runtimeDoc fixedTrim fixedScalar p fuel tid names).map (applyPrefix e.2)

end Gengo.RuntimeDoc
