/-! Go's string order (`sort.Strings`, `slices.Sorted`) on valid UTF-8 is the lexicographic order of
code points. -/
namespace Gengo

abbrev Str := List Char

def lexLe : Str → Str → Bool
  | [], _ => true
  | _ :: _, [] => false
  | a :: as, b :: bs => if a.toNat < b.toNat then true else if b.toNat < a.toNat then false else lexLe as bs

/-- sort a list of records by a string key -/
def sortBy {α : Type} (key : α → Str) (l : List α) : List α := l.mergeSort fun a b => lexLe (key a) (key b)

end Gengo
