/-!
Model of pkg/gengo/snippet/printer__template.go `(*template).Frag`.

The Go code is two nested loops over `text/scanner.Next()`.  Here it is the equivalent
small-step machine over the rune list: state `normal` = outer loop `default:` branch,
state `inName acc` = inside the inner `for` collecting a name.  `none` = the Go code panics.

`fixed = false` mirrors the pinned code: after a placeholder bound to a nil snippet the outer
loop `continue`s with the terminator still the current rune, so an apostrophe terminator is
*emitted* instead of consumed.  `fixed = true` mirrors the repaired code.
-/
namespace Gengo.Template

def isNameChar (c : Char) : Bool :=
  ('A' ≤ c && c ≤ 'Z') || ('a' ≤ c && c ≤ 'z') || ('0' ≤ c && c ≤ '9') || c == '_'

/-- what a name is bound to: `none` unbound, `some none` a snippet whose `IsNil()` is true,
    `some (some r)` a snippet whose complete rendering is `r` (`r = none`: rendering it panics) -/
abbrev Env := List Char → Option (Option (Option (List Char)))

inductive St | normal | inName (acc : List Char)

/-- end of a placeholder name: text to emit and whether the argument was nil -/
def flush (env : Env) (name : List Char) : Option (List Char × Bool) :=
  if name.isEmpty then some ([], false)
  else match env name with
    | none => none                         -- panic: missing named arg
    | some none => some ([], true)
    | some (some none) => none             -- the argument's own rendering panics
    | some (some (some t)) => some (t, false)

def step (env : Env) (fixed : Bool) : St → Char → Option (St × List Char)
  | .normal, c => if c == '@' then some (.inName [], []) else some (.normal, [c])
  | .inName acc, c =>
    if isNameChar c then some (.inName (acc ++ [c]), [])
    else match flush env acc with
      | none => none
      | some (t, wasNil) =>
        if c == '@' then some (.inName [], t)
        else if c == '\'' && (fixed || !wasNil) then some (.normal, t)
        else some (.normal, t ++ [c])

def run (env : Env) (fixed : Bool) : St → List Char → Option (St × List Char)
  | s, [] => some (s, [])
  | s, c :: cs =>
    match step env fixed s c with
    | none => none
    | some (s', o) => (run env fixed s' cs).map (fun p => (p.1, o ++ p.2))

def finish (env : Env) : St → Option (List Char)
  | .normal => some []
  | .inName acc => (flush env acc).map (·.1)

/-- scan without the leading-newline trim -/
def scan (env : Env) (fixed : Bool) (s : List Char) : Option (List Char) :=
  match run env fixed .normal s with
  | none => none
  | some (st, o) => (finish env st).map (o ++ ·)

def render (env : Env) (fixed : Bool) (fmt : List Char) : Option (List Char) :=
  scan env fixed (fmt.dropWhile (· == '\n'))

end Gengo.Template
