import Gengo.Model.Tags
import Gengo.Gen.Consts
/-!
Model of the comment index of pkg/types/package.go (`collectCommentGroup`, the `ast.Inspect`
walk, `Doc`, `Comment`, `priorCommentLines`) over an abstract source layout.

A file is a list of rows laid out top to bottom:
* `blank`                      – one empty line;
* `comment ls`                 – a comment group occupying `ls.length ≥ 1` lines;
* `decl h trailing`            – a declaration (type/const/var spec or struct field, possibly
                                 several names) starting on the current line and occupying
                                 `h ≥ 1` lines, with an optional trailing comment on its last line.
go/parser attaches a comment group as the declaration's Doc iff the group's last line is
directly above the declaration's first line, and only attached groups are visited by the walk.
`fixed = false` mirrors the pinned code: *every* visited group, trailing ones included, is
entered in the leading index at its end line.
-/
namespace Gengo.Layout

abbrev Str := List Char

inductive Row
  | blank
  | comment (ls : List Str)
  | decl (h : Nat) (trailing : Option Str)

def Row.height : Row → Nat
  | .blank => 1
  | .comment ls => ls.length
  | .decl h _ => h

structure Idx where
  lead : List (Nat × List Str)      -- endLineToCommentGroup (first writer wins)
  trail : List (Nat × List Str)     -- endLineToTrailingCommentGroup

def put (m : List (Nat × List Str)) (k : Nat) (v : List Str) : List (Nat × List Str) :=
  if (m.lookup k).isSome then m else m ++ [(k, v)]

/-- index entries made when the walk reaches a declaration on line `ln` of height `h` -/
def afterDecl (fixed : Bool) (idx : Idx) (ln h : Nat) : Option Str → Idx
  | none => { idx with trail := put idx.trail ln [] }
  | some t =>
    { lead := if fixed then idx.lead else put idx.lead (ln + h - 1) [t],
      trail := put idx.trail ln [t] }

/-- the walk: `ln` is the first line of the current row -/
def build (fixed : Bool) : List Row → Nat → Idx → Idx
  | [], _, idx => idx
  | .blank :: rs, ln, idx => build fixed rs (ln + 1) idx
  | .comment ls :: rs, ln, idx =>
    match rs with
    | .decl _ _ :: _ => -- attached as Doc of the following declaration, hence visited
      build fixed rs (ln + ls.length) { idx with lead := put idx.lead (ln + ls.length - 1) ls }
    | _ => build fixed rs (ln + ls.length) idx       -- detached: never visited
  | .decl h tr :: rs, ln, idx => build fixed rs (ln + h) (afterDecl fixed idx ln h tr)

def docAt (idx : Idx) (ln : Nat) : List Str := (idx.lead.lookup (ln - 1)).getD []

def commentAt (idx : Idx) (ln : Nat) : List Str :=
  match idx.trail.lookup ln with
  | some c => c
  | none => (idx.lead.lookup ln).getD []

/-- ground truth: the declarations of a layout with their first line, the comment group that
    ends directly above (if any) and their trailing comment -/
def truth : List Row → Nat → Option (List Str) → List (Nat × List Str × List Str)
  | [], _, _ => []
  | .blank :: rs, ln, _ => truth rs (ln + 1) none
  | .comment ls :: rs, ln, _ => truth rs (ln + ls.length) (some ls)
  | .decl h tr :: rs, ln, above =>
    (ln, above.getD [], (tr.map ([·])).getD []) :: truth rs (ln + h) none

def WFRow : Row → Prop
  | .blank => True
  | .comment ls => ls ≠ []
  | .decl h _ => 1 ≤ h

/-- `commentLinesFrom`: the lines of the group's text, prose lines starting `go:` dropped (O11) -/
def commentLines (ls : List Str) : List Str := ls.filter fun l => !("go:".toList.isPrefixOf l)

/-- `Package.Doc(pos)`: tags and remaining lines of the group indexed for the line above;
    markers regenerated from the source -/
def docOf (idx : Idx) (ln : Nat) : List (Str × List Str) × List Str :=
  Tags.extract Gengo.Gen.defaultMarkers (commentLines (docAt idx ln))

/-- `Package.Comment(pos)` -/
def commentOf (idx : Idx) (ln : Nat) : List Str := commentLines (commentAt idx ln)

end Gengo.Layout
