import Gengo.Model.Resolver
/-!
Model of pkg/types/function_result_resolver.go on the extended language: what `Model/Resolver`
covers (typed results, `return` lists, calls, forwarding of several results) plus what the
resolver does with

* identifiers and selectors in `return` statements (`assignedResultsUntil`: the *last* assignment to
  the object among the statements that start before the identifier; the identifier itself is
  reported only when the parser left it unresolved),
* named results and bare `return`s (`namedResultObjectAt`),
* assignments of every shape (`x = e`, `x, y = e1, e2`, `x, err := f()`, assignment to fields),
* calls with arguments: an argument in an `error`-typed parameter position is itself followed, and
  every `error` result of a function literal passed as an argument is followed into the literal's
  body (with the result count of the *enclosing* resolver, as the code does),
* functions without a body.

Go's `iter.Seq` values are push iterators whose consumer runs between two productions; both sides
mark the shared `visits` table, so the order in which marks happen is part of the behaviour.  The
model therefore is in continuation-passing style: a producer takes the consumer `k` it yields to.

Positions: every statement carries its position in the file (any strictly increasing numbering in
source order, function literals included); an identifier standing in the statement at position `q`
sees the assignment statements of the inspected body that start at a position `≤ q` — the code's
`node.Pos() >= until` test with `until` = the identifier's own position (or the end of a bare
`return`).
-/
namespace Gengo.Resolver2
open Gengo.Resolver (Res Visits visited Str)

def follows (t : Str) : Bool := t == "error".toList || t == "any".toList || t == "interface{}".toList
def isErr (t : Str) : Bool := t == "error".toList

/-- the signature a call expression has: its result types, which parameters are of type `error`,
    and the program function the resolver finds for it (`signatures[sig]` / `funcDecls[fn]`), if any.
    When `target = some g`, `rets` is `g`'s declared result list (the type checker guarantees it). -/
structure Sig where
  rets : List Str
  perr : List Bool
  target : Option Nat

mutual
inductive Expr
  | lit (v : Str)                                  -- a constant: `Eval` reports a value
  | opaque (ty : Str)                              -- any other expression that is neither identifier, selector, literal nor call
  | ident (x : Nat) (objNil : Bool) (ev : Res)     -- identifier or selector denoting object `x`; `objNil`: the parser did
                                                   -- not resolve it (`Obj == nil`: other file, universe, every selector);
                                                   -- `ev`: what `Eval` reports for the expression
  | funcLit (g : Nat) (ty : Str)                   -- a function literal, lifted to program function `g`
  | call (sig : Sig) (args : Args)
inductive Args
  | nil
  | cons (e : Expr) (rest : Args)
end

inductive Stmt
  | assign (pos : Nat) (lhs : List (Option Nat)) (rhs : List Expr)   -- `none`: a left-hand side that denotes no object (`_`, `a[i]`)
  | ret (pos : Nat) (results : Option (List Expr))                    -- `none`: bare `return`

def Stmt.pos : Stmt → Nat
  | .assign q _ _ => q
  | .ret q _ => q

structure Func where
  results : List Str                -- declared result types
  named : List (Option Nat)         -- per result: the object of its name, if it has one
  body : Option (List Stmt)         -- return and assignment statements outside function literals, in source order

abbrev Prog := List Func

def nres (p : Prog) (g : Nat) : Nat := (p[g]?.map (·.results.length)).getD 0

/-- how a reported alternative will be looked at by the frames it passes through on its way up -/
inductive Kind
  | plain
  | ident (x : Nat) (objNil : Bool) (at_ : Nat)     -- an identifier standing in the statement at position `at_`

structure R where
  res : Res
  kind : Kind

abbrev Out := Option (List Res × Visits)
/-- the consumer of an iterator -/
abbrev K := R → Visits → Out
/-- descent into a function body: state, function, result count of the resolver, result index, consumer -/
abbrev Rec := Visits → Nat → Nat → Nat → K → Out

/-- run `a`, then `b` on the state `a` left -/
def seq (a b : Visits → Out) : Visits → Out := fun vs =>
  match a vs with
  | none => none
  | some (o₁, vs₁) =>
    match b vs₁ with
    | none => none
    | some (o₂, vs₂) => some (o₁ ++ o₂, vs₂)

def done : Visits → Out := fun vs => some ([], vs)

/-- indices of the `error` results of function `g` -/
def errIdxs (p : Prog) (g : Nat) : List Nat :=
  match p[g]? with
  | none => []
  | some fn => (List.range fn.results.length).filter fun j => (fn.results[j]?.map isErr).getD false

/-- the `error` results of a function literal passed as an argument: `resultsFromAstAt(vs, j, lit.Type, lit.Body)`
    with the *current* resolver -/
def litErrs (rec : Rec) (retN g : Nat) (k : K) : List Nat → Visits → Out
  | [] => done
  | j :: js => seq (fun vs => rec vs g retN j k) (litErrs rec retN g k js)

/-- the result types of a call: those of the function the resolver finds for it, when it finds one -/
def sigRets (p : Prog) (sig : Sig) : List Str :=
  match sig.target.bind (p[·]?) with
  | some fn => fn.results
  | none => sig.rets

mutual
/-- `callExprResultAt(vs, ci, e)` when `e` is a call; the "value direct" branch of
    `resultsAtReturnOrAssignment` otherwise.  `q`: position of the statement `e` stands in. -/
def exprAt (p : Prog) (rec : Rec) (retN q : Nat) : Expr → Nat → K → Visits → Out
  | .call sig args, ci, k, vs =>
    match (sigRets p sig)[ci]? with
    | none => some ([], vs)
    | some t =>
      if follows t then
        seq (if isErr t then argsAt p rec retN q args sig.perr k else done)
            (match sig.target with
             | none => done
             | some g => fun vs => rec vs g (nres p g) ci k) vs
      else k ⟨.ty t, .plain⟩ vs
  | .lit v, _, k, vs => k ⟨.val v, .plain⟩ vs
  | .opaque t, _, k, vs => k ⟨.ty t, .plain⟩ vs
  | .ident x objNil ev, _, k, vs => k ⟨ev, .ident x objNil q⟩ vs
  | .funcLit _ t, _, k, vs => k ⟨.ty t, .plain⟩ vs
/-- the loop over the arguments of a call whose followed result is of type `error` -/
def argsAt (p : Prog) (rec : Rec) (retN q : Nat) : Args → List Bool → K → Visits → Out
  | .nil, _, _, vs => some ([], vs)
  | .cons a rest, perr, k, vs =>
    seq (if perr.headD false then exprAt p rec retN q a 0 k else done)
      (seq (match a with
            | .funcLit g _ => litErrs rec retN g k (errIdxs p g)
            | _ => done)
           (argsAt p rec retN q rest perr.tail k)) vs
end

/-- `resultsAtReturnOrAssignment(vs, rhs, n, at)` -/
def exprsAt (p : Prog) (rec : Rec) (retN q : Nat) (rhs : List Expr) (n at_ : Nat) (k : K) : Visits → Out :=
  if 0 < rhs.length ∧ rhs.length < n then
    match rhs.head? with
    | some (.call sig args) => exprAt p rec retN q (.call sig args) at_ k
    | _ => done
  else
    match rhs[at_]? with
    | none => done
    | some e => exprAt p rec retN q e 0 k

/-- every (statement position, right-hand sides, number of left-hand sides, index) at which `x` is assigned -/
def assignsTo (x : Nat) : List Stmt → List (Nat × List Expr × Nat × Nat)
  | [] => []
  | .ret _ _ :: rest => assignsTo x rest
  | .assign q lhs rhs :: rest =>
    (((List.range lhs.length).filter fun i => lhs[i]? == some (some x)).map fun i => (q, rhs, lhs.length, i))
      ++ assignsTo x rest

/-- `assignedResultsUntil(vs, x, body, until)`: only the last assignment is ever evaluated -/
def assignedAt (p : Prog) (rec : Rec) (retN : Nat) (x : Nat) (visible : List Stmt) (k : K) : Visits → Out :=
  match (assignsTo x visible).getLast? with
  | none => done
  | some (q, rhs, n, i) => exprsAt p rec retN q rhs n i k

def visibleAt (body : List Stmt) (q : Nat) : List Stmt := body.filter fun s => s.pos ≤ q

/-- what a frame does with an alternative produced inside one of its `return` statements -/
def post (p : Prog) (rec : Rec) (retN : Nat) (body : List Stmt) (k : K) : K := fun r =>
  match r.kind with
  | .plain => k r
  | .ident x objNil q =>
    seq (if objNil then k r else done) (assignedAt p rec retN x (visibleAt body q) k)

/-- the loop of `resultsFromAstAt` over the `return` statements of a body -/
def stmtsAt (p : Prog) (rec : Rec) (retN : Nat) (fn : Func) (body : List Stmt) (at_ : Nat) (k : K) :
    List Stmt → Visits → Out
  | [] => done
  | .assign _ _ _ :: rest => stmtsAt p rec retN fn body at_ k rest
  | .ret q none :: rest =>
    seq (match (fn.named[at_]?).join with
         | some x => assignedAt p rec retN x (visibleAt body q) k
         | none => done)
        (stmtsAt p rec retN fn body at_ k rest)
  | .ret q (some rhs) :: rest =>
    seq (exprsAt p rec retN q rhs retN at_ (post p rec retN body k))
        (stmtsAt p rec retN fn body at_ k rest)

/-- `resultsFromAstAt`; one unit of fuel per descent into a body.  `none` = out of fuel. -/
def funcAt (p : Prog) : Nat → Rec
  | 0, _, _, _, _, _ => none
  | fuel + 1, vs, g, retN, at_, k =>
    match p[g]? with
    | none => some ([], vs)
    | some fn =>
      match fn.body with
      | none => some ([], vs)
      | some body =>
        let (seen, vs') := visited true vs g at_ fn.results.length
        if seen then some ([], vs')
        else stmtsAt p (funcAt p fuel) retN fn body at_ k body vs'

/-- the consumer of `resultsFromAst`: collect -/
def collect : K := fun r vs => some ([r.res], vs)

def resultsOfAux (p : Prog) (fuel g : Nat) (fn : Func) :
    List Nat → Visits → List (List Res) → Option (List (List Res))
  | [], _, acc => some acc
  | at_ :: rest, vs, acc =>
    match funcAt p fuel vs g fn.results.length at_ collect with
    | none => none
    | some (out, vs') =>
      let out' := if out.isEmpty then [Res.ty (fn.results[at_]?.getD [])] else out
      resultsOfAux p fuel g fn rest vs' (acc ++ [out'])

/-- `ResultsOf` of program function `g` -/
def resultsOf (p : Prog) (fuel g : Nat) : Option (List (List Res)) :=
  match p[g]? with
  | none => some []
  | some fn => resultsOfAux p fuel g fn (List.range fn.results.length) [] []

end Gengo.Resolver2
