/-!
Model of the locality decision of pkg/types/load.go `Load`: which loaded packages are *local*
(processed under `All`, hashed into gengo.sum) and which of them were asked for directly.

    rootPkgPaths[p.Module.Path] = true            for every package the patterns matched
    directPkgPaths[p.PkgPath]   = true
    …
    if p.Module != nil && rootPkgPath == p.Module.Path { localPkgPaths[p.PkgPath] = directPkgPaths[p.PkgPath] }

A package is local iff it *belongs to the module* of a matched package — a statement about modules,
not about import-path prefixes.
-/
namespace Gengo.Locality

abbrev Path := List (List Char)

structure P where
  pkgPath : Path
  modPath : Option Path      -- `p.Module.Path`; none: no module (std in GOROOT mode, command-line files)
  matched : Bool             -- one of the packages the patterns matched

/-- module paths of the matched packages -/
def roots (ps : List P) : List Path := (ps.filter (·.matched)).filterMap (·.modPath)

def isLocal (ps : List P) (p : P) : Bool :=
  match p.modPath with
  | some m => (roots ps).contains m
  | none => false

/-- `LocalPkgPaths()`: path ↦ direct, for the local packages -/
def locals (ps : List P) : List (Path × Bool) :=
  (ps.filter (isLocal ps)).map fun p => (p.pkgPath, p.matched)

end Gengo.Locality
