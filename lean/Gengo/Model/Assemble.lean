import Gengo.Model.Order
import Gengo.Gen.Consts
/-!
Model of the source assembly in pkg/gengo/genfile.go `WriteToFile` / `writeImports` (what is
handed to go/parser, before `ast.SortImports`, gofumpt and go/format).  The three literal
pieces are regenerated from the `Fprintf` format strings by the extractor; here they are
written out.
-/
namespace Gengo.Assemble

/-- `Fprintf(format, pkgName, genName, pkgName)`: the pieces of the format between its `%s` verbs are
    regenerated from the source (`Gengo.Gen.headerParts`); a format with another number of verbs makes
    this `none` and every theorem about `header` fail to build. -/
def headerOf (parts : List Str) (pkgName genName : Str) : Option Str :=
  match parts with
  | [h1, h2, h3, h4] => some (h1 ++ pkgName ++ h2 ++ genName ++ h3 ++ pkgName ++ h4)
  | _ => none

def hdr1 : Str := Gengo.Gen.headerParts.getD 0 []
def hdr2 : Str := Gengo.Gen.headerParts.getD 1 []
def hdr3 : Str := Gengo.Gen.headerParts.getD 2 []
def hdr4 : Str := Gengo.Gen.headerParts.getD 3 []

def header (pkgName genName : Str) : Str :=
  hdr1 ++ pkgName ++ hdr2 ++ genName ++ hdr3 ++ pkgName ++ hdr4

def importLine (e : Str × Str) : Str := '\t' :: (e.2 ++ ' ' :: '"' :: (e.1 ++ ['"', '\n']))

/-- `imports`: the tracker's path ↦ name map, in arbitrary (Go map) order -/
def importBlock (imports : List (Str × Str)) : Str :=
  if imports.isEmpty then []
  else "\nimport (\n".toList ++ ((sortBy (·.1) imports).map importLine).flatten ++ ")\n".toList

def source (pkgName genName : Str) (imports : List (Str × Str)) (fragments : List Str) : Str :=
  header pkgName genName ++ importBlock imports ++ fragments.flatten

def fileName (base gen : Str) : Str := base ++ ['.'] ++ gen ++ ".go".toList

end Gengo.Assemble
