import Gengo.Model.Order
import Gengo.Gen.Consts
/-!
Model of the source assembly in pkg/gengo/genfile.go `WriteToFile` / `writeImports` (what is
handed to go/parser, before `ast.SortImports`, gofumpt and go/format).  The three literal
pieces are regenerated from the `Fprintf` format strings by the extractor; here they are
written out.
-/
namespace Gengo.Assemble

/-- `Fprintf(format, pkgName, genName, pkgName)`: the pieces of the format between its `%s` verbs are
    regenerated from the source (`Gengo.Gen.headerParts`); a format with another number of verbs makes
    this `none` and every theorem about `header` fail to build. -/
def headerOf (parts : List Str) (pkgName genName : Str) : Option Str :=
  match parts with
  | [h1, h2, h3, h4] => some (h1 ++ pkgName ++ h2 ++ genName ++ h3 ++ pkgName ++ h4)
  | _ => none

def hdr1 : Str := Gengo.Gen.headerParts.getD 0 []
def hdr2 : Str := Gengo.Gen.headerParts.getD 1 []
def hdr3 : Str := Gengo.Gen.headerParts.getD 2 []
def hdr4 : Str := Gengo.Gen.headerParts.getD 3 []

def header (pkgName genName : Str) : Str :=
  hdr1 ++ pkgName ++ hdr2 ++ genName ++ hdr3 ++ pkgName ++ hdr4

/-- one `Fprintf(w, "\t%s \"%s\"\n", name, path)` line; the pieces of the format are regenerated -/
def importLine (e : Str × Str) : Str :=
  Gengo.Gen.importLineParts.getD 0 [] ++ e.2 ++ Gengo.Gen.importLineParts.getD 1 [] ++ e.1 ++ Gengo.Gen.importLineParts.getD 2 []

/-- `imports`: the tracker's path ↦ name map, in arbitrary (Go map) order -/
def importBlock (imports : List (Str × Str)) : Str :=
  if imports.isEmpty then []
  else Gengo.Gen.importOpen ++ ((sortBy (·.1) imports).map importLine).flatten ++ Gengo.Gen.importClose

def source (pkgName genName : Str) (imports : List (Str × Str)) (fragments : List Str) : Str :=
  header pkgName genName ++ importBlock imports ++ fragments.flatten

/-- `fmt.Sprintf("%s.%s.go", base, gen)`, pieces regenerated from the source -/
def fileName (base gen : Str) : Str :=
  Gengo.Gen.fileNameParts.getD 0 [] ++ base ++ Gengo.Gen.fileNameParts.getD 1 [] ++ gen ++ Gengo.Gen.fileNameParts.getD 2 []

end Gengo.Assemble
