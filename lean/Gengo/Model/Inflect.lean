/-!
Model of the irregular-word step of pkg/inflector/internal/rule.go `(*Rule).inflected`:

    if res := compiledIrregular.FindStringSubmatch(s); len(res) >= 3 {
        buf = res[1] + s[0:1] + irregularMap[strings.ToLower(res[2])][1:]

`compiledIrregular` is `(?i)(.*)\b(w1|w2|…)$`.  Its meaning (greedy `.*`, end anchor, ASCII word
boundary) is modelled directly: the match is the *shortest* suffix `w` of `s` that folds to a
table word and has a word boundary in front of it.  The case-folding relation of `regexp` and
`strings.ToLower` are parameters (they differ in Go, e.g. on U+017F).  Strings are rune lists;
`s[0:1]` of the pinned code is the first *byte*, which the model can only express for ASCII
first runes — enough for every witness used here.  `none` = the Go code panics.
`fixed = false`: pinned code (`s[0:1]`, unconditional `[1:]`);
`fixed = true`: repaired code (first rune of the matched word; a failed lookup falls through).
-/
namespace Gengo.Inflect

abbrev Str := List Char

structure Cfg where
  table : List (Str × Str)            -- irregular word ↦ replacement, lower-case ASCII
  foldEq : Char → Char → Bool         -- regexp `(?i)`: input rune matches pattern rune
  lower : Char → Char                 -- strings.ToLower, per rune
  isWord : Char → Bool                -- `\w` = [0-9A-Za-z_]

def foldsTo (c : Cfg) : Str → Str → Bool
  | [], [] => true
  | a :: as, b :: bs => c.foldEq a b && foldsTo c as bs
  | _, _ => false

def matchesTable (c : Cfg) (w : Str) : Bool := c.table.any fun e => foldsTo c w e.1

/-- `\b` between `pre` and `w`: exactly one of the two neighbouring runes is a word character
    (ASCII `\w`; the text edges count as non-word) -/
def boundary (c : Cfg) (pre w : Str) : Bool :=
  ((pre.getLast?.map c.isWord).getD false) != ((w.head?.map c.isWord).getD false)

/-- scan split points left to right keeping the last (= longest prefix) that matches -/
def findAux (c : Cfg) : Str → Str → Option (Str × Str) → Option (Str × Str)
  | _, [], best => best
  | pre, x :: rest, best =>
    let w := x :: rest
    let best' := if boundary c pre w && matchesTable c w then some (pre, w) else best
    findAux c (pre ++ [x]) rest best'

def find (c : Cfg) (s : Str) : Option (Str × Str) := findAux c [] s none

inductive Out | nomatch | panic | ok (s : Str)
deriving DecidableEq, Repr

/-- the text after the last newline: `.` does not match `\n`, so without the `s` flag the pinned
    pattern can only match inside the last line (and `res[1]` is only that line's prefix) -/
def lastLine (s : Str) : Str := (s.reverse.takeWhile (· != '\n')).reverse

/-- `f2`: repaired first letter and `(?is)`; `f3`: a failed lookup falls through -/
def irregular2 (c : Cfg) (f2 f3 : Bool) (s : Str) : Out :=
  match find c (if f2 then s else lastLine s) with
  | none => .nomatch
  | some (pre, w) =>
    match c.table.lookup (w.map c.lower) with
    | none => if f3 then .nomatch else .panic          -- `""[1:]`
    | some repl =>
      let first := if f2 then w.take 1 else s.take 1
      .ok (pre ++ first ++ repl.drop 1)

def irregular (c : Cfg) (fixed : Bool) (s : Str) : Out := irregular2 c fixed fixed s

end Gengo.Inflect
