import Gengo.Model.Camel
import Gengo.Model.Tracker
/-!
Model of pkg/namer/import_tracker.go `toLocalName` / `golangTrackerLocalName` on ASCII import
paths, and of the std reservation table built by `init()` in std.go.
`none` = the Go code panics (through `camelcase.Split`).
-/
namespace Gengo.LocalName
open Gengo.Camel

abbrev Str := List Char

def asciiPreds : Preds :=
  ⟨fun c => 'a' ≤ c && c ≤ 'z', fun c => 'A' ≤ c && c ≤ 'Z', fun c => '0' ≤ c && c ≤ '9'⟩

def asciiLower (c : Char) : Char := if 'A' ≤ c && c ≤ 'Z' then Char.ofNat (c.toNat + 32) else c

def isAlnum (c : Char) : Bool := asciiPreds.isLower c || asciiPreds.isUpper c || asciiPreds.isDigit c

/-- graphic ASCII: 0x20 … 0x7e -/
def isGraphic (c : Char) : Bool := ' ' ≤ c && c ≤ '~'

/-- `strings.ToLower(camelcase.LowerCamelCase(strings.Join(parts, "")))` -/
def toLocalName (guarded : Bool) (parts : List Str) : Option Str :=
  (Camel.split asciiPreds guarded parts.flatten).map fun ws =>
    ((ws.filter fun w => !(match w with
        | [c] => isGraphic c && !isAlnum c
        | _ => false)).flatten).map asciiLower

def splitOn (sep : Char) : Str → Str → List Str
  | [], cur => [cur.reverse]
  | c :: cs, cur => if c == sep then cur.reverse :: splitOn sep cs [] else splitOn sep cs (c :: cur)

/-- `strconv.ParseInt(s, 10, 64)` succeeds -/
def parsesInt (s : Str) : Bool :=
  let (neg, ds) := match s with
    | '+' :: r => (false, r)
    | '-' :: r => (true, r)
    | r => (false, r)
  !ds.isEmpty && ds.all (fun c => '0' ≤ c && c ≤ '9') &&
    (let v := ds.foldl (fun acc c => acc * 10 + (c.toNat - 48)) 0
     if neg then v ≤ 9223372036854775808 else v ≤ 9223372036854775807)

def isVN (seg : Str) : Bool :=
  match seg with
  | 'v' :: r => parsesInt r
  | _ => false

/-- trailing segments: `n` counted segments, `vN` segments taken along without counting -/
def takeBack : List Str → Nat → List Str → List Str
  | [], _, acc => acc
  | seg :: rest, n, acc =>        -- list is reversed: head is the last path segment
    if n = 0 then acc
    else if isVN seg then takeBack rest n (seg :: acc)
    else takeBack rest (n - 1) (seg :: acc)

def indexOfSeg (s : Str) : List Str → Nat → Option Nat
  | [], _ => none
  | x :: xs, i => if x = s then some i else indexOfSeg s xs (i + 1)

def localName (guarded : Bool) (segs : List Str) (n : Nat) : Option Str :=
  match segs with
  | [single] => toLocalName guarded [single]
  | _ =>
    let shortcut (kw : String) : Option (List Str) :=
      match indexOfSeg kw.toList segs 0 with
      | some i => if i > 0 && i + 1 < segs.length then some (segs.drop (i + 1)) else none
      | none => none
    if n = 1 then
      match shortcut "domain" with
      | some ps => toLocalName guarded ps
      | none =>
        match shortcut "apis" with
        | some ps => toLocalName guarded ps
        | none => toLocalName guarded (takeBack segs.reverse n [])
    else toLocalName guarded (takeBack segs.reverse n [])

/-- candidate names in the order the loop of `add` tries them; `none` = panic on the way -/
def cands (guarded : Bool) (path : Str) : List (Option Str) :=
  let segs := splitOn '/' path []
  (List.range segs.length).map fun i => localName guarded segs (i + 1)

/-- `add` of the pinned code, panics included -/
def addP (std : List (Str × Str)) (checkStd : Bool) (t : Tracker.Tracker) (path : Str) : Option Tracker.Tracker :=
  if (t.p2n.lookup path).isSome then some t
  else
    let rec go : List (Option Str) → Option Tracker.Tracker
      | [] => some t
      | none :: _ => none
      | some n :: rest =>
        if checkStd && (match std.lookup n with | some p => p != path | none => false) then go rest
        else if (t.n2p.lookup n).isNone then some ⟨(path, n) :: t.p2n, (n, path) :: t.n2p⟩
        else go rest
    go (cands false path)

def keywords : List Str :=
  ["break","case","chan","const","continue","default","defer","else","fallthrough","for","func","go","goto",
   "if","import","interface","map","package","range","return","select","struct","switch","type","var"].map String.toList

def isLetter (c : Char) : Bool := asciiPreds.isLower c || asciiPreds.isUpper c

/-- `token.IsIdentifier` on ASCII -/
def isIdent (s : Str) : Bool :=
  match s with
  | [] => false
  | c :: cs => (isLetter c || c == '_') && cs.all (fun d => isLetter d || d == '_' || asciiPreds.isDigit d) &&
      !keywords.contains s

/-- the repaired code's fallback base: letters, digits and `_` of the last candidate, made to start
    like an identifier -/
def fallbackBase (s : Str) : Str :=
  let b := s.filter fun c => isLetter c || c == '_' || asciiPreds.isDigit c
  match b with
  | [] => "pkg".toList
  | c :: _ => if asciiPreds.isDigit c then "pkg".toList ++ b else b

/-- decimal digits of a number, least significant first (`strconv.Itoa` reversed) -/
def digitsRev : Nat → Nat → List Char
  | 0, _ => []
  | fuel + 1, n => Char.ofNat (48 + n % 10) :: (if n / 10 = 0 then [] else digitsRev fuel (n / 10))

/-- `strconv.Itoa` for naturals -/
def natDigits (n : Nat) : Str := (digitsRev (n + 1) n).reverse

/-- candidate names of the repaired code (`split` is guarded, so every candidate exists) -/
def candsF (path : Str) : List Str :=
  let segs := splitOn '/' path []
  (List.range segs.length).map fun i => (localName true segs (i + 1)).getD []

/-- the repaired tracker as an instance of the generic model `Tracker.add` -/
def cfgF (std : List (Str × Str)) (checkStd : Bool) : Tracker.Cfg where
  cands := candsF
  reserved := fun n path => checkStd && (match std.lookup n with | some p => p != path | none => false)
  stdNames := std.map (·.1)
  valid := isIdent
  useFallback := true
  fallback := fun path i => fallbackBase ((candsF path).getLast?.getD []) ++ natDigits (i + 1)

/-- the pinned tracker (no validation, no fallback) on top of the repaired `Split` (F1 fixed, F8 not) -/
def cfgP (std : List (Str × Str)) (checkStd : Bool) : Tracker.Cfg where
  cands := candsF
  reserved := fun n path => checkStd && (match std.lookup n with | some p => p != path | none => false)
  stdNames := std.map (·.1)
  valid := fun _ => true
  useFallback := false
  fallback := fun _ _ => []

/-- `add` of the repaired code -/
def addF (std : List (Str × Str)) (checkStd : Bool) (t : Tracker.Tracker) (path : Str) : Tracker.Tracker :=
  Tracker.add (cfgF std checkStd) t path

/-- the std table: fold `add` (no std check) over std.list -/
def stdTable (paths : List Str) : List (Str × Str) :=
  ((paths.foldl (fun t p => (t.bind fun t => addP [] false t p)) (some Tracker.empty)).map (·.n2p)).getD []

end Gengo.LocalName
