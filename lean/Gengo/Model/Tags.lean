import Gengo.Gen.Consts
/-!
Model of pkg/types/comments.go (`ExtractCommentTags`, `splitKV`) over code points, and of
`IsGeneratorEnabled` / `merge` in pkg/gengo.  A Go `map[string][]string` is an association
list in *arbitrary order* with distinct keys; `range` over it is a fold over that list.
-/
namespace Gengo.Tags

abbrev Str := List Char

def trimSpaces (l : Str) : Str :=
  ((l.dropWhile (· == ' ')).reverse.dropWhile (· == ' ')).reverse

/-- `splitKV`: key up to the first `=` or space, value everything after it -/
def splitKV : Str → Str × Str
  | [] => ([], [])
  | c :: cs => if c == '=' || c == ' ' then ([], cs) else ((splitKV cs).1.cons c, (splitKV cs).2)

inductive Line | other (l : Str) | tag (k v : Str)

def classify (markers : List Char) (line : Str) : Line :=
  match trimSpaces line with
  | [] => .other []
  | c :: cs => if markers.contains c then .tag (splitKV cs).1 (splitKV cs).2 else .other (c :: cs)

/-- `tags[k] = append(tags[k], v)` -/
def addTag (m : List (Str × List Str)) (k v : Str) : List (Str × List Str) :=
  match m with
  | [] => [(k, [v])]
  | (k', vs) :: rest => if k' = k then (k', vs ++ [v]) :: rest else (k', vs) :: addTag rest k v

/-- `ExtractCommentTags`: one pass over the lines -/
def extractAux (markers : List Char) : List Str → List (Str × List Str) × List Str → List (Str × List Str) × List Str
  | [], acc => acc
  | l :: ls, (m, o) =>
    match classify markers l with
    | .other t => extractAux markers ls (m, o ++ [t])
    | .tag k v => extractAux markers ls (addTag m k v, o)

def extract (markers : List Char) (lines : List Str) : List (Str × List Str) × List Str :=
  extractAux markers lines ([], [])

/-- `IsGeneratorEnabled`: a fold with early return over the map in iteration order -/
def isEnabledLoop (prefix_ : Str) : List (Str × List Str) → Bool → Bool
  | [], en => en
  | (k, vs) :: rest, en =>
    if k = prefix_ then vs.flatten ≠ "false".toList
    else if (prefix_ ++ [':']).isPrefixOf k then isEnabledLoop prefix_ rest true
    else isEnabledLoop prefix_ rest en

def isEnabled (gen : Str) (tags : List (Str × List Str)) : Bool :=
  isEnabledLoop (Gengo.Gen.tagPrefix ++ gen) tags false

/-- order-free specification of the rule in the property statement -/
def enabledSpec (gen : Str) (tags : List (Str × List Str)) : Bool :=
  let p := Gengo.Gen.tagPrefix ++ gen
  match tags.lookup p with
  | some vs => vs.flatten ≠ "false".toList
  | none => tags.any (fun kv => (p ++ [':']).isPrefixOf kv.1)

end Gengo.Tags
