/-!
Model of the table construction in pkg/types/package.go `newPkg`:

    for ident := range TypesInfo.Defs { switch x := Defs[ident].(type) { … p.types[x.Name()] = x … } }

`Defs` is a Go map, so the objects arrive in arbitrary order and a later object overwrites an
earlier one of the same name.  `guarded = false` mirrors the pinned code (no scope test);
`guarded = true` the repaired code (only the object the package scope binds to that name).
-/
namespace Gengo.Loader

abbrev Str := List Char

inductive Scope | pkg | local_ | typeParam
deriving DecidableEq

inductive ObjKind | typeName | const_ | func | var_
deriving DecidableEq

structure Obj where
  id : Nat                 -- identity of the types.Object
  name : Str
  kind : ObjKind
  scope : Scope
  isMethod : Bool := false
deriving DecidableEq

/-- `m[name] = obj` -/
def assign (m : List (Str × Nat)) (k : Str) (v : Nat) : List (Str × Nat) :=
  (k, v) :: m.filter (·.1 ≠ k)

def typesTable (guarded : Bool) : List Obj → List (Str × Nat) → List (Str × Nat)
  | [], m => m
  | o :: os, m =>
    if o.kind = .typeName && (!guarded || o.scope = .pkg) then typesTable guarded os (assign m o.name o.id)
    else typesTable guarded os m

def lookupType (guarded : Bool) (defs : List Obj) (name : Str) : Option Nat :=
  (typesTable guarded defs []).lookup name

/-- the same for constants and for package-level functions (methods are filed separately) -/
def tableOf (guarded : Bool) (kind : ObjKind) : List Obj → List (Str × Nat) → List (Str × Nat)
  | [], m => m
  | o :: os, m =>
    if o.kind = kind && !o.isMethod && (!guarded || o.scope = .pkg) then tableOf guarded kind os (assign m o.name o.id)
    else tableOf guarded kind os m

end Gengo.Loader

namespace Gengo.Methods

structure Method where
  name : List Char
  recvOrigin : Nat          -- identity of the declared type the method belongs to
  recvObject : Nat          -- identity of the receiver's *types.Named as written (= origin unless generic)
  ptrRecv : Bool
deriving DecidableEq

def methodsOf (byOrigin : Bool) (ms : List Method) (t : Nat) (canPtr : Bool) : List Method :=
  ms.filter fun m => (if byOrigin then m.recvOrigin else m.recvObject) == t && (canPtr || !m.ptrRecv)

end Gengo.Methods

namespace Gengo.Locate

abbrev Seg := List Char
abbrev Path := List Seg

structure P where
  pkgPath : Path
  mod : Option (Path × Path)      -- module path, module dir

def sourceDir (p : P) : Option Path :=
  match p.mod with
  | none => none                                   -- `""`: never equal to a `filepath.Dir` result
  | some (mp, md) => if p.pkgPath = mp then some md else some (md ++ p.pkgPath.drop mp.length)

/-- `LocateInPackage` over the universe in whatever order the map is ranged -/
def locate (pkgs : List P) (dir : Path) : Option P := pkgs.find? fun p => sourceDir p == some dir

end Gengo.Locate

