/-!
Model of the table construction in pkg/types/package.go `newPkg`:

    for ident := range TypesInfo.Defs { switch x := Defs[ident].(type) { … p.types[x.Name()] = x … } }

`Defs` is a Go map, so the objects arrive in arbitrary order and a later object overwrites an
earlier one of the same name.  `guarded = false` mirrors the pinned code (no scope test);
`guarded = true` the repaired code (only the object the package scope binds to that name).
-/
namespace Gengo.Loader

abbrev Str := List Char

inductive Scope | pkg | local_ | typeParam
deriving DecidableEq

inductive ObjKind | typeName | const_ | func | var_
deriving DecidableEq

structure Obj where
  id : Nat                 -- identity of the types.Object
  name : Str
  kind : ObjKind
  scope : Scope
  isMethod : Bool := false
deriving DecidableEq

/-- `m[name] = obj` -/
def assign (m : List (Str × Nat)) (k : Str) (v : Nat) : List (Str × Nat) :=
  (k, v) :: m.filter (·.1 ≠ k)

def typesTable (guarded : Bool) : List Obj → List (Str × Nat) → List (Str × Nat)
  | [], m => m
  | o :: os, m =>
    if o.kind = .typeName && (!guarded || o.scope = .pkg) then typesTable guarded os (assign m o.name o.id)
    else typesTable guarded os m

def lookupType (guarded : Bool) (defs : List Obj) (name : Str) : Option Nat :=
  (typesTable guarded defs []).lookup name

end Gengo.Loader
