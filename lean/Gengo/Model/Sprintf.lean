/-!
Model of pkg/gengo/snippet/printer.go `(*printer).Frag` (Sprintf with `%v`, `%T`, `%%`),
snippet__comment.go `Comment` and snippet__go_directive.go `GoDirective`.
An argument is given by its two renderings: as `%v` (value literal, or the snippet itself) and
as `%T` (identifier/type, or the snippet itself); `none` = that rendering panics.
`fixed = false` mirrors the pinned code: after `%%` the loop `continue`s *without* reading the
next rune, so the second `%` is scanned again as the start of a verb.
-/
namespace Gengo.Sprintf

abbrev Str := List Char

structure Arg where
  asV : Option Str
  asT : Option Str

/-- `c` current rune (head of the list), `args` the unread arguments -/
def scan (fixed : Bool) : Nat → Str → List Arg → Option Str
  | 0, _, _ => none                                    -- fuel; never reached (see `scan_fuel`)
  | _ + 1, [], _ => some []
  | fuel + 1, c :: rest, args =>
    if c == '%' then
      match rest with
      | [] => none                                     -- `%` at end of input: unsupported verb EOF
      | v :: rest' =>
        if v == 'T' || v == 'v' then
          match args with
          | [] => none                                 -- missing arg
          | a :: args' =>
            match (if v == 'T' then a.asT else a.asV) with
            | none => none
            | some t => (scan fixed fuel rest' args').map (t ++ ·)
        else if v == '%' then
          if fixed then (scan fixed fuel rest' args).map ('%' :: ·)
          else (scan fixed fuel (v :: rest') args).map ('%' :: ·)    -- `continue` with c = second '%'
        else none                                      -- unsupported verb
    else (scan fixed fuel rest args).map (c :: ·)

def sprintf (fixed : Bool) (fmt : Str) (args : List Arg) : Option Str :=
  scan fixed (fmt.length + 1) fmt args

def splitLines : Str → Str → List Str
  | [], cur => [cur.reverse]
  | c :: cs, cur => if c == '\n' then cur.reverse :: splitLines cs [] else splitLines cs (c :: cur)

/-- `Comment(v)` -/
def comment (v : Str) : Str :=
  if v.isEmpty then []
  else (((splitLines v []).map fun l => "// ".toList ++ l).intersperse ['\n']).flatten

/-- `GoDirective(d, args…)` -/
def directive (d : Str) (args : List Str) : Str :=
  if d.isEmpty then []
  else "//go:".toList ++ d ++ ((args.filter (!·.isEmpty)).map fun a => ' ' :: a).flatten

end Gengo.Sprintf
