/-!
Model of pkg/types/function_result_resolver.go on a core language that keeps what the
resolver inspects: functions with typed results and the expression lists of their `return`
statements; an expression is a constant, an opaque typed expression or a call of a program
function.  `visits` is the Go map `*ast.FuncType ↦ []bool`, threaded as state.
`fixed = false`: pinned `visited` (an existing entry is read but never marked);
`fixed = true`: repaired `visited`.  `none` = out of fuel (the real code: no return).
-/
namespace Gengo.Resolver

abbrev Str := List Char

structure Ty where
  name : Str
  follow : Bool            -- `error`, `any`, `interface{}`: followed into the callee's body

inductive Expr
  | lit (v : Str)          -- a constant; `v` is `constant.Value.String()`
  | opaque (ty : Str)      -- any other non-call expression; `ty` is what `types.Eval` reports
  | call (f : Nat)         -- call of program function `f`

structure Func where
  results : List Ty
  returns : List (List Expr)

abbrev Prog := List Func
abbrev Visits := List (Nat × List Bool)

inductive Res | val (v : Str) | ty (t : Str)
deriving DecidableEq, Repr

def setMark (vs : Visits) (f : Nat) (marks : List Bool) : Visits :=
  (f, marks) :: vs.filter (·.1 ≠ f)

/-- `visits.visited(t, at)` for a function with `n` results -/
def visited (fixed : Bool) (vs : Visits) (f at_ n : Nat) : Bool × Visits :=
  match vs.lookup f with
  | some marks =>
    if fixed then
      (if marks.getD at_ false then (true, vs) else (false, setMark vs f (marks.set at_ true)))
    else (marks.getD at_ false, vs)
  | none => (false, setMark vs f ((List.replicate n false).set at_ true))

abbrev Rec := Visits → Nat → Nat → Option (List Res × Visits)

/-- `callExprResultAt` -/
def callAt (p : Prog) (rec : Rec) (vs : Visits) (g at_ : Nat) : Option (List Res × Visits) :=
  match p[g]? with
  | none => some ([], vs)
  | some fn =>
    match fn.results[at_]? with
    | none => some ([], vs)
    | some ty => if ty.follow then rec vs g at_ else some ([.ty ty.name], vs)

/-- `resultsAtReturnOrAssignment` -/
def exprsAt (p : Prog) (rec : Rec) (vs : Visits) (rhs : List Expr) (retN at_ : Nat) :
    Option (List Res × Visits) :=
  if 0 < rhs.length ∧ rhs.length < retN then
    match rhs.head? with
    | some (.call g) => callAt p rec vs g at_
    | _ => some ([], vs)
  else
    match rhs[at_]? with
    | none => some ([], vs)
    | some (.call g) => callAt p rec vs g 0
    | some (.lit v) => some ([.val v], vs)
    | some (.opaque t) => some ([.ty t], vs)

def overReturns (p : Prog) (rec : Rec) (retN at_ : Nat) :
    List (List Expr) → Visits → List Res → Option (List Res × Visits)
  | [], vs, acc => some (acc, vs)
  | r :: rs, vs, acc =>
    match exprsAt p rec vs r retN at_ with
    | none => none
    | some (out, vs') => overReturns p rec retN at_ rs vs' (acc ++ out)

/-- `resultsFromAstAt` (via `resultsAt`); one unit of fuel per descent into a body -/
def funcAt (p : Prog) (fixed : Bool) : Nat → Rec
  | 0, _, _, _ => none
  | fuel + 1, vs, f, at_ =>
    match p[f]? with
    | none => some ([], vs)
    | some fn =>
      let (seen, vs') := visited fixed vs f at_ fn.results.length
      if seen then some ([], vs')
      else overReturns p (funcAt p fixed fuel) fn.results.length at_ fn.returns vs' []

/-- `resultsFromAst`: one list per declared result, falling back to the declared type -/
def resultsOfAux (p : Prog) (fixed : Bool) (fuel f : Nat) (fn : Func) :
    List Nat → Visits → List (List Res) → Option (List (List Res))
  | [], _, acc => some acc
  | at_ :: rest, vs, acc =>
    match funcAt p fixed fuel vs f at_ with
    | none => none
    | some (out, vs') =>
      let out' := if out.isEmpty then [Res.ty ((fn.results[at_]?.map (·.name)).getD [])] else out
      resultsOfAux p fixed fuel f fn rest vs' (acc ++ [out'])

def resultsOf (p : Prog) (fixed : Bool) (fuel f : Nat) : Option (List (List Res)) :=
  match p[f]? with
  | none => some []
  | some fn => resultsOfAux p fixed fuel f fn (List.range fn.results.length) [] []

end Gengo.Resolver
