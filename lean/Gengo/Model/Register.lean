/-!
Model of the registration recursion of pkg/types/load.go `Load` and of the import table that
`newPkg` fills from the universe *at construction time*.
`fixed = false`: pinned order (`newPkg` first, dependencies afterwards);
`fixed = true`: repaired order (dependencies first).
-/
namespace Gengo.Register

abbrev Str := List Char

structure Node where
  path : Str
  imports : List Str

abbrev Graph := List Node

/-- universe: registered packages with their import tables (import path ↦ resolved to non-nil?) -/
abbrev U := List (Str × List (Str × Bool))

def node (g : Graph) (p : Str) : Option Node := g.find? (·.path = p)

def newPkg (u : U) (n : Node) : List (Str × Bool) := n.imports.map fun i => (i, (u.lookup i).isSome)

def registerDeps (rec : Str → U → U) : List Str → U → U
  | [], u => u
  | i :: is, u => registerDeps rec is (if (u.lookup i).isSome then u else rec i u)

def register (fixed : Bool) (g : Graph) : Nat → Str → U → U
  | 0, _, u => u
  | fuel + 1, p, u =>
    match node g p with
    | none => u
    | some n =>
      if fixed then
        let u1 := registerDeps (register fixed g fuel) n.imports u
        (p, newPkg u1 n) :: u1
      else
        let tbl := newPkg u n
        let u1 := registerDeps (register fixed g fuel) n.imports u
        (p, tbl) :: u1

end Gengo.Register
