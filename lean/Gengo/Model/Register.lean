/-!
Model of the registration recursion of pkg/types/load.go `Load` and of the import table that
`newPkg` fills from the universe *at construction time*.
`fixed = false`: pinned order (`newPkg` first, dependencies afterwards);
`fixed = true`: repaired order (dependencies first).
-/
namespace Gengo.Register

abbrev Str := List Char

structure Node where
  path : Str
  imports : List Str

abbrev Graph := List Node

/-- universe: registered packages with their import tables (import path ↦ resolved to non-nil?) -/
abbrev U := List (Str × List (Str × Bool))

def node (g : Graph) (p : Str) : Option Node := g.find? (·.path = p)

def newPkg (u : U) (n : Node) : List (Str × Bool) := n.imports.map fun i => (i, (u.lookup i).isSome)

def registerDeps (rec : Str → U → U) : List Str → U → U
  | [], u => u
  | i :: is, u => registerDeps rec is (if (u.lookup i).isSome then u else rec i u)

def register (fixed : Bool) (g : Graph) : Nat → Str → U → U
  | 0, _, u => u
  | fuel + 1, p, u =>
    match node g p with
    | none => u
    | some n =>
      if fixed then
        let u1 := registerDeps (register fixed g fuel) n.imports u
        (p, newPkg u1 n) :: u1
      else
        let tbl := newPkg u n
        let u1 := registerDeps (register fixed g fuel) n.imports u
        (p, tbl) :: u1

/-- `for i := range pkgs { register(pkgs[i]) }` over the roots `packages.Load` returned, in that order.
    `guardRoots = false`: pinned — every root is registered, a second time if an earlier root already
    brought it in as a dependency (go/packages lists roots in dependency order only inside one chunk
    of patterns); `true`: repaired — a root that is already registered is left alone. -/
def loadRoots (guardRoots fixed : Bool) (g : Graph) (fuel : Nat) : List Str → U → U
  | [], u => u
  | r :: rs, u =>
    loadRoots guardRoots fixed g fuel rs
      (if guardRoots && (u.lookup r).isSome then u else register fixed g fuel r u)

/-- the registered packages in registration order, newest first.  A package registered twice appears
    twice: the second registration creates a new `Package` object, which the import tables built
    before do not point to (`Imports()[p] ≠ Universe.Package(p)`). -/
def keys (u : U) : List Str := u.map (·.1)

end Gengo.Register
