import Gengo.Model.Order
/-!
Model of pkg/sumfile/file.go: `Bytes` (sorted `path SP hash LF` lines) and `Load`
(`bytes.Lines`, `bytes.Fields`, at least two fields, later lines override earlier ones).
-/
namespace Gengo.SumFile

/-- `unicode.IsSpace` on the Latin-1 range, which is what `bytes.Fields` uses -/
def isSpace (c : Char) : Bool :=
  c == ' ' || c == '\t' || c == '\n' || c == '\x0b' || c == '\x0c' || c == '\r' || c == '\u0085' || c == ' '

/-- `bytes.Fields`: maximal runs of non-space characters -/
def fieldsAux : Str → Str → List Str
  | [], cur => if cur.isEmpty then [] else [cur.reverse]
  | c :: cs, cur =>
    if isSpace c then (if cur.isEmpty then fieldsAux cs [] else cur.reverse :: fieldsAux cs [])
    else fieldsAux cs (c :: cur)

def fields (s : Str) : List Str := fieldsAux s []

/-- `bytes.Lines`: split after each `\n` (terminator kept; irrelevant to `Fields`) -/
def linesAux : Str → Str → List Str
  | [], cur => if cur.isEmpty then [] else [cur.reverse]
  | c :: cs, cur => if c == '\n' then (c :: cur).reverse :: linesAux cs [] else linesAux cs (c :: cur)

def lines (s : Str) : List Str := linesAux s []

/-- `Load`: the resulting map, as "last binding wins" lookup -/
def loadEntries (data : Str) : List (Str × Str) :=
  (lines data).filterMap fun l => match fields l with
    | k :: v :: _ => some (k, v)
    | _ => none

def loadLookup (data : Str) (k : Str) : Option Str := (loadEntries data).reverse.lookup k

def line (kv : Str × Str) : Str := kv.1 ++ (' ' :: (kv.2 ++ ['\n']))

/-- `Bytes`: entries sorted by key -/
def bytes (m : List (Str × Str)) : Str :=
  ((sortBy (·.1) m).map line).flatten

/-- `Sum`: `""` for a missing entry -/
def sumOf (m : Option (List (Str × Str))) (k : Str) : Str :=
  match m with
  | none => []
  | some m => (m.lookup k).getD []

end Gengo.SumFile
