import Gengo.Model.Dumper
/-!
What a printed value literal *means* (C10): a semantics for exactly the expression forms
`ValueLit` emits — constants (converted to the expected type), `nil`, `&` of a composite literal,
the `func(v T) *T { return &v }(x)` idiom, and keyed struct / map / element composite literals
with Go's omitted-field-is-zero rule — and the meaning of the input value itself.
Leaf literals are identified with the scalar they denote (`strconv` round-trip contract).
-/
namespace Gengo.Eval
open Gengo.Dumper

mutual
  inductive Ty where
    | scalar (text zero : Str)              -- type literal text; literal of the zero value
    | ptr (e : Ty)
    | struct (text : Str) (fields : List FieldTy)
    | map (text : Str) (k v : Ty)
    | seq (text : Str) (e : Ty)             -- slice or array
  inductive FieldTy where
    | mk (name : Str) (exported : Bool) (ty : Ty)
end

inductive SV where
  | scalar (lit : Str)
  | nil
  | ptr (v : SV)
  | struct (fields : List SV)
  | map (entries : List (SV × SV))           -- nil and empty identified; entries in canonical (key) order
  | seq (elems : List SV)                    -- nil and empty identified

/-- the key literal of a map entry with a scalar key -/
def keyOf : SV × SV → Str
  | (.scalar l, _) => l
  | _ => []

/-- a map value is the list of its entries *sorted by key literal*: a canonical representation of
    a finite map with scalar keys, so that neither the order in which a composite literal lists
    the entries nor the order in which the input value presents them matters -/
def canon (xs : List (SV × SV)) : List (SV × SV) := sortBy keyOf xs

mutual
  def zero : Ty → SV
    | .scalar _ z => .scalar z
    | .ptr _ => .nil
    | .struct _ fs => .struct (zeros fs)
    | .map .. => .map []
    | .seq .. => .seq []
  def zeros : List FieldTy → List SV
    | [] => []
    | .mk _ _ t :: fs => zero t :: zeros fs
end

def Ty.text : Ty → Str
  | .scalar t _ => t
  | .ptr _ => []
  | .struct t _ => t
  | .map t _ _ => t
  | .seq t _ => t

mutual
  /-- meaning of a printed expression at an expected type; `none` = does not compile -/
  def eval : Expr → Ty → Option SV
    | .raw s, .scalar _ _ => if s.isEmpty then none else some (.scalar s)
    | .raw s, .ptr _ => if s = "nil".toList then some .nil else none
    | .raw _, _ => none
    | .addr e, .ptr t =>
      (match e with
       | .comp .. => (eval e t).map .ptr       -- `&` only of a composite literal
       | _ => none)
    | .addr _, _ => none
    | .closure ty e, .ptr (.scalar text z) =>
      if ty = text then (match e with
        | .raw _ => (eval e (.scalar text z)).map .ptr
        | _ => none) else none             -- the closure's type must be the pointee type
    | .closure _ _, _ => none
    | .comp ty es, .struct text fs => if ty = text then (evalFields fs es).map .struct else none
    | .comp ty es, .map text k v => if ty = text then (evalEntries k v es).map (fun xs => .map (canon xs)) else none
    | .comp ty es, .seq text t => if ty = text then (evalElems t es).map .seq else none
    | .comp _ _, _ => none
  /-- keyed struct literal: fields in declaration order, omitted ones are zero -/
  def evalFields : List FieldTy → List (Option Str × Expr) → Option (List SV)
    | [], [] => some []
    | [], _ :: _ => none
    | .mk name _ t :: fs, [] => (evalFields fs []).map (zero t :: ·)
    | .mk name ex t :: fs, (k, e) :: es =>
      if k = some name then
        match eval e t, evalFields fs es with
        | some v, some vs => some (v :: vs)
        | _, _ => none
      else (evalFields fs ((k, e) :: es)).map (zero t :: ·)
  /-- map literal with scalar keys: the key text is the key's literal -/
  def evalEntries (k v : Ty) : List (Option Str × Expr) → Option (List (SV × SV))
    | [] => some []
    | (some key, e) :: es =>
      (match k with
       | .scalar _ _ =>
         if key.isEmpty then none else
         match eval e v, evalEntries k v es with
         | some x, some xs => some ((.scalar key, x) :: xs)
         | _, _ => none
       | _ => none)
    | (none, _) :: _ => none
  def evalElems (t : Ty) : List (Option Str × Expr) → Option (List SV)
    | [] => some []
    | (none, e) :: es =>
      (match eval e t, evalElems t es with
       | some x, some xs => some (x :: xs)
       | _, _ => none)
    | (some _, _) :: _ => none
end

mutual
  /-- meaning of the input value at its type -/
  def denote : Val → Ty → Option SV
    | .leaf _ ty lit _, .scalar text _ => if ty = text ∧ lit ≠ [] then some (.scalar lit) else none
    | .nilPtr, .ptr _ => some .nil
    | .ptr v, .ptr t => (denote v t).map .ptr
    | .struct ty fs, .struct text fts => if ty = text then (denoteFields fs fts).map .struct else none
    | .map ty es, .map text k v => if ty = text then (denoteEntries es k v).map (fun xs => .map (canon xs)) else none
    | .seq ty es, .seq text t => if ty = text then (denoteList es t).map .seq else none
    | _, _ => none
  def denoteFields : List (Str × Bool × Val) → List FieldTy → Option (List SV)
    | [], [] => some []
    | (n, ex, v) :: fs, .mk name ex' t :: fts =>
      if n = name ∧ ex = ex' then
        match denote v t, denoteFields fs fts with
        | some x, some xs => some (x :: xs)
        | _, _ => none
      else none
    | _, _ => none
  def denoteEntries : List (Val × Val) → Ty → Ty → Option (List (SV × SV))
    | [], _, _ => some []
    | (k, v) :: es, kt, vt =>
      match denote k kt, denote v vt, denoteEntries es kt vt with
      | some a, some b, some xs => some ((a, b) :: xs)
      | _, _, _ => none
  def denoteList : List Val → Ty → Option (List SV)
    | [], _ => some []
    | v :: vs, t =>
      match denote v t, denoteList vs t with
      | some x, some xs => some (x :: xs)
      | _, _ => none
end

end Gengo.Eval
