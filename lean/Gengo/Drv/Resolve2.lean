import Gengo.Model.Resolver2
/-!
Line-protocol front end of `Model/Resolver2` (driver code, not part of any proof):

    resolve2 <query> P <n> { F <tys> <named> <k|X> { stmt }^k }^n

    tys    one letter per result (i int · s string · e error · a any), `_` for none
    named  comma list, one entry per result: `-` or the object id of the result's name; `_` for none
    stmt   A <pos> <lhs> <m> expr^m     lhs: comma list of `-` or object ids
           R <pos> <m> expr^m           return with m expressions
           B <pos>                      bare return
    expr   L<hex> · O<hex> · I<x>,<0|1>,<v|t><hex> · U<g>,<hex> · C<target|->,<rets|_>,<perr bits|_>,<m> expr^m
-/
namespace Gengo.R2Drv
open Gengo.Resolver2
open Gengo.Resolver (Res)

def hexVal (c : Char) : Nat :=
  if '0' ≤ c ∧ c ≤ '9' then c.toNat - 48 else if 'a' ≤ c ∧ c ≤ 'f' then c.toNat - 87 else 0

def unhexBytes : List Char → List UInt8
  | a :: b :: rest => (hexVal a * 16 + hexVal b).toUInt8 :: unhexBytes rest
  | _ => []

def unhex (s : String) : List Char :=
  match String.fromUTF8? (ByteArray.mk (unhexBytes s.toList).toArray) with
  | some str => str.toList
  | none => []

def tyOf (c : Char) : List Char :=
  if c == 'e' then "error".toList else if c == 's' then "string".toList else if c == 'a' then "any".toList else "int".toList

def tysOf (s : String) : List (List Char) := if s == "_" then [] else s.toList.map tyOf

def optIds (s : String) : List (Option Nat) :=
  if s == "_" then [] else (s.splitOn ",").map fun t => if t == "-" then none else t.toNat?

mutual
partial def parseExpr : List String → Option (Expr × List String)
  | [] => none
  | t :: rest =>
    match t.toList with
    | 'L' :: h => some (.lit (unhex (String.ofList h)), rest)
    | 'O' :: h => some (.opaque (unhex (String.ofList h)), rest)
    | 'I' :: body =>
      (match (String.ofList body).splitOn "," with
       | [x, n, ev] =>
         let r : Res := match ev.toList with
           | 'v' :: h => .val (unhex (String.ofList h))
           | _ :: h => .ty (unhex (String.ofList h))
           | [] => .ty []
         some (.ident x.toNat! (n == "1") r, rest)
       | _ => none)
    | 'U' :: body =>
      (match (String.ofList body).splitOn "," with
       | [g, ty] => some (.funcLit g.toNat! (unhex ty), rest)
       | _ => none)
    | 'C' :: body =>
      (match (String.ofList body).splitOn "," with
       | [tg, rets, perr, m] =>
         let sig : Sig := ⟨tysOf rets, if perr == "_" then [] else perr.toList.map (· == '1'), if tg == "-" then none else tg.toNat?⟩
         (parseArgs m.toNat! rest).map fun (as, r) => (.call sig as, r)
       | _ => none)
    | _ => none
partial def parseArgs : Nat → List String → Option (Args × List String)
  | 0, toks => some (.nil, toks)
  | n + 1, toks =>
    match parseExpr toks with
    | none => none
    | some (e, r) => (parseArgs n r).map fun (as, r') => (.cons e as, r')
end

partial def parseExprs : Nat → List String → Option (List Expr × List String)
  | 0, toks => some ([], toks)
  | n + 1, toks =>
    match parseExpr toks with
    | none => none
    | some (e, r) => (parseExprs n r).map fun (es, r') => (e :: es, r')

partial def parseStmts : Nat → List String → Option (List Stmt × List String)
  | 0, toks => some ([], toks)
  | n + 1, "A" :: pos :: lhs :: m :: rest =>
    (match parseExprs m.toNat! rest with
     | none => none
     | some (es, r) => (parseStmts n r).map fun (ss, r') => (.assign pos.toNat! (optIds lhs) es :: ss, r'))
  | n + 1, "R" :: pos :: m :: rest =>
    (match parseExprs m.toNat! rest with
     | none => none
     | some (es, r) => (parseStmts n r).map fun (ss, r') => (.ret pos.toNat! (some es) :: ss, r'))
  | n + 1, "B" :: pos :: rest => (parseStmts n rest).map fun (ss, r') => (.ret pos.toNat! none :: ss, r')
  | _, _ => none

partial def parseFuncs : Nat → List String → Option (Prog × List String)
  | 0, toks => some ([], toks)
  | n + 1, "F" :: tys :: named :: k :: rest =>
    if k == "X" then
      (parseFuncs n rest).map fun (fs, r') => (⟨tysOf tys, optIds named, none⟩ :: fs, r')
    else
      (match parseStmts k.toNat! rest with
       | none => none
       | some (ss, r) => (parseFuncs n r).map fun (fs, r') => (⟨tysOf tys, optIds named, some ss⟩ :: fs, r'))
  | _, _ => none

def showRes : Res → String
  | .val v => String.ofList v
  | .ty t => String.ofList t

def answer (p : Prog) (g : Nat) : String :=
  match Resolver2.resultsOf p 400 g with
  | none => "diverge"
  | some rs => "(" ++ String.intercalate ", " (rs.map fun r => String.intercalate " | " (r.map showRes)) ++ ")"

/-- `<query>` is one function index, or a comma list of indices asked one after the other — every
    question is answered from scratch, as `ResultsOf` promises -/
def run (toks : List String) : String :=
  match toks with
  | q :: "P" :: n :: rest =>
    (match parseFuncs n.toNat! rest with
     | some (p, []) => String.intercalate ";" ((q.splitOn ",").map fun g => answer p g.toNat!)
     | _ => "bad-program")
  | _ => "bad-op"

end Gengo.R2Drv
