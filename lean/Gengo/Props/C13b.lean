import Gengo.Model.Register
namespace Gengo.Register

/-- pinned order (F12): a package registered before its dependency keeps a nil import entry -/
example :
    let g : Graph := [⟨['p'], [['q']]⟩, ⟨['q'], []⟩]
    (register false g 5 ['p'] []).lookup ['p'] = some [(['q'], false)] ∧
    (register true g 5 ['p'] []).lookup ['p'] = some [(['q'], true)] := by decide

/-- every import entry of every registered package is resolved -/
def Resolved (u : U) : Prop := ∀ q tbl, (q, tbl) ∈ u → ∀ i r, (i, r) ∈ tbl → r = true

def Mono (u u' : U) : Prop := ∀ q, (u.lookup q).isSome = true → (u'.lookup q).isSome = true

/-- the graph is closed and acyclic: `h` strictly decreases along imports -/
structure DAG (g : Graph) (h : Str → Nat) : Prop where
  closed : ∀ n ∈ g, ∀ i ∈ n.imports, (node g i).isSome = true
  down : ∀ p n, node g p = some n → ∀ i ∈ n.imports, h i < h p

/-- what one registration guarantees -/
def RegOK (g : Graph) (rec : Str → U → U) (p : Str) : Prop :=
  ∀ u, Resolved u → Resolved (rec p u) ∧ Mono u (rec p u) ∧ ((rec p u).lookup p).isSome = true

theorem registerDeps_ok (g : Graph) (rec : Str → U → U) (is : List Str)
    (hrec : ∀ i ∈ is, RegOK g rec i) :
    ∀ u, Resolved u →
      Resolved (registerDeps rec is u) ∧ Mono u (registerDeps rec is u) ∧
      ∀ i ∈ is, ((registerDeps rec is u).lookup i).isSome = true := by
  induction is with
  | nil => intro u hu; exact ⟨hu, fun _ h => h, by simp⟩
  | cons i is ih =>
    intro u hu
    simp only [registerDeps]
    have hstep : Resolved (if (u.lookup i).isSome then u else rec i u) ∧
        Mono u (if (u.lookup i).isSome then u else rec i u) ∧
        ((if (u.lookup i).isSome then u else rec i u).lookup i).isSome = true := by
      by_cases hreg : (u.lookup i).isSome = true
      · rw [if_pos hreg]; exact ⟨hu, fun _ h => h, hreg⟩
      · rw [if_neg hreg]
        exact hrec i (by simp) u hu
    obtain ⟨h1, h2, h3⟩ := hstep
    obtain ⟨k1, k2, k3⟩ := ih (fun j hj => hrec j (by simp [hj])) _ h1
    refine ⟨k1, fun q hq => k2 q (h2 q hq), ?_⟩
    intro j hj
    simp only [List.mem_cons] at hj
    rcases hj with rfl | hj
    · exact k2 _ h3
    · exact k3 j hj

/-- C13 `imports_total` (repaired order): registering a package of a closed acyclic import graph
    with enough fuel leaves every import entry of every registered package resolved — the
    package's own table included —, and the package registered. -/
theorem register_ok (g : Graph) (h : Str → Nat) (hd : DAG g h) :
    ∀ fuel p, h p < fuel → (node g p).isSome = true → RegOK g (register true g fuel) p := by
  intro fuel
  induction fuel with
  | zero => intro p hp; omega
  | succ k ih =>
    intro p hp hn u hu
    cases hnode : node g p with
    | none => simp [hnode] at hn
    | some n =>
      simp only [register, hnode, if_true]
      have hmem : n ∈ g := List.mem_of_find?_eq_some hnode
      have hdeps := registerDeps_ok g (register true g k) n.imports
        (fun i hi => ih i (by have := hd.down p n hnode i hi; omega) (hd.closed n hmem i hi)) u hu
      obtain ⟨d1, d2, d3⟩ := hdeps
      refine ⟨?_, ?_, by simp [List.lookup]⟩
      · intro q tbl hq i r hir
        simp only [List.mem_cons] at hq
        rcases hq with heq | hq
        · cases heq
          simp only [newPkg, List.mem_map] at hir
          obtain ⟨j, hj, hjr⟩ := hir
          simp only [Prod.mk.injEq] at hjr
          rw [← hjr.2]
          exact d3 j hj
        · exact d1 q tbl hq i r hir
      · intro q hq
        simp only [List.lookup]
        cases q == p <;> simp [d2 q hq]

#print axioms register_ok
end Gengo.Register
