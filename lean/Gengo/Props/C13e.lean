import Gengo.Props.C13b
namespace Gengo.Register

/-! ### C13: `Imports()[path]` is the package `Universe.Package(path)` returns — every package is
registered exactly once, whatever order the roots arrive in -/

theorem lookup_isSome_iff (u : U) (p : Str) : (u.lookup p).isSome = true ↔ p ∈ keys u := by
  induction u with
  | nil => simp [keys]
  | cons e rest ih =>
    obtain ⟨k, v⟩ := e
    simp only [List.lookup, keys, List.map_cons, List.mem_cons]
    by_cases hk : p = k
    · subst hk; simp
    · have : (p == k) = false := by simpa using hk
      simp only [this]
      constructor
      · intro h; exact Or.inr (by simpa [keys] using ih.mp h)
      · rintro (h | h)
        · exact absurd h hk
        · exact ih.mpr (by simpa [keys] using h)

/-- what one registration guarantees about the set of registered packages -/
def Once (h : Str → Nat) (rec : Str → U → U) (p : Str) : Prop :=
  ∀ u, (keys u).Nodup → p ∉ keys u →
    (keys (rec p u)).Nodup ∧ ∀ q ∈ keys (rec p u), q ∈ keys u ∨ h q ≤ h p

theorem registerDeps_once (h : Str → Nat) (rec : Str → U → U) (is : List Str)
    (hrec : ∀ i ∈ is, Once h rec i) :
    ∀ u, (keys u).Nodup →
      (keys (registerDeps rec is u)).Nodup ∧
      ∀ q ∈ keys (registerDeps rec is u), q ∈ keys u ∨ ∃ i ∈ is, h q ≤ h i := by
  induction is with
  | nil => intro u hu; exact ⟨hu, fun q hq => Or.inl hq⟩
  | cons i is ih =>
    intro u hu
    simp only [registerDeps]
    by_cases hreg : (u.lookup i).isSome = true
    · rw [if_pos hreg]
      obtain ⟨k1, k2⟩ := ih (fun j hj => hrec j (by simp [hj])) u hu
      refine ⟨k1, fun q hq => ?_⟩
      rcases k2 q hq with hq' | ⟨j, hj, hle⟩
      · exact Or.inl hq'
      · exact Or.inr ⟨j, by simp [hj], hle⟩
    · rw [if_neg hreg]
      have hni : i ∉ keys u := fun hm => hreg ((lookup_isSome_iff u i).mpr hm)
      obtain ⟨s1, s2⟩ := hrec i (by simp) u hu hni
      obtain ⟨k1, k2⟩ := ih (fun j hj => hrec j (by simp [hj])) _ s1
      refine ⟨k1, fun q hq => ?_⟩
      rcases k2 q hq with hq' | ⟨j, hj, hle⟩
      · rcases s2 q hq' with h0 | hle
        · exact Or.inl h0
        · exact Or.inr ⟨i, by simp, hle⟩
      · exact Or.inr ⟨j, by simp [hj], hle⟩

theorem register_once (g : Graph) (h : Str → Nat) (hd : DAG g h) :
    ∀ fuel p, h p < fuel → (node g p).isSome = true → Once h (register true g fuel) p := by
  intro fuel
  induction fuel with
  | zero => intro p hp; omega
  | succ k ih =>
    intro p hp hn u hu hpu
    cases hnode : node g p with
    | none => simp [hnode] at hn
    | some n =>
      simp only [register, hnode, if_true]
      have hmem : n ∈ g := List.mem_of_find?_eq_some hnode
      obtain ⟨d1, d2⟩ := registerDeps_once h (register true g k) n.imports
        (fun i hi => ih i (by have := hd.down p n hnode i hi; omega) (hd.closed n hmem i hi)) u hu
      have hp1 : p ∉ keys (registerDeps (register true g k) n.imports u) := by
        intro hm
        rcases d2 p hm with h0 | ⟨i, hi, hle⟩
        · exact hpu h0
        · have := hd.down p n hnode i hi; omega
      refine ⟨?_, ?_⟩
      · simp only [keys, List.map_cons]
        exact List.nodup_cons.mpr ⟨by simpa [keys] using hp1, by simpa [keys] using d1⟩
      · intro q hq
        simp only [keys, List.map_cons, List.mem_cons] at hq
        rcases hq with rfl | hq
        · exact Or.inr (Nat.le_refl _)
        · rcases d2 q (by simpa [keys] using hq) with h0 | ⟨i, hi, hle⟩
          · exact Or.inl h0
          · have := hd.down p n hnode i hi
            exact Or.inr (by omega)

/-- **C13 `imports_same_package`** (repaired root loop): for any list of roots of a closed acyclic
    import graph, in any order — in particular when a root arrives after a root that imports it —
    every package is registered exactly once, so the `Package` an import table points to is the one
    the universe returns. -/
theorem loadRoots_once (g : Graph) (h : Str → Nat) (hd : DAG g h) (fuel : Nat) :
    ∀ (roots : List Str) (u : U), (∀ r ∈ roots, h r < fuel ∧ (node g r).isSome = true) →
      (keys u).Nodup → (keys (loadRoots true true g fuel roots u)).Nodup := by
  intro roots
  induction roots with
  | nil => intro u _ hu; simpa [loadRoots] using hu
  | cons r rs ih =>
    intro u hr hu
    simp only [loadRoots, Bool.true_and]
    have hrs : ∀ x ∈ rs, h x < fuel ∧ (node g x).isSome = true := fun x hx => hr x (by simp [hx])
    by_cases hreg : (u.lookup r).isSome = true
    · rw [if_pos hreg]; exact ih u hrs hu
    · rw [if_neg hreg]
      have hni : r ∉ keys u := fun hm => hreg ((lookup_isSome_iff u r).mpr hm)
      obtain ⟨h1, h2⟩ := hr r (by simp)
      exact ih _ hrs (register_once g h hd fuel r h1 h2 u hu hni).1

/-- pinned root loop: `p` imports `q` and both are roots, `p` arriving first (which is what happens when
    go/packages hands the patterns to `go list` in two chunks): `q` is registered twice -/
example :
    let g : Graph := [⟨['p'], [['q']]⟩, ⟨['q'], []⟩]
    keys (loadRoots false true g 5 [['p'], ['q']] []) = [['q'], ['p'], ['q']] ∧
    keys (loadRoots true true g 5 [['p'], ['q']] []) = [['p'], ['q']] := by decide

/-- the hypotheses are satisfiable: the two-package graph above is closed and acyclic -/
example : DAG [⟨['p'], [['q']]⟩, ⟨['q'], []⟩] (fun s => if s = ['p'] then 1 else 0) := by
  constructor
  · intro n hn i hi
    simp only [List.mem_cons, List.mem_nil_iff, or_false] at hn
    rcases hn with rfl | rfl
    · simp only [List.mem_cons, List.mem_nil_iff, or_false] at hi; subst hi; decide
    · simp at hi
  · intro p n hnode i hi
    have hmem : n ∈ ([⟨['p'], [['q']]⟩, ⟨['q'], []⟩] : Graph) := List.mem_of_find?_eq_some hnode
    have hpath : n.path = p := by simpa using List.find?_some hnode
    simp only [List.mem_cons, List.mem_nil_iff, or_false] at hmem
    rcases hmem with rfl | rfl
    · simp only [List.mem_cons, List.mem_nil_iff, or_false] at hi
      subst hi; subst hpath; decide
    · simp at hi

#print axioms loadRoots_once
end Gengo.Register
