import Gengo.Gen.Code.C20
import Gengo.Model.Inflect
import Gengo.Props.C20c
/-!
`(*Rule).inflected` of pkg/inflector/internal/rule.go as translated (`Gengo.Code.inflected`) against the model of
its irregular-word step (`Gengo.Inflect.irregular c true`).  What the translation leaves abstract is the regular
expression engine: `findSub` stands for `compiledIrregular.FindStringSubmatch`, `unMatch` for
`compiledUninflected.MatchString`, `ruleMatch` / `ruleRepl` for the `MatchString` / `ReplaceAllString` of one compiled
rule.  `findSubOf c` is what the model says `FindStringSubmatch` returns for `(?is)(.*)\b((?:w1|w2|…))$`.
-/
namespace Gengo.TrC20
open Gengo Gengo.Go Gengo.Inflect

/-- the submatches the model ascribes to `compiledIrregular.FindStringSubmatch(s)`: none, or whole match, prefix, word -/
def findSubOf (c : Cfg) (s : Str) : List Str :=
  match find c s with
  | none => []
  | some (pre, w) => [s, pre, w]

/-- the part of `inflected` after the irregular step: uninflected words stay, the first matching rule rewrites -/
def rulesStep (unMatch : Str → Bool) (rules : List (Str × Str)) (ruleMatch : (Str × Str) → Str → Bool)
    (ruleRepl : (Str × Str) → Str → Str) (s : Str) : Str :=
  if unMatch s then s else
  match rules.find? (fun re => ruleMatch re s) with
  | some re => ruleRepl re s
  | none => s

theorem mapHas_lookup (m : List (Str × Str)) (k : Str) : Go.mapHas m k = (m.lookup k).isSome := by
  induction m with
  | nil => simp [Go.mapHas, List.lookup]
  | cons a rest ih =>
    obtain ⟨x, y⟩ := a
    by_cases h : k = x
    · subst h; simp [Go.mapHas, List.lookup]
    · have h1 : (k == x) = false := by simpa using h
      have h2 : (x == k) = false := by simpa using fun e : x = k => h e.symm
      simp only [Go.mapHas] at ih
      simp [Go.mapHas, List.lookup, h1, h2, ih]

theorem mapGet_lookup (m : List (Str × Str)) (k : Str) : Go.mapGet m k [] = (m.lookup k).getD [] := by
  induction m with
  | nil => simp [Go.mapGet, List.lookup]
  | cons a rest ih =>
    obtain ⟨x, y⟩ := a
    by_cases h : k = x
    · subst h; simp [Go.mapGet, List.lookup]
    · have h1 : (k == x) = false := by simpa using h
      have h2 : (x == k) = false := by simpa using fun e : x = k => h e.symm
      simp [Go.mapGet, List.lookup, h1, h2, ih]

theorem findAux_nonempty (c : Cfg) (pre s : Str) (best : Option (Str × Str))
    (hb : ∀ p w, best = some (p, w) → w ≠ []) :
    ∀ p w, findAux c pre s best = some (p, w) → w ≠ [] := by
  induction s generalizing pre best with
  | nil => intro p w h; exact hb p w (by simpa [findAux] using h)
  | cons x rest ih =>
    intro p w h
    simp only [findAux] at h
    refine ih _ _ ?_ p w h
    intro p' w' h'
    split at h'
    · cases h'; simp
    · exact hb p' w' h'

theorem find_nonempty (c : Cfg) (s pre w : Str) (h : find c s = some (pre, w)) : w ≠ [] :=
  findAux_nonempty c [] s none (by intro _ _ h; cases h) pre w h

theorem loop1_eq (findSub irr toLower unMatch rules ruleMatch ruleRepl) (s : Str) (l : List (Str × Str)) :
    Code.inflected.loop1 findSub irr toLower unMatch rules ruleMatch ruleRepl s l
      = pure (match l.find? (fun re => ruleMatch re s) with
              | some re => .ret (ruleRepl re s)
              | none => .next ()) := by
  induction l with
  | nil => simp [Code.inflected.loop1]
  | cons re rest ih =>
    by_cases h : ruleMatch re s = true
    · simp [Code.inflected.loop1, h]
    · have h' : ruleMatch re s = false := by simpa using h
      simp [Code.inflected.loop1, h', ih]

theorem loop2_eq (findSub irr toLower unMatch rules ruleMatch ruleRepl) (s : Str) (l : List (Str × Str)) :
    Code.inflected.loop2 findSub irr toLower unMatch rules ruleMatch ruleRepl s l
      = pure (match l.find? (fun re => ruleMatch re s) with
              | some re => .ret (ruleRepl re s)
              | none => .next ()) := by
  induction l with
  | nil => simp [Code.inflected.loop2]
  | cons re rest ih =>
    by_cases h : ruleMatch re s = true
    · simp [Code.inflected.loop2, h]
    · have h' : ruleMatch re s = false := by simpa using h
      simp [Code.inflected.loop2, h', ih]

/-- **the translated `inflected` is the model's irregular step followed by the rule table**, for every input string,
    every regular-expression table and every irregular map whose replacements are non-empty (for an empty
    replacement the code's `replacement[1:]` panics, and so does the translated code: the hypothesis is needed). -/
theorem inflected_eq (c : Cfg) (hrepl : ∀ k v, c.table.lookup k = some v → v ≠ [])
    (unMatch : Str → Bool) (rules : List (Str × Str)) (ruleMatch : (Str × Str) → Str → Bool)
    (ruleRepl : (Str × Str) → Str → Str) (s : Str) :
    Code.inflected (findSubOf c) c.table (fun w => w.map c.lower) unMatch rules ruleMatch ruleRepl s
      = pure (match irregular c true s with
              | .ok r => r
              | _ => rulesStep unMatch rules ruleMatch ruleRepl s) := by
  unfold Code.inflected
  cases hf : find c s with
  | none =>
    simp [findSubOf, hf, Go.len, irregular, irregular2, rulesStep, loop2_eq]
    by_cases hu : unMatch s = true
    · simp [hu]
    · have hu' : unMatch s = false := by simpa using hu
      simp [hu']
      cases rules.find? (fun re => ruleMatch re s) <;> simp [bind, Except.bind, pure, Except.pure]
  | some pw =>
    obtain ⟨pre, w⟩ := pw
    have hw : w ≠ [] := find_nonempty c s pre w hf
    cases hl : c.table.lookup (w.map c.lower) with
    | none =>
      simp [findSubOf, hf, Go.len, irregular, irregular2, rulesStep, loop1_eq, Go.idx, mapHas_lookup, mapGet_lookup,
        hl, bind, Except.bind, pure, Except.pure]
      by_cases hu : unMatch s = true
      · simp [hu]
      · have hu' : unMatch s = false := by simpa using hu
        simp [hu']
        cases rules.find? (fun re => ruleMatch re s) <;> simp
    | some repl =>
      have hr : repl ≠ [] := hrepl _ _ hl
      have hh : Go.mapHas c.table (w.map c.lower) = true := by rw [mapHas_lookup, hl]; rfl
      have hg : Go.mapGet c.table (w.map c.lower) [] = repl := by rw [mapGet_lookup, hl]; rfl
      obtain ⟨a, w', rfl⟩ := List.exists_cons_of_ne_nil hw
      obtain ⟨b, r', rfl⟩ := List.exists_cons_of_ne_nil hr
      simp only [List.map_cons] at hh hg hl
      have h1 : ¬ ((w'.length : Int) + 1 < 1) := by omega
      have h2 : ¬ ((r'.length : Int) + 1 < 1) := by omega
      simp [findSubOf, hf, Go.idx, irregular, irregular2, hl, hh, hg, bind, Except.bind, pure, Except.pure,
        Go.slice, Go.len, h1, h2]

/-- **C20 "never panics", of the translated code**: whatever the regular-expression engine answers for the
    uninflected list and the rule table, the translated `inflected` returns a string — it neither panics
    (`Err.panic`: an index or slice out of range) nor runs out of fuel. -/
theorem code_inflected_total (c : Cfg) (hrepl : ∀ k v, c.table.lookup k = some v → v ≠ [])
    (unMatch : Str → Bool) (rules : List (Str × Str)) (ruleMatch : (Str × Str) → Str → Bool)
    (ruleRepl : (Str × Str) → Str → Str) (s : Str) :
    ∃ r, Code.inflected (findSubOf c) c.table (fun w => w.map c.lower) unMatch rules ruleMatch ruleRepl s = .ok r := by
  rw [inflected_eq c hrepl]
  exact ⟨_, rfl⟩

/-- **C20 "only the last word is rewritten", of the translated code**: for every prefix `p` that ends in a word
    boundary and every spelling `w` of an irregular word, the translated `inflected` returns `p`, the first letter of
    `w` as written, and the tail of the table replacement — whatever the rule table holds. -/
theorem code_inflected_last_word (c : Cfg) (hrepl : ∀ k v, c.table.lookup k = some v → v ≠ [])
    (unMatch : Str → Bool) (rules : List (Str × Str)) (ruleMatch : (Str × Str) → Str → Bool)
    (ruleRepl : (Str × Str) → Str → Str)
    (p w repl : Str) (hw : w ≠ []) (hword : ∀ x ∈ w, c.isWord x = true)
    (hb : boundary c p w = true) (hm : matchesTable c w = true)
    (hl : c.table.lookup (w.map c.lower) = some repl) :
    Code.inflected (findSubOf c) c.table (fun w => w.map c.lower) unMatch rules ruleMatch ruleRepl (p ++ w)
      = .ok (p ++ w.take 1 ++ repl.drop 1) := by
  rw [inflected_eq c hrepl, irregular_spelled c p w repl hw hword hb hm hl]
  rfl

/-- the hypothesis on the replacements holds for a table whose entries all have a non-empty replacement -/
theorem repl_nonempty_of_all (t : List (Str × Str)) (h : t.all (fun e => !e.2.isEmpty) = true) :
    ∀ k v, t.lookup k = some v → v ≠ [] := by
  induction t with
  | nil => intro k v hk; simp [List.lookup] at hk
  | cons e rest ih =>
    obtain ⟨x, y⟩ := e
    simp only [List.all_cons, Bool.and_eq_true] at h
    intro k v hk
    simp only [List.lookup] at hk
    split at hk
    · cases hk; intro he; subst he; simp at h
    · exact ih h.2 k v hk

/-- … which the two irregular maps regenerated from rules.go are (kernel evaluation over the whole tables) -/
theorem plural_repl_nonempty : ∀ k v, irregularPlural.lookup k = some v → v ≠ [] :=
  repl_nonempty_of_all _ (by decide)
theorem singular_repl_nonempty : ∀ k v, irregularSingular.lookup k = some v → v ≠ [] :=
  repl_nonempty_of_all _ (by decide)

/-- the translated `inflected` over the regenerated plural map returns for every string, every folding relation,
    every lower-casing and every answer of the regular-expression engine about the other tables -/
theorem code_plural_total (foldEq : Char → Char → Bool) (lower : Char → Char) (isWord : Char → Bool)
    (unMatch : Str → Bool) (rules : List (Str × Str)) (ruleMatch : (Str × Str) → Str → Bool)
    (ruleRepl : (Str × Str) → Str → Str) (s : Str) :
    ∃ r, Code.inflected (findSubOf ⟨irregularPlural, foldEq, lower, isWord⟩) irregularPlural (fun w => w.map lower)
      unMatch rules ruleMatch ruleRepl s = .ok r :=
  code_inflected_total ⟨irregularPlural, foldEq, lower, isWord⟩ plural_repl_nonempty unMatch rules ruleMatch ruleRepl s

theorem code_singular_total (foldEq : Char → Char → Bool) (lower : Char → Char) (isWord : Char → Bool)
    (unMatch : Str → Bool) (rules : List (Str × Str)) (ruleMatch : (Str × Str) → Str → Bool)
    (ruleRepl : (Str × Str) → Str → Str) (s : Str) :
    ∃ r, Code.inflected (findSubOf ⟨irregularSingular, foldEq, lower, isWord⟩) irregularSingular (fun w => w.map lower)
      unMatch rules ruleMatch ruleRepl s = .ok r :=
  code_inflected_total ⟨irregularSingular, foldEq, lower, isWord⟩ singular_repl_nonempty unMatch rules ruleMatch ruleRepl s

/-- the premises are met: the regenerated plural table of rules.go, `person` after `old-` -/
example : Code.inflected (findSubOf goCfg) goCfg.table (fun w => w.map goCfg.lower) (fun _ => false) [] (fun _ _ => false)
    (fun _ s => s) "old-Person".toList = .ok "old-People".toList := by rfl
/-- the long s folds to `s` in the regular expression and not under `strings.ToLower`: the lookup fails and the code
    goes on to the rule table (the repaired F3; without the `ok` test the translated code is `Err.panic` here) -/
example : Code.inflected (findSubOf goCfg) goCfg.table (fun w => w.map goCfg.lower) (fun _ => false) [] (fun _ _ => false)
    (fun _ s => s) "perſon".toList = .ok "perſon".toList := by rfl

#print axioms inflected_eq
#print axioms code_inflected_total
#print axioms code_plural_total
#print axioms code_singular_total
#print axioms code_inflected_last_word
end Gengo.TrC20
