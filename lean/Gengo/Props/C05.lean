import Gengo.Props.Pipe2
import Gengo.Props.Pipe3
namespace Gengo.Pipeline

/-! ### C05 / C07 as corollaries of the trace decomposition -/

def inDir (d : Str) (e : Effect) : Bool :=
  match e.target with
  | some (d', _) => d' == d
  | none => false

theorem own_inDir {a : Args} {p : Pkg} {e : Effect} (h : Own a p e) (d : Str) (hd : p.dir ≠ d) : inDir d e = false := by
  unfold inDir
  cases ht : e.target with
  | none => rfl
  | some t =>
    obtain ⟨d', n⟩ := t
    have := (h d' n ht).1
    simp [this, hd]

theorem own_inDir_self {a : Args} {p : Pkg} {e : Effect} (h : Own a p e) (ht : e.target.isSome) : inDir p.dir e = true := by
  unfold inDir
  cases ht' : e.target with
  | none => simp [ht'] at ht
  | some t =>
    obtain ⟨d', n⟩ := t
    have := (h d' n ht').1
    simp [this]

/-- every effect of a package run has a target (it never writes the sum file) -/
theorem writes_target (parses : Str → Bool) (a : Args) (p : Pkg) (ws : List (Str × Str)) :
    ∀ (stale : List Str) (eff : List Effect), (∀ e ∈ eff, e.target.isSome) →
      ∀ e ∈ (writes parses a p ws stale eff).1, e.target.isSome := by
  induction ws with
  | nil =>
    intro stale eff heff e he
    simp only [writes, List.mem_append, List.mem_map] at he
    rcases he with he | ⟨f, _, rfl⟩
    · exact heff e he
    · rfl
  | cons w ws ih =>
    intro stale eff heff e he
    obtain ⟨gn, text⟩ := w
    simp only [writes] at he
    split at he
    · exact ih _ _ heff e he
    · split at he
      · refine ih _ _ ?_ e he
        intro e' he'
        rcases List.mem_append.mp he' with h | h
        · exact heff e' h
        · simp at h; subst h; rfl
      · exact heff e he

theorem pkgExecute_target (parses : Str → Bool) (order) (a : Args) (p : Pkg) (gens : List Gen) :
    ∀ e ∈ (pkgExecute parses order a p gens).1, e.target.isSome := by
  unfold pkgExecute
  split
  · simp
  · exact writes_target parses a p _ _ [] (by simp)

theorem filter_other (parses : Str → Bool) (order) (a : Args) (gens : List Gen) (d : Str) (l : List Pkg)
    (h : ∀ q ∈ l, q.dir ≠ d) :
    (l.flatMap fun q => (pkgExecute parses order a q gens).1).filter (inDir d) = [] := by
  rw [List.filter_eq_nil_iff]
  intro e he
  obtain ⟨q, hq, heq⟩ := List.mem_flatMap.mp he
  simp [own_inDir (pkgExecute_own parses order a q gens e heq) d (h q hq)]

theorem filter_self (parses : Str → Bool) (order) (a : Args) (gens : List Gen) (p : Pkg) :
    (pkgExecute parses order a p gens).1.filter (inDir p.dir) = (pkgExecute parses order a p gens).1 := by
  rw [List.filter_eq_self]
  intro e he
  exact own_inDir_self (pkgExecute_own parses order a p gens e he) (pkgExecute_target parses order a p gens e he)

theorem filter_one (parses : Str → Bool) (order) (a : Args) (gens : List Gen) (p : Pkg) (l : List Pkg)
    (hd : l.Pairwise fun x y => x.dir ≠ y.dir) (hp : p ∈ l) :
    (l.flatMap fun q => (pkgExecute parses order a q gens).1).filter (inDir p.dir)
      = (pkgExecute parses order a p gens).1 := by
  induction l with
  | nil => simp at hp
  | cons q l ih =>
    rw [List.pairwise_cons] at hd
    simp only [List.flatMap_cons, List.filter_append]
    rcases List.mem_cons.mp hp with rfl | hp'
    · rw [filter_self, filter_other parses order a gens p.dir l (fun y hy => (hd.1 y hy).symm)]
      simp
    · have hq : q.dir ≠ p.dir := hd.1 p hp'
      have : (pkgExecute parses order a q gens).1.filter (inDir p.dir) = [] := by
        have := filter_other parses order a gens p.dir [q] (by simpa using hq)
        simpa using this
      rw [this, ih hd.2 hp']
      simp

/-- **C05 `pkg_independent`.**  In a run that returns no error, what happens inside the directory
    of a processed package `p` is exactly `p`'s own trace — an expression in `p`, the arguments and
    the generator prototypes in which the rest of the universe does not occur.  So the files of `p`
    are the same whether `p` is generated alone or together with any other packages (given that
    packages live in distinct directories). -/
theorem pkg_independent (parses : Str → Bool) (order) (a : Args) (root : Str) (prevSum) (pkgs : List Pkg)
    (gens : List Gen) (p : Pkg)
    (hd : pkgs.Pairwise fun x y => x.dir ≠ y.dir) (hp : p ∈ pkgs)
    (hproc : processed a (if a.all then prevSum else none) p = true)
    (hok : (execute parses order a root prevSum pkgs gens).2 = none) :
    (execute parses order a root prevSum pkgs gens).1.filter (inDir p.dir)
      = (pkgExecute parses order a p gens).1 := by
  unfold execute at hok ⊢
  rw [goPkgs_decomp _ _ _ _ _ _ _ _ _ hok]
  simp only [List.nil_append, List.filter_append]
  have hperm : (sortedPkgs pkgs).Perm pkgs := by unfold sortedPkgs sortBy; exact List.mergeSort_perm _ _
  have hd' : ((sortedPkgs pkgs).filter (processed a (if a.all then prevSum else none))).Pairwise
      fun x y => x.dir ≠ y.dir := by
    apply List.Pairwise.filter
    exact (hperm.pairwise_iff (fun {x y} (h : x.dir ≠ y.dir) => h.symm)).mpr hd
  have hp' : p ∈ (sortedPkgs pkgs).filter (processed a (if a.all then prevSum else none)) :=
    List.mem_filter.mpr ⟨hperm.mem_iff.mpr hp, hproc⟩
  rw [filter_one parses order a gens p _ hd' hp']
  split <;> simp [inDir, Effect.target]

/-- two different universes containing the same package record: same files for it -/
theorem alone_or_together (parses : Str → Bool) (order) (a : Args) (root₁ root₂ : Str) (prev₁ prev₂)
    (pkgs₁ pkgs₂ : List Pkg) (gens : List Gen) (p : Pkg)
    (hd₁ : pkgs₁.Pairwise fun x y => x.dir ≠ y.dir) (hd₂ : pkgs₂.Pairwise fun x y => x.dir ≠ y.dir)
    (hp₁ : p ∈ pkgs₁) (hp₂ : p ∈ pkgs₂)
    (h₁ : processed a (if a.all then prev₁ else none) p = true)
    (h₂ : processed a (if a.all then prev₂ else none) p = true)
    (ok₁ : (execute parses order a root₁ prev₁ pkgs₁ gens).2 = none)
    (ok₂ : (execute parses order a root₂ prev₂ pkgs₂ gens).2 = none) :
    (execute parses order a root₁ prev₁ pkgs₁ gens).1.filter (inDir p.dir)
      = (execute parses order a root₂ prev₂ pkgs₂ gens).1.filter (inDir p.dir) := by
  rw [pkg_independent _ _ _ _ _ _ _ p hd₁ hp₁ h₁ ok₁, pkg_independent _ _ _ _ _ _ _ p hd₂ hp₂ h₂ ok₂]

/-- **C07 `unselected_untouched`**: whatever the run does (success or not is irrelevant for a
    package's own trace), a package run never touches a file whose name does not start with
    `<OutputFileBaseName>.` or that lies outside the package's directory. -/
theorem unselected_untouched (parses : Str → Bool) (order) (a : Args) (p : Pkg) (gens : List Gen)
    (d n : Str) (e : Effect) (he : e ∈ (pkgExecute parses order a p gens).1) (ht : e.target = some (d, n)) :
    d = p.dir ∧ (a.base ++ ['.']).isPrefixOf n = true :=
  pkgExecute_own parses order a p gens e he d n ht

/-- **C07 `exists_iff_rendered`**: after a package run without error there is a gathered list
    `ws` of (generator, text) — one entry per generator that rendered something or asked to be
    kept — such that the effects are exactly: one write per entry with non-empty text, then one
    removal per previously generated `<base>.*` file that no entry names. -/
theorem exists_iff_rendered (parses : Str → Bool) (order) (a : Args) (p : Pkg) (gens : List Gen)
    (hok : (pkgExecute parses order a p gens).2 = none) :
    ∃ ws, gather a p gens [] = .ok ws ∧
      (pkgExecute parses order a p gens).1 =
        (((order ws).filter fun w => !w.2.isEmpty).map fun w => Effect.write p.dir (fileName a.base w.1) w.1 w.2) ++
        (((p.goFiles.filter fun f => (a.base ++ ['.']).isPrefixOf f).filter
            fun f => !((order ws).map fun w => fileName a.base w.1).contains f).map (Effect.remove p.dir ·)) := by
  unfold pkgExecute at hok ⊢
  cases hg : gather a p gens [] with
  | error e => simp [hg] at hok
  | ok ws =>
    refine ⟨ws, rfl, ?_⟩
    simp only [hg] at hok ⊢
    have := writes_spec parses a p (order ws) _ [] hok
    simpa using this

#print axioms pkg_independent
#print axioms exists_iff_rendered
end Gengo.Pipeline
