import Gengo.Model.GoRt
/-! Facts about the run-time library of the translated code (`Model/GoRt`) that several `Tr` modules use; nothing here
depends on regenerated code. -/
namespace Gengo.GoRtLemmas
open Gengo Gengo.Go

/-- in a map presented without repeated keys, looking up the key of an entry gives its value -/
theorem mapGet_of_mem (m : List (Str × Str)) (hd : (m.map (·.1)).Nodup) (kv : Str × Str) (h : kv ∈ m) :
    Go.mapGet m kv.1 [] = kv.2 := by
  induction m with
  | nil => cases h
  | cons a rest ih =>
    obtain ⟨x, y⟩ := a
    simp only [List.map_cons, List.nodup_cons] at hd
    rcases List.mem_cons.mp h with rfl | h'
    · simp [Go.mapGet]
    · have hne : x ≠ kv.1 := by
        intro he
        exact hd.1 (he ▸ List.mem_map.mpr ⟨kv, h', rfl⟩)
      have : (x == kv.1) = false := by simpa using hne
      simp [Go.mapGet, this, ih hd.2 h']


end Gengo.GoRtLemmas
