import Gengo.Model.GoRt
/-! Facts about the run-time library of the translated code (`Model/GoRt`) that several `Tr` modules use; nothing here
depends on regenerated code. -/
namespace Gengo.GoRtLemmas
open Gengo Gengo.Go

/-- in a map presented without repeated keys, looking up the key of an entry gives its value -/
theorem mapGet_of_mem (m : List (Str × Str)) (hd : (m.map (·.1)).Nodup) (kv : Str × Str) (h : kv ∈ m) :
    Go.mapGet m kv.1 [] = kv.2 := by
  induction m with
  | nil => cases h
  | cons a rest ih =>
    obtain ⟨x, y⟩ := a
    simp only [List.map_cons, List.nodup_cons] at hd
    rcases List.mem_cons.mp h with rfl | h'
    · simp [Go.mapGet]
    · have hne : x ≠ kv.1 := by
        intro he
        exact hd.1 (he ▸ List.mem_map.mpr ⟨kv, h', rfl⟩)
      have : (x == kv.1) = false := by simpa using hne
      simp [Go.mapGet, this, ih hd.2 h']


/-- `m[k] = v` as seen by a lookup -/
theorem lookup_mapSet {ν : Type} (m : List (Str × ν)) (k k' : Str) (v : ν) :
    (Go.mapSet m k v).lookup k' = if k' = k then some v else m.lookup k' := by
  induction m with
  | nil =>
    by_cases h : k' = k
    · subst h; simp [Go.mapSet, List.lookup]
    · have h' : (k' == k) = false := by simpa using h
      simp [Go.mapSet, List.lookup, h, h']
  | cons kv rest ih =>
    obtain ⟨a, b⟩ := kv
    by_cases ha : a = k
    · subst ha
      by_cases h : k' = a
      · subst h; simp [Go.mapSet, List.lookup]
      · have h' : (k' == a) = false := by simpa using h
        simp [Go.mapSet, List.lookup, h, h']
    · have ha' : (a == k) = false := by simpa using ha
      by_cases h : k' = a
      · subst h
        have : ¬ k' = k := ha
        simp [Go.mapSet, List.lookup, ha', this]
      · have h' : (k' == a) = false := by simpa using h
        simp [Go.mapSet, List.lookup, ha', h', ih]

/-- `_, ok := m[k]` against `List.lookup` -/
theorem mapHas_lookup {ν : Type} (m : List (Str × ν)) (k : Str) : Go.mapHas m k = (m.lookup k).isSome := by
  induction m with
  | nil => simp [Go.mapHas, List.lookup]
  | cons a rest ih =>
    obtain ⟨x, y⟩ := a
    by_cases h : k = x
    · subst h; simp [Go.mapHas, List.lookup]
    · have h1 : (k == x) = false := by simpa using h
      have h2 : (x == k) = false := by simpa using fun e : x = k => h e.symm
      simp only [Go.mapHas] at ih
      simp [Go.mapHas, List.lookup, h1, h2, ih]

/-- `v := m[k]` against `List.lookup` -/
theorem mapGet_lookup {ν : Type} (m : List (Str × ν)) (k : Str) (z : ν) : Go.mapGet m k z = (m.lookup k).getD z := by
  induction m with
  | nil => simp [Go.mapGet, List.lookup]
  | cons a rest ih =>
    obtain ⟨x, y⟩ := a
    by_cases h : k = x
    · subst h; simp [Go.mapGet, List.lookup]
    · have h1 : (k == x) = false := by simpa using h
      have h2 : (x == k) = false := by simpa using fun e : x = k => h e.symm
      simp [Go.mapGet, List.lookup, h1, h2, ih]

end Gengo.GoRtLemmas
