import Gengo.Gen.Code.C06
import Gengo.Model.RuntimeDoc
import Gengo.Props.TrC06
/-!
`(*gengoCtx).Doc` of pkg/gengo/context.go as translated (`Gengo.Code.ctxDoc`): what every generator — and `doGenerate`
itself, for the enabling decision — gets when it asks for the tags and doc lines of a declaration.  Abstract in the
translation: the comment index (`c.universe.Package(…).Doc(pos)` is the pair `(tags0, doc0)`), the declared name, the
global and package-level tags.  The tags are the translated `merge` of the three maps (`TrC06.merge_eq`: the
declaration's own tags win over the package's, those over the global ones); the doc lines are the model's `trimDoc`
— the first-line trimming the runtimedoc model (C16) is built on.
-/
namespace Gengo.TrC16
open Gengo Gengo.Go Gengo.RuntimeDoc

/-- the doc lines as the code computes them: `strings.CutPrefix`, the whole-word test, `strings.TrimSpace` -/
def docSpec (name : Str) : List Str → List Str
  | [] => []
  | l :: ls =>
    let l' : Str :=
      if name.isPrefixOf l then
        (match l.drop name.length with
         | [] => []
         | c :: r => if c == ' ' then Go.trimSpace (c :: r) else l)
      else l
    if l'.isEmpty then ls else l' :: ls

/-- **the translated `Doc` never panics** (every index and slice expression is in range), its doc lines are `docSpec`
    and its tags the translated `merge` of globals, package tags and the declaration's own -/
theorem ctxDoc_eq (globals pkgTags tags0 : List (Str × List Str)) (doc0 : List Str) (name : Str) :
    ∃ tags, Code.merge [globals, pkgTags, tags0] = pure tags ∧
      Code.ctxDoc globals pkgTags tags0 doc0 name = pure (tags, docSpec name doc0) := by
  obtain ⟨tags, ht, _⟩ := TrC06.merge_eq globals pkgTags tags0
  refine ⟨tags, ht, ?_⟩
  unfold Code.ctxDoc
  cases doc0 with
  | nil => simp [Go.len, docSpec, ht]
  | cons l ls =>
    have hlen : ((ls.length : Int) + 1 > 0) := by omega
    have hs : ¬ ((ls.length : Int) + 1 < 1) := by omega
    by_cases hp : name.isPrefixOf l = true
    · cases hr : l.drop name.length with
      | nil =>
        simp [Go.len, Go.idx, Go.cutPrefix, hp, hr, Go.setIdx, Go.trimSpace, Go.slice, docSpec, ht, hlen, hs,
          bind, Except.bind, pure, Except.pure]
      | cons c r =>
        by_cases hc : c = ' '
        · subst hc
          by_cases he : Go.trimSpace (' ' :: r) = []
          · simp [Go.len, Go.idx, Go.cutPrefix, hp, hr, Go.setIdx, Go.slice, docSpec, ht, hlen, hs, he,
              bind, Except.bind, pure, Except.pure]
          · have hl : ¬ ((Go.trimSpace (' ' :: r)).length = 0) := by
              intro h; exact he (List.length_eq_zero_iff.mp h)
            have he' : (Go.trimSpace (' ' :: r)).isEmpty = false := by
              cases h : Go.trimSpace (' ' :: r) with
              | nil => exact absurd h he
              | cons _ _ => rfl
            simp [Go.len, Go.idx, Go.cutPrefix, hp, hr, Go.setIdx, Go.slice, docSpec, ht, hlen, hs, hl, he', he,
              bind, Except.bind, pure, Except.pure]
        · have hc' : (c == ' ') = false := by simpa using hc
          have hlne : l ≠ [] := by
            intro h; subst h; simp at hr
          have hl0 : ¬ (l.length = 0) := by
            intro h; exact hlne (List.length_eq_zero_iff.mp h)
          have hle : l.isEmpty = false := by
            cases l with
            | nil => exact absurd rfl hlne
            | cons _ _ => rfl
          simp [Go.len, Go.idx, Go.cutPrefix, hp, hr, hc', Go.slice, docSpec, ht, hlen, hs, hl0, hle,
            bind, Except.bind, pure, Except.pure]
    · have hp' : name.isPrefixOf l = false := by
        cases h : name.isPrefixOf l
        · rfl
        · exact absurd h hp
      by_cases hle : l = []
      · subst hle
        simp [Go.len, Go.idx, Go.cutPrefix, hp', Go.slice, docSpec, ht, hlen, hs, bind, Except.bind, pure, Except.pure]
      · have hl0 : ¬ (l.length = 0) := by
          intro h; exact hle (List.length_eq_zero_iff.mp h)
        have hie : l.isEmpty = false := by
          cases l with
          | nil => exact absurd rfl hle
          | cons _ _ => rfl
        simp [Go.len, Go.idx, Go.cutPrefix, hp', Go.slice, docSpec, ht, hlen, hs, hl0, hie,
          bind, Except.bind, pure, Except.pure]

/-- `docSpec` is the model's `trimDoc` (repaired variant) whenever `strings.TrimSpace` of what follows the name only has
    blanks to remove in front — which is what the comment extractor hands over: lines without trailing white space,
    written with blanks after the name -/
theorem docSpec_eq_trimDoc (name : Str) (doc : List Str)
    (h : ∀ l ls rest, doc = l :: ls → dropPrefix name l = some rest → Go.trimSpace rest = trimLeft rest) :
    docSpec name doc = trimDoc true name doc := by
  cases doc with
  | nil => rfl
  | cons l ls =>
    by_cases hp : name.isPrefixOf l = true
    · have hd : dropPrefix name l = some (l.drop name.length) := by simp [dropPrefix, hp]
      have ht := h l ls _ rfl hd
      cases hr : l.drop name.length with
      | nil => simp [docSpec, trimDoc, hp, hd, hr]
      | cons c r =>
        rw [hr] at ht
        by_cases hc : (c == ' ') = true
        · simp [docSpec, trimDoc, hp, hd, hr, hc, ht]
        · have hc' : (c == ' ') = false := by simpa using hc
          simp [docSpec, trimDoc, hp, hd, hr, hc']
    · have hp' : name.isPrefixOf l = false := by
        cases h : name.isPrefixOf l
        · rfl
        · exact absurd h hp
      simp [docSpec, trimDoc, dropPrefix, hp']

/-- **C16 / C06, of the translated code**: `Context.Doc` answers with the model's trimmed doc lines and with tags in which,
    key by key, the declaration's own value wins over the package's and that over the global one -/
theorem code_doc_model (globals pkgTags tags0 : List (Str × List Str)) (doc0 : List Str) (name : Str)
    (hg : (globals.map (·.1)).Nodup) (hp : (pkgTags.map (·.1)).Nodup) (hd : (tags0.map (·.1)).Nodup)
    (h : ∀ l ls rest, doc0 = l :: ls → dropPrefix name l = some rest → Go.trimSpace rest = trimLeft rest) :
    ∃ tags, Code.ctxDoc globals pkgTags tags0 doc0 name = .ok (tags, trimDoc true name doc0) ∧
      ∀ k, tags.lookup k = (Pipeline.merge3 globals pkgTags tags0).lookup k := by
  obtain ⟨tags, ht, hc⟩ := ctxDoc_eq globals pkgTags tags0 doc0 name
  obtain ⟨r, hr, hl⟩ := TrC06.merge_eq_merge3 globals pkgTags tags0 hg hp hd
  have : tags = r := by
    have := ht.symm.trans hr
    simpa [pure, Except.pure] using this
  subst this
  exact ⟨tags, by rw [hc, docSpec_eq_trimDoc name doc0 h]; rfl, hl⟩

/-- non-vacuity: the name as a word of its own goes, the name as the prefix of a longer word stays, a line that is only
    the name is dropped -/
example : Code.ctxDoc [] [] [] ["Thing is  a thing".toList, "second".toList] "Thing".toList
    = .ok ([], ["is  a thing".toList, "second".toList]) := by rfl
example : Code.ctxDoc [] [] [] ["Things are".toList] "Thing".toList = .ok ([], ["Things are".toList]) := by rfl
example : Code.ctxDoc [] [] [] ["Thing".toList, "second".toList] "Thing".toList = .ok ([], ["second".toList]) := by rfl

#print axioms ctxDoc_eq
#print axioms docSpec_eq_trimDoc
#print axioms code_doc_model
end Gengo.TrC16
