import Gengo.Props.C14c
namespace Gengo.Resolver

/-! ### C14 `literal_exact` for the whole of `ResultsOf` -/

/-- the visits table marks exactly the positions in `done` for function `f` -/
def MarkedExactly (vs : Visits) (f n : Nat) (done : List Nat) : Prop :=
  (done = [] ∧ vs.lookup f = none) ∨
  (∃ marks, vs.lookup f = some marks ∧ marks.length = n ∧ ∀ i, i < n → marks.getD i false = decide (i ∈ done))

theorem lookup_setMark_self (vs : Visits) (f : Nat) (m : List Bool) : (setMark vs f m).lookup f = some m := by
  simp [lookup_setMark]

theorem getD_set (l : List Bool) (a i : Nat) (ha : a < l.length) :
    (l.set a true).getD i false = if i = a then true else l.getD i false := by
  simp only [List.getD_eq_getElem?_getD, List.getElem?_set]
  by_cases h : a = i
  · subst h; simp [ha]
  · have : ¬ i = a := fun e => h e.symm
    simp [h, this]

theorem visited_unmarked (vs : Visits) (f a n : Nat) (done : List Nat) (ha : a < n) (hnd : a ∉ done)
    (h : MarkedExactly vs f n done) :
    (visited true vs f a n).1 = false ∧ MarkedExactly (visited true vs f a n).2 f n (a :: done) := by
  rcases h with ⟨hd, hl⟩ | ⟨marks, hl, hlen, hm⟩
  · subst hd
    have hv : visited true vs f a n = (false, setMark vs f ((List.replicate n false).set a true)) := by
      simp [visited, hl]
    rw [hv]
    refine ⟨rfl, Or.inr ⟨_, lookup_setMark_self _ _ _, by simp, ?_⟩⟩
    intro i hi
    rw [getD_set _ a i (by simpa using ha)]
    by_cases hia : i = a
    · simp [hia]
    · simp [hia, List.getD_eq_getElem?_getD, hi]
  · have hfa : marks.getD a false = false := by rw [hm a ha]; simpa using hnd
    have hv : visited true vs f a n = (false, setMark vs f (marks.set a true)) := by
      have hfa' : marks[a]?.getD false = false := by simpa [List.getD_eq_getElem?_getD] using hfa
      simp [visited, hl, hfa']
    rw [hv]
    refine ⟨rfl, Or.inr ⟨_, lookup_setMark_self _ _ _, by simpa using hlen, ?_⟩⟩
    intro i hi
    rw [getD_set _ a i (by omega)]
    by_cases hia : i = a
    · simp [hia]
    · have h2 := hm i hi
      simp only [List.getD_eq_getElem?_getD] at h2
      simp [hia, h2]

/-- what `ResultsOf` reports for position `a` of a literal-only function -/
def expected (fn : Func) (a : Nat) : List Res :=
  let l := fn.returns.flatMap (litAt · a)
  if l.isEmpty then [Res.ty ((fn.results[a]?.map (·.name)).getD [])] else l

theorem resultsOfAux_literal (p : Prog) (fuel f : Nat) (fn : Func) (hfn : p[f]? = some fn) (hl : LiteralOnly fn) :
    ∀ (as done : List Nat) (vs : Visits) (acc : List (List Res)),
      MarkedExactly vs f fn.results.length done → (∀ a ∈ as, a < fn.results.length ∧ a ∉ done) → as.Nodup →
      resultsOfAux p true (fuel + 1) f fn as vs acc = some (acc ++ as.map (expected fn)) := by
  intro as
  induction as with
  | nil => intro done vs acc _ _ _; simp [resultsOfAux]
  | cons a as ih =>
    intro done vs acc hm hall hnd
    have ha := hall a (by simp)
    obtain ⟨hun, hm'⟩ := visited_unmarked vs f a fn.results.length done ha.1 ha.2 hm
    simp only [resultsOfAux, funcAt_literal p fuel f a fn hfn hl ha.1 vs hun]
    rw [ih (a :: done) _ _ hm' ?_ (List.nodup_cons.mp hnd).2]
    · simp [expected, List.append_assoc]
    · intro b hb
      refine ⟨(hall b (by simp [hb])).1, ?_⟩
      simp only [List.mem_cons, not_or]
      exact ⟨fun e => (List.nodup_cons.mp hnd).1 (e ▸ hb), (hall b (by simp [hb])).2⟩

/-- **C14 `literal_exact`**: for a function all of whose `return`s list one literal per result,
    `ResultsOf` reports, per declared result in order, exactly the literal values written at that
    position of each `return` in source order (the declared type when there is no `return`). -/
theorem literal_exact (p : Prog) (fuel f : Nat) (fn : Func) (hfn : p[f]? = some fn) (hl : LiteralOnly fn) :
    resultsOf p true (fuel + 1) f = some ((List.range fn.results.length).map (expected fn)) := by
  unfold resultsOf
  simp only [hfn]
  have := resultsOfAux_literal p fuel f fn hfn hl (List.range fn.results.length) [] [] []
    (Or.inl ⟨rfl, rfl⟩) (by intro a ha; exact ⟨List.mem_range.mp ha, by simp⟩) List.nodup_range
  simpa using this

#print axioms literal_exact
end Gengo.Resolver
