import Gengo.Props.Pipe3
namespace Gengo.Pipeline
open Gengo.Tags

/-! ### C06 `defer_order` -/

/-- which method, if any, `doGenerate` calls for a table entry -/
def handler (a : Args) (p : Pkg) (g : Gen) (t : TypeObj) : Option (g.σ → Str → TypeObj → g.σ × Reaction) :=
  let en := isEnabled g.name (merge3 a.globals p.pkgTags t.tags)
  match t.kind with
  | .named => if en then some g.onType else none
  | .alias => if en then g.onAlias else none
  | _ => none

/-- the generator's reactions, in call order (the generator is a state machine; nothing else) -/
def reactions (a : Args) (p : Pkg) (g : Gen) : List TypeObj → g.σ → List Reaction
  | [], _ => []
  | t :: ts, st =>
    match handler a p g t with
    | none => reactions a p g ts st
    | some f => (f st p.path t).2 :: reactions a p g ts (f st p.path t).1

theorem dispatch_skip (a : Args) (p : Pkg) (g : Gen) (t : TypeObj) (ts : List TypeObj) (s : GState g)
    (h : handler a p g t = none) : dispatch a p g (t :: ts) s = dispatch a p g ts s := by
  simp only [dispatch]
  unfold handler at h
  cases hk : t.kind <;> simp only [hk] at h ⊢
  · split at h <;> simp_all
  · split at h
    · rename_i hen; simp only [hen, if_true]; simp only [h]
    · rename_i hen; simp [hen]

theorem dispatch_call (a : Args) (p : Pkg) (g : Gen) (t : TypeObj) (ts : List TypeObj) (s : GState g)
    (f) (h : handler a p g t = some f) :
    ∃ named : Bool,
    dispatch a p g (t :: ts) s =
      if (f s.st p.path t).2.verdict == .fail then .error (.generate g.name p.path)
      else dispatch a p g ts { st := (f s.st p.path t).1, body := s.body ++ (f s.st p.path t).2.renders,
                               defers := s.defers ++ (f s.st p.path t).2.defers,
                               ignore := s.ignore || (named && (f s.st p.path t).2.verdict == .ignore),
                               calls := s.calls ++ [(t.name, !named)] } := by
  simp only [dispatch]
  unfold handler at h
  cases hk : t.kind <;> simp only [hk] at h ⊢
  · split at h
    · rename_i hen
      cases h
      exact ⟨true, by simp only [hen, if_true]⟩
    · cases h
  · split at h
    · rename_i hen
      refine ⟨false, ?_⟩
      simp only [hen, if_true, h]
    · cases h
  · cases h
  · cases h

/-- **`defer_order`, first half**: when the dispatch loop ends without error, the context holds
    exactly the rendered fragments and exactly the registered callbacks of the calls made, each
    once, in call order; no call failed. -/
theorem dispatch_log (a : Args) (p : Pkg) (g : Gen) (ts : List TypeObj) :
    ∀ (s s' : GState g), dispatch a p g ts s = .ok s' →
      s'.body = s.body ++ (reactions a p g ts s.st).flatMap (·.renders) ∧
      s'.defers = s.defers ++ (reactions a p g ts s.st).flatMap (·.defers) ∧
      ∀ r ∈ reactions a p g ts s.st, r.verdict ≠ .fail := by
  induction ts with
  | nil => intro s s' h; simp [dispatch] at h; subst h; simp [reactions]
  | cons t ts ih =>
    intro s s' h
    cases hh : handler a p g t with
    | none =>
      rw [dispatch_skip a p g t ts s hh] at h
      simpa [reactions, hh] using ih s s' h
    | some f =>
      obtain ⟨named, hd⟩ := dispatch_call a p g t ts s f hh
      rw [hd] at h
      split at h
      · cases h
      · rename_i hv
        obtain ⟨h1, h2, h3⟩ := ih _ _ h
        simp only [reactions, hh, List.flatMap_cons]
        refine ⟨by simp [h1], by simp [h2], ?_⟩
        intro r hr
        rcases List.mem_cons.mp hr with rfl | hr
        · simpa using hv
        · exact h3 r hr

theorem runDefers_spec (p : Pkg) (g : Gen) (ds : List DeferCb) :
    ∀ body body', runDefers p g ds body = .ok body' →
      body' = body ++ ds.flatMap (·.renders) ∧ ∀ d ∈ ds, d.fails = false := by
  induction ds with
  | nil => intro body body' h; simp [runDefers] at h; subst h; simp
  | cons d ds ih =>
    intro body body' h
    simp only [runDefers] at h
    split at h
    · cases h
    · rename_i hf
      obtain ⟨h1, h2⟩ := ih _ _ h
      refine ⟨by simp [h1], ?_⟩
      intro d' hd'
      rcases List.mem_cons.mp hd' with rfl | hd'
      · simpa using hf
      · exact h2 d' hd'

/-- **C06 `defer_order`.**  If generator `g` produces a file for package `p`, its text is: the
    fragments rendered by the `GenerateType`/`GenerateAliasType` calls in call order, followed by
    what the registered callbacks render — every callback of every call exactly once, in
    registration order, after the last type call and before anything is written (the text is the
    only thing the write phase sees). -/
theorem defer_order (a : Args) (p : Pkg) (g : Gen) (w : Str × Str) (h : runGen a p g = .ok (some w)) :
    let rs := reactions a p g (sortedTypes p.types) g.new
    w = (g.name, (rs.flatMap (·.renders) ++ (rs.flatMap (·.defers)).flatMap (·.renders)).flatten) ∧
    (∀ d ∈ rs.flatMap (·.defers), d.fails = false) ∧ (∀ r ∈ rs, r.verdict ≠ .fail) := by
  unfold runGen at h
  simp only [bind, Except.bind] at h
  split at h
  · cases h
  · rename_i s hs
    split at h
    · cases h
    · rename_i body hb
      obtain ⟨h1, h2, h3⟩ := dispatch_log a p g _ _ _ hs
      obtain ⟨h4, h5⟩ := runDefers_spec p g _ _ _ hb
      simp only [List.nil_append] at h1 h2
      rw [h2] at h4 h5
      rw [h1] at h4
      split at h
      · cases h
      · simp only [pure, Except.pure] at h
        cases h
        exact ⟨by rw [h4], h5, h3⟩

#print axioms defer_order
end Gengo.Pipeline
