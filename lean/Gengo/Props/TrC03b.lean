import Gengo.Gen.Code.C03
import Gengo.Model.Tracker
import Gengo.Props.TrC03
import Gengo.Props.GoRtLemmas
import Gengo.Props.C03a
/-!
`(*defaultImportTracker).add` of pkg/namer/import_tracker.go as translated (`Gengo.Code.trackerAdd`) against the model
`Tracker.add` the C03 theorems are about (unique, valid, unreserved names: `Props/C03a…d`).

The translation reads the receiver as a value of the model's own structure `Tracker` (its two maps) and returns its final
value; the closure `bind` becomes a definition that returns its answer together with the tracker; the candidate loop
ranges over `len(parts)`, the fallback loop `for i := 1; ; i++` runs on fuel.  Abstract: `token.IsIdentifier`
(`isIdent`), the table of standard-library names (`stdMap`), the `strings.Map` that sanitises the last candidate
(`sanitize`), the test that puts `pkg` in front (`needsPkg`), `strconv.Itoa` (`itoa`), and `toLocalName` (`toLN`, as in
`TrC03`).
-/
namespace Gengo.TrC03b
open Gengo Gengo.Go Gengo.Tracker Gengo.GoRtLemmas

/-- the tracker after `bind` has succeeded for `n` -/
def bound (t : Tracker) (p n : Str) : Tracker := ⟨Go.mapSet t.p2n p n, Go.mapSet t.n2p n p⟩

/-- the model's configuration as the code has it -/
def cfgOf (isIdent : Str → Bool) (stdMap : List (Str × Str)) (cands : List Str) (fb : Nat → Str) : Cfg where
  cands := fun _ => cands
  reserved := fun n p => match stdMap.lookup n with
    | some q => q != p
    | none => false
  stdNames := stdMap.map (·.1)
  valid := isIdent
  useFallback := true
  fallback := fun _ i => fb i

theorem bind_spec (toLN isIdent stdMap sanitize needsPkg itoa fuel) (cands : List Str) (fb : Nat → Str)
    (path : Str) (t : Tracker) (n : Str) :
    Code.trackerAdd.bind toLN isIdent stdMap sanitize needsPkg itoa fuel path t n
      = pure (free (cfgOf isIdent stdMap cands fb) t path n,
              if free (cfgOf isIdent stdMap cands fb) t path n then bound t path n else t) := by
  obtain ⟨p2n, n2p⟩ := t
  unfold Code.trackerAdd.bind
  by_cases hi : isIdent n = true
  · cases hs : stdMap.lookup n with
    | none =>
      cases hn : n2p.lookup n with
      | none => simp [hi, mapHas_lookup, mapGet_lookup, hs, hn, free, cfgOf, bound]
      | some q => simp [hi, mapHas_lookup, mapGet_lookup, hs, hn, free, cfgOf, bound]
    | some q =>
      by_cases hq : q = path
      · subst hq
        cases hn : n2p.lookup n with
        | none => simp [hi, mapHas_lookup, mapGet_lookup, hs, hn, free, cfgOf, bound]
        | some q' => simp [hi, mapHas_lookup, mapGet_lookup, hs, hn, free, cfgOf, bound]
      · have hq' : (q != path) = true := by simpa using hq
        simp [hi, mapHas_lookup, mapGet_lookup, hs, free, cfgOf, hq, hq']
  · have hi' : isIdent n = false := by simpa using hi
    simp [hi', free, cfgOf]

/-- the candidate loop: the first free candidate is bound and the function returns; none free: on to the fallback -/
theorem loop1_spec (toLN isIdent stdMap sanitize needsPkg itoa fuel) (cands : List Str) (fb : Nat → Str)
    (path : Str) (parts : List Str) (cand : Int → Str) (t : Tracker) (is : List Int)
    (hc : ∀ i ∈ is, Code.localName toLN parts (i + 1) = pure (cand i)) :
    Code.trackerAdd.loop1 toLN isIdent stdMap sanitize needsPkg itoa fuel path parts is t
      = pure (match (is.map cand).find? (free (cfgOf isIdent stdMap cands fb) t path) with
              | some n => .ret (bound t path n)
              | none => .next t) := by
  induction is with
  | nil => simp [Code.trackerAdd.loop1]
  | cons i rest ih =>
    have h0 := hc i (by simp)
    have hr : ∀ j ∈ rest, Code.localName toLN parts (j + 1) = pure (cand j) := fun j hj => hc j (by simp [hj])
    unfold Code.trackerAdd.loop1
    simp only [h0, pure_bind, bind_spec toLN isIdent stdMap sanitize needsPkg itoa fuel cands fb]
    by_cases hf : free (cfgOf isIdent stdMap cands fb) t path (cand i) = true
    · simp [hf]
    · have hf' : free (cfgOf isIdent stdMap cands fb) t path (cand i) = false := by simpa using hf
      simp [hf', ih hr]

/-- the fallback loop on fuel: the model's `firstFree` over the same names, started one lower (the code counts from 1) -/
theorem loop2_spec (toLN isIdent stdMap sanitize needsPkg itoa fuel0) (cands : List Str)
    (path base : Str) (t : Tracker) (fuel j : Nat) :
    Code.trackerAdd.loop2 toLN isIdent stdMap sanitize needsPkg itoa fuel0 path base fuel t ((j : Int) + 1)
      = match firstFree (cfgOf isIdent stdMap cands (fun i => base ++ itoa ((i : Int) + 1))) t path fuel j with
        | some n => pure (.ret (bound t path n))
        | none => throw .fuel := by
  induction fuel generalizing j with
  | zero => simp [Code.trackerAdd.loop2, firstFree]
  | succ k ih =>
    unfold Code.trackerAdd.loop2
    simp only [if_true, bind_spec toLN isIdent stdMap sanitize needsPkg itoa fuel0 cands
      (fun i => base ++ itoa ((i : Int) + 1)), pure_bind, firstFree]
    by_cases hf : free (cfgOf isIdent stdMap cands (fun i => base ++ itoa ((i : Int) + 1))) t path (base ++ itoa ((j : Int) + 1)) = true
    · simp [hf, cfgOf] at *
    · have hf' : free (cfgOf isIdent stdMap cands (fun i => base ++ itoa ((i : Int) + 1))) t path (base ++ itoa ((j : Int) + 1)) = false := by
        simpa using hf
      have hj : ((j : Int) + 1 + 1) = (((j + 1 : Nat) : Int) + 1) := by omega
      simp only [hf', Bool.false_eq_true, if_false, hj]
      rw [ih (j + 1)]
      simp [cfgOf, hf'] at *

theorem strSplitAux_ne_nil (sep : Str) (skip : Nat) (s cur : Str) : Go.strSplitAux sep skip s cur ≠ [] := by
  induction s generalizing skip cur with
  | nil => cases skip <;> simp [Go.strSplitAux]
  | cons c cs ih =>
    cases skip with
    | succ k => simp only [Go.strSplitAux]; exact ih k cur
    | zero =>
      simp only [Go.strSplitAux]
      split
      · simp
      · exact ih 0 (c :: cur)

def candsOf (ln : List Str → Str) (path : Str) : List Str :=
  (List.range (Go.strSplit path ['/']).length).map fun k => ln (TrC03.parts (Go.strSplit path ['/']) (k + 1))

def baseOf (ln : List Str → Str) (sanitize : Str → Str) (needsPkg : Str → Bool) (path : Str) : Str :=
  let b := sanitize (ln (TrC03.parts (Go.strSplit path ['/']) (Go.strSplit path ['/']).length))
  if needsPkg b then ['p', 'k', 'g'] ++ b else b

/-- the model's configuration for one `add path` of the code -/
def cfgFor (ln : List Str → Str) (isIdent : Str → Bool) (stdMap : List (Str × Str)) (sanitize : Str → Str)
    (needsPkg : Str → Bool) (itoa : Int → Str) (path : Str) : Cfg :=
  cfgOf isIdent stdMap (candsOf ln path) (fun i => baseOf ln sanitize needsPkg path ++ itoa ((i : Int) + 1))

/-- **the translated `add` is the model's `choose` followed by the two map writes**, with the fuel the model searches
    with; running out of it (`Err.fuel`) is what the model's `none` is -/
theorem trackerAdd_eq (ln : List Str → Str) (toLN : List Str → M Str) (hLN : ∀ ps, toLN ps = pure (ln ps))
    (isIdent : Str → Bool) (stdMap : List (Str × Str)) (sanitize : Str → Str) (needsPkg : Str → Bool) (itoa : Int → Str)
    (t : Tracker) (path : Str) :
    Code.trackerAdd toLN isIdent stdMap sanitize needsPkg itoa
        (t.n2p.length + (cfgFor ln isIdent stdMap sanitize needsPkg itoa path).stdNames.length + 1) t path
      = if (t.p2n.lookup path).isSome then pure t
        else match choose (cfgFor ln isIdent stdMap sanitize needsPkg itoa path) t path with
          | some n => pure (bound t path n)
          | none => throw .fuel := by
  obtain ⟨p2n, n2p⟩ := t
  unfold Code.trackerAdd
  simp only [mapHas_lookup]
  cases hb : p2n.lookup path with
  | some q => simp
  | none =>
    simp only [Option.isSome_none, Bool.false_eq_true, if_false]
    have hne : Go.strSplit path ['/'] ≠ [] := strSplitAux_ne_nil _ _ _ _
    have hlen : 1 ≤ (Go.strSplit path ['/']).length := by
      cases h : Go.strSplit path ['/'] with
      | nil => exact absurd h hne
      | cons _ _ => simp
    -- the candidates
    have hc : ∀ i ∈ Go.intRange (Go.len (Go.strSplit path ['/'])),
        Code.localName toLN (Go.strSplit path ['/']) (i + 1)
          = pure ((fun i : Int => ln (TrC03.parts (Go.strSplit path ['/']) (i.toNat + 1))) i) := by
      intro i hi
      simp only [Go.intRange, Go.len, List.mem_map, List.mem_range] at hi
      obtain ⟨k, _, rfl⟩ := hi
      have := TrC03.localName_eq toLN (Go.strSplit path ['/']) (k + 1) (by omega)
      have hk : (Int.ofNat k + 1) = ((k + 1 : Nat) : Int) := by simp
      rw [hk, this, hLN]
      simp
    rw [loop1_spec toLN isIdent stdMap sanitize needsPkg itoa _ (candsOf ln path)
      (fun i => baseOf ln sanitize needsPkg path ++ itoa ((i : Int) + 1)) path _ _ ⟨p2n, n2p⟩ _ hc]
    have hmap : (Go.intRange (Go.len (Go.strSplit path ['/']))).map
        (fun i : Int => ln (TrC03.parts (Go.strSplit path ['/']) (i.toNat + 1))) = candsOf ln path := by
      simp [Go.intRange, Go.len, candsOf, List.map_map, Function.comp_def]
    rw [hmap]
    simp only [pure_bind, choose, cfgFor, cfgOf]
    cases hfind : (candsOf ln path).find? (free (cfgOf isIdent stdMap (candsOf ln path)
        (fun i => baseOf ln sanitize needsPkg path ++ itoa ((i : Int) + 1))) ⟨p2n, n2p⟩ path) with
    | some n => simp [cfgOf] at hfind ⊢; simp [hfind]
    | none =>
      have hlast := TrC03.localName_eq toLN (Go.strSplit path ['/']) (Go.strSplit path ['/']).length hlen
      simp only [cfgOf] at hfind
      simp only [hfind, Go.len, Int.ofNat_eq_natCast, hlast, hLN, pure_bind]
      have h1 : (1 : Int) = ((0 : Nat) : Int) + 1 := by simp
      rw [h1, loop2_spec toLN isIdent stdMap sanitize needsPkg itoa _ (candsOf ln path) path _ ⟨p2n, n2p⟩ _ 0]
      simp only [baseOf, cfgOf, List.length_map, List.cons_append, List.nil_append, if_true]
      have h0 : ((0 : Nat) : Int) + 1 = 1 := by simp
      simp only [h0]
      generalize firstFree _ _ _ _ _ = r
      cases r <;> rfl

/-- two trackers that answer every lookup alike (the code writes into its maps in place, the model conses) -/
def LookupEq (a b : Tracker) : Prop := ∀ k, a.p2n.lookup k = b.p2n.lookup k ∧ a.n2p.lookup k = b.n2p.lookup k

theorem lookup_cons (m : List (Str × Str)) (k v k' : Str) :
    List.lookup k' ((k, v) :: m) = if k' = k then some v else m.lookup k' := by
  by_cases h : k' = k
  · subst h; simp [List.lookup]
  · have h' : (k' == k) = false := by simpa using h
    simp [List.lookup, h, h']

theorem bound_lookupEq (t : Tracker) (p n : Str) :
    LookupEq (bound t p n) ⟨(p, n) :: t.p2n, (n, p) :: t.n2p⟩ := by
  intro k
  simp only [bound, lookup_mapSet, lookup_cons, and_self]

/-- the hypotheses of the C03 theorems (`FallbackOK`) for the configuration of the code: the fallback names are distinct
    and identifiers — facts about `strconv.Itoa` and the sanitiser, proved for their models in `Props/C03c` -/
theorem fallbackOK_for (ln isIdent stdMap sanitize needsPkg itoa) (path : Str)
    (hinj : ∀ i j : Nat, itoa ((i : Int) + 1) = itoa ((j : Int) + 1) → i = j)
    (hvalid : ∀ i : Nat, isIdent (baseOf ln sanitize needsPkg path ++ itoa ((i : Int) + 1)) = true) :
    FallbackOK (cfgFor ln isIdent stdMap sanitize needsPkg itoa path) where
  on := rfl
  inj := by
    intro p i j h
    simp only [cfgFor, cfgOf] at h
    exact hinj i j (List.append_cancel_left h)
  valid := by intro p i; exact hvalid i
  std := by
    intro n p h
    simp only [cfgFor, cfgOf] at h ⊢
    cases hl : stdMap.lookup n with
    | none => simp [hl] at h
    | some q =>
      clear h
      induction stdMap with
      | nil => simp [List.lookup] at hl
      | cons a rest ih =>
        obtain ⟨x, y⟩ := a
        by_cases hx : n = x
        · subst hx; simp
        · have hx' : (n == x) = false := by simpa using hx
          simp only [List.lookup, hx'] at hl
          simp only [List.map_cons, List.mem_cons]
          exact Or.inr (ih hl)

/-- **C03, of the translated code**: `add` returns (no panic, the fuel suffices), and the tracker it leaves answers every
    lookup like the model's `Tracker.add` — about which `Props/C03a…d` prove that names are unique, valid, unreserved
    and that every added path is bound -/
theorem code_add_refines (ln : List Str → Str) (toLN : List Str → M Str) (hLN : ∀ ps, toLN ps = pure (ln ps))
    (isIdent : Str → Bool) (stdMap : List (Str × Str)) (sanitize : Str → Str) (needsPkg : Str → Bool) (itoa : Int → Str)
    (t : Tracker) (path : Str)
    (hok : FallbackOK (cfgFor ln isIdent stdMap sanitize needsPkg itoa path)) :
    ∃ r, Code.trackerAdd toLN isIdent stdMap sanitize needsPkg itoa
        (t.n2p.length + (cfgFor ln isIdent stdMap sanitize needsPkg itoa path).stdNames.length + 1) t path = .ok r ∧
      LookupEq r (add (cfgFor ln isIdent stdMap sanitize needsPkg itoa path) t path) := by
  rw [trackerAdd_eq ln toLN hLN]
  have hb := add_binds _ hok t path
  unfold add at hb ⊢
  cases hl : t.p2n.lookup path with
  | some q => exact ⟨t, by simp [pure, Except.pure], fun k => ⟨rfl, rfl⟩⟩
  | none =>
    simp only [hl, Option.isSome_none, Bool.false_eq_true, if_false] at hb ⊢
    cases hch : choose (cfgFor ln isIdent stdMap sanitize needsPkg itoa path) t path with
    | none => simp [hch, hl] at hb
    | some n => exact ⟨bound t path n, rfl, bound_lookupEq t path n⟩

/-- non-vacuity: the last segment is free and is bound; when it is taken, two segments; an identifier test that rejects
    every candidate sends the code to the fallback -/
example : Code.trackerAdd (fun ps => pure ps.flatten) (fun _ => true) [] id (fun _ => false) (fun _ => ['1']) 3
    ⟨[], []⟩ "a/b".toList = .ok ⟨[("a/b".toList, "b".toList)], [("b".toList, "a/b".toList)]⟩ := by rfl
example : Code.trackerAdd (fun ps => pure ps.flatten) (fun _ => true) [] id (fun _ => false) (fun _ => ['1']) 3
    ⟨[("x/b".toList, "b".toList)], [("b".toList, "x/b".toList)]⟩ "a/b".toList
    = .ok ⟨[("x/b".toList, "b".toList), ("a/b".toList, "ab".toList)], [("b".toList, "x/b".toList), ("ab".toList, "a/b".toList)]⟩ := by rfl
example : Code.trackerAdd (fun ps => pure ps.flatten) (fun n => n == "pkgab1".toList) [] id (fun _ => true) (fun _ => ['1']) 3
    ⟨[], []⟩ "a/b".toList = .ok ⟨[("a/b".toList, "pkgab1".toList)], [("pkgab1".toList, "a/b".toList)]⟩ := by rfl

#print axioms trackerAdd_eq
#print axioms code_add_refines
#print axioms bind_spec
#print axioms loop1_spec
#print axioms loop2_spec
end Gengo.TrC03b
