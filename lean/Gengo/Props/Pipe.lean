import Gengo.Model.Pipeline
namespace Gengo.Pipeline
open Gengo.Tags

def Effect.isSum : Effect → Bool
  | .writeSum .. => true
  | _ => false

theorem writes_no_sum (parses : Str → Bool) (a : Args) (p : Pkg) (ws : List (Str × Str)) :
    ∀ (stale : List Str) (eff : List Effect), (∀ e ∈ eff, e.isSum = false) →
      ∀ e ∈ (writes parses a p ws stale eff).1, e.isSum = false := by
  induction ws with
  | nil =>
    intro stale eff heff e he
    simp [writes] at he
    rcases he with he | ⟨x, _, rfl⟩
    · exact heff e he
    · rfl
  | cons w rest ih =>
    intro stale eff heff
    obtain ⟨gn, text⟩ := w
    simp only [writes]
    split
    · exact ih _ _ heff
    · split
      · apply ih
        intro e he
        simp at he
        rcases he with he | rfl
        · exact heff e he
        · rfl
      · exact heff

/-- effects of one package never include the sum file -/
theorem pkgExecute_no_sum (parses : Str → Bool) (order) (a : Args) (p : Pkg) (gens : List Gen) :
    ∀ e ∈ (pkgExecute parses order a p gens).1, e.isSum = false := by
  unfold pkgExecute
  split
  · simp
  · exact writes_no_sum parses a p _ _ [] (by simp)

theorem goPkgs_sum_last (parses : Str → Bool) (order) (a : Args) (root : Str) (prev) (all : List Pkg)
    (gens : List Gen) (ps : List Pkg) :
    ∀ (eff : List Effect), (∀ x ∈ eff, x.isSum = false) →
      ∀ pre e post, (goPkgs parses order a root prev all gens ps eff).1 = pre ++ e :: post →
        e.isSum = true → post = [] ∧ (goPkgs parses order a root prev all gens ps eff).2 = none := by
  induction ps with
  | nil =>
    intro eff heff pre e post h he
    simp only [goPkgs] at h ⊢
    split at h
    · rename_i hall
      simp only [hall, if_true]
      -- e must be the appended writeSum
      have hmem : e ∈ eff ∨ e = Effect.writeSum root (SumFile.bytes (all.map fun p => (p.path, p.hash))) := by
        have : e ∈ eff ++ [Effect.writeSum root (SumFile.bytes (all.map fun p => (p.path, p.hash)))] := by
          simp only at h; rw [h]; simp
        simpa using this
      rcases hmem with h1 | h1
      · rw [heff e h1] at he; cases he
      · -- post = [] : `e` is not in `eff`, so it is the last element
        refine ⟨?_, trivial⟩
        simp only at h
        have hlen := congrArg List.length h
        simp at hlen
        -- pre has length eff.length: otherwise e would be in eff
        rcases List.append_eq_append_iff.mp h with ⟨l, h2, h3⟩ | ⟨l, h2, h3⟩
        · cases l with
          | nil => simp at h3; exact h3.2
          | cons x l' => simp at h3
        · cases l with
          | nil => simp at h3; exact h3.2
          | cons x l' =>
            simp at h3
            have : e ∈ eff := by rw [h2]; simp [h3.1]
            rw [heff e this] at he; cases he
    · have : e ∈ eff := by simp only at h; rw [h]; simp
      rw [heff e this] at he; cases he
  | cons p ps ih =>
    intro eff heff pre e post h he
    simp only [goPkgs] at h ⊢
    split at h
    · rename_i hc; simp only [hc, if_true]; exact ih eff heff pre e post h he
    · rename_i hc
      simp only [hc]
      split at h
      · rename_i hc2; simp only [hc2, if_true]; exact ih eff heff pre e post h he
      · rename_i hc2
        simp only [hc2]
        have hp := pkgExecute_no_sum parses order a p gens
        split at h
        · rename_i e' err heq
          have : e ∈ eff ++ e' := by
            have h' : eff ++ e' = pre ++ e :: post := h
            rw [h']; simp
          simp at this
          rcases this with h1 | h1
          · rw [heff e h1] at he; cases he
          · have := hp e (by rw [heq]; exact h1); rw [this] at he; cases he
        · rename_i e' heq
          apply ih (eff ++ e') _ pre e post h he
          intro x hx; simp at hx
          rcases hx with hx | hx
          · exact heff x hx
          · exact hp x (by rw [heq]; exact hx)

/-- C02 `sum_last` (⇒ `fail_no_sum`, `crash_keeps_sum`): for every universe, argument set,
    generator set, parse oracle and visiting order, a `writeSum` effect can only be the very
    last effect of the trace, and then the run returned no error. -/
theorem execute_sum_last (parses : Str → Bool) (order) (a : Args) (root : Str) (prev) (pkgs : List Pkg)
    (gens : List Gen) (pre : List Effect) (e : Effect) (post : List Effect)
    (h : (execute parses order a root prev pkgs gens).1 = pre ++ e :: post) (he : e.isSum = true) :
    post = [] ∧ (execute parses order a root prev pkgs gens).2 = none :=
  goPkgs_sum_last parses order a root _ pkgs gens _ [] (by simp) pre e post h he

#print axioms execute_sum_last
end Gengo.Pipeline
