import Gengo.Props.C09c
import Gengo.Model.Snippet
import Gengo.Props.C09e
namespace Gengo.Template

/-! ### C09: nested snippets — templates whose arguments are snippets, `Snippets`/`Fragments` -/

/-- **nested templates**: rendering `T(format, bindings…)` is substituting, into the tokens of the
    format (leading newlines dropped), the *complete renderings of the bound snippets* — whatever
    they are (templates again, sequences, leaves).  The inner text reaches the output through
    `subst` only: it is never tokenized, at any nesting depth. -/
theorem renderS_tmpl (f6 : Bool) (fmt : List Char) (names : List (List Char)) (args : List Snip) :
    renderS true f6 (.tmpl fmt names args) =
      subst (envList true f6 names args) (tokenize ((fmt.dropWhile (· == '\n')).length + 1) (fmt.dropWhile (· == '\n'))) := by
  simp only [renderS, render]
  exact scan_eq_subst _ _ _ (by omega)

/-- **C09 `seq_spec`**: `Snippets`/`Fragments` concatenate the renderings of the non-nil parts in
    order (when each of them renders) -/
theorem seq_spec (f5 f6 : Bool) (parts : List Snip) (h : ∀ s ∈ parts, s.isNil = false → (renderS f5 f6 s).isSome = true) :
    renderS f5 f6 (.seq parts) = some ((parts.filter (!·.isNil)).map fun s => (renderS f5 f6 s).getD []).flatten := by
  simp only [renderS]
  induction parts with
  | nil => simp [renderSeq]
  | cons s ss ih =>
    have ih' := ih (fun x hx => h x (by simp [hx]))
    simp only [renderSeq]
    by_cases hn : s.isNil = true
    · simp [hn, ih']
    · have hn' : s.isNil = false := by simpa using hn
      obtain ⟨t, ht⟩ := Option.isSome_iff_exists.mp (h s (by simp) hn')
      simp [hn', ht, ih']

/-- a part that panics makes the sequence panic — unless it is nil, then it is never rendered -/
theorem seq_panics (f5 f6 : Bool) (s : Snip) (ss : List Snip) (hn : s.isNil = false) (hp : renderS f5 f6 s = none) :
    renderS f5 f6 (.seq (s :: ss)) = none := by
  simp [renderS, renderSeq, hn, hp]

/-- a name is unbound iff no binding mentions it (a placeholder for it then panics: `flush`) -/
theorem envList_none (f5 f6 : Bool) (names : List (List Char)) (args : List Snip) (hlen : names.length = args.length) (k : List Char) :
    envList f5 f6 names args k = none ↔ k ∉ names := by
  induction names generalizing args with
  | nil => cases args <;> simp [envList]
  | cons n ns ih =>
    cases args with
    | nil => simp at hlen
    | cons s ss =>
      have ih' := ih ss (by simpa using hlen)
      simp only [envList, List.mem_cons, not_or]
      cases he : envList f5 f6 ns ss k with
      | some r =>
        have : ¬ (k ∉ ns) := fun hk => by rw [ih'.mpr hk] at he; cases he
        simp [this]
      | none =>
        have hk := ih'.mp he
        by_cases hkn : k = n <;> simp [hkn, hk]


/-- **nested Sprintf**: rendering `Sprintf(format, args…)` is substituting, into the verb tokens of
    the format, the complete renderings of the arguments (each rendered only when its verb is
    reached, left to right); argument text is never scanned for verbs, at any nesting depth. -/
theorem renderS_sprintf (f5 : Bool) (fmt : List Char) (vs ts : List Snip) :
    renderS f5 true (.sprintf fmt vs ts) = Sprintf.subst (Sprintf.tokens fmt) (List.zipWith Sprintf.Arg.mk (renderList f5 true vs) (renderList f5 true ts)) := by
  simp only [renderS]
  exact Sprintf.sprintf_spec _ _

/-- `SnippetWriter.Render`: a nil snippet writes nothing, any other its complete rendering -/
theorem renderTop_spec (f5 f6 : Bool) (s : Snip) :
    renderTop f5 f6 s = if s.isNil then some [] else renderS f5 f6 s := rfl

-- `T("f(@x', @y)", x ↦ T("@y@y", y ↦ "ab"), y ↦ Snippets(nil, "c", "@x"))`: the inner `@x` of the
-- sequence's leaf is output verbatim, not substituted
example :
    renderS true true (.tmpl "\nf(@x', @y)".toList ["x".toList, "y".toList]
      [.tmpl "@y@y".toList ["y".toList] [.leaf false (some "ab".toList)],
       .seq [.leaf true none, .leaf false (some "c".toList), .leaf false (some "@x".toList)]])
      = some "f(abab, c@x)".toList := by
  simp [renderS, renderSeq, envList, Snip.isNil, render, scan, run, step, finish, flush, isNameChar]

#print axioms renderS_tmpl
#print axioms renderS_sprintf
#print axioms seq_spec
end Gengo.Template
