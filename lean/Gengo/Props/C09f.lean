import Gengo.Props.C09c
namespace Gengo.Template

/-! ### C09: nested snippets — templates whose arguments are snippets, `Snippets`/`Fragments` -/

/-- the snippet tree.  `names`/`args` of a template are its bindings in the order `T(format, args…)`
    applies them (`t.args[name] = s`: a later binding of the same name replaces an earlier one) -/
inductive Snip where
  | leaf (isNil : Bool) (text : Option (List Char))   -- Block, ID, Value, Comment, Func …: a fixed rendering (`none` = it panics); also a nil interface value (`isNil = true`)
  | tmpl (fmt : List Char) (names : List (List Char)) (args : List Snip)
  | seq (parts : List Snip)                           -- `Snippets(…)`

/-- `IsNil()` (snippet.go:31, printer__template.go:75) -/
def Snip.isNil : Snip → Bool
  | .leaf n _ => n
  | .tmpl fmt _ _ => fmt.isEmpty
  | .seq _ => false

mutual
  /-- complete rendering of a snippet (`none` = panic), with the repaired scanner -/
  def renderS : Snip → Option (List Char)
    | .leaf _ t => t
    | .tmpl fmt names args => render (envList names args) true fmt
    | .seq parts => renderSeq parts
  /-- `Snippets.Frag`: the non-nil parts, each rendered completely, in order -/
  def renderSeq : List Snip → Option (List Char)
    | [] => some []
    | s :: ss =>
      if s.isNil then renderSeq ss
      else match renderS s with
        | none => none
        | some t => (renderSeq ss).map (t ++ ·)
  /-- the template's argument map; an argument is rendered only when a placeholder asks for it -/
  def envList : List (List Char) → List Snip → Env
    | n :: ns, s :: ss => fun k =>
      match envList ns ss k with
      | some r => some r                               -- a later binding wins
      | none => if k = n then some (if s.isNil then none else some (renderS s)) else none
    | _, _ => fun _ => none
end

/-- **nested templates**: rendering `T(format, bindings…)` is substituting, into the tokens of the
    format (leading newlines dropped), the *complete renderings of the bound snippets* — whatever
    they are (templates again, sequences, leaves).  The inner text reaches the output through
    `subst` only: it is never tokenized, at any nesting depth. -/
theorem renderS_tmpl (fmt : List Char) (names : List (List Char)) (args : List Snip) :
    renderS (.tmpl fmt names args) =
      subst (envList names args) (tokenize ((fmt.dropWhile (· == '\n')).length + 1) (fmt.dropWhile (· == '\n'))) := by
  simp only [renderS, render]
  exact scan_eq_subst _ _ _ (by omega)

/-- **C09 `seq_spec`**: `Snippets`/`Fragments` concatenate the renderings of the non-nil parts in
    order (when each of them renders) -/
theorem seq_spec (parts : List Snip) (h : ∀ s ∈ parts, s.isNil = false → (renderS s).isSome = true) :
    renderS (.seq parts) = some ((parts.filter (!·.isNil)).map fun s => (renderS s).getD []).flatten := by
  simp only [renderS]
  induction parts with
  | nil => simp [renderSeq]
  | cons s ss ih =>
    have ih' := ih (fun x hx => h x (by simp [hx]))
    simp only [renderSeq]
    by_cases hn : s.isNil = true
    · simp [hn, ih']
    · have hn' : s.isNil = false := by simpa using hn
      obtain ⟨t, ht⟩ := Option.isSome_iff_exists.mp (h s (by simp) hn')
      simp [hn', ht, ih']

/-- a part that panics makes the sequence panic — unless it is nil, then it is never rendered -/
theorem seq_panics (s : Snip) (ss : List Snip) (hn : s.isNil = false) (hp : renderS s = none) :
    renderS (.seq (s :: ss)) = none := by
  simp [renderS, renderSeq, hn, hp]

/-- a name is unbound iff no binding mentions it (a placeholder for it then panics: `flush`) -/
theorem envList_none (names : List (List Char)) (args : List Snip) (hlen : names.length = args.length) (k : List Char) :
    envList names args k = none ↔ k ∉ names := by
  induction names generalizing args with
  | nil => cases args <;> simp [envList]
  | cons n ns ih =>
    cases args with
    | nil => simp at hlen
    | cons s ss =>
      have ih' := ih ss (by simpa using hlen)
      simp only [envList, List.mem_cons, not_or]
      cases he : envList ns ss k with
      | some r =>
        have : ¬ (k ∉ ns) := fun hk => by rw [ih'.mpr hk] at he; cases he
        simp [this]
      | none =>
        have hk := ih'.mp he
        by_cases hkn : k = n <;> simp [hkn, hk]

-- `T("f(@x', @y)", x ↦ T("@y@y", y ↦ "ab"), y ↦ Snippets(nil, "c", "@x"))`: the inner `@x` of the
-- sequence's leaf is output verbatim, not substituted
example :
    renderS (.tmpl "\nf(@x', @y)".toList ["x".toList, "y".toList]
      [.tmpl "@y@y".toList ["y".toList] [.leaf false (some "ab".toList)],
       .seq [.leaf true none, .leaf false (some "c".toList), .leaf false (some "@x".toList)]])
      = some "f(abab, c@x)".toList := by
  simp [renderS, renderSeq, envList, Snip.isNil, render, scan, run, step, finish, flush, isNameChar]

#print axioms renderS_tmpl
#print axioms seq_spec
end Gengo.Template
