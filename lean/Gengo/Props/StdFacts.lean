import Gengo.Model.LocalName
import Gengo.Gen.StdList
/-! Facts about the std table, evaluated in the kernel over `Gengo.Gen.stdPaths`, which tools/extract
regenerates from pkg/namer/std.list on every run: an edit to std.list re-checks them. -/
namespace Gengo.LocalName

abbrev stdPaths : List Str := Gengo.Gen.stdPaths

def nodupB : List Str → Bool
  | [] => true
  | x :: xs => !xs.contains x && nodupB xs

theorem nodupB_nodup : (l : List Str) → nodupB l = true → l.Nodup
  | [], _ => List.nodup_nil
  | x :: xs, h => by
    simp only [nodupB, Bool.and_eq_true, Bool.not_eq_true', List.contains_eq_mem, decide_eq_false_iff_not] at h
    exact List.nodup_cons.mpr ⟨h.1, nodupB_nodup xs h.2⟩

/-- all the facts below as one Boolean, so that the kernel evaluates the table once -/
def stdOK (t : List (Str × Str)) : Bool :=
  t.all (fun e => isIdent e.1) && (t.length == stdPaths.length) &&
  nodupB (t.map (·.1)) && nodupB (t.map (·.2)) &&
  (t.lookup "json".toList == some "encoding/json".toList) &&
  (t.lookup "template".toList == some "html/template".toList) &&
  (t.lookup "texttemplate".toList == some "text/template".toList)

/-- kernel evaluation (`decide +kernel`, no `native_decide`) over the regenerated list -/
theorem std_ok : stdOK (stdTable stdPaths) = true := by decide +kernel

/-- every std short name is a valid non-keyword identifier -/
theorem std_names_valid : (stdTable stdPaths).all (fun e => isIdent e.1) = true := by
  have h := std_ok; simp only [stdOK, Bool.and_eq_true] at h; exact h.1.1.1.1.1.1

/-- every std path got a name: the table has one entry per line of std.list -/
theorem std_all_bound : (stdTable stdPaths).length = stdPaths.length := by
  have h := std_ok; simp only [stdOK, Bool.and_eq_true] at h; exact beq_iff_eq.mp h.1.1.1.1.1.2

/-- std short names are pairwise distinct and std paths are pairwise distinct -/
theorem std_names_nodup : ((stdTable stdPaths).map (·.1)).Nodup := by
  have h := std_ok; simp only [stdOK, Bool.and_eq_true] at h; exact nodupB_nodup _ h.1.1.1.1.2
theorem std_paths_nodup : ((stdTable stdPaths).map (·.2)).Nodup := by
  have h := std_ok; simp only [stdOK, Bool.and_eq_true] at h; exact nodupB_nodup _ h.1.1.1.2

/-- spot facts the property text mentions -/
theorem std_json : (stdTable stdPaths).lookup "json".toList = some "encoding/json".toList := by
  have h := std_ok; simp only [stdOK, Bool.and_eq_true] at h; exact beq_iff_eq.mp h.1.1.2
theorem std_templates : (stdTable stdPaths).lookup "template".toList = some "html/template".toList ∧
    (stdTable stdPaths).lookup "texttemplate".toList = some "text/template".toList := by
  have h := std_ok; simp only [stdOK, Bool.and_eq_true] at h; exact ⟨beq_iff_eq.mp h.1.2, beq_iff_eq.mp h.2⟩

#print axioms std_names_valid
#print axioms std_names_nodup
end Gengo.LocalName
