import Gengo.Model.LocalName
import Gengo.Gen.StdList
/-! Facts about the std table, evaluated in the kernel over `Gengo.Gen.stdPaths`, which tools/extract
regenerates from pkg/namer/std.list on every run: an edit to std.list re-checks them. -/
namespace Gengo.LocalName

abbrev stdPaths : List Str := Gengo.Gen.stdPaths
]

/-- every std short name is a valid non-keyword identifier (kernel evaluation of the whole table) -/
theorem std_names_valid : (stdTable stdPaths).all (fun e => isIdent e.1) = true := by decide +kernel

/-- every std path got a name: the table has one entry per line of std.list -/
theorem std_all_bound : (stdTable stdPaths).length = stdPaths.length := by decide +kernel

/-- std short names are pairwise distinct and std paths are pairwise distinct -/
theorem std_names_nodup : ((stdTable stdPaths).map (·.1)).Nodup := by decide +kernel
theorem std_paths_nodup : ((stdTable stdPaths).map (·.2)).Nodup := by decide +kernel

/-- spot facts the property text mentions -/
example : (stdTable stdPaths).lookup "json".toList = some "encoding/json".toList := by decide +kernel
example : (stdTable stdPaths).lookup "template".toList = some "html/template".toList ∧
    (stdTable stdPaths).lookup "texttemplate".toList = some "text/template".toList := by decide +kernel

#print axioms std_names_valid
#print axioms std_names_nodup
end Gengo.LocalName
