import Gengo.Model.Dumper
namespace Gengo.Dumper

def inT : Str := "main.In".toList
def zeroIn : Val := .struct inT [("X".toList, true, .leaf (.basic "int".toList) "int".toList ['0'] true)]

/-- `W{P: &In{}}` — pinned code prints `P:&(),` (F9, checked against the real dumper's output) -/
example :
    (valueLit false false (.struct "main.W".toList [("P".toList, true, .ptr zeroIn)])).show
      = "main.W{\nP:&(),\n}".toList := by decide

/-- repaired code -/
example :
    (valueLit true false (.struct "main.W".toList [("P".toList, true, .ptr zeroIn)])).show
      = "main.W{\nP:&(main.In{}),\n}".toList := by decide

/-- `*string` — pinned: `&("x")`; repaired: the closure idiom typed by the element's type -/
example : (valueLit false false (.ptr (.leaf .string "string".toList "\"x\"".toList false))).show
    = "&(\"x\")".toList := by decide
example : (valueLit true false (.ptr (.leaf .string "string".toList "\"x\"".toList false))).show
    = "func(v string) *string { return &v }(\"x\")".toList := by decide

/-- `*time.Duration` — pinned: typed by kind (`int64`), repaired: by type literal -/
example : (valueLit false false (.ptr (.leaf (.basic "int64".toList) "time.Duration".toList "1000000000".toList false))).show
    = "func(v int64) *int64 { return &v }(1000000000)".toList := by decide
example : (valueLit true false (.ptr (.leaf (.basic "int64".toList) "time.Duration".toList "1000000000".toList false))).show
    = "func(v time.Duration) *time.Duration { return &v }(1000000000)".toList := by decide

end Gengo.Dumper
