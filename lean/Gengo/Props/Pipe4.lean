import Gengo.Model.Pipeline
namespace Gengo.Pipeline
open Gengo.Tags

theorem fileName_inj (base g₁ g₂ : Str) (h : fileName base g₁ = fileName base g₂) : g₁ = g₂ := by
  unfold fileName at h
  have h1 : g₁ ++ ".go".toList = g₂ ++ ".go".toList := by
    have := List.append_cancel_left (by simpa [List.append_assoc] using h :
      (base ++ ['.']) ++ (g₁ ++ ".go".toList) = (base ++ ['.']) ++ (g₂ ++ ".go".toList))
    exact this
  exact List.append_cancel_right h1

def writesTo (dir name : Str) : Effect → Bool
  | .write d n _ _ => d == dir && n == name
  | _ => false

/-- C02 `fail_keeps_own_file` (unparseable output): when the write phase stops with a syntax error
    for some generator's file, that file has not been written — earlier writes of the same run
    went to other generators' files (generator names are distinct). -/
theorem writes_syntax_keeps (parses : Str → Bool) (a : Args) (p : Pkg) (ws : List (Str × Str))
    (hd : (ws.map (·.1)).Nodup) :
    ∀ (stale : List Str) (eff : List Effect) (d n : Str),
      (writes parses a p ws stale eff).2 = some (.syntax d n) →
      (∀ e ∈ eff, ∀ g ∈ ws.map (·.1), writesTo p.dir (fileName a.base g) e = false) →
      ∀ e ∈ (writes parses a p ws stale eff).1, writesTo d n e = false := by
  induction ws with
  | nil => intro stale eff d n h; simp [writes] at h
  | cons w rest ih =>
    obtain ⟨gn, text⟩ := w
    intro stale eff d n h heff
    have hd' : (rest.map (·.1)).Nodup := by simp at hd; exact hd.2
    have hgn : gn ∉ rest.map (·.1) := by simp at hd ⊢; exact hd.1
    simp only [writes] at h ⊢
    split at h
    · rename_i he
      simp only [he, if_true]
      exact ih hd' _ _ d n h (fun e hee g hg => heff e hee g (by simp; exact Or.inr (by simpa using hg)))
    · rename_i he
      simp only [he]
      split at h
      · rename_i hp
        simp only [hp, if_true]
        apply ih hd' _ _ d n h
        intro e hee g hg
        simp only [List.mem_append, List.mem_singleton] at hee
        rcases hee with hee | rfl
        · exact heff e hee g (by simp; exact Or.inr (by simpa using hg))
        · -- the file just written belongs to `gn`, which is not among the remaining generators
          simp only [writesTo, Bool.and_eq_false_imp, beq_iff_eq, beq_eq_false_iff_ne]
          intro _ hfn
          have := fileName_inj a.base gn g hfn
          subst this
          exact absurd (by simpa using hg) hgn
      · rename_i hp
        simp only [hp]
        simp only [Bool.false_eq_true, if_false, Option.some.injEq, Err.syntax.injEq] at h
        obtain ⟨rfl, rfl⟩ := h
        intro e hee
        exact heff e hee gn (by simp)

#print axioms writes_syntax_keeps
end Gengo.Pipeline
