import Gengo.Props.TrC12
import Gengo.Props.C12a
/-!
Property clauses stated of the code as it stands: each theorem here is a clause of C12 about a definition of
`Gengo.Code` — regenerated from /repo's Go source on every run — obtained from the clause proved of the hand-written
model through the equivalence theorem of `Props/Tr*.lean`.
-/
namespace Gengo.TrCode
open Gengo Gengo.Go Gengo.Code

/-- C12: the key of a tag holds no `=` and no space, and the line is the key, the first `=` or space, and the value — or
    the key alone with an empty value (for the translated `splitKV`) -/
theorem code_splitKV_spec (l : Str) :
    ∃ k v, Code.splitKV l = .ok (k, v) ∧ (∀ c ∈ k, c ≠ '=' ∧ c ≠ ' ') ∧
      (l = k ∧ v = [] ∨ ∃ sep, (sep = '=' ∨ sep = ' ') ∧ l = k ++ sep :: v) := by
  have h := Tags.splitKV_spec l
  exact ⟨(Tags.splitKV l).1, (Tags.splitKV l).2, TrC12.splitKV_eq l, h.1, h.2⟩

/-- C12: every line is classified exactly once by the translated `ExtractCommentTags` — the number of tag values plus
    the number of other lines is the number of lines -/
theorem code_classify_once (markers : List Char) (lines : List Str) :
    ∃ tags others, Code.ExtractCommentTags lines markers = .ok (tags, others) ∧
      Tags.nvalues tags + others.length = lines.length := by
  refine ⟨_, _, TrC12.extractCommentTags_eq lines markers, ?_⟩
  have := Tags.classify_once (if markers.isEmpty then Gengo.Gen.defaultMarkers else markers) lines [] []
  simpa [Tags.extract, Tags.nvalues] using this


end Gengo.TrCode
