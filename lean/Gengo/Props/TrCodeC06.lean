import Gengo.Props.TrC06
import Gengo.Props.C06a
/-!
Property clauses stated of the code as it stands: each theorem here is a clause of C06 and C04 about a definition of
`Gengo.Code` — regenerated from /repo's Go source on every run — obtained from the clause proved of the hand-written
model through the equivalence theorem of `Props/Tr*.lean`.
-/
namespace Gengo.TrCode
open Gengo Gengo.Go Gengo.Code

/-- C06 / C04: the translated `IsGeneratorEnabled` computes the order-free rule of the statement, whatever order the tag
    map is presented in -/
theorem code_enabled_spec (gen : Str) (m : List (Str × List Str)) (hd : Tags.DistinctKeys m) :
    Code.IsGeneratorEnabled gen m = .ok (Tags.enabledSpec gen m) := by
  rw [TrC06.isGeneratorEnabled_eq, Tags.enabled_spec gen m hd]; rfl

theorem code_enabled_perm (gen : Str) {m₁ m₂ : List (Str × List Str)} (h : m₁.Perm m₂) (hd : Tags.DistinctKeys m₁) :
    Code.IsGeneratorEnabled gen m₁ = Code.IsGeneratorEnabled gen m₂ := by
  rw [TrC06.isGeneratorEnabled_eq, TrC06.isGeneratorEnabled_eq, Tags.enabled_perm gen h hd]


end Gengo.TrCode
