import Gengo.Props.C04c
import Gengo.Props.C04b
/-!
C04, the third kind of Go map on the path: the *tag maps*.  `Args.Globals`, a package's tags and a
declaration's tags are `map[string][]string`; `merge` ranges over them and the merged map is what a
generator is handed.  `handler_perm` (`Props/C04b`) shows the dispatch decision does not depend on their
order; here that is carried through `dispatch`, `runGen`, `gather`, `pkgExecute`, `goPkgs` and `execute`:
the whole run is the same.  The one hypothesis is about the generators, and it is needed: a generator
whose reaction depends on the order in which a tag map is *presented* to it (it can range over it) is
itself order-dependent — `TagOrderFree` says it is not.  With `execute_deterministic` (`Props/C04c`:
order of packages, order of the type table) this covers every map the run iterates over.
-/
namespace Gengo.Pipeline
open Gengo.Tags

/-- `t'` is `t` with its tag map presented in another order -/
def TagsShuffledT (t t' : TypeObj) : Prop := t'.name = t.name ∧ t'.kind = t.kind ∧ t.tags.Perm t'.tags

/-- the generator reacts to *what* tags a declaration has, not to the order a map presents them in -/
structure TagOrderFree (g : Gen) : Prop where
  onType : ∀ st path t t', TagsShuffledT t t' → g.onType st path t' = g.onType st path t
  onAlias : ∀ f, g.onAlias = some f → ∀ st path t t', TagsShuffledT t t' → f st path t' = f st path t

/-- `q` is `p` with the package's tag map and every declaration's tag map presented in another order -/
def TagOrderShuffled (p q : Pkg) : Prop :=
  ∃ (pt : TagMap) (shT : TypeObj → TypeObj),
    q = { p with pkgTags := pt, types := p.types.map shT } ∧
    p.pkgTags.Perm pt ∧ DistinctKeys p.pkgTags ∧
    ∀ t ∈ p.types, TagsShuffledT t (shT t) ∧ DistinctKeys t.tags

theorem dispatch_tagorder (a a' : Args) (p p' : Pkg) (g : Gen) (hfree : TagOrderFree g)
    (hpath : p'.path = p.path)
    (hg : a.globals.Perm a'.globals) (dg : DistinctKeys a.globals)
    (hp : p.pkgTags.Perm p'.pkgTags) (dp : DistinctKeys p.pkgTags)
    (shT : TypeObj → TypeObj) :
    ∀ (ts : List TypeObj) (s : GState g), (∀ t ∈ ts, TagsShuffledT t (shT t) ∧ DistinctKeys t.tags) →
      dispatch a' p' g (ts.map shT) s = dispatch a p g ts s := by
  intro ts
  induction ts with
  | nil => intro s _; simp [dispatch]
  | cons t ts ih =>
    intro s h
    obtain ⟨⟨hname, hkind, htags⟩, dt⟩ := h t (by simp)
    have ih' := fun s => ih s (fun x hx => h x (by simp [hx]))
    have hen : isEnabled g.name (merge3 a'.globals p'.pkgTags (shT t).tags) =
        isEnabled g.name (merge3 a.globals p.pkgTags t.tags) :=
      (enabled_perm g.name (merge3_perm hg hp htags dp dt) (merge3_distinct dg dp dt)).symm
    have hsh : TagsShuffledT t (shT t) := ⟨hname, hkind, htags⟩
    simp only [List.map_cons, dispatch, hen, hkind, hpath, hname]
    cases t.kind with
    | named =>
      simp only
      split
      · have e := hfree.onType s.st p.path t (shT t) hsh
        simp only [e]
        split
        · rfl
        · exact ih' _
      · exact ih' s
    | alias =>
      simp only
      split
      · cases hoa : g.onAlias with
        | none => simp only; exact ih' s
        | some f =>
          simp only
          have e := hfree.onAlias f hoa s.st p.path t (shT t) hsh
          simp only [e]
          split
          · rfl
          · exact ih' _
      · exact ih' s
    | typeParam => exact ih' s
    | other => exact ih' s

theorem sortedTypes_map (shT : TypeObj → TypeObj) (ts : List TypeObj)
    (h : ∀ t ∈ ts, (shT t).name = t.name) : sortedTypes (ts.map shT) = (sortedTypes ts).map shT := by
  unfold sortedTypes sortBy
  rw [← List.map_mergeSort]
  intro x hx y hy
  simp only [h x hx, h y hy]

theorem runDefers_path (p q : Pkg) (g : Gen) (h : q.path = p.path) :
    ∀ (ds : List DeferCb) (body : List Str), runDefers q g ds body = runDefers p g ds body := by
  intro ds
  induction ds with
  | nil => intro body; rfl
  | cons d ds ih => intro body; simp only [runDefers, h, ih]

theorem runGen_tagorder (a a' : Args) (p q : Pkg) (g : Gen) (hfree : TagOrderFree g)
    (hg : a.globals.Perm a'.globals) (dg : DistinctKeys a.globals) (hq : TagOrderShuffled p q) :
    runGen a' q g = runGen a p g := by
  obtain ⟨pt, shT, rfl, hp, dp, ht⟩ := hq
  unfold runGen
  simp only
  rw [sortedTypes_map shT p.types (fun t h => (ht t h).1.1)]
  rw [dispatch_tagorder a a' p { p with pkgTags := pt, types := p.types.map shT } g hfree rfl hg dg hp dp shT
    (sortedTypes p.types) _ (fun t h => ht t ((List.mergeSort_perm _ _).mem_iff.mp h))]
  simp only [runDefers_path p { p with pkgTags := pt, types := p.types.map shT } g rfl]

theorem gather_tagorder (a a' : Args) (p q : Pkg)
    (hg : a.globals.Perm a'.globals) (dg : DistinctKeys a.globals) (hq : TagOrderShuffled p q) :
    ∀ (gens : List Gen) (acc : List (Str × Str)), (∀ g ∈ gens, TagOrderFree g) →
      gather a' q gens acc = gather a p gens acc := by
  intro gens
  induction gens with
  | nil => intro acc _; rfl
  | cons g gs ih =>
    intro acc h
    simp only [gather, runGen_tagorder a a' p q g (h g (by simp)) hg dg hq]
    have ih' := fun acc => ih acc (fun x hx => h x (by simp [hx]))
    split
    · rfl
    · exact ih' _
    · exact ih' _

/-- the same arguments, the Globals map presented in another order -/
def GlobalsShuffled (a a' : Args) : Prop :=
  a' = { a with globals := a'.globals } ∧ a.globals.Perm a'.globals ∧ DistinctKeys a.globals

theorem pkgExecute_tagorder (parses : Str → Bool) (order) (a a' : Args) (gens : List Gen) {p q : Pkg}
    (ha : GlobalsShuffled a a') (hq : TagOrderShuffled p q) (hgens : ∀ g ∈ gens, TagOrderFree g) :
    pkgExecute parses order a' q gens = pkgExecute parses order a p gens := by
  obtain ⟨ha', hg, dg⟩ := ha
  unfold pkgExecute
  rw [gather_tagorder a a' p q hg dg hq gens [] hgens]
  obtain ⟨pt, shT, rfl, _, _, _⟩ := hq
  have hbase : a'.base = a.base := by rw [ha']
  cases gather a p gens [] with
  | error e => rfl
  | ok ws =>
    simp only [hbase]
    -- `writes` reads the package's directory and the arguments' base name only
    have : ∀ (ws : List (Str × Str)) (stale : List Str) (eff : List Effect),
        writes parses a' { p with pkgTags := pt, types := p.types.map shT } ws stale eff = writes parses a p ws stale eff := by
      intro ws
      induction ws with
      | nil => intro stale eff; rfl
      | cons w rest ih =>
        intro stale eff
        obtain ⟨gn, text⟩ := w
        simp only [writes, hbase, ih]
    exact this _ _ _

/-- **C04, tag maps**: present `Globals`, every package's tag map and every declaration's tag map in
    any order — the whole run (every effect with its payload, the sum file's bytes, the result) is
    the same, provided the generators do not themselves react to presentation order. -/
theorem execute_tagorder (parses : Str → Bool) (order) (a a' : Args) (root : Str) (prev) (gens : List Gen)
    (pkgs : List Pkg) (shP : Pkg → Pkg)
    (ha : GlobalsShuffled a a') (hgens : ∀ g ∈ gens, TagOrderFree g)
    (hsh : ∀ p ∈ pkgs, TagOrderShuffled p (shP p)) :
    execute parses order a' root prev (pkgs.map shP) gens = execute parses order a root prev pkgs gens := by
  have hpath : ∀ p ∈ pkgs, (shP p).path = p.path := by
    intro p hp; obtain ⟨pt, shT, hq, _⟩ := hsh p hp; rw [hq]
  have hhash : ∀ p ∈ pkgs, (shP p).hash = p.hash := by
    intro p hp; obtain ⟨pt, shT, hq, _⟩ := hsh p hp; rw [hq]
  have hdirect : ∀ p ∈ pkgs, (shP p).direct = p.direct := by
    intro p hp; obtain ⟨pt, shT, hq, _⟩ := hsh p hp; rw [hq]
  obtain ⟨ha', hg, dg⟩ := ha
  have hall : a'.all = a.all := by rw [ha']
  have hforce : a'.force = a.force := by rw [ha']
  have hempty : a'.emptyHashChanged = a.emptyHashChanged := by rw [ha']
  unfold execute
  have hsorted : sortedPkgs (pkgs.map shP) = (sortedPkgs pkgs).map shP := by
    unfold sortedPkgs sortBy
    rw [← List.map_mergeSort]
    intro x hx y hy
    simp only [hpath x hx, hpath y hy]
  have hsum : (pkgs.map shP).map (fun p => (p.path, p.hash)) = pkgs.map (fun p => (p.path, p.hash)) := by
    rw [List.map_map]
    apply List.map_congr_left
    intro p hp
    simp [hpath p hp, hhash p hp]
  rw [hsorted, hall]
  generalize (if a.all = true then prev else none) = prev'
  have hmem : ∀ p ∈ sortedPkgs pkgs, p ∈ pkgs := fun p h => (List.mergeSort_perm _ _).mem_iff.mp h
  generalize sortedPkgs pkgs = ps at hmem
  generalize ([] : List Effect) = eff
  induction ps generalizing eff with
  | nil => simp only [List.map_nil, goPkgs, hall, hsum]
  | cons p ps ih =>
    have hp := hmem p (by simp)
    have ih' := fun eff => ih (fun x hx => hmem x (by simp [hx])) eff
    have hchanged : pkgChanged a' prev' (shP p) = pkgChanged a prev' p := by
      unfold pkgChanged
      rw [hforce, hempty, hpath p hp, hhash p hp]
    simp only [List.map_cons, goPkgs, hall, hdirect p hp, hchanged,
      pkgExecute_tagorder parses order a a' gens ⟨ha', hg, dg⟩ (hsh p hp) hgens, ih']

/-- **C04 `execute_deterministic`, all maps**: packages in any order, every type table in any order,
    every tag map in any order. -/
theorem execute_deterministic_all (parses : Str → Bool) (order) (a a' : Args) (root : Str) (prev) (gens : List Gen)
    (pkgs₁ pkgs₂ : List Pkg) (shTypes shTags : Pkg → Pkg)
    (hperm : pkgs₂.Perm (pkgs₁.map shTypes))
    (hsh : ∀ p ∈ pkgs₁, TypesShuffled p (shTypes p) ∧ TypesDistinct p)
    (hd : ∀ x ∈ pkgs₁, ∀ y ∈ pkgs₁, x.path = y.path → x = y)
    (ha : GlobalsShuffled a a') (hgens : ∀ g ∈ gens, TagOrderFree g)
    (htags : ∀ p ∈ pkgs₂, TagOrderShuffled p (shTags p)) :
    execute parses order a' root prev (pkgs₂.map shTags) gens = execute parses order a root prev pkgs₁ gens := by
  rw [execute_tagorder parses order a a' root prev gens pkgs₂ shTags ha hgens htags]
  exact execute_deterministic parses order a root prev gens pkgs₁ pkgs₂ shTypes hperm hsh hd

/-- the hypotheses are met by a generator that looks at a tag *by key* (as `IsGeneratorEnabled` and the
    shipped generators do), on a declaration with two tags presented in either order -/
example :
    let t : TypeObj := ⟨"T".toList, .named, [("+a".toList, [[]]), ("+b".toList, [[]])]⟩
    let t' : TypeObj := ⟨"T".toList, .named, [("+b".toList, [[]]), ("+a".toList, [[]])]⟩
    TagsShuffledT t t' ∧ DistinctKeys t.tags := by
  refine ⟨⟨rfl, rfl, ?_⟩, by unfold DistinctKeys; decide⟩
  exact List.Perm.swap _ _ _

#print axioms execute_tagorder
#print axioms execute_deterministic_all
end Gengo.Pipeline
