import Gengo.Model.DeepCopy
namespace Gengo.DeepCopy

/-- same-package dependencies of a declaration (what `OnLocalDep` collects) -/
def depsOf (p : Pkg) (id : Nat) : List (Nat × Bool) :=
  match p[id]? with
  | some d => localDeps d
  | none => []

/-- by-value struct nesting is acyclic: dependencies have lower indices -/
def Acyclic (p : Pkg) : Prop := ∀ id, ∀ ji ∈ depsOf p id, ji.1 < id

/-- what a generation step guarantees about its output `o` and the `processed` set -/
structure Spec (p : Pkg) (seen : Seen) (o : List Nat) (s' : Seen) : Prop where
  mono : ∀ k ∈ seen, k ∈ s'
  new : ∀ k ∈ s', k ∈ seen ∨ (k.2 = false ∧ k.1 ∈ o)
  nodup : o.Nodup
  fresh : ∀ x ∈ o, (x, false) ∉ seen ∧ (x, false) ∈ s'
  closed : ∀ x ∈ o, ∀ ji ∈ depsOf p x, (ji.1, false) ∈ s'

theorem Spec.refl (p : Pkg) (seen : Seen) : Spec p seen [] seen :=
  ⟨fun _ h => h, fun _ h => Or.inl h, by simp, by simp, by simp⟩

theorem Spec.comp {p : Pkg} {seen s1 s2 : Seen} {o1 o2 : List Nat}
    (h1 : Spec p seen o1 s1) (h2 : Spec p s1 o2 s2) : Spec p seen (o1 ++ o2) s2 where
  mono := fun k hk => h2.mono k (h1.mono k hk)
  new := by
    intro k hk
    rcases h2.new k hk with h | ⟨hf, ho⟩
    · rcases h1.new k h with h' | ⟨hf, ho⟩
      · exact Or.inl h'
      · exact Or.inr ⟨hf, by simp [ho]⟩
    · exact Or.inr ⟨hf, by simp [ho]⟩
  nodup := by
    rw [List.nodup_append]
    refine ⟨h1.nodup, h2.nodup, ?_⟩
    intro a ha b hb hab
    subst hab
    exact (h2.fresh a hb).1 (h1.fresh a ha).2
  fresh := by
    intro x hx
    simp only [List.mem_append] at hx
    rcases hx with hx | hx
    · exact ⟨(h1.fresh x hx).1, h2.mono _ (h1.fresh x hx).2⟩
    · exact ⟨fun hs => (h2.fresh x hx).1 (h1.mono _ hs), (h2.fresh x hx).2⟩
  closed := by
    intro x hx ji hji
    simp only [List.mem_append] at hx
    rcases hx with hx | hx
    · exact h2.mono _ (h1.closed x hx ji hji)
    · exact h2.closed x hx ji hji

/-- what a recursive call must deliver for a dependency -/
def RecOK (p : Pkg) (rec : Nat → Bool → Seen → List Nat × Seen) (j : Nat) : Prop :=
  ∀ i seen, Spec p seen (rec j i seen).1 (rec j i seen).2 ∧ (j, false) ∈ (rec j i seen).2

theorem emitDeps_spec (p : Pkg) (rec : Nat → Bool → Seen → List Nat × Seen) (ds : List (Nat × Bool))
    (hrec : ∀ ji ∈ ds, RecOK p rec ji.1) :
    ∀ seen, Spec p seen (emitDeps rec ds seen).1 (emitDeps rec ds seen).2 ∧
      ∀ ji ∈ ds, (ji.1, false) ∈ (emitDeps rec ds seen).2 := by
  induction ds with
  | nil => intro seen; exact ⟨Spec.refl p seen, by simp⟩
  | cons d ds ih =>
    obtain ⟨j, i⟩ := d
    intro seen
    simp only [emitDeps]
    obtain ⟨h1, hj⟩ := hrec (j, i) (by simp) i seen
    obtain ⟨h2, hrest⟩ := ih (fun x hx => hrec x (by simp [hx])) (rec j i seen).2
    refine ⟨h1.comp h2, ?_⟩
    intro ji hji
    simp only [List.mem_cons] at hji
    rcases hji with rfl | hji
    · exact h2.mono _ hj
    · exact hrest ji hji

theorem contains_iff (seen : Seen) (k : Nat × Bool) : seen.contains k = true ↔ k ∈ seen := by
  simp [List.contains_iff_mem]

/-- the repaired `generateType`, called for a valid declaration that is enabled or needed on demand -/
theorem emit_spec (p : Pkg) (hac : Acyclic p) :
    ∀ fuel id onDemand, id < fuel → (∃ d, p[id]? = some d ∧ (d.enabled = true ∨ onDemand = true)) →
      ∀ inst seen, Spec p seen (emit true p fuel id onDemand inst seen).1 (emit true p fuel id onDemand inst seen).2 ∧
        (id, false) ∈ (emit true p fuel id onDemand inst seen).2 := by
  intro fuel
  induction fuel with
  | zero => intro id _ h; omega
  | succ k ih =>
    intro id onDemand hid ⟨d, hd, hen⟩ inst seen
    simp only [emit, if_true]
    by_cases hseen : seen.contains (id, false) = true
    · simp only [hseen, if_true]
      exact ⟨Spec.refl p seen, (contains_iff seen _).mp hseen⟩
    · simp only [hseen, Bool.false_eq_true, if_false, hd]
      have hen' : (!(d.enabled || (true && onDemand))) = false := by
        rcases hen with h | h <;> simp [h]
      simp only [hen', Bool.false_eq_true, if_false]
      -- the dependency list is `depsOf p id`
      have hdeps : localDeps d = depsOf p id := by simp [depsOf, hd]
      rw [hdeps]
      have hrec : ∀ ji ∈ depsOf p id, RecOK p (fun j i s => emit true p k j true i s) ji.1 := by
        intro ji hji i s
        have hlt := hac id ji hji
        have hvalid : ∃ dj, p[ji.1]? = some dj := by
          have hidlt : id < p.length := by
            have := List.getElem?_eq_some_iff.mp hd; exact this.1
          exact ⟨p[ji.1]'(by omega), List.getElem?_eq_getElem (by omega)⟩
        obtain ⟨dj, hdj⟩ := hvalid
        exact ih ji.1 true (by omega) ⟨dj, hdj, Or.inr rfl⟩ i s
      obtain ⟨hs, hall⟩ := emitDeps_spec p _ (depsOf p id) hrec ((id, false) :: seen)
      have hnot : (id, false) ∉ seen := fun h => hseen ((contains_iff seen _).mpr h)
      refine ⟨⟨?_, ?_, ?_, ?_, ?_⟩, hs.mono _ (by simp)⟩
      · intro q hq; exact hs.mono q (by simp [hq])
      · intro q hq
        rcases hs.new q hq with h | ⟨hf, ho⟩
        · simp only [List.mem_cons] at h
          rcases h with rfl | h
          · exact Or.inr ⟨rfl, by simp⟩
          · exact Or.inl h
        · exact Or.inr ⟨hf, by simp [ho]⟩
      · rw [List.nodup_cons]
        refine ⟨?_, hs.nodup⟩
        intro hmem
        exact (hs.fresh id hmem).1 (by simp)
      · intro x hx
        simp only [List.mem_cons] at hx
        rcases hx with rfl | hx
        · exact ⟨hnot, hs.mono _ (by simp)⟩
        · exact ⟨fun h => (hs.fresh x hx).1 (by simp [h]), (hs.fresh x hx).2⟩
      · intro x hx ji hji
        simp only [List.mem_cons] at hx
        rcases hx with rfl | hx
        · exact hall ji hji
        · exact hs.closed x hx ji hji

theorem emitAllAux_spec (p : Pkg) (hac : Acyclic p) (ids : List Nat)
    (hids : ∀ id ∈ ids, ∃ d, p[id]? = some d ∧ d.enabled = true) :
    ∀ seen, ∃ s', Spec p seen (emitAllAux true p ids seen) s' := by
  induction ids with
  | nil => intro seen; exact ⟨seen, Spec.refl p seen⟩
  | cons id ids ih =>
    intro seen
    obtain ⟨d, hd, hen⟩ := hids id (by simp)
    have hlt : id < p.length + 1 := by
      obtain ⟨h, _⟩ := List.getElem?_eq_some_iff.mp hd; omega
    obtain ⟨h1, _⟩ := emit_spec p hac (p.length + 1) id false hlt ⟨d, hd, Or.inl hen⟩ false seen
    obtain ⟨s2, h2⟩ := ih (fun x hx => hids x (by simp [hx])) (emit true p (p.length + 1) id false false seen).2
    exact ⟨s2, by simp only [emitAllAux]; exact h1.comp h2⟩

/-- the generated file, repaired generator: no method emitted twice, and every same-package type
    a generated struct copies through is itself generated -/
theorem emitAll_closed (p : Pkg) (hac : Acyclic p) :
    (emitAll true p).Nodup ∧
    ∀ x ∈ emitAll true p, ∀ ji ∈ depsOf p x, ji.1 ∈ emitAll true p := by
  have hids : ∀ id ∈ (List.range p.length).filter (fun i => (p[i]?.map (·.enabled)).getD false),
      ∃ d, p[id]? = some d ∧ d.enabled = true := by
    intro id hid
    simp only [List.mem_filter, List.mem_range] at hid
    obtain ⟨hlt, hen⟩ := hid
    refine ⟨p[id], List.getElem?_eq_getElem hlt, ?_⟩
    simpa [List.getElem?_eq_getElem hlt] using hen
  obtain ⟨s', hs⟩ := emitAllAux_spec p hac _ hids []
  refine ⟨hs.nodup, ?_⟩
  intro x hx ji hji
  rcases hs.new _ (hs.closed x hx ji hji) with h | ⟨_, h⟩
  · simp at h
  · exact h

/-- C17 `compiles_ok` (repaired generator): for every package whose struct nesting is acyclic —
    any mix of tagged and untagged dependencies, defined maps and scalars, `error` fields, fields
    of instantiated generic types — the generated file type-checks against the methods it
    contains, on the first run and on every later one. -/
theorem compiles_ok (p : Pkg) (hac : Acyclic p) (prev : Bool) : compiles true prev p = true := by
  obtain ⟨hnd, hcl⟩ := emitAll_closed p hac
  simp only [compiles, Bool.and_eq_true, decide_eq_true_eq, List.all_eq_true]
  refine ⟨hnd, ?_⟩
  intro id hid
  cases hd : p[id]? with
  | none => rfl
  | some d =>
    simp only [Bool.or_eq_true, decide_eq_true_eq, List.all_eq_true]
    by_cases hs : d.under = .struct
    · right
      intro f hf
      cases f with
      | plain => simp [fieldStmt, stmtCompiles]
      | slice => simp [fieldStmt, stmtCompiles]
      | map => simp [fieldStmt, stmtCompiles]
      | errorT => simp [fieldStmt, stmtCompiles]
      | localNamed j i =>
        have hdep : (j, i) ∈ depsOf p id := by
          simp only [depsOf, hd, localDeps, hs, if_true, List.mem_filterMap]
          exact ⟨.localNamed j i, hf, rfl⟩
        have hj : j ∈ emitAll true p := hcl id hid (j, i) hdep
        have hcont : (emitAll true p).contains j = true := by simpa using hj
        simp only [fieldStmt, ptrFlag, isMap]
        cases hpj : p[j]? with
        | none => simp [stmtCompiles, isMap, hpj, hj]
        | some dj =>
          by_cases hm : dj.under = .map
          · simp [stmtCompiles, isMap, hpj, hm, hj]
          · simp [stmtCompiles, isMap, hpj, hm, hj]
    · left; exact hs

#print axioms compiles_ok
end Gengo.DeepCopy
