import Gengo.Model.Pipeline
import Gengo.Props.Order
namespace Gengo.Pipeline
open Gengo.Tags

def sumData (all : List Pkg) : Str := SumFile.bytes (all.map fun p => (p.path, p.hash))

theorem goPkgs_congr_all (parses : Str → Bool) (order) (a : Args) (root : Str) (prev) (all₁ all₂ : List Pkg)
    (gens : List Gen) (h : sumData all₁ = sumData all₂) (ps : List Pkg) :
    ∀ eff, goPkgs parses order a root prev all₁ gens ps eff = goPkgs parses order a root prev all₂ gens ps eff := by
  induction ps with
  | nil => intro eff; simp only [goPkgs]; unfold sumData at h; rw [h]
  | cons p ps ih =>
    intro eff
    simp only [goPkgs]
    split
    · exact ih eff
    · split
      · exact ih eff
      · split
        · rfl
        · exact ih _

/-- the sum file's bytes do not depend on the order packages were registered in -/
theorem sumData_perm {l₁ l₂ : List Pkg} (h : l₁.Perm l₂)
    (hd : ∀ a ∈ l₁, ∀ b ∈ l₁, a.path = b.path → a = b) : sumData l₁ = sumData l₂ := by
  unfold sumData SumFile.bytes
  have := sortBy_perm (α := Str × Str) (·.1) (h.map fun p => (p.path, p.hash)) (by
    intro x hx y hy hxy
    simp only [List.mem_map] at hx hy
    obtain ⟨a, ha, rfl⟩ := hx
    obtain ⟨b, hb, rfl⟩ := hy
    have := hd a ha b hb hxy
    subst this; rfl)
  rw [this]

/-- C04 `execute_perm` (packages): the whole run — every effect, its payload and the result — is
    the same whatever order the local packages / entrypoints arrive in. -/
theorem execute_perm (parses : Str → Bool) (order) (a : Args) (root : Str) (prev) (gens : List Gen)
    {pkgs₁ pkgs₂ : List Pkg} (h : pkgs₁.Perm pkgs₂)
    (hd : ∀ a ∈ pkgs₁, ∀ b ∈ pkgs₁, a.path = b.path → a = b) :
    execute parses order a root prev pkgs₁ gens = execute parses order a root prev pkgs₂ gens := by
  unfold execute sortedPkgs
  rw [sortBy_perm (·.path) h hd]
  exact goPkgs_congr_all parses order a root _ pkgs₁ pkgs₂ gens (sumData_perm h hd) _ []

/-- the dispatch order does not depend on the iteration order of the type table -/
theorem sortedTypes_perm {ts₁ ts₂ : List TypeObj} (h : ts₁.Perm ts₂)
    (hd : ∀ a ∈ ts₁, ∀ b ∈ ts₁, a.name = b.name → a = b) : sortedTypes ts₁ = sortedTypes ts₂ := by
  unfold sortedTypes
  exact sortBy_perm (fun t : TypeObj => t.name) h hd

#print axioms execute_perm
end Gengo.Pipeline
