import Gengo.Model.Tags
namespace Gengo.Tags

/-- `splitKV` is lossless: the key, the first separator (if any) and the value rebuild the line -/
theorem splitKV_spec (l : Str) :
    (∀ c ∈ (splitKV l).1, c ≠ '=' ∧ c ≠ ' ') ∧
    (l = (splitKV l).1 ∧ (splitKV l).2 = [] ∨
     ∃ sep, (sep = '=' ∨ sep = ' ') ∧ l = (splitKV l).1 ++ sep :: (splitKV l).2) := by
  induction l with
  | nil => simp [splitKV]
  | cons c cs ih =>
    simp only [splitKV]
    by_cases hc : (c == '=' || c == ' ') = true
    · simp only [hc, if_true]
      refine ⟨by simp, Or.inr ⟨c, ?_, by simp⟩⟩
      simpa using hc
    · simp only [hc]
      have hne : c ≠ '=' ∧ c ≠ ' ' := by simpa using hc
      obtain ⟨ih1, ih2⟩ := ih
      refine ⟨?_, ?_⟩
      · intro d hd
        rcases List.mem_cons.mp hd with rfl | hd
        · exact hne
        · exact ih1 d hd
      · rcases ih2 with ⟨h1, h2⟩ | ⟨sep, hs, h⟩
        · left; exact ⟨by simp; exact h1, h2⟩
        · right; exact ⟨sep, hs, by simp; exact h⟩

/-- total number of values stored in the tag map -/
def nvalues (m : List (Str × List Str)) : Nat := (m.map (·.2.length)).sum

theorem nvalues_addTag (m : List (Str × List Str)) (k v : Str) : nvalues (addTag m k v) = nvalues m + 1 := by
  induction m with
  | nil => simp [addTag, nvalues]
  | cons x xs ih =>
    obtain ⟨k', vs⟩ := x
    simp only [addTag]
    split
    · simp [nvalues]; omega
    · simp only [nvalues, List.map_cons, List.sum_cons] at ih ⊢; omega

/-- C12 `classify_once`: every line is classified exactly once — it is either one of the
    remaining lines or one value in the tag map. -/
theorem classify_once (markers : List Char) (lines : List Str) :
    ∀ (m : List (Str × List Str)) (o : List Str),
      nvalues (extractAux markers lines (m, o)).1 + (extractAux markers lines (m, o)).2.length
        = nvalues m + o.length + lines.length := by
  induction lines with
  | nil => intro m o; simp [extractAux]
  | cons l ls ih =>
    intro m o
    simp only [extractAux]
    split
    · rw [ih]; simp; omega
    · rw [ih, nvalues_addTag]; simp; omega

/-- the remaining lines are the non-tag lines, trimmed, in their original order -/
theorem others_spec (markers : List Char) (lines : List Str) :
    ∀ (m : List (Str × List Str)) (o : List Str),
      (extractAux markers lines (m, o)).2 =
        o ++ lines.filterMap fun l => match classify markers l with
          | .other t => some t
          | .tag _ _ => none := by
  induction lines with
  | nil => intro m o; simp [extractAux]
  | cons l ls ih =>
    intro m o
    simp only [extractAux]
    split
    · rename_i t ht; rw [ih]; simp [List.filterMap_cons, ht]
    · rename_i k v ht; rw [ih]; simp [List.filterMap_cons, ht]

/-- C12 `tag_iff`: a line is a tag iff, after trimming spaces, it starts with a marker -/
theorem tag_iff (markers : List Char) (l : Str) :
    (∃ k v, classify markers l = .tag k v) ↔ ∃ c cs, trimSpaces l = c :: cs ∧ c ∈ markers := by
  unfold classify
  cases h : trimSpaces l with
  | nil => simp
  | cons c cs =>
    simp only
    by_cases hm : markers.contains c = true
    · simp only [hm, if_true]
      constructor
      · intro _; exact ⟨c, cs, rfl, by simpa using hm⟩
      · intro _; exact ⟨_, _, rfl⟩
    · simp only [hm]
      constructor
      · intro ⟨k, v, h⟩; cases h
      · intro ⟨c', cs', heq, hc'⟩
        cases heq
        exact absurd (by simpa using hc') hm

example : extract ['+', '@'] ["Human comment.".toList, "+gengo:test=value1".toList, "@bar".toList,
    "+baz=qux,zrb=true".toList, "  +gengo:test value2 ".toList]
  = ([("gengo:test".toList, ["value1".toList, "value2".toList]), ("bar".toList, [[]]),
      ("baz".toList, ["qux,zrb=true".toList])], ["Human comment.".toList]) := by decide

#print axioms classify_once
end Gengo.Tags
