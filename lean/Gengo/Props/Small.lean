import Gengo.Model.Pipeline
import Gengo.Model.TypeRef
namespace Gengo.Pipeline
open Gengo.Tags

/-- C06 `merge_precedence`: declaration tags over package tags over global tags, per key -/
theorem merge_precedence (g p d : TagMap) (k : Str) :
    (merge3 g p d).lookup k = (d.lookup k <|> p.lookup k <|> g.lookup k) := by
  have lookup_append : ∀ (a b : TagMap), (a ++ b).lookup k = (a.lookup k <|> b.lookup k) := by
    intro a b
    induction a with
    | nil => simp
    | cons x xs ih =>
      obtain ⟨k', v⟩ := x
      simp only [List.cons_append, List.lookup]
      cases k == k' <;> simp [ih]
  have lookup_filter : ∀ (m : TagMap) (P : Str → Bool), (m.filter fun kv => P kv.1).lookup k =
      if P k then m.lookup k else none := by
    intro m P
    induction m with
    | nil => simp
    | cons x xs ih =>
      obtain ⟨k', v⟩ := x
      simp only [List.filter_cons]
      by_cases hk : k = k'
      · subst hk
        by_cases hp : P k = true
        · simp [hp, List.lookup]
        · simp [hp, List.lookup, ih]
      · have hb : (k == k') = false := by simp [hk]
        by_cases hp' : P k' = true
        · simp [hp', List.lookup, hb, ih]
        · simp [hp', ih, List.lookup, hb]
  unfold merge3
  rw [lookup_append, lookup_append, lookup_filter p (fun x => (d.lookup x).isNone),
    lookup_filter g (fun x => (d.lookup x).isNone && (p.lookup x).isNone)]
  cases hd : d.lookup k with
  | some v => simp
  | none =>
    cases hp : p.lookup k with
    | some v => simp
    | none => simp

/-- C07 `lookalike_safe`: a file name that merely starts with the base name, without the dot, is
    not a candidate for removal or rewriting -/
theorem lookalike_safe (base name : Str) (h : (base ++ ['.']).isPrefixOf name = true) :
    ∃ rest, name = base ++ '.' :: rest := by
  obtain ⟨t, ht⟩ := List.isPrefixOf_iff_prefix.mp h
  exact ⟨t, by rw [← ht]; simp⟩

end Gengo.Pipeline

namespace Gengo.TypeRef

theorem indexOf?_lt (c : Char) (l : Str) (k : Nat) (h : indexOf? c l = some k) : k < l.length := by
  induction l generalizing k with
  | nil => simp [indexOf?] at h
  | cons x xs ih =>
    simp only [indexOf?] at h
    split at h
    · cases h; simp
    · simp only [Option.map_eq_some_iff] at h
      obtain ⟨k', hk', rfl⟩ := h
      have := ih k' hk'
      simp; omega

theorem lastIndexOf?_lt (c : Char) (l : Str) (i : Nat) (h : lastIndexOf? c l = some i) : i < l.length := by
  unfold lastIndexOf? at h
  simp only [Option.map_eq_some_iff] at h
  obtain ⟨k, hk, rfl⟩ := h
  have := indexOf?_lt c l.reverse k hk
  simp at this
  omega

theorem baseOf_prefix (s : Str) : ∃ rest, s = baseOf s ++ rest := by
  unfold baseOf
  split
  · split
    · exact ⟨_, (List.take_append_drop _ s).symm⟩
    · exact ⟨[], by simp⟩
  · exact ⟨[], by simp⟩

/-- C15 `splitRef_agree`: whenever `ParseRef` accepts a string, `PkgImportPathAndExpose` reports
    the same package path, and its name is `ParseRef`'s name without the type-argument list -/
theorem splitRef_agree (s p n : Str) (h : parseRef s = some (p, n)) :
    (pathAndExpose s).1 = p ∧ ∃ rest, n = (pathAndExpose s).2 ++ rest := by
  unfold parseRef cutIndex at h
  unfold pathAndExpose
  change (match lastIndexOf? '.' (baseOf s) with
    | some i => if i > 0 then some i else none
    | none => none).map (fun i => (s.take i, s.drop (i + 1))) = some (p, n) at h
  change (match lastIndexOf? '.' (baseOf s) with
    | some i => if i > 0 then ((baseOf s).take i, (baseOf s).drop (i + 1)) else ([], baseOf s)
    | none => ([], baseOf s)).1 = p ∧ ∃ rest, n = (match lastIndexOf? '.' (baseOf s) with
    | some i => if i > 0 then ((baseOf s).take i, (baseOf s).drop (i + 1)) else ([], baseOf s)
    | none => ([], baseOf s)).2 ++ rest
  cases hl : lastIndexOf? '.' (baseOf s) with
  | none => simp [hl] at h
  | some i =>
    simp only [hl] at h ⊢
    by_cases hi : i > 0
    · simp only [hi, if_true, Option.map_some, Option.some.injEq, Prod.mk.injEq] at h ⊢
      obtain ⟨rfl, rfl⟩ := h
      have hlt := lastIndexOf?_lt '.' (baseOf s) i hl
      obtain ⟨rest, hs⟩ := baseOf_prefix s
      refine ⟨?_, rest, ?_⟩
      · conv => rhs; rw [hs]
        rw [List.take_append_of_le_length (by omega)]
      · conv => lhs; rw [hs]
        rw [List.drop_append_of_le_length (by omega)]
    · simp [hi] at h

end Gengo.TypeRef
