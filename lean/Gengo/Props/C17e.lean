import Gengo.Props.C17d
namespace Gengo.DeepCopy
open Gengo.Heap

/-! ### C17: from the generator model's statements to their meaning -/

/-- the shape of the values of a field type, following same-package declarations
    (`fuel` only bounds the by-value struct nesting, which is acyclic) -/
def shapeOf (p : Pkg) : Nat → FT → Shape
  | _, .plain => .scalar
  | _, .errorT => .scalar
  | _, .slice => .slice
  | _, .map => .map
  | 0, .localNamed id _ =>
    match p[id]? with
    | none => .scalar
    | some d => match d.under with
      | .map => .map
      | .scalar => .scalar
      | .struct => .struct []
  | fuel + 1, .localNamed id _ =>
    match p[id]? with
    | none => .scalar
    | some d => match d.under with
      | .map => .map
      | .scalar => .scalar
      | .struct => .struct (d.fields.map (shapeOf p fuel))

/-- what an emitted statement does (the templates of copy_fields.go / deepcopy.go):
    `callInto` of a struct type runs that type's own field statements, of a defined scalar
    `*out = *in`; `viaCopy` of a defined map allocates and fills a new map -/
def semOf (prev : Bool) (p : Pkg) : Nat → Stmt → Sem
  | _, .assign => .assign
  | _, .copySlice => .realloc
  | _, .copyMap => .realloc
  | _, .viaCopy _ => .realloc
  | _, .viaCopyDeref _ => .assign
  | _, .panic => .assign
  | 0, .callInto id =>
    match p[id]? with
    | none => .assign
    | some d => match d.under with
      | .struct => .into []
      | _ => .assign
  | fuel + 1, .callInto id =>
    match p[id]? with
    | none => .assign
    | some d => match d.under with
      | .struct => .into (d.fields.map fun f => semOf prev p fuel (fieldStmt true prev p f))
      | _ => .assign

theorem chooseList_map {α : Type} (g : α → Shape) (l : List α) : chooseList (l.map g) = l.map fun x => choose (g x) := by
  induction l with
  | nil => simp [chooseList]
  | cons x xs ih => simp [chooseList, ih]

/-- **the repaired generator chooses, for every field type of the domain at every nesting
    depth, exactly the statement whose meaning is `Heap.choose` of the field's shape** — hence
    (`exec_choose`, `deepCopy_no_sharing`) the generated `DeepCopyInto` is a deep copy. -/
theorem semOf_fieldStmt (prev : Bool) (p : Pkg) :
    ∀ fuel ft, semOf prev p fuel (fieldStmt true prev p ft) = choose (shapeOf p fuel ft) := by
  intro fuel
  induction fuel with
  | zero =>
    intro ft
    cases ft with
    | plain => simp [fieldStmt, semOf, shapeOf, choose]
    | slice => simp [fieldStmt, semOf, shapeOf, choose]
    | map => simp [fieldStmt, semOf, shapeOf, choose]
    | errorT => simp [fieldStmt, semOf, shapeOf, choose]
    | localNamed id inst =>
      simp only [fieldStmt, ptrFlag, shapeOf]
      cases hp : p[id]? with
      | none => simp [semOf, hp, choose]
      | some d => cases hu : d.under <;> simp [semOf, hp, hu, choose, chooseList]
  | succ fuel ih =>
    intro ft
    cases ft with
    | plain => simp [fieldStmt, semOf, shapeOf, choose]
    | slice => simp [fieldStmt, semOf, shapeOf, choose]
    | map => simp [fieldStmt, semOf, shapeOf, choose]
    | errorT => simp [fieldStmt, semOf, shapeOf, choose]
    | localNamed id inst =>
      simp only [fieldStmt, ptrFlag, shapeOf]
      cases hp : p[id]? with
      | none => simp [semOf, hp, choose]
      | some d =>
        cases hu : d.under with
        | map => simp [semOf, hu, choose]
        | scalar => simp [semOf, hp, hu, choose]
        | struct =>
          simp only [if_true, semOf, hp, hu, choose, chooseList_map, decide_true, ne_eq, reduceCtorEq, not_false_eq_true]
          congr 1
          apply List.map_congr_left
          intro f _
          exact ih f

/-- non-vacuity: `type A struct{ S []int; B B }`, `type B struct{ M M }`, `type M map[string]int` -/
example :
    let p : Pkg := [⟨.struct, [.slice, .localNamed 1 false], true, false⟩, ⟨.struct, [.localNamed 2 false], false, false⟩,
                    ⟨.map, [], false, false⟩]
    shapeOf p 3 (.localNamed 0 false) = .struct [.slice, .struct [.map]] := by
  simp [shapeOf]

#print axioms semOf_fieldStmt
end Gengo.DeepCopy
