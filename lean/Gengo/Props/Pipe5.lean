import Gengo.Props.Pipe2
namespace Gengo.Pipeline

/-! ### the trace of a *failing* run (C02, C05) -/

/-- If the run returns an error, the processed packages (in sorted order) split into those
    before the failing one, the failing one and the rest: the trace is the complete own traces of
    the former, then whatever the failing package had already done (nothing for a generator or
    callback error — `pkgExecute_gen_error`; the files written before an unparseable one
    otherwise), and nothing of the rest — in particular no sum file. -/
theorem goPkgs_fail (parses : Str → Bool) (order) (a : Args) (root : Str) (prev) (all : List Pkg)
    (gens : List Gen) (ps : List Pkg) (err : Err) :
    ∀ (eff : List Effect), (goPkgs parses order a root prev all gens ps eff).2 = some err →
      ∃ pre p post, ps.filter (processed a prev) = pre ++ p :: post ∧
        (pkgExecute parses order a p gens).2 = some err ∧
        (goPkgs parses order a root prev all gens ps eff).1 =
          eff ++ (pre.flatMap fun q => (pkgExecute parses order a q gens).1) ++ (pkgExecute parses order a p gens).1 := by
  induction ps with
  | nil =>
    intro eff h
    simp only [goPkgs] at h
    split at h <;> simp at h
  | cons p ps ih =>
    intro eff h
    simp only [goPkgs] at h ⊢
    split
    · rename_i hc
      simp only [hc, if_true] at h
      have hp : processed a prev p = false := by
        simp only [Bool.and_eq_true, Bool.not_eq_true'] at hc
        simp [processed, hc.1, hc.2]
      obtain ⟨pre, q, post, h1, h2, h3⟩ := ih eff h
      exact ⟨pre, q, post, by simp [List.filter_cons, hp, h1], h2, h3⟩
    · rename_i hc
      simp only [hc] at h
      split
      · rename_i hc2
        simp only [hc2, if_true] at h
        have hp : processed a prev p = false := by
          simp only [Bool.not_eq_true'] at hc2
          simp [processed, hc2]
        obtain ⟨pre, q, post, h1, h2, h3⟩ := ih eff h
        exact ⟨pre, q, post, by simp [List.filter_cons, hp, h1], h2, h3⟩
      · rename_i hc2
        simp only [hc2] at h
        have hp : processed a prev p = true := by
          simp only [Bool.and_eq_true, Bool.not_eq_true', not_and, Bool.not_eq_false] at hc hc2
          simp only [processed, Bool.and_eq_true, Bool.or_eq_true]
          refine ⟨?_, by simpa using hc2⟩
          by_cases hall : a.all = true
          · exact Or.inl hall
          · exact Or.inr (hc (by simpa using hall))
        rcases hx : pkgExecute parses order a p gens with ⟨e', _ | err'⟩
        · simp only [hx] at h ⊢
          obtain ⟨pre, q, post, h1, h2, h3⟩ := ih (eff ++ e') h
          refine ⟨p :: pre, q, post, by simp [List.filter_cons, hp, h1], h2, ?_⟩
          rw [h3]
          simp [hx, List.append_assoc]
        · simp only [hx] at h ⊢
          have h' : err' = err := by simpa using h
          subst h'
          exact ⟨[], p, ps.filter (processed a prev), by simp [List.filter_cons, hp], by simp [hx], by simp [hx]⟩

/-- corollary: in a failing run no effect is a sum-file write (cf. `execute_sum_last`) and every
    effect belongs to a processed package's own `<base>.*` files -/
theorem goPkgs_fail_own (parses : Str → Bool) (order) (a : Args) (root : Str) (prev) (all : List Pkg)
    (gens : List Gen) (ps : List Pkg) (err : Err)
    (h : (goPkgs parses order a root prev all gens ps []).2 = some err) :
    ∀ e ∈ (goPkgs parses order a root prev all gens ps []).1, ∃ q ∈ ps, Own a q e := by
  obtain ⟨pre, p, post, h1, _, h3⟩ := goPkgs_fail parses order a root prev all gens ps err [] h
  intro e he
  rw [h3] at he
  have hsub : ∀ q, q ∈ pre ++ p :: post → q ∈ ps := by
    intro q hq; rw [← h1] at hq; exact (List.mem_filter.mp hq).1
  simp only [List.nil_append, List.mem_append, List.mem_flatMap] at he
  rcases he with ⟨q, hq, heq⟩ | hep
  · exact ⟨q, hsub q (by simp [hq]), pkgExecute_own parses order a q gens e heq⟩
  · exact ⟨p, hsub p (by simp), pkgExecute_own parses order a p gens e hep⟩

#print axioms goPkgs_fail
end Gengo.Pipeline
