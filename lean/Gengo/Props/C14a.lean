import Gengo.Model.Resolver
namespace Gengo.Resolver

def sInt : Str := ['i','n','t']
def sErr : Str := ['e','r','r','o','r']
def s0 : Str := ['0']
def sNil : Str := ['n','i','l']
def tInt : Ty := ⟨sInt, false⟩
def tErr : Ty := ⟨sErr, true⟩

/-- `func R(n int) (int, error) { if n == 0 { return 0, nil }; return R(n - 1) }` -/
def rec1 : Prog := [⟨[tInt, tErr], [[.lit s0, .lit sNil], [.call 0]]⟩]

/-- the visits map after result 0 of `R` has been resolved -/
def vs1 : Visits := [(0, [true, false])]

/-- one descent for result 1 from `vs1`: the entry exists, its mark is read as `false` and is
    not set, so the forwarding `return R(n-1)` descends again with the *same* visits. -/
theorem rec1_step (k : Nat) :
    funcAt rec1 false (k + 1) vs1 0 1 =
      match funcAt rec1 false k vs1 0 1 with
      | none => none
      | some (out, vs') => some ([Res.val sNil] ++ out, vs') := by
  rfl

/-- pinned code: resolving result 1 of a self-recursive `(T, error)` function never returns,
    whatever the fuel (F13a). -/
theorem rec1_diverges_at1 : ∀ fuel, funcAt rec1 false fuel vs1 0 1 = none := by
  intro fuel
  induction fuel with
  | zero => rfl
  | succ k ih => rw [rec1_step, ih]

theorem rec1_at0 (k : Nat) :
    funcAt rec1 false (k + 1) [] 0 0 = some ([Res.val s0, Res.ty sInt], vs1) := by
  rfl

theorem rec1_diverges : ∀ fuel, resultsOf rec1 false fuel 0 = none := by
  intro fuel
  cases fuel with
  | zero => rfl
  | succ k =>
    have h1 := rec1_diverges_at1 (k + 1)
    have h0 := rec1_at0 k
    show resultsOfAux rec1 false (k + 1) 0 _ [0, 1] [] [] = none
    simp only [resultsOfAux, h0, h1]

/-- repaired code: the same function resolves, with one alternatives list per result -/
example : resultsOf rec1 true 5 0 = some [[.val s0, .ty sInt], [.val sNil]] := by decide

/-- literal-only function: exactly the literal values per position, in source order -/
example :
    resultsOf [⟨[tInt, ⟨['s'], false⟩], [[.lit ['1'], .lit ['a']], [.lit ['3'], .lit ['b','c']]]⟩] true 3 0
      = some [[.val ['1'], .val ['3']], [.val ['a'], .val ['b','c']]] := by decide

#print axioms rec1_diverges
end Gengo.Resolver
