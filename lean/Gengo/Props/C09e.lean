import Gengo.Model.Sprintf
namespace Gengo.Sprintf

/-! ### C09 `sprintf_spec`: the repaired `Sprintf` scanner is tokenise-then-substitute -/

/-- what a format string *is*, independent of the arguments -/
inductive Tok where
  | ch (c : Char)      -- any character outside a verb: verbatim
  | v | t              -- `%v`, `%T`
  | pct                -- `%%`
  | bad                -- `%` followed by anything else, or at the end: panic
deriving DecidableEq

def tokens : Str → List Tok
  | [] => []
  | [c] => if c == '%' then [.bad] else [.ch c]
  | c :: v :: rest =>
    if c == '%' then
      if v == 'T' then .t :: tokens rest
      else if v == 'v' then .v :: tokens rest
      else if v == '%' then .pct :: tokens rest
      else [.bad]
    else .ch c :: tokens (v :: rest)

/-- substitution: verbs consume the arguments left to right, each replaced by the argument's
    complete rendering (which is not scanned again); `none` = panic -/
def subst : List Tok → List Arg → Option Str
  | [], _ => some []
  | .ch c :: ts, args => (subst ts args).map (c :: ·)
  | .pct :: ts, args => (subst ts args).map ('%' :: ·)
  | .bad :: _, _ => none
  | .v :: _, [] => none
  | .v :: ts, a :: args => match a.asV with
    | none => none
    | some s => (subst ts args).map (s ++ ·)
  | .t :: _, [] => none
  | .t :: ts, a :: args => match a.asT with
    | none => none
    | some s => (subst ts args).map (s ++ ·)

theorem scan_eq_subst : ∀ (fuel : Nat) (l : Str) (args : List Arg), l.length < fuel →
    scan true fuel l args = subst (tokens l) args := by
  intro fuel
  induction fuel with
  | zero => intro l args h; omega
  | succ fuel ih =>
    intro l args h
    match l with
    | [] => simp [scan, tokens, subst]
    | [c] =>
      by_cases hc : (c == '%') = true
      · simp [scan, tokens, subst, hc]
      · have hl : ([] : Str).length < fuel := by simp at h ⊢; omega
        simp [scan, tokens, subst, hc, ih [] args hl]
    | c :: v :: rest =>
      simp only [List.length_cons] at h
      by_cases hc : (c == '%') = true
      · simp only [scan, tokens, hc, if_true]
        by_cases hT : (v == 'T') = true
        · simp only [hT, Bool.true_or, if_true, subst]
          cases args with
          | nil => rfl
          | cons a args' =>
            simp only [subst]
            cases a.asT with
            | none => rfl
            | some s => simp only; rw [ih rest args' (by omega)]
        · by_cases hv : (v == 'v') = true
          · simp only [hT, hv, Bool.or_true, if_true, Bool.false_eq_true, if_false, subst]
            cases args with
            | nil => rfl
            | cons a args' =>
              simp only [subst]
              cases a.asV with
              | none => rfl
              | some s => simp only; rw [ih rest args' (by omega)]
          · by_cases hp : (v == '%') = true
            · simp only [hT, hv, hp, Bool.or_self, Bool.false_eq_true, if_false, if_true, subst]
              rw [ih rest args (by omega)]
            · simp [hT, hv, hp, subst]
      · simp only [scan, tokens, hc, Bool.false_eq_true, if_false, subst]
        rw [ih (v :: rest) args (by simp; omega)]

/-- **C09 `sprintf_spec`** -/
theorem sprintf_spec (fmt : Str) (args : List Arg) : sprintf true fmt args = subst (tokens fmt) args :=
  scan_eq_subst _ fmt args (by simp)

/-- pinned code: `%%` is not a percent sign (F6) — the equation fails on the shortest input -/
example : sprintf false "%%".toList [] ≠ subst (tokens "%%".toList) [] := by decide

#print axioms sprintf_spec
end Gengo.Sprintf
