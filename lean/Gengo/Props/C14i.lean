import Gengo.Props.C14g
namespace Gengo.Resolver2
open Gengo.Resolver (Res Visits visited)

/-! ### The extended model is a conservative extension of the core model

Every program of the core language (`Model/Resolver`), read as a program of the extended language,
gets the same answer from both models — so what `Props/C14a`–`C14f` prove about the core language
is also true of the extended model on that fragment, and the two correspondence streams check one
semantics. -/

def embedExpr : Resolver.Expr → Expr
  | .lit v => .lit v
  | .opaque t => .opaque t
  | .call f => .call ⟨[], [], some f⟩ .nil

def embedBody (rets : List (List Resolver.Expr)) : List Stmt :=
  rets.map fun r => Stmt.ret 0 (some (r.map embedExpr))

def embedFunc (fn : Resolver.Func) : Func :=
  ⟨fn.results.map (·.name), fn.results.map fun _ => none, some (embedBody fn.returns)⟩

def embed (p : Resolver.Prog) : Prog := p.map embedFunc

/-- the core model is handed the `follow` flag; in the code (and the extended model) it is a function of the type's name -/
def Consistent (p : Resolver.Prog) : Prop := ∀ fn ∈ p, ∀ ty ∈ fn.results, ty.follow = follows ty.name

/-- a consumer that, on plain alternatives, just collects -/
def PlainCollect (k : K) : Prop := ∀ r vs, r.kind = Kind.plain → k r vs = some ([r.res], vs)

theorem collect_plain : PlainCollect collect := fun _ _ _ => rfl

theorem post_plain (p : Prog) (rec : Rec) (retN : Nat) (body : List Stmt) (k : K) (hk : PlainCollect k) :
    PlainCollect (post p rec retN body k) := by
  intro r vs hr
  simp only [post, hr]
  exact hk r vs hr

def RecRel (p : Resolver.Prog) (rec : Resolver.Rec) (rec' : Rec) : Prop :=
  ∀ vs g a k, PlainCollect k → rec' vs g (nres (embed p) g) a k = rec vs g a

theorem embed_get (p : Resolver.Prog) (g : Nat) : (embed p)[g]? = (p[g]?).map embedFunc := by
  simp [embed]

theorem seq_done_left (b : Visits → Out) (vs : Visits) : seq (fun vs => some ([], vs)) b vs = b vs := by
  simp only [seq]
  cases b vs with
  | none => rfl
  | some x => obtain ⟨o, v⟩ := x; simp

theorem call_embed (p : Resolver.Prog) (hc : Consistent p) (rec : Resolver.Rec) (rec' : Rec) (hr : RecRel p rec rec')
    (retN q g ci : Nat) (k : K) (hk : PlainCollect k) (vs : Visits) :
    exprAt (embed p) rec' retN q (.call ⟨[], [], some g⟩ .nil) ci k vs = Resolver.callAt p rec vs g ci := by
  rw [exprAt]
  simp only [sigRets, Option.bind_some, embed_get, Resolver.callAt]
  cases hg : p[g]? with
  | none => simp
  | some fn =>
    simp only [Option.map_some, embedFunc, List.getElem?_map]
    cases ht : fn.results[ci]? with
    | none => simp
    | some ty =>
      have hmem : ty ∈ fn.results := List.mem_of_getElem? ht
      have hfn : fn ∈ p := List.mem_of_getElem? hg
      have hf := hc fn hfn ty hmem
      simp only [Option.map_some]
      by_cases hfo : follows ty.name = true
      · simp only [hfo, if_true, hf]
        have : (if isErr ty.name = true then argsAt (embed p) rec' retN q Args.nil [] k else done) =
            fun vs => some ([], vs) := by
          split
          · funext vs; rw [argsAt]
          · rfl
        rw [this, seq_done_left]
        exact hr vs g ci k hk
      · have hfo' : follows ty.name = false := by simpa using hfo
        simp only [hfo', hf, Bool.false_eq_true, if_false]
        exact hk _ vs rfl

theorem exprsAt_embed (p : Resolver.Prog) (hc : Consistent p) (rec : Resolver.Rec) (rec' : Rec) (hr : RecRel p rec rec')
    (retN q : Nat) (r : List Resolver.Expr) (n a : Nat) (k : K) (hk : PlainCollect k) (vs : Visits) :
    exprsAt (embed p) rec' retN q (r.map embedExpr) n a k vs = Resolver.exprsAt p rec vs r n a := by
  unfold exprsAt Resolver.exprsAt
  simp only [List.length_map]
  split
  · cases r with
    | nil => simp [done]
    | cons e es =>
      cases e with
      | call g => simpa [embedExpr] using call_embed p hc rec rec' hr retN q g a k hk vs
      | lit v => simp [embedExpr, done]
      | «opaque» t => simp [embedExpr, done]
  · simp only [List.getElem?_map]
    cases he : r[a]? with
    | none => simp [done]
    | some e =>
      cases e with
      | call g => simpa [embedExpr] using call_embed p hc rec rec' hr retN q g 0 k hk vs
      | lit v => simpa [embedExpr, exprAt] using hk ⟨.val v, .plain⟩ vs rfl
      | «opaque» t => simpa [embedExpr, exprAt] using hk ⟨.ty t, .plain⟩ vs rfl

theorem overReturns_acc (p : Resolver.Prog) (rec : Resolver.Rec) (n a : Nat) :
    ∀ (rs : List (List Resolver.Expr)) (vs : Visits) (acc : List Res),
      Resolver.overReturns p rec n a rs vs acc =
        (Resolver.overReturns p rec n a rs vs []).map fun x => (acc ++ x.1, x.2)
  | [], vs, acc => by simp [Resolver.overReturns]
  | r :: rs, vs, acc => by
    simp only [Resolver.overReturns]
    cases Resolver.exprsAt p rec vs r n a with
    | none => rfl
    | some x =>
      obtain ⟨o, vs'⟩ := x
      simp only [List.nil_append]
      rw [overReturns_acc p rec n a rs vs' (acc ++ o), overReturns_acc p rec n a rs vs' o]
      cases Resolver.overReturns p rec n a rs vs' [] with
      | none => rfl
      | some y => simp [List.append_assoc]

theorem stmtsAt_embed (p : Resolver.Prog) (hc : Consistent p) (rec : Resolver.Rec) (rec' : Rec) (hr : RecRel p rec rec')
    (retN : Nat) (fn : Func) (body : List Stmt) (a : Nat) (k : K) (hk : PlainCollect k) :
    ∀ (rs : List (List Resolver.Expr)) (vs : Visits),
      stmtsAt (embed p) rec' retN fn body a k (embedBody rs) vs = Resolver.overReturns p rec retN a rs vs []
  | [], vs => by simp [embedBody, stmtsAt, done, Resolver.overReturns]
  | r :: rs, vs => by
    have ih := stmtsAt_embed p hc rec rec' hr retN fn body a k hk rs
    simp only [embedBody, List.map_cons, stmtsAt, seq, Resolver.overReturns] at ih ⊢
    rw [exprsAt_embed p hc rec rec' hr retN 0 r retN a _ (post_plain _ _ _ _ k hk) vs]
    cases Resolver.exprsAt p rec vs r retN a with
    | none => rfl
    | some x =>
      obtain ⟨o, vs'⟩ := x
      simp only [ih vs', List.nil_append]
      rw [overReturns_acc p rec retN a rs vs' o]
      cases Resolver.overReturns p rec retN a rs vs' [] with
      | none => rfl
      | some y => rfl

theorem nres_embed (p : Resolver.Prog) (g : Nat) (fn : Resolver.Func) (hg : p[g]? = some fn) :
    nres (embed p) g = fn.results.length := by
  simp [nres, embed_get, hg, embedFunc]

/-- descents agree, for every amount of fuel -/
theorem funcAt_embed (p : Resolver.Prog) (hc : Consistent p) :
    ∀ fuel, RecRel p (Resolver.funcAt p true fuel) (funcAt (embed p) fuel)
  | 0 => by intro vs g a k _; simp [funcAt, Resolver.funcAt]
  | fuel + 1 => by
    intro vs g a k hk
    simp only [funcAt, Resolver.funcAt, embed_get]
    cases hg : p[g]? with
    | none => simp
    | some fn =>
      simp only [Option.map_some]
      have hb : (embedFunc fn).body = some (embedBody fn.returns) := rfl
      have hl : (embedFunc fn).results.length = fn.results.length := by simp [embedFunc]
      simp only [hb, hl]
      cases visited true vs g a fn.results.length with
      | mk seen vs' =>
        simp only
        cases seen with
        | true => simp
        | false =>
          simp only [Bool.false_eq_true, if_false]
          rw [nres_embed p g fn hg]
          exact stmtsAt_embed p hc _ _ (funcAt_embed p hc fuel) fn.results.length _ _ a k hk fn.returns vs'

theorem resultsOfAux_embed (p : Resolver.Prog) (hc : Consistent p) (fuel g : Nat) (fn : Resolver.Func)
    (hg : p[g]? = some fn) :
    ∀ (as : List Nat) (vs : Visits) (acc : List (List Res)),
      resultsOfAux (embed p) fuel g (embedFunc fn) as vs acc = Resolver.resultsOfAux p true fuel g fn as vs acc
  | [], vs, acc => by simp [resultsOfAux, Resolver.resultsOfAux]
  | a :: as, vs, acc => by
    simp only [resultsOfAux, Resolver.resultsOfAux]
    have hl : (embedFunc fn).results.length = fn.results.length := by simp [embedFunc]
    have := funcAt_embed p hc fuel vs g a collect collect_plain
    rw [nres_embed p g fn hg] at this
    rw [hl, this]
    cases Resolver.funcAt p true fuel vs g a with
    | none => rfl
    | some x =>
      obtain ⟨out, vs'⟩ := x
      simp only
      have hr : (embedFunc fn).results[a]?.getD [] = (fn.results[a]?.map (·.name)).getD [] := by
        simp [embedFunc, List.getElem?_map]
      rw [hr]
      exact resultsOfAux_embed p hc fuel g fn hg as vs' _

/-- **conservative extension**: on the core language the extended model and the (repaired) core
    model give the same answer — with the same fuel, diverging together -/
theorem resultsOf_embed (p : Resolver.Prog) (hc : Consistent p) (fuel g : Nat) :
    resultsOf (embed p) fuel g = Resolver.resultsOf p true fuel g := by
  unfold resultsOf Resolver.resultsOf
  rw [embed_get]
  cases hg : p[g]? with
  | none => rfl
  | some fn =>
    simp only [Option.map_some]
    have hl : (embedFunc fn).results.length = fn.results.length := by simp [embedFunc]
    rw [hl]
    exact resultsOfAux_embed p hc fuel g fn hg _ [] []

#print axioms resultsOf_embed
end Gengo.Resolver2
