import Gengo.Model.Pipeline
namespace Gengo.Pipeline
open Gengo.Tags

/-- C08 `skip_sound` (repaired decision): a package is skipped as cached only if Force is off,
    a sum file was loaded, it has an entry for the package, and that entry equals the hash of the
    package's current directory. -/
theorem skip_sound (a : Args) (hfix : a.emptyHashChanged = true) (prev : Option (List (Str × Str))) (p : Pkg)
    (h : pkgChanged a prev p = false) :
    a.force = false ∧ ∃ m, prev = some m ∧ m.lookup p.path = some p.hash := by
  unfold pkgChanged at h
  simp only [hfix, Bool.true_and, Bool.or_eq_false_iff] at h
  obtain ⟨⟨hf, hne⟩, hm⟩ := h
  refine ⟨hf, ?_⟩
  cases prev with
  | none => simp at hm
  | some m =>
    refine ⟨m, rfl, ?_⟩
    simp only [bne_eq_false_iff_eq] at hm
    cases hl : m.lookup p.path with
    | none =>
      simp [hl] at hm
      rw [hm] at hne; simp at hne
    | some v => simp [hl] at hm; rw [hm]

/-- C08 `regen_on`: Force, a missing/unreadable sum file or a missing entry each force regeneration -/
theorem regen_on_force (a : Args) (prev) (p : Pkg) (h : a.force = true) : pkgChanged a prev p = true := by
  simp [pkgChanged, h]
theorem regen_on_no_sum (a : Args) (p : Pkg) : pkgChanged a none p = true := by
  simp [pkgChanged]
theorem regen_on_missing_entry (a : Args) (hfix : a.emptyHashChanged = true) (m : List (Str × Str)) (p : Pkg)
    (h : m.lookup p.path = none) : pkgChanged a (some m) p = true := by
  unfold pkgChanged
  simp only [hfix, Bool.true_and, h, Option.getD_none]
  cases hh : p.hash with
  | nil => simp
  | cons c cs => simp

/-- pinned decision (F17): with an empty current hash a *missing* entry counts as "unchanged" -/
example :
    let a : Args := { globals := [], base := [], all := true, force := false, emptyHashChanged := false }
    let p : Pkg := { path := ['p'], direct := true, dir := ['d'], hash := [], goFiles := [], pkgTags := [], types := [] }
    pkgChanged a (some []) p = false := by decide

#print axioms skip_sound
end Gengo.Pipeline
