import Gengo.Props.C14b
namespace Gengo.Resolver

/-- a function whose every `return` lists one literal per result -/
def LiteralOnly (fn : Func) : Prop :=
  ∀ r ∈ fn.returns, r.length = fn.results.length ∧ ∀ e ∈ r, ∃ v, e = Expr.lit v

def litAt (r : List Expr) (a : Nat) : List Res :=
  match r[a]? with
  | some (.lit v) => [.val v]
  | _ => []

theorem exprsAt_literal (p : Prog) (rec : Rec) (vs : Visits) (r : List Expr) (n a : Nat)
    (hlen : r.length = n) (hlit : ∀ e ∈ r, ∃ v, e = Expr.lit v) (ha : a < n) :
    exprsAt p rec vs r n a = some (litAt r a, vs) := by
  unfold exprsAt litAt
  have hnot : ¬ (0 < r.length ∧ r.length < n) := by omega
  simp only [hnot, if_false]
  have hsome : ∃ e, r[a]? = some e := ⟨r[a]'(by omega), List.getElem?_eq_getElem (by omega)⟩
  obtain ⟨e, he⟩ := hsome
  obtain ⟨v, rfl⟩ := hlit e (List.mem_of_getElem? he)
  simp [he]

theorem overReturns_literal (p : Prog) (rec : Rec) (n a : Nat) (ha : a < n) (rs : List (List Expr))
    (h : ∀ r ∈ rs, r.length = n ∧ ∀ e ∈ r, ∃ v, e = Expr.lit v) :
    ∀ (vs : Visits) (acc : List Res),
      overReturns p rec n a rs vs acc = some (acc ++ rs.flatMap (litAt · a), vs) := by
  induction rs with
  | nil => intro vs acc; simp [overReturns]
  | cons r rs ih =>
    intro vs acc
    have hr := h r (by simp)
    simp only [overReturns, exprsAt_literal p rec vs r n a hr.1 hr.2 ha]
    rw [ih (fun x hx => h x (by simp [hx]))]
    simp [List.flatMap_cons, List.append_assoc]

/-- C14 `literal_exact`, per position: from any state in which position `a` of a literal-only
    function is still unmarked, the alternatives found are exactly the literal values written at
    that position of each `return`, in source order (`litAt r a` is `[val v]` for the literal `v`). -/
theorem funcAt_literal (p : Prog) (fuel f a : Nat) (fn : Func) (hfn : p[f]? = some fn)
    (hl : LiteralOnly fn) (ha : a < fn.results.length) (vs : Visits)
    (hun : (visited true vs f a fn.results.length).1 = false) :
    funcAt p true (fuel + 1) vs f a =
      some (fn.returns.flatMap (litAt · a), (visited true vs f a fn.results.length).2) := by
  simp only [funcAt, hfn]
  generalize hv : visited true vs f a fn.results.length = r at hun
  obtain ⟨seen, vs'⟩ := r
  simp only at hun
  subst hun
  simp only [Bool.false_eq_true, if_false]
  rw [overReturns_literal p _ fn.results.length a ha fn.returns hl vs' []]
  simp

#print axioms funcAt_literal
end Gengo.Resolver
