import Gengo.Props.C04
import Gengo.Props.C06a
import Gengo.Props.C06b
namespace Gengo.Pipeline
open Gengo.Tags

/-! ### C04: the remaining map-as-list inputs (type table, tag maps) -/

theorem dispatch_types (a : Args) (p : Pkg) (g : Gen) (ts₂ : List TypeObj) :
    ∀ ts s, dispatch a { p with types := ts₂ } g ts s = dispatch a p g ts s := by
  intro ts
  induction ts with
  | nil => intro s; simp [dispatch]
  | cons t ts ih => intro s; simp only [dispatch, ih]

theorem runDefers_types (p : Pkg) (g : Gen) (ts₂ : List TypeObj) :
    ∀ ds body, runDefers { p with types := ts₂ } g ds body = runDefers p g ds body := by
  intro ds
  induction ds with
  | nil => intro body; simp [runDefers]
  | cons d ds ih => intro body; simp only [runDefers, ih]

/-- the order in which the name → type table is presented does not matter -/
theorem runGen_types_perm (a : Args) (p : Pkg) (g : Gen) {ts₂ : List TypeObj} (h : p.types.Perm ts₂)
    (hd : ∀ x ∈ p.types, ∀ y ∈ p.types, x.name = y.name → x = y) :
    runGen a { p with types := ts₂ } g = runGen a p g := by
  unfold runGen
  simp only [dispatch_types, runDefers_types, ← sortedTypes_perm h hd]

theorem lookup_isNone_iff (m : TagMap) (k : Str) : (m.lookup k).isNone = true ↔ k ∉ m.map (·.1) := by
  induction m with
  | nil => simp
  | cons kv m ih =>
    obtain ⟨k', v⟩ := kv
    simp only [List.lookup, List.map_cons, List.mem_cons, not_or]
    by_cases hk : k = k'
    · subst hk; simp
    · have : (k == k') = false := by simpa using hk
      simp [this, ih, hk]

theorem merge3_perm {g₁ g₂ p₁ p₂ d₁ d₂ : TagMap} (hg : g₁.Perm g₂) (hp : p₁.Perm p₂) (hd : d₁.Perm d₂)
    (dp : DistinctKeys p₁) (dd : DistinctKeys d₁) :
    (merge3 g₁ p₁ d₁).Perm (merge3 g₂ p₂ d₂) := by
  unfold merge3
  have e1 : ∀ k, d₁.lookup k = d₂.lookup k := lookup_perm hd dd
  have e2 : ∀ k, p₁.lookup k = p₂.lookup k := lookup_perm hp dp
  refine (hd.append ?_).append ?_
  · simp only [e1]; exact hp.filter _
  · simp only [e1, e2]; exact hg.filter _

theorem merge3_distinct {g p d : TagMap} (dg : DistinctKeys g) (dp : DistinctKeys p) (dd : DistinctKeys d) :
    DistinctKeys (merge3 g p d) := by
  unfold DistinctKeys merge3 at *
  simp only [List.map_append]
  rw [List.nodup_append, List.nodup_append]
  refine ⟨⟨dd, (List.filter_sublist.map _).nodup dp, ?_⟩, (List.filter_sublist.map _).nodup dg, ?_⟩
  · intro a ha b hb hab
    subst hab
    obtain ⟨kv, hkv, rfl⟩ := List.mem_map.mp hb
    have := (List.mem_filter.mp hkv).2
    exact (lookup_isNone_iff d kv.1).mp this ha
  · intro a ha b hb hab
    subst hab
    obtain ⟨kv, hkv, rfl⟩ := List.mem_map.mp hb
    have := (List.mem_filter.mp hkv).2
    simp only [Bool.and_eq_true] at this
    rcases List.mem_append.mp ha with ha | ha
    · exact (lookup_isNone_iff d kv.1).mp this.1 ha
    · obtain ⟨kv', hkv', hk⟩ := List.mem_map.mp ha
      have := (lookup_isNone_iff p kv.1).mp this.2
      apply this
      rw [← hk]
      exact List.mem_map.mpr ⟨kv', (List.mem_filter.mp hkv').1, rfl⟩

/-- **C04 for the dispatch decision**: whether and how `doGenerate` calls a generator for a table
    entry does not depend on the iteration order of any of the three tag maps. -/
theorem handler_perm (a₁ a₂ : Args) (p₁ p₂ : Pkg) (g : Gen) (t₁ t₂ : TypeObj)
    (hk : t₁.kind = t₂.kind)
    (hg : a₁.globals.Perm a₂.globals) (hp : p₁.pkgTags.Perm p₂.pkgTags) (ht : t₁.tags.Perm t₂.tags)
    (dg : DistinctKeys a₁.globals) (dp : DistinctKeys p₁.pkgTags) (dt : DistinctKeys t₁.tags) :
    handler a₁ p₁ g t₁ = handler a₂ p₂ g t₂ := by
  unfold handler
  rw [enabled_perm g.name (merge3_perm hg hp ht dp dt) (merge3_distinct dg dp dt), hk]

#print axioms handler_perm
#print axioms runGen_types_perm
end Gengo.Pipeline
