import Gengo.Model.Pipeline
namespace Gengo.Pipeline
open Gengo.Tags

/-! ### C06 `dispatch_exact` -/

/-- the calls the property prescribes for a (sorted) type list -/
def expectedCalls (a : Args) (p : Pkg) (g : Gen) : List TypeObj → List (Str × Bool)
  | [] => []
  | t :: ts =>
    let en := isEnabled g.name (merge3 a.globals p.pkgTags t.tags)
    match t.kind with
    | .named => if en then (t.name, false) :: expectedCalls a p g ts else expectedCalls a p g ts
    | .alias => if en && g.onAlias.isSome then (t.name, true) :: expectedCalls a p g ts
                else expectedCalls a p g ts
    | _ => expectedCalls a p g ts

/-- whenever dispatch completes, the call log is exactly the prescribed list: GenerateType once
    per enabled defined type in table order, GenerateAliasType for enabled aliases when the
    generator has that hook, nothing for type parameters / other objects / disabled types. -/
theorem dispatch_exact (a : Args) (p : Pkg) (g : Gen) (ts : List TypeObj) :
    ∀ (s s' : GState g), dispatch a p g ts s = .ok s' → s'.calls = s.calls ++ expectedCalls a p g ts := by
  induction ts with
  | nil => intro s s' h; simp [dispatch] at h; subst h; simp [expectedCalls]
  | cons t ts ih =>
    intro s s' h
    simp only [dispatch] at h
    simp only [expectedCalls]
    split at h
    · -- named
      rename_i hk
      simp only [hk]
      split at h
      · rename_i hen
        simp only [hen, if_true]
        split at h
        · cases h
        · have := ih _ _ h
          simp [this]
      · rename_i hen
        simp only [hen]
        exact ih _ _ h
    · -- alias
      rename_i hk
      simp only [hk]
      split at h
      · rename_i hen
        split at h
        · rename_i f hf
          simp only [hen, hf, Option.isSome_some, Bool.and_self, if_true]
          split at h
          · cases h
          · have := ih _ _ h
            simp [this]
        · rename_i hf
          simp only [hen, hf, Option.isSome_none, Bool.and_false, Bool.false_eq_true, if_false]
          exact ih _ _ h
      · rename_i hen
        simp only [hen, Bool.false_and, Bool.false_eq_true, if_false]
        exact ih _ _ h
    · -- neither
      rename_i hk1 hk2
      have : ∀ x, (match t.kind with
          | Kind.named => x
          | Kind.alias => x
          | _ => expectedCalls a p g ts) = (match t.kind with
          | Kind.named => x
          | Kind.alias => x
          | _ => expectedCalls a p g ts) := fun _ => rfl
      cases hk : t.kind with
      | named => exact absurd hk hk1
      | alias => exact absurd hk hk2
      | typeParam => simp only; exact ih _ _ h
      | other => simp only; exact ih _ _ h

/-! ### C07 `touch_only_own`, `lookalike_safe` -/

/-- the file a non-sum effect touches -/
def Effect.target : Effect → Option (Str × Str)
  | .write d n _ _ => some (d, n)
  | .remove d n => some (d, n)
  | .writeSum .. => none

def Own (a : Args) (p : Pkg) (e : Effect) : Prop :=
  ∀ d n, e.target = some (d, n) → d = p.dir ∧ (a.base ++ ['.']).isPrefixOf n = true

theorem fileName_prefix (base gen : Str) : (base ++ ['.']).isPrefixOf (fileName base gen) = true := by
  unfold fileName
  rw [List.append_assoc]
  exact List.isPrefixOf_iff_prefix.mpr ⟨_, rfl⟩

theorem writes_own (parses : Str → Bool) (a : Args) (p : Pkg) (ws : List (Str × Str)) :
    ∀ (stale : List Str) (eff : List Effect),
      (∀ f ∈ stale, (a.base ++ ['.']).isPrefixOf f = true) → (∀ e ∈ eff, Own a p e) →
      ∀ e ∈ (writes parses a p ws stale eff).1, Own a p e := by
  induction ws with
  | nil =>
    intro stale eff hst heff e he
    simp [writes] at he
    rcases he with he | ⟨f, hf, rfl⟩
    · exact heff e he
    · intro d n h; simp [Effect.target] at h; obtain ⟨rfl, rfl⟩ := h; exact ⟨rfl, hst _ hf⟩
  | cons w rest ih =>
    intro stale eff hst heff
    obtain ⟨gn, text⟩ := w
    simp only [writes]
    have hst' : ∀ f ∈ stale.filter (· ≠ fileName a.base gn), (a.base ++ ['.']).isPrefixOf f = true :=
      fun f hf => hst f (List.mem_filter.mp hf).1
    split
    · exact ih _ _ hst' heff
    · split
      · apply ih _ _ hst'
        intro e he
        simp at he
        rcases he with he | rfl
        · exact heff e he
        · intro d n h; simp [Effect.target] at h; obtain ⟨rfl, rfl⟩ := h
          exact ⟨rfl, fileName_prefix _ _⟩
      · exact heff

/-- C07: every file a package run creates, rewrites or deletes lies in that package's directory
    and is named `<base>.<something>` — a name that merely starts with `<base>` is never a target. -/
theorem pkgExecute_own (parses : Str → Bool) (order) (a : Args) (p : Pkg) (gens : List Gen) :
    ∀ e ∈ (pkgExecute parses order a p gens).1, Own a p e := by
  unfold pkgExecute
  split
  · simp
  · apply writes_own parses a p _ _ []
    · intro f hf; exact (List.mem_filter.mp hf).2
    · simp

/-! ### C05: the trace is the concatenation of per-package traces -/

def processed (a : Args) (prev : Option (List (Str × Str))) (p : Pkg) : Bool :=
  (a.all || p.direct) && pkgChanged a prev p

/-- For a run that returns no error, the trace is exactly: for each processed package in sorted
    order, that package's own trace — a function of the package, the arguments and the generator
    prototypes only — followed by the sum file under `All`.  Nothing a package contributes
    depends on which other packages are in the run (C05), nor on their order (C04). -/
theorem goPkgs_decomp (parses : Str → Bool) (order) (a : Args) (root : Str) (prev) (all : List Pkg)
    (gens : List Gen) (ps : List Pkg) :
    ∀ (eff : List Effect), (goPkgs parses order a root prev all gens ps eff).2 = none →
      (goPkgs parses order a root prev all gens ps eff).1 =
        eff ++ ((ps.filter (processed a prev)).flatMap fun p => (pkgExecute parses order a p gens).1) ++
          (if a.all then [Effect.writeSum root (SumFile.bytes (all.map fun p => (p.path, p.hash)))] else []) := by
  induction ps with
  | nil =>
    intro eff _
    simp only [goPkgs]
    split <;> simp
  | cons p ps ih =>
    intro eff h
    simp only [goPkgs] at h ⊢
    split
    · rename_i hc
      simp only [hc, if_true] at h
      have hp : processed a prev p = false := by
        simp only [Bool.and_eq_true, Bool.not_eq_true'] at hc
        simp [processed, hc.1, hc.2]
      rw [ih eff h]
      simp [List.filter_cons, hp]
    · rename_i hc
      simp only [hc] at h
      split
      · rename_i hc2
        simp only [hc2, if_true] at h
        have hp : processed a prev p = false := by
          simp only [Bool.not_eq_true'] at hc2
          simp [processed, hc2]
        rw [ih eff h]
        simp [List.filter_cons, hp]
      · rename_i hc2
        simp only [hc2] at h
        have hp : processed a prev p = true := by
          simp only [Bool.and_eq_true, Bool.not_eq_true', not_and, Bool.not_eq_false] at hc hc2
          simp only [processed, Bool.and_eq_true, Bool.or_eq_true]
          refine ⟨?_, by simpa using hc2⟩
          by_cases hall : a.all = true
          · exact Or.inl hall
          · exact Or.inr (hc (by simpa using hall))
        rcases hx : pkgExecute parses order a p gens with ⟨e', _ | err⟩
        · simp only [hx] at h ⊢
          rw [ih (eff ++ e') h]
          simp [List.filter_cons, hp, hx, List.append_assoc]
        · simp [hx] at h

#print axioms dispatch_exact
#print axioms pkgExecute_own
#print axioms goPkgs_decomp
end Gengo.Pipeline
