import Gengo.Props.C09
namespace Gengo.Template

/-! ### The declarative reading of C09: tokenize, then substitute -/

inductive Tok
  | lit (c : Char)
  | hole (name : List Char)

/-- maximal run of name characters -/
def takeName : List Char → List Char × List Char
  | [] => ([], [])
  | c :: cs => if isNameChar c then ((takeName cs).1.cons c, (takeName cs).2) else ([], c :: cs)

theorem takeName_spec (l : List Char) :
    l = (takeName l).1 ++ (takeName l).2 ∧ (∀ c ∈ (takeName l).1, isNameChar c = true) ∧
    (∀ c, (takeName l).2.head? = some c → isNameChar c = false) ∧ (takeName l).2.length ≤ l.length := by
  induction l with
  | nil => simp [takeName]
  | cons c cs ih =>
    simp only [takeName]
    by_cases hc : isNameChar c = true
    · simp only [hc, if_true]
      obtain ⟨h1, h2, h3, h4⟩ := ih
      refine ⟨by simp; exact h1, ?_, h3, by simp; omega⟩
      intro d hd
      simp only [List.mem_cons] at hd
      rcases hd with rfl | hd
      · exact hc
      · exact h2 d hd
    · simp only [hc]
      refine ⟨by simp, by simp, ?_, by simp⟩
      intro d hd; simp at hd; subst hd; simpa using hc

/-- the format as a sequence of literal characters and placeholders: an `@` opens a placeholder
    named by the maximal following run of name characters; one apostrophe directly after it is a
    delimiter and disappears; everything else is a literal character -/
def tokenize : Nat → List Char → List Tok
  | 0, _ => []
  | _ + 1, [] => []
  | fuel + 1, c :: r =>
    if c == '@' then
      let n := (takeName r).1
      match (takeName r).2 with
      | [] => [.hole n]
      | d :: r'' =>
        if d == '@' then .hole n :: tokenize fuel (d :: r'')
        else if d == '\'' then .hole n :: tokenize fuel r''
        else .hole n :: .lit d :: tokenize fuel r''
    else .lit c :: tokenize fuel r

/-- substitute: literals are copied, a placeholder is replaced by the complete rendering of its
    argument (nothing for the empty name or a nil argument); `none` = panic -/
def subst (env : Env) : List Tok → Option (List Char)
  | [] => some []
  | .lit c :: ts => (subst env ts).map (c :: ·)
  | .hole n :: ts =>
    match flush env n with
    | none => none
    | some (t, _) => (subst env ts).map (t ++ ·)

/-- C09 (repaired scanner): rendering a template *is* tokenizing its format and substituting.
    Argument text is appended by `subst` and never passes through `tokenize` — it is not re-read
    as template syntax —, and the literal tokens are exactly the characters of the format that are
    not part of a placeholder, in order. -/
theorem scan_eq_subst (env : Env) : ∀ (fuel : Nat) (s : List Char), s.length < fuel →
    scan env true s = subst env (tokenize fuel s) := by
  intro fuel
  induction fuel with
  | zero => intro s h; omega
  | succ k ih =>
    intro s hs
    cases s with
    | nil => simp [tokenize, subst, scan, run, finish]
    | cons c r =>
      simp only [tokenize]
      by_cases hc : c = '@'
      · subst hc
        simp only [show (('@' : Char) == '@') = true from rfl, if_true]
        obtain ⟨h1, h2, h3, h4⟩ := takeName_spec r
        have hscan := scan_hole env true (takeName r).1 (takeName r).2 h2 h3
        have heq : '@' :: (takeName r).1 ++ (takeName r).2 = '@' :: r := by
          rw [List.cons_append, ← h1]
        rw [heq] at hscan
        rw [hscan]
        cases hr : (takeName r).2 with
        | nil =>
          simp only [subst]
          rcases hf : flush env (takeName r).1 with _ | ⟨t, w⟩ <;> simp [afterHole]
        | cons d r'' =>
          have hlen2 : r''.length + 1 ≤ r.length := by
            have : ((takeName r).2).length ≤ r.length := h4
            rw [hr] at this; simpa using this
          have hrk : r.length < k := by simp at hs; omega
          have hlen : r''.length < k := by omega
          simp only
          by_cases hd : d = '@'
          · subst hd
            simp only [show (('@' : Char) == '@') = true from rfl, if_true, subst]
            rcases hf : flush env (takeName r).1 with _ | ⟨t, w⟩
            · simp
            · simp only [afterHole, show (('@' : Char) == '@') = true from rfl, if_true]
              rw [ih ('@' :: r'') (by simp; omega)]
          · have hd' : (d == '@') = false := by simp [hd]
            simp only [hd', Bool.false_eq_true, if_false]
            by_cases ha : d = '\''
            · subst ha
              simp only [show (('\'' : Char) == '\'') = true from rfl, if_true, subst]
              rcases hf : flush env (takeName r).1 with _ | ⟨t, w⟩
              · simp
              · simp only [afterHole, show (('\'' : Char) == '@') = false from rfl, Bool.false_eq_true,
                  if_false, show (('\'' : Char) == '\'') = true from rfl, Bool.true_or, Bool.and_self, if_true]
                rw [ih r'' (by omega)]
            · have ha' : (d == '\'') = false := by simp [ha]
              simp only [ha', Bool.false_eq_true, if_false, subst]
              rcases hf : flush env (takeName r).1 with _ | ⟨t, w⟩
              · simp
              · simp only [afterHole, hd', ha', Bool.false_and, Bool.false_eq_true, if_false]
                rw [ih r'' (by omega)]
                rcases hsub : subst env (tokenize k r'') with _ | o <;> simp
      · have hc' : (c == '@') = false := by simp [hc]
        simp only [hc', Bool.false_eq_true, if_false, subst]
        rw [scan_lit env true c r hc, ih r (by simp at hs; omega)]

#print axioms scan_eq_subst
end Gengo.Template
