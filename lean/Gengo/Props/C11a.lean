import Gengo.Model.TypeLit
namespace Gengo.TypeLit

def env0 : Env := { self := "ex/self".toList, localName := fun p => if p = "time".toList then "time".toList else "x".toList }
def sc0 : Scope := { self := "ex/self".toList, imports := [("time".toList, "time".toList)] }

/-- pinned code (F10): `[]error` is printed as `[]any`, which denotes a different type -/
example : denote sc0 (typeLit false env0 (.slice .error)) = some (.slice .any) := by
  have : sAny ≠ sError := by decide
  simp [typeLit, denote, this]
/-- repaired code -/
example : denote sc0 (typeLit true env0 (.slice .error)) = some (.slice .error) := by
  simp [typeLit, denote]

/-- names a defined type may carry in the domain: not predeclared, not `error`/`any` -/
def okName (n : Str) : Prop := n ≠ sError ∧ n ≠ sAny ∧ n ∉ predeclared

mutual
  /-- domain of C11 relative to a rendering environment -/
  def InDom (env : Env) (sc : Scope) : GoType → Prop
    | .basic n => n ∈ predeclared
    | .error => True
    | .any => True
    | .named pkg name args =>
      okName name ∧ (pkg ≠ env.self → sc.imports.lookup (env.localName pkg) = some pkg) ∧ InDoms env sc args
    | .ptr e => InDom env sc e
    | .slice e => InDom env sc e
    | .array _ e => InDom env sc e
    | .map k v => InDom env sc k ∧ InDom env sc v
    | .chan e => InDom env sc e
    | .struct fs => InDomFields env sc fs
  def InDoms (env : Env) (sc : Scope) : List GoType → Prop
    | [] => True
    | t :: ts => InDom env sc t ∧ InDoms env sc ts
  def InDomFields (env : Env) (sc : Scope) : List Field → Prop
    | [] => True
    | .mk name emb ty _ :: fs => (emb = true → name = []) ∧ InDom env sc ty ∧ InDomFields env sc fs
end

theorem predeclared_not_special (n : Str) (h : n ∈ predeclared) : n ≠ sError ∧ n ≠ sAny := by
  constructor <;> (intro e; subst e; revert h; decide)

mutual
  /-- C11 `denote_typeLit` (repaired code): the printed type expression denotes the type it was
      rendered from, for every type of the grammar at any depth. -/
  theorem denote_typeLit (env : Env) (sc : Scope) (hself : sc.self = env.self) :
      (t : GoType) → InDom env sc t → denote sc (typeLit true env t) = some t
    | .basic n, h => by
      have ⟨h1, h2⟩ := predeclared_not_special n h
      simp only [InDom] at h
      simp [typeLit, denote, h1, h2, h]
    | .error, _ => by simp [typeLit, denote]
    | .any, _ => by
      have : sAny ≠ sError := by decide
      simp [typeLit, denote, this]
    | .named pkg name [], h => by
      obtain ⟨⟨h1, h2, h3⟩, himp, _⟩ := h
      simp only [typeLit]
      split
      · rename_i hp
        simp [denote, h1, h2, h3, hself, hp]
      · rename_i hp
        simp [denote, himp hp]
    | .named pkg name (a :: as), h => by
      obtain ⟨⟨h1, h2, h3⟩, himp, hargs⟩ := h
      have ih := denotes_typeLits env sc hself (a :: as) hargs
      simp only [typeLit]
      split
      · rename_i hp
        simp [denote, h1, h2, h3, hself, hp, ih]
      · rename_i hp
        simp [denote, himp hp, ih]
    | .ptr e, h => by simp [typeLit, denote, denote_typeLit env sc hself e h]
    | .slice e, h => by simp [typeLit, denote, denote_typeLit env sc hself e h]
    | .array n e, h => by simp [typeLit, denote, denote_typeLit env sc hself e h]
    | .map k v, h => by
      simp [typeLit, denote, denote_typeLit env sc hself k h.1, denote_typeLit env sc hself v h.2]
    | .chan e, h => by simp [typeLit, denote, denote_typeLit env sc hself e h]
    | .struct fs, h => by simp [typeLit, denote, denoteFields_fieldLits env sc hself fs h]
  theorem denotes_typeLits (env : Env) (sc : Scope) (hself : sc.self = env.self) :
      (ts : List GoType) → InDoms env sc ts → denotes sc (typeLits true env ts) = some ts
    | [], _ => by simp [typeLits, denotes]
    | t :: ts, h => by
      simp [typeLits, denotes, denote_typeLit env sc hself t h.1, denotes_typeLits env sc hself ts h.2]
  theorem denoteFields_fieldLits (env : Env) (sc : Scope) (hself : sc.self = env.self) :
      (fs : List Field) → InDomFields env sc fs → denoteFields sc (fieldLits true env fs) = some fs
    | [], _ => by simp [fieldLits, denoteFields]
    | .mk name emb ty tag :: fs, h => by
      obtain ⟨hemb, hty, hfs⟩ := h
      simp only [fieldLits, denoteFields, denote_typeLit env sc hself ty hty,
        denoteFields_fieldLits env sc hself fs hfs]
      cases emb with
      | true => simp [hemb rfl]
      | false => simp
end

#print axioms denote_typeLit
end Gengo.TypeLit
