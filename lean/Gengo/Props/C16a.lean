import Gengo.Model.RuntimeDoc
namespace Gengo.RuntimeDoc

/-- pinned code (F16): the type name is stripped even when it is only a prefix of the first word -/
example : trimDoc false "List".toList ["Lists all".toList] = ["s all".toList] := by decide
example : trimDoc true "List".toList ["Lists all".toList] = ["Lists all".toList] := by decide
example : trimDoc true "List".toList ["List of things".toList, "more".toList] = ["of things".toList, "more".toList] := by decide
example : trimDoc true "Name".toList ["Name".toList, "x".toList] = ["x".toList] := by decide

def fld (n : String) (doc : List String) : Field :=
  { name := n.toList, exported := true, embedded := false, doc := doc.map String.toList }

def demo : Pkg :=
  [ ⟨"Obj".toList, true, .struct [fld "Name" ["Name of it"],
      { name := "Sub".toList, exported := true, embedded := true, doc := [], target := some 1 }], ["Obj some object".toList]⟩,
    ⟨"Sub".toList, true, .struct [fld "Age" ["Age in years"]], []⟩,
    ⟨"Kind".toList, true, .scalar, ["Kind doc".toList]⟩ ]

example : runtimeDoc true true demo 3 0 [] = some ["some object".toList] := by decide
example : runtimeDoc true true demo 3 0 ["Name".toList] = some ["of it".toList] := by decide
/-- delegation to the embedded struct -/
example : runtimeDoc true true demo 3 0 ["Age".toList] = some ["in years".toList] := by decide
example : runtimeDoc true true demo 3 0 ["Nope".toList] = none := by decide
/-- pinned code: a scalar type answers any name with its own doc -/
example : runtimeDoc true false demo 3 2 ["x".toList] = some ["doc".toList] := by decide
example : runtimeDoc true true demo 3 2 ["x".toList] = none := by decide

/-- C16 `type_doc`: for every covered type, `RuntimeDoc()` is the type's trimmed doc and `true` -/
theorem type_doc (ft fs : Bool) (p : Pkg) (fuel id : Nat) (t : TypeD) (ht : p[id]? = some t)
    (hc : covered t = true) : runtimeDoc ft fs p (fuel + 1) id [] = some (trimDoc ft t.name t.doc) := by
  simp only [runtimeDoc, ht, hc]
  cases hk : t.kind with
  | iface => simp [covered, hk] at hc
  | scalar => simp
  | struct fields => simp

/-- C16 `field_doc`: a listed field answers with its own trimmed doc -/
theorem field_doc (ft fs : Bool) (p : Pkg) (fuel id : Nat) (t : TypeD) (fields : List Field)
    (ht : p[id]? = some t) (hk : t.kind = .struct fields) (hc : covered t = true)
    (n : Str) (d : List Str) (hl : (cases ft fields).lookup n = some d) (rest : List Str) :
    runtimeDoc ft fs p (fuel + 1) id (n :: rest) = some d := by
  simp [runtimeDoc, ht, hc, hk, hl]

theorem promotedOwner_nil (p : Pkg) (fuel : Nat) : promotedOwner p fuel [] = none := by
  cases fuel <;> simp [promotedOwner]

theorem embeddedTargets_none (p : Pkg) (id : Nat) (t : TypeD) (fields : List Field)
    (ht : p[id]? = some t) (hk : t.kind = .struct fields) (hne : ∀ f ∈ fields, f.embedded = false) :
    embeddedTargets p id = [] := by
  simp only [embeddedTargets, ht, hk]
  apply List.filterMap_eq_nil_iff.mpr
  intro f hf; simp [hne f hf]

/-- C16 `other_name_none`: a struct without embedded fields answers any unlisted name with
    `(nil, false)` -/
theorem other_name_none (ft fs : Bool) (p : Pkg) (fuel id : Nat) (t : TypeD) (fields : List Field)
    (ht : p[id]? = some t) (hk : t.kind = .struct fields) (hne : ∀ f ∈ fields, f.embedded = false)
    (n : Str) (hl : (cases ft fields).lookup n = none) (rest : List Str) :
    runtimeDoc ft fs p (fuel + 1) id (n :: rest) = none := by
  have he : embeds ft fields = [] := by
    unfold embeds
    apply List.filterMap_eq_nil_iff.mpr
    intro f hf; simp [hne f hf]
  simp only [runtimeDoc, ht]
  split
  · simp [embeddedTargets_none p id t fields ht hk hne, promotedOwner_nil]
  · simp [hk, hl, he]

/-- C16 `uncovered_has_no_method`: a type without a generated method and without embedded
    structs (from which Go could promote one) answers nothing -/
theorem uncovered_none (ft fs : Bool) (p : Pkg) (fuel id : Nat) (t : TypeD) (ht : p[id]? = some t)
    (hc : covered t = false) (he : embeddedTargets p id = []) (names : List Str) :
    runtimeDoc ft fs p (fuel + 1) id names = none := by
  simp [runtimeDoc, ht, hc, he, promotedOwner_nil]

/-- C16 `embedded_delegation`: a name that is not one of the struct's own listed fields is answered
    by the first embedded struct (in field order) that knows it, with the embedded field's first
    doc line as prefix of the first line; `(nil, false)` if none does -/
theorem embedded_delegation (ft fs : Bool) (p : Pkg) (fuel id : Nat) (t : TypeD) (fields : List Field)
    (ht : p[id]? = some t) (hk : t.kind = .struct fields) (hc : covered t = true)
    (n : Str) (hl : (cases ft fields).lookup n = none) (rest : List Str) :
    runtimeDoc ft fs p (fuel + 1) id (n :: rest) =
      (embeds ft fields).findSome? fun e =>
        match e.1 with
        | none => none
        | some tid => (runtimeDoc ft fs p fuel tid (n :: rest)).map (applyPrefix e.2) := by
  simp only [runtimeDoc, ht, hc, Bool.not_true, Bool.false_eq_true, if_false, hk, hl]
  rfl

end Gengo.RuntimeDoc
