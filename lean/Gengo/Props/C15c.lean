import Gengo.Props.C15b
namespace Gengo.TypeRef
open Gengo.Tracker

/-! ### C15: every rewritten node carries its package's *final* local name -/

/-- `t'` extends `t`: whatever `t` binds, `t'` binds to the same name -/
def Ext (t t' : Tracker) : Prop := ∀ p n, t.p2n.lookup p = some n → t'.p2n.lookup p = some n

theorem Ext.refl (t : Tracker) : Ext t t := fun _ _ h => h
theorem Ext.trans {a b c : Tracker} (h1 : Ext a b) (h2 : Ext b c) : Ext a c := fun p n h => h2 p n (h1 p n h)
theorem ext_add (c : Cfg) (t : Tracker) (q : Str) : Ext t (add c t q) := fun p n h => add_stable c t p q n h

mutual
  theorem rewrite_ext (c : Cfg) (self : Str) : (t : Tracker) → (r : TRef) → Ext t (rewrite c self t r).2
    | t, .mk pkg name args => by
      simp only [rewrite]
      refine Ext.trans ?_ (rewriteList_ext c self _ args)
      split
      · exact Ext.refl t
      · split
        · exact Ext.refl t
        · exact ext_add c t pkg
  theorem rewriteList_ext (c : Cfg) (self : Str) : (t : Tracker) → (rs : List TRef) → Ext t (rewriteList c self t rs).2
    | t, [] => by simp only [rewriteList]; exact Ext.refl t
    | t, a :: as => by
      simp only [rewriteList]
      exact Ext.trans (rewrite_ext c self t a) (rewriteList_ext c self _ as)
end

mutual
  /-- the tree relabelled with the names of a given (final) table -/
  def relabel (final : Tracker) (self : Str) : TRef → TRef
    | .mk pkg name args =>
      .mk (if pkg.isEmpty || pkg = self then [] else localNameOf final pkg) name (relabels final self args)
  def relabels (final : Tracker) (self : Str) : List TRef → List TRef
    | [] => []
    | a :: as => relabel final self a :: relabels final self as
end

mutual
  /-- **`rewrite_final_names`**: whatever is rendered later into the same file (any extension
      `final` of the table the rewrite leaves behind — by `add_stable` every later `add` is one),
      each node of the rewritten reference carries the local name the *final* import table gives
      its package; own-package and predeclared names stay unqualified. -/
  theorem rewrite_final_names (c : Cfg) (hc : FallbackOK c) (self : Str) : (t : Tracker) → (r : TRef) →
      ∀ final, Ext (rewrite c self t r).2 final → (rewrite c self t r).1 = relabel final self r
    | t, .mk pkg name args => by
      intro final hext
      simp only [rewrite, relabel] at hext ⊢
      by_cases he : pkg.isEmpty = true
      · have key := rewriteList_final_names c hc self t args final (by simpa [he] using hext)
        simp [he, key]
      · by_cases hs : pkg = self
        · have key := rewriteList_final_names c hc self t args final (by simpa [he, hs] using hext)
          simp [hs, key]
        · have hext' : Ext (rewriteList c self (add c t pkg) args).2 final := by simpa [he, hs] using hext
          have key := rewriteList_final_names c hc self _ args final hext'
          -- the name bound right after `add` is the name the final table has
          have hb := add_binds c hc t pkg
          obtain ⟨n, hn⟩ := Option.isSome_iff_exists.mp hb
          have h1 := rewriteList_ext c self (add c t pkg) args pkg n hn
          have h2 := hext' pkg n h1
          simp [he, hs, key, localNameOf, hn, h2]
  theorem rewriteList_final_names (c : Cfg) (hc : FallbackOK c) (self : Str) : (t : Tracker) → (rs : List TRef) →
      ∀ final, Ext (rewriteList c self t rs).2 final → (rewriteList c self t rs).1 = relabels final self rs
    | t, [] => by intro final _; simp [rewriteList, relabels]
    | t, a :: as => by
      intro final hext
      simp only [rewriteList, relabels] at hext ⊢
      rw [rewriteList_final_names c hc self _ as final hext,
          rewrite_final_names c hc self t a final (Ext.trans (rewriteList_ext c self _ as) hext)]
end

#print axioms rewrite_final_names
end Gengo.TypeRef
