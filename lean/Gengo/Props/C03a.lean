import Gengo.Model.Tracker
import Gengo.Props.Pigeon
namespace Gengo.Tracker

/-- the two tables are inverse to each other -/
structure Inv (t : Tracker) : Prop where
  fwd : ∀ p n, t.p2n.lookup p = some n → t.n2p.lookup n = some p
  bwd : ∀ n p, t.n2p.lookup n = some p → t.p2n.lookup p = some n

theorem inv_empty : Inv empty := ⟨by simp [empty], by simp [empty]⟩

theorem choose_free (c : Cfg) (t : Tracker) (p n : Str) (h : choose c t p = some n) :
    free c t p n = true := by
  unfold choose at h
  split at h
  · rename_i m hm
    cases h
    exact (List.find?_some hm)
  · split at h
    · -- from firstFree
      have key : ∀ fuel i, firstFree c t p fuel i = some n → free c t p n = true := by
        intro fuel
        induction fuel with
        | zero => intro i h; simp [firstFree] at h
        | succ k ih =>
          intro i h
          simp only [firstFree] at h
          split at h
          · cases h; assumption
          · exact ih _ h
      exact key _ _ h
    · cases h

/-- C03 `inv_bij`: whatever the candidate function, adding a path keeps the tables inverse. -/
theorem add_inv (c : Cfg) (t : Tracker) (p : Str) (hi : Inv t) : Inv (add c t p) := by
  unfold add
  split
  · exact hi
  · rename_i hp
    split
    · exact hi
    · rename_i n hn
      have hfree := choose_free c t p n hn
      have hn_free : t.n2p.lookup n = none := by
        unfold free at hfree
        simp only [Bool.and_eq_true] at hfree
        have := hfree.1.2
        cases h : List.lookup n t.n2p with
        | none => rfl
        | some x => simp [h] at this
      have hp_free : t.p2n.lookup p = none := by
        cases h : t.p2n.lookup p with
        | none => rfl
        | some x => simp [h] at hp
      constructor
      · intro p' n' h
        simp only [List.lookup] at h ⊢
        by_cases hpp : p' = p
        · subst hpp
          simp at h; subst h; simp
        · have : (p' == p) = false := by simp [hpp]
          simp only [this] at h
          have h2 := hi.fwd p' n' h
          have : n' ≠ n := by
            intro e; subst e; rw [hn_free] at h2; cases h2
          have : (n' == n) = false := by simp [this]
          simp [this, h2]
      · intro n' p' h
        simp only [List.lookup] at h ⊢
        by_cases hnn : n' = n
        · subst hnn
          simp at h; subst h; simp
        · have : (n' == n) = false := by simp [hnn]
          simp only [this] at h
          have h2 := hi.bwd n' p' h
          have : p' ≠ p := by
            intro e; subst e; rw [hp_free] at h2; cases h2
          have : (p' == p) = false := by simp [this]
          simp [this, h2]

/-- every reachable tracker is a bijection -/
theorem adds_inv (c : Cfg) (ps : List Str) : Inv (ps.foldl (add c) empty) := by
  suffices h : ∀ t, Inv t → Inv (ps.foldl (add c) t) from h _ inv_empty
  induction ps with
  | nil => intro t h; exact h
  | cons p ps ih => intro t h; exact ih _ (add_inv c t p h)

/-- distinct paths get distinct names -/
theorem names_distinct (t : Tracker) (hi : Inv t) (p₁ p₂ n : Str)
    (h₁ : t.p2n.lookup p₁ = some n) (h₂ : t.p2n.lookup p₂ = some n) : p₁ = p₂ := by
  have a := hi.fwd _ _ h₁
  have b := hi.fwd _ _ h₂
  rw [a] at b; cases b; rfl

/-- C03 `add_stable`: a binding, once made, never changes -/
theorem add_stable (c : Cfg) (t : Tracker) (p q n : Str) (h : t.p2n.lookup p = some n) :
    (add c t q).p2n.lookup p = some n := by
  unfold add
  split
  · exact h
  · rename_i hq
    split
    · exact h
    · have : p ≠ q := by
        intro e; subst e; simp [h] at hq
      have : (p == q) = false := by simp [this]
      simp [List.lookup, this, h]

/-- pinned code (no fallback): when every candidate is taken the path gets no name (F8),
    here for the concrete three-path witness with the candidate lists of the real algorithm. -/
example :
    let c : Cfg := { cands := fun p =>
                        if p = "x/c".toList then ["c".toList, "xc".toList]
                        else if p = "abc".toList then ["abc".toList]
                        else ["c".toList, "abc".toList],
                     reserved := fun _ _ => false, stdNames := [], valid := fun _ => true,
                     useFallback := false, fallback := fun _ _ => [] }
    localNameOf (["x/c".toList, "abc".toList, "ab/c".toList].foldl (add c) empty) "ab/c".toList = [] := by
  decide


/-! ### the repaired `add` always binds, and only to valid identifiers -/

/-- what the repair must provide: a fallback sequence of pairwise distinct valid identifiers -/
structure FallbackOK (c : Cfg) : Prop where
  on : c.useFallback = true
  inj : ∀ p i j, c.fallback p i = c.fallback p j → i = j
  valid : ∀ p i, c.valid (c.fallback p i) = true
  std : ∀ n p, c.reserved n p = true → n ∈ c.stdNames

theorem lookup_none_of_not_mem_keys (m : List (Str × Str)) (n : Str) (h : n ∉ m.map (·.1)) :
    m.lookup n = none := by
  induction m with
  | nil => rfl
  | cons x xs ih =>
    obtain ⟨a, b⟩ := x
    simp only [List.map_cons, List.mem_cons, not_or] at h
    have : (n == a) = false := by simp [h.1]
    simp [List.lookup, this, ih h.2]

theorem firstFree_some (c : Cfg) (t : Tracker) (p : Str) :
    ∀ fuel start, (∃ i, start ≤ i ∧ i < start + fuel ∧ free c t p (c.fallback p i) = true) →
      (firstFree c t p fuel start).isSome = true := by
  intro fuel
  induction fuel with
  | zero => intro start ⟨i, h1, h2, _⟩; omega
  | succ k ih =>
    intro start ⟨i, h1, h2, h3⟩
    simp only [firstFree]
    split
    · rfl
    · rename_i hnf
      apply ih
      have : i ≠ start := by intro e; subst e; exact hnf h3
      exact ⟨i, by omega, by omega, h3⟩

/-- C03 `add_binds` (repaired code): after `add p`, `p` has a name — whatever was bound before
    and however the candidates collide (the fallback search cannot be exhausted: pigeonhole). -/
theorem add_binds (c : Cfg) (hc : FallbackOK c) (t : Tracker) (p : Str) :
    ((add c t p).p2n.lookup p).isSome = true := by
  unfold add
  split
  · assumption
  · have hsome : (choose c t p).isSome = true := by
      unfold choose
      split
      · rfl
      · simp only [hc.on, if_true]
        apply firstFree_some
        obtain ⟨i, hi, hfresh⟩ := exists_fresh (t.n2p.map (·.1) ++ c.stdNames) (c.fallback p) (hc.inj p)
        refine ⟨i, by omega, by simp at hi; omega, ?_⟩
        simp only [List.mem_append, not_or] at hfresh
        have h1 : c.reserved (c.fallback p i) p = false := by
          cases h : c.reserved (c.fallback p i) p with
          | false => rfl
          | true => exact absurd (hc.std _ _ h) hfresh.2
        simp [free, h1, lookup_none_of_not_mem_keys _ _ hfresh.1, hc.valid]
    cases hch : choose c t p with
    | none => simp [hch] at hsome
    | some n => simp [List.lookup]

/-- every bound name is a valid identifier -/
def AllValid (c : Cfg) (t : Tracker) : Prop := ∀ p n, t.p2n.lookup p = some n → c.valid n = true

/-- C03 `names_valid` (repaired code) -/
theorem add_valid (c : Cfg) (hc : FallbackOK c) (t : Tracker) (p : Str) (h : AllValid c t) :
    AllValid c (add c t p) := by
  unfold add
  split
  · exact h
  · split
    · exact h
    · rename_i n hn
      have hfree := choose_free c t p n hn
      have hv : c.valid n = true := by
        unfold free at hfree
        simp only [Bool.and_eq_true, Bool.or_eq_true, Bool.not_eq_true'] at hfree
        rcases hfree.2 with h | h
        · rw [hc.on] at h; cases h
        · exact h
      intro p' n' hl
      simp only [List.lookup] at hl
      by_cases hpp : p' = p
      · subst hpp; simp at hl; subst hl; exact hv
      · have : (p' == p) = false := by simp [hpp]
        simp only [this] at hl
        exact h p' n' hl

#print axioms adds_inv
#print axioms add_binds
#print axioms add_valid
end Gengo.Tracker
