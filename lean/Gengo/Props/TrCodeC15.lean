import Gengo.Props.TrC15
import Gengo.Props.Small
/-!
Property clauses stated of the code as it stands: each theorem here is a clause of C15 about a definition of
`Gengo.Code` — regenerated from /repo's Go source on every run — obtained from the clause proved of the hand-written
model through the equivalence theorem of `Props/Tr*.lean`.
-/
namespace Gengo.TrCode
open Gengo Gengo.Go Gengo.Code

/-- C15: whenever the translated `ParseRef` accepts a string, the translated `PkgImportPathAndExpose` (before the
    `/vendor/` cut, which `importGoPath` applies to the path) reports the same package path -/
theorem code_splitRef_agree (s p n : Str) (h : Code.ParseRef s = .ok (some (p, n))) :
    ∃ q e, Code.PkgImportPathAndExpose s = .ok (q, e) ∧ (p = [] ∨ q = TypeRef.importGoPath p) ∧ ∃ rest, n = e ++ rest := by
  have hp : TypeRef.parseRef s = some (p, n) := by
    have := TrC15.parseRef_eq s
    rw [h] at this
    exact (Except.ok.inj this).symm
  obtain ⟨h1, rest, h2⟩ := TypeRef.splitRef_agree s p n hp
  refine ⟨_, _, TrC15.pkgImportPathAndExpose_eq s, ?_, rest, ?_⟩
  · simp only [h1]
    by_cases he : p = []
    · exact Or.inl he
    · right
      have : p.isEmpty = false := by cases p <;> simp_all
      simp [this]
  · simpa using h2


end Gengo.TrCode
