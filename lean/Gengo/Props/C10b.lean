import Gengo.Model.Dumper
namespace Gengo.Dumper

/-! ### Syntactic well-formedness of the repaired value printer -/

mutual
  /-- a printed expression that Go's grammar and addressability rules accept:
      no empty operand, `&` only of a composite literal, the closure idiom only around a constant -/
  def Expr.Valid : Expr → Prop
    | .raw s => s ≠ []
    | .addr e => e.isComp = true ∧ e.Valid
    | .closure ty e => ty ≠ [] ∧ e.isRaw = true ∧ e.Valid
    | .comp ty es => ty ≠ [] ∧ ValidElems es
  def ValidElems : List (Option Str × Expr) → Prop
    | [] => True
    | (k, e) :: rest => k ≠ some [] ∧ e.Valid ∧ ValidElems rest
  def Expr.isComp : Expr → Bool
    | .comp .. => true
    | _ => false
  def Expr.isRaw : Expr → Bool
    | .raw _ => true
    | _ => false
end

theorem validElems_iff (es : List (Option Str × Expr)) :
    ValidElems es ↔ ∀ x ∈ es, x.1 ≠ some [] ∧ x.2.Valid := by
  induction es with
  | nil => simp [ValidElems]
  | cons x xs ih =>
    obtain ⟨k, e⟩ := x
    simp only [ValidElems, ih, List.mem_cons, forall_eq_or_imp, and_assoc]

theorem valid_show_ne (e : Expr) (h : e.Valid) : e.show ≠ [] := by
  cases e with
  | raw s => simpa [Expr.show, Expr.Valid] using h
  | addr e => simp [Expr.show]
  | closure ty e => simp [Expr.show]
  | comp ty es =>
    simp only [Expr.Valid] at h
    simp only [Expr.show]
    intro hc
    have := congrArg List.length hc
    simp at this

mutual
  /-- the value domain of C10 as the dumper sees it: non-empty leaf literals and type texts,
      single-level pointers, no interfaces -/
  def Dom : Val → Prop
    | .leaf k ty lit _ => ty ≠ [] ∧ lit ≠ [] ∧ k.isScalar = true
    | .nilPtr => True
    | .ptr elem => elem.isPtrLike = false ∧ Dom elem
    | .struct ty fs => ty ≠ [] ∧ DomFields fs
    | .map ty es => ty ≠ [] ∧ DomEntries es
    | .seq ty es => ty ≠ [] ∧ DomList es
    | .iface => False
  def DomFields : List (Str × Bool × Val) → Prop
    | [] => True
    | (n, _, v) :: rest => n ≠ [] ∧ Dom v ∧ DomFields rest
  def DomEntries : List (Val × Val) → Prop
    | [] => True
    | (k, v) :: rest => Dom k ∧ Dom v ∧ k.isStructOrLeaf = true ∧ DomEntries rest
  def DomList : List Val → Prop
    | [] => True
    | v :: rest => Dom v ∧ DomList rest
  def Kind.isScalar : Kind → Bool
    | .basic n => !n.isEmpty
    | .string => true
    | _ => false
  def Val.isPtrLike : Val → Bool
    | .ptr _ => true
    | .nilPtr => true
    | .iface => true
    | _ => false
  def Val.isStructOrLeaf : Val → Bool
    | .leaf .. => true
    | .struct .. => true
    | _ => false
end

mutual
  /-- With `SubValue` off the repaired printer always yields a valid expression; with it on, the
      only other outcome is the hole `""`, and only for a struct (whose field is then omitted). -/
  theorem valueLit_valid : (v : Val) → Dom v → ∀ sub,
      (valueLit true sub v).Valid ∨ (sub = true ∧ valueLit true sub v = .raw [] ∧ v.kind = .struct)
    | .nilPtr, _, _ => by left; simp [valueLit, Expr.Valid]
    | .iface, h, _ => by simp [Dom] at h
    | .leaf _ _ lit _, h, _ => by left; simp only [Dom] at h; simp [valueLit, Expr.Valid, h.2.1]
    | .ptr elem, h, sub => by
      left
      obtain ⟨hnp, hd⟩ := h
      simp only [valueLit]
      cases elem with
      | leaf k ty lit e =>
        simp only [Dom] at hd
        obtain ⟨h1, h2, h3⟩ := hd
        cases k <;> simp_all [Kind.isScalar, Val.kind, Val.tyText, valueLit, Expr.Valid, Expr.isRaw, Expr.isComp]
      | nilPtr => simp [Val.isPtrLike] at hnp
      | ptr _ => simp [Val.isPtrLike] at hnp
      | iface => simp [Val.isPtrLike] at hnp
      | struct ty fs =>
        have := valueLit_valid (.struct ty fs) hd false
        rcases this with hv | ⟨hs, _⟩
        · simp only [Val.kind, if_true, Bool.false_eq_true, if_false, Expr.Valid]
          refine ⟨?_, hv⟩
          simp only [valueLit, Bool.false_and, Bool.false_eq_true, if_false, Expr.isComp]
        · cases hs
      | map ty es =>
        have := valueLit_valid (.map ty es) hd false
        rcases this with hv | ⟨hs, _⟩
        · simp only [Val.kind, if_true, Bool.false_eq_true, if_false, Expr.Valid]
          exact ⟨by simp [valueLit, Expr.isComp], hv⟩
        · cases hs
      | seq ty es =>
        have := valueLit_valid (.seq ty es) hd false
        rcases this with hv | ⟨hs, _⟩
        · simp only [Val.kind, if_true, Bool.false_eq_true, if_false, Expr.Valid]
          exact ⟨by simp [valueLit, Expr.isComp], hv⟩
        · cases hs
    | .struct ty fs, h, sub => by
      obtain ⟨hty, hfs⟩ := h
      have hf := structFields_valid fs hfs
      simp only [valueLit]
      by_cases hc : (sub && (structFields true fs).isEmpty) = true
      · right
        have hs : sub = true := by simp only [Bool.and_eq_true] at hc; exact hc.1
        exact ⟨hs, by simp only [hc, if_true], rfl⟩
      · left
        simp only [hc]
        exact ⟨hty, hf⟩
    | .map ty es, h, sub => by
      left
      obtain ⟨hty, hes⟩ := h
      simp only [valueLit, if_true, Expr.Valid]
      refine ⟨hty, ?_⟩
      rw [validElems_iff]
      intro x hx
      simp only [List.mem_map] at hx
      obtain ⟨kv, hkv, rfl⟩ := hx
      have hkv' : kv ∈ mapEntries true false es := (List.mergeSort_perm _ _).mem_iff.mp hkv
      exact mapEntries_valid es hes kv hkv'
    | .seq ty es, h, sub => by
      left
      obtain ⟨hty, hes⟩ := h
      simp only [valueLit, Expr.Valid]
      exact ⟨hty, seqElems_valid es hes⟩
  theorem structFields_valid : (fs : List (Str × Bool × Val)) → DomFields fs → ValidElems (structFields true fs)
    | [], _ => by simp [structFields, ValidElems]
    | (n, ex, v) :: rest, h => by
      obtain ⟨hn, hv, hrest⟩ := h
      have ih := structFields_valid rest hrest
      simp only [structFields]
      split
      · split
        · exact ih
        · rename_i hne
          refine ⟨by simp [hn], ?_, ih⟩
          rcases valueLit_valid v hv true with hvv | ⟨_, hhole, _⟩
          · exact hvv
          · rw [hhole] at hne; simp [Expr.show] at hne
      · exact ih
  theorem mapEntries_valid : (es : List (Val × Val)) → DomEntries es →
      ∀ kv ∈ mapEntries true false es, (some kv.1, kv.2).1 ≠ some [] ∧ kv.2.Valid
    | [], _ => by simp [mapEntries]
    | (k, v) :: rest, h => by
      obtain ⟨hk, hv, _, hrest⟩ := h
      intro kv hkv
      simp only [mapEntries, List.mem_cons] at hkv
      rcases hkv with rfl | hkv
      · constructor
        · rcases valueLit_valid k hk false with hkk | ⟨hs, _⟩
          · simpa using valid_show_ne _ hkk
          · cases hs
        · rcases valueLit_valid v hv false with hvv | ⟨hs, _⟩
          · exact hvv
          · cases hs
      · exact mapEntries_valid rest hrest kv hkv
  theorem seqElems_valid : (es : List Val) → DomList es → ValidElems (seqElems true es)
    | [], _ => by simp [seqElems, ValidElems]
    | v :: rest, h => by
      obtain ⟨hv, hrest⟩ := h
      refine ⟨by simp, ?_, seqElems_valid rest hrest⟩
      rcases valueLit_valid v hv false with hvv | ⟨hs, _⟩
      · exact hvv
      · cases hs
end

/-- pinned code: the hole escapes into `&( )` — not a valid expression (F9) -/
example : ¬ (valueLit false false (.struct ['W'] [(['P'], true,
    .ptr (.struct ['I'] [(['X'], true, .leaf (.basic ['i']) ['i'] ['0'] true)]))])).Valid := by
  simp [valueLit, structFields, Val.isEmpty, Val.kind, Expr.show, Expr.Valid, ValidElems, Expr.isComp]

#print axioms valueLit_valid
end Gengo.Dumper
