import Gengo.Model.TypeRef
namespace Gengo.TypeRef

def plain (s : Str) : Prop := '[' ∉ s ∧ ']' ∉ s ∧ ',' ∉ s

mutual
  /-- well-formed reference: bracket/comma-free path and name, non-empty dot-free name -/
  def WF : TRef → Prop
    | .mk pkg name args => plain pkg ∧ plain name ∧ name ≠ [] ∧ '.' ∉ name ∧ WFs args
  def WFs : List TRef → Prop
    | [] => True
    | a :: as => WF a ∧ WFs as
end

mutual
  def TRef.depth : TRef → Nat
    | .mk _ _ args => depths args + 1
  def depths : List TRef → Nat
    | [] => 0
    | a :: as => max a.depth (depths as)
end

/-- scanning bracket/comma-free text only extends the current piece -/
theorem splitTop_plain (s : Str) (hs : plain s) (rest : Str) (d : Int) (cur : Str) :
    splitTop true (s ++ rest) d cur = splitTop true rest d (s.reverse ++ cur) := by
  induction s generalizing cur with
  | nil => simp
  | cons c cs ih =>
    obtain ⟨h1, h2, h3⟩ := hs
    simp only [List.mem_cons, not_or] at h1 h2 h3
    have e1 : (c == '[') = false := by simp [Ne.symm h1.1]
    have e2 : (c == ']') = false := by simp [Ne.symm h2.1]
    have e3 : (c == ',') = false := by simp [Ne.symm h3.1]
    simp only [List.cons_append, splitTop, e1, e2, e3, Bool.false_and, if_false, Bool.false_eq_true]
    rw [ih ⟨h1.2, h2.2, h3.2⟩]
    simp

theorem plain_head {pkg name : Str} (hp : plain pkg) (hn : plain name) :
    plain ((if pkg.isEmpty then [] else pkg ++ ['.']) ++ name) := by
  obtain ⟨a1, a2, a3⟩ := hp
  obtain ⟨b1, b2, b3⟩ := hn
  split <;> simp [plain, *]

mutual
  /-- a printed reference scanned at any depth ≥ 0 is absorbed whole and the depth returns -/
  theorem splitTop_print : (t : TRef) → WF t → ∀ (rest : Str) (d : Int) (cur : Str), 0 ≤ d →
      splitTop true (t.print ++ rest) d cur = splitTop true rest d (t.print.reverse ++ cur)
    | .mk pkg name [], h, rest, d, cur, _ => by
      obtain ⟨hp, hn, _, _, _⟩ := h
      simp only [TRef.print, List.append_nil]
      exact splitTop_plain _ (plain_head hp hn) rest d cur
    | .mk pkg name (a :: as), h, rest, d, cur, hd => by
      obtain ⟨hp, hn, _, _, ha, has⟩ := h
      simp only [TRef.print]
      generalize hhead : (if pkg.isEmpty then [] else pkg ++ ['.']) ++ name = head
      have hplain : plain head := hhead ▸ plain_head hp hn
      rw [List.append_assoc, splitTop_plain head hplain]
      simp only [List.cons_append, List.append_assoc, splitTop]
      simp only [show (('[' : Char) == '[') = true from rfl, if_true]
      rw [splitTop_print a ha _ (d + 1) _ (by omega)]
      rw [splitTop_tail as has _ (d + 1) _ (by omega)]
      simp only [List.singleton_append, splitTop]
      simp only [show ((']' : Char) == '[') = false from rfl, show ((']' : Char) == ']') = true from rfl,
        if_true, if_false, Bool.false_eq_true]
      have : d + 1 - 1 = d := by omega
      rw [this]
      simp [List.reverse_append, List.append_assoc]
  /-- a printed argument tail scanned at depth ≥ 1: its commas do not split -/
  theorem splitTop_tail : (as : List TRef) → WFs as → ∀ (rest : Str) (d : Int) (cur : Str), 1 ≤ d →
      splitTop true (printTail as ++ rest) d cur = splitTop true rest d ((printTail as).reverse ++ cur)
    | [], _, rest, d, cur, _ => by simp [printTail]
    | a :: as, h, rest, d, cur, hd => by
      obtain ⟨ha, has⟩ := h
      simp only [printTail, List.cons_append, List.append_assoc, splitTop]
      have hd0 : (d == 0) = false := by
        have : d ≠ 0 := by omega
        simp [this]
      simp only [show ((',' : Char) == '[') = false from rfl, show ((',' : Char) == ']') = false from rfl,
        hd0, Bool.and_false, if_false, Bool.false_eq_true]
      rw [splitTop_print a ha _ d _ (by omega), splitTop_tail as has _ d _ hd]
      simp [List.reverse_append, List.append_assoc]
end

theorem splitTop_list : (as : List TRef) → WFs as → ∀ (cur : Str),
    splitTop true (printTail as) 0 cur =
      match as with
      | [] => [cur.reverse]
      | _ => cur.reverse :: as.map TRef.print
  | [], _, cur => by simp [printTail, splitTop]
  | [a], h, cur => by
    obtain ⟨ha, _⟩ := h
    simp only [printTail, List.append_nil, splitTop]
    simp only [show ((',' : Char) == '[') = false from rfl, show ((',' : Char) == ']') = false from rfl,
      show ((',' : Char) == ',') = true from rfl, if_false, Bool.false_eq_true]
    simp only [show ((0 : Int) == 0) = true from rfl, Bool.and_self, if_true]
    have := splitTop_print a ha [] 0 [] (by omega)
    simp only [List.append_nil] at this
    rw [this]; simp [splitTop]
  | a :: b :: as, h, cur => by
    obtain ⟨ha, hbs⟩ := h
    simp only [printTail, splitTop]
    simp only [show ((',' : Char) == '[') = false from rfl, show ((',' : Char) == ']') = false from rfl,
      show ((',' : Char) == ',') = true from rfl, if_false, Bool.false_eq_true]
    simp only [show ((0 : Int) == 0) = true from rfl, Bool.and_self, if_true]
    have h1 := splitTop_print a ha (printTail (b :: as)) 0 [] (by omega)
    simp only [List.append_nil] at h1
    have h1' : splitTop true (a.print ++ ',' :: (b.print ++ printTail as)) 0 [] =
        splitTop true (printTail (b :: as)) 0 (a.print.reverse) := by
      simpa [printTail] using h1
    rw [h1', splitTop_list (b :: as) hbs]
    simp


theorem indexOf?_none (c : Char) (l : Str) (h : c ∉ l) : indexOf? c l = none := by
  induction l with
  | nil => rfl
  | cons x xs ih =>
    simp only [List.mem_cons, not_or] at h
    have : (x == c) = false := by simp [Ne.symm h.1]
    simp [indexOf?, this, ih h.2]

theorem indexOf?_append (c : Char) (l₁ l₂ : Str) (h : c ∉ l₁) :
    indexOf? c (l₁ ++ c :: l₂) = some l₁.length := by
  induction l₁ with
  | nil => simp [indexOf?]
  | cons x xs ih =>
    simp only [List.mem_cons, not_or] at h
    have : (x == c) = false := by simp [Ne.symm h.1]
    simp [indexOf?, this, ih h.2]

theorem lastIndexOf?_none (c : Char) (l : Str) (h : c ∉ l) : lastIndexOf? c l = none := by
  simp [lastIndexOf?, indexOf?_none c l.reverse (by simpa using h)]

theorem lastIndexOf?_append (c : Char) (l₁ l₂ : Str) (h : c ∉ l₂) :
    lastIndexOf? c (l₁ ++ c :: l₂) = some l₁.length := by
  unfold lastIndexOf?
  have : (l₁ ++ c :: l₂).reverse = l₂.reverse ++ c :: l₁.reverse := by simp
  rw [this, indexOf?_append c _ _ (by simpa using h)]
  simp

def headOf (pkg name : Str) : Str := (if pkg.isEmpty then [] else pkg ++ ['.']) ++ name

theorem parseFlat_head (pkg name : Str) (hd : '.' ∉ name) :
    parseFlat (headOf pkg name) = .mk pkg name [] := by
  unfold headOf parseFlat
  cases pkg with
  | nil => simp [lastIndexOf?_none '.' name hd]
  | cons p ps =>
    have : (p :: ps ++ ['.']) ++ name = (p :: ps) ++ '.' :: name := by simp
    simp only [List.isEmpty_cons, Bool.false_eq_true, if_false, this, lastIndexOf?_append '.' _ _ hd]
    simp

theorem parse_succ (b : Bool) (fuel : Nat) (s : Str) :
    parse b (fuel + 1) s =
      match indexOf? '[' s with
      | some i =>
        if i > 0 then
          if lastIndexOf? ']' s == some (s.length - 1) then
            match parse b fuel (s.take i) with
            | none => none
            | some (.mk p n _) =>
              ((splitTop b ((s.drop (i + 1)).take (s.length - i - 2)) 0 []).mapM (parse b fuel)).map
                (fun as => .mk p n as)
          else none
        else some (parseFlat s)
      | none => some (parseFlat s) := rfl

/-- enough fuel: one unit per nesting level -/
theorem parse_plain (fuel : Nat) (pkg name : Str) (hp : plain pkg) (hn : plain name) (hd : '.' ∉ name) :
    parse true (fuel + 1) (headOf pkg name) = some (.mk pkg name []) := by
  have hpl : plain (headOf pkg name) := plain_head hp hn
  rw [parse_succ]
  simp only [indexOf?_none '[' _ hpl.1, parseFlat_head pkg name hd]

mutual
  /-- C15 `parse_print`: printing a well-formed reference and parsing it back gives the same
      tree, at any nesting depth and width. -/
  theorem parse_print : (t : TRef) → WF t → ∀ fuel, t.depth ≤ fuel → parse true fuel t.print = some t
    | .mk pkg name [], h, fuel, hf => by
      obtain ⟨hp, hn, _, hd, _⟩ := h
      cases fuel with
      | zero => simp [TRef.depth] at hf
      | succ k =>
        have := parse_plain k pkg name hp hn hd
        simpa [TRef.print, headOf] using this
    | .mk pkg name (a :: as), h, fuel, hf => by
      obtain ⟨hp, hn, hne, hd, ha, has⟩ := h
      cases fuel with
      | zero => simp [TRef.depth] at hf
      | succ k =>
        have hk : depths (a :: as) ≤ k := by simp [TRef.depth] at hf; exact hf
        have hk1 : 1 ≤ k := by
          have : 1 ≤ a.depth := by cases a; simp [TRef.depth]
          simp [depths] at hk; omega
        obtain ⟨k', rfl⟩ : ∃ k', k = k' + 1 := ⟨k - 1, by omega⟩
        -- shape of the printed string
        have hprint : (TRef.mk pkg name (a :: as)).print =
            headOf pkg name ++ '[' :: ((a.print ++ printTail as) ++ [']']) := by
          simp [TRef.print, headOf]
        have hpl : plain (headOf pkg name) := plain_head hp hn
        have hlen : 0 < (headOf pkg name).length := by
          unfold headOf; cases name with
          | nil => exact absurd rfl hne
          | cons c cs => simp; omega
        generalize hbody : a.print ++ printTail as = body at hprint
        generalize hhead : headOf pkg name = head at hprint hpl hlen
        rw [hprint]
        have hidx : indexOf? '[' (head ++ '[' :: (body ++ [']'])) = some head.length :=
          indexOf?_append '[' head _ hpl.1
        have hlast : lastIndexOf? ']' (head ++ '[' :: (body ++ [']'])) =
            some ((head ++ '[' :: (body ++ [']'])).length - 1) := by
          have : head ++ '[' :: (body ++ [']']) = (head ++ '[' :: body) ++ ']' :: [] := by simp
          rw [this, lastIndexOf?_append ']' _ [] (by simp)]
          simp
        have htake : (head ++ '[' :: (body ++ [']'])).take head.length = head := by simp
        have hbody' : ((head ++ '[' :: (body ++ [']'])).drop (head.length + 1)).take
            ((head ++ '[' :: (body ++ [']'])).length - head.length - 2) = body := by
          have : (head ++ '[' :: (body ++ [']'])).drop (head.length + 1) = body ++ [']'] := by
            rw [List.drop_append]; simp
          rw [this]
          have : (head ++ '[' :: (body ++ [']'])).length - head.length - 2 = body.length := by
            simp
          rw [this]; simp
        have hheadparse : parse true (k' + 1) head = some (.mk pkg name []) := by
          rw [← hhead]; exact parse_plain k' pkg name hp hn hd
        have hsplit : splitTop true body 0 [] = (a :: as).map TRef.print := by
          rw [← hbody]
          have h1 := splitTop_print a ha (printTail as) 0 [] (by omega)
          simp only [List.append_nil] at h1
          rw [h1, splitTop_list as has]
          cases as <;> simp
        rw [parse_succ]
        simp only [hidx, hlen, if_true, hlast, beq_self_eq_true, htake, hheadparse, hbody', hsplit]
        rw [parse_prints (a :: as) ⟨ha, has⟩ (k' + 1) hk]
        simp
  theorem parse_prints : (as : List TRef) → WFs as → ∀ fuel, depths as ≤ fuel →
      (as.map TRef.print).mapM (parse true fuel) = some as
    | [], _, _, _ => by simp
    | a :: as, h, fuel, hf => by
      obtain ⟨ha, has⟩ := h
      have h1 : a.depth ≤ fuel := by simp [depths] at hf; omega
      have h2 : depths as ≤ fuel := by simp [depths] at hf; omega
      simp [List.mapM_cons, parse_print a ha fuel h1, parse_prints as has fuel h2]
end

/-- the pinned code (boolean flag) fails on a comma after a doubly nested bracket (F4):
    `M[L[P[a,b],c]]` -/
example :
    let v (s : String) : TRef := .mk [] s.toList []
    let t : TRef := .mk [] ['M'] [.mk [] ['L'] [.mk [] ['P'] [v "a", v "b"], v "c"]]
    (parse false 10 t.print).isNone = true ∧ (parse true 10 t.print).map TRef.print = some t.print := by
  decide

#print axioms parse_print
end Gengo.TypeRef
