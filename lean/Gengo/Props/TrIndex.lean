import Gengo.Model.GoRt
import Gengo.Model.TypeRef
import Gengo.Props.Small
/-!
The index functions of the run-time library (`Go.strIndex`, `Go.strLastIndex`, `Go.slice`) against the index functions
of the `TypeRef` model (`indexOf?`, `lastIndexOf?`, `lastIndexOfSub`, `take` / `drop`).  Nothing here depends on
regenerated code.
-/
namespace Gengo.TrIndex
open Gengo Gengo.Go Gengo.TypeRef

/-- `Option Nat` index as Go reports it -/
def asInt : Option Nat → Int
  | some i => (i : Int)
  | none => -1

theorem strIndexAux_char (c : Char) (s : Str) (n : Nat) :
    Go.strIndexAux [c] s n = match indexOf? c s with | some i => ((n + i : Nat) : Int) | none => -1 := by
  induction s generalizing n with
  | nil => simp [Go.strIndexAux, indexOf?]
  | cons x xs ih =>
    by_cases h : x = c
    · subst h; simp [Go.strIndexAux, indexOf?]
    · have h' : (x == c) = false := by simpa using h
      have h'' : (c == x) = false := by simpa using (Ne.symm h)
      simp only [Go.strIndexAux, indexOf?, List.isPrefixOf, h', h'', Bool.false_and, Bool.false_eq_true, if_false, ih]
      cases indexOf? c xs with
      | none => simp
      | some k => simp only [Option.map_some]; congr 1; omega

theorem strIndex_char (c : Char) (s : Str) : Go.strIndex s [c] = asInt (indexOf? c s) := by
  simp only [Go.strIndex, strIndexAux_char]
  cases indexOf? c s <;> simp [asInt]

theorem strLastIndexAux_sub (sub s : Str) (n : Nat) (best : Int) :
    Go.strLastIndexAux sub s n best = match lastIndexOfSub sub s with | some i => ((n + i : Nat) : Int) | none => best := by
  induction s generalizing n best with
  | nil => by_cases h : sub.isEmpty <;> simp [Go.strLastIndexAux, lastIndexOfSub, h]
  | cons x xs ih =>
    simp only [Go.strLastIndexAux, lastIndexOfSub, ih]
    cases lastIndexOfSub sub xs with
    | some i => simp; omega
    | none => by_cases h : sub.isPrefixOf (x :: xs) <;> simp [h]

theorem strLastIndex_sub (sub s : Str) : Go.strLastIndex s sub = asInt (lastIndexOfSub sub s) := by
  simp only [Go.strLastIndex, strLastIndexAux_sub]
  cases lastIndexOfSub sub s <;> simp [asInt]

/-- `indexOf?` over an append -/
theorem indexOf?_app (c : Char) (a b : Str) :
    indexOf? c (a ++ b) = match indexOf? c a with
      | some i => some i
      | none => (indexOf? c b).map (· + a.length) := by
  induction a with
  | nil => simp [indexOf?]
  | cons x xs ih =>
    by_cases h : (x == c) = true
    · simp [indexOf?, h]
    · simp only [Bool.not_eq_true] at h
      simp only [List.cons_append, indexOf?, h, Bool.false_eq_true, if_false, ih]
      cases indexOf? c xs with
      | some i => simp
      | none => cases indexOf? c b <;> simp <;> omega

/-- the reverse-based `lastIndexOf?` of the model satisfies the recursion of `lastIndexOfSub` on one character -/
theorem lastIndexOf?_cons (c x : Char) (xs : Str) :
    lastIndexOf? c (x :: xs) = match lastIndexOf? c xs with
      | some i => some (i + 1)
      | none => if x == c then some 0 else none := by
  unfold lastIndexOf?
  simp only [List.reverse_cons, indexOf?_app, List.length_cons]
  cases h : indexOf? c xs.reverse with
  | some k =>
    have hk := indexOf?_lt c xs.reverse k h
    simp at hk
    simp; omega
  | none =>
    by_cases hx : (x == c) = true
    · simp [indexOf?, hx]
    · simp only [Bool.not_eq_true] at hx
      simp [indexOf?, hx]

theorem lastIndexOfSub_char (c : Char) (s : Str) : lastIndexOfSub [c] s = lastIndexOf? c s := by
  induction s with
  | nil => simp [lastIndexOfSub, lastIndexOf?, indexOf?]
  | cons x xs ih =>
    rw [lastIndexOf?_cons, lastIndexOfSub, ih]
    cases lastIndexOf? c xs with
    | some i => rfl
    | none =>
      by_cases hx : x = c
      · subst hx; simp [List.isPrefixOf]
      · have h1 : (x == c) = false := by simpa using hx
        have h2 : (c == x) = false := by simpa using (Ne.symm hx)
        simp [List.isPrefixOf, h1, h2]

theorem strLastIndex_char (c : Char) (s : Str) : Go.strLastIndex s [c] = asInt (lastIndexOf? c s) := by
  rw [strLastIndex_sub, lastIndexOfSub_char]

theorem lastIndexOfSub_le (sub s : Str) (i : Nat) (h : lastIndexOfSub sub s = some i) : i ≤ s.length := by
  induction s generalizing i with
  | nil => by_cases hs : sub.isEmpty <;> simp [lastIndexOfSub, hs] at h; omega
  | cons x xs ih =>
    simp only [lastIndexOfSub] at h
    cases hl : lastIndexOfSub sub xs with
    | some k => simp [hl] at h; have := ih k hl; simp; omega
    | none => by_cases hp : sub.isPrefixOf (x :: xs) <;> simp [hl, hp] at h; omega

theorem slice_from (s : Str) (i : Nat) (h : i ≤ s.length) :
    Go.slice s (i : Int) (Go.len s) = pure (s.drop i) := by
  have h1 : ¬ ((i : Int) < 0) := by omega
  have h2 : ¬ ((s.length : Int) < (i : Int)) := by omega
  simp [Go.slice, Go.len, h1, h2]
  rw [List.take_of_length_le]; simp

theorem slice_to (s : Str) (i : Nat) (h : i ≤ s.length) :
    Go.slice s 0 (i : Int) = pure (s.take i) := by
  have h2 : ¬ ((s.length : Int) < (i : Int)) := by omega
  have h0 : ¬ ((i : Int) < 0) := by omega
  simp [Go.slice, Go.len, h2, h0]

end Gengo.TrIndex
