import Gengo.Model.Order
namespace Gengo

theorem lexLe_total (a b : Str) : lexLe a b || lexLe b a := by
  induction a generalizing b with
  | nil => simp [lexLe]
  | cons x xs ih =>
    cases b with
    | nil => simp [lexLe]
    | cons y ys =>
      simp only [lexLe]
      by_cases h1 : x.toNat < y.toNat
      · simp [h1]
      · by_cases h2 : y.toNat < x.toNat
        · simp [h2]
        · simp [h1, h2]; exact (by simpa using ih ys)

theorem lexLe_trans {a b c : Str} : lexLe a b → lexLe b c → lexLe a c := by
  induction a generalizing b c with
  | nil => simp [lexLe]
  | cons x xs ih =>
    cases b with
    | nil => simp [lexLe]
    | cons y ys =>
      cases c with
      | nil => simp [lexLe]
      | cons z zs =>
        simp only [lexLe]
        intro h1 h2
        by_cases hxy : x.toNat < y.toNat
        · by_cases hyz : y.toNat < z.toNat
          · have : x.toNat < z.toNat := by omega
            simp [this]
          · by_cases hzy : z.toNat < y.toNat
            · simp [hyz, hzy] at h2
            · have : x.toNat < z.toNat := by omega
              simp [this]
        · by_cases hyx : y.toNat < x.toNat
          · simp [hxy, hyx] at h1
          · simp [hxy, hyx] at h1
            by_cases hyz : y.toNat < z.toNat
            · have : x.toNat < z.toNat := by omega
              simp [this]
            · by_cases hzy : z.toNat < y.toNat
              · simp [hyz, hzy] at h2
              · simp [hyz, hzy] at h2
                have h3 : ¬ x.toNat < z.toNat := by omega
                have h4 : ¬ z.toNat < x.toNat := by omega
                simp [h3, h4]
                exact ih h1 h2

theorem lexLe_antisymm {a b : Str} : lexLe a b → lexLe b a → a = b := by
  induction a generalizing b with
  | nil => cases b <;> simp [lexLe]
  | cons x xs ih =>
    cases b with
    | nil => simp [lexLe]
    | cons y ys =>
      simp only [lexLe]
      intro h1 h2
      by_cases h : x.toNat < y.toNat
      · have : ¬ y.toNat < x.toNat := by omega
        simp [h, this] at h2
      · by_cases h' : y.toNat < x.toNat
        · simp [h, h'] at h1
        · simp [h, h'] at h1 h2
          have : x = y := Char.toNat_inj.mp (by omega)
          rw [this, ih h1 h2]

/-- C04 backbone: sorting by a key is independent of the order the records arrive in (Go map
    iteration, entrypoint order), provided keys are distinct. -/
theorem sortBy_perm {α : Type} (key : α → Str) {l₁ l₂ : List α} (h : l₁.Perm l₂)
    (hd : ∀ a ∈ l₁, ∀ b ∈ l₁, key a = key b → a = b) : sortBy key l₁ = sortBy key l₂ := by
  unfold sortBy
  apply List.Perm.eq_of_pairwise (le := fun a b => lexLe (key a) (key b) = true)
  · intro a b ha hb hab hba
    have ha' : a ∈ l₁ := (List.mergeSort_perm l₁ _).mem_iff.mp ha
    have hb' : b ∈ l₁ := h.mem_iff.mpr ((List.mergeSort_perm l₂ _).mem_iff.mp hb)
    exact hd a ha' b hb' (lexLe_antisymm hab hba)
  · exact List.pairwise_mergeSort (le := fun a b => lexLe (key a) (key b))
      (fun a b c => lexLe_trans) (fun a b => lexLe_total _ _) l₁
  · exact List.pairwise_mergeSort (le := fun a b => lexLe (key a) (key b))
      (fun a b c => lexLe_trans) (fun a b => lexLe_total _ _) l₂
  · exact ((List.mergeSort_perm l₁ _).trans h).trans (List.mergeSort_perm l₂ _).symm

#print axioms sortBy_perm
end Gengo
