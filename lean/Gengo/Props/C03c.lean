import Gengo.Model.LocalName
import Gengo.Props.C03a
namespace Gengo.LocalName
open Gengo.Tracker

/-! ### The concrete fallback of the repaired tracker satisfies `FallbackOK` -/

def valRev : List Char → Nat
  | [] => 0
  | c :: cs => (c.toNat - 48) + 10 * valRev cs

theorem digit_toNat (d : Nat) (h : d < 10) : (Char.ofNat (48 + d)).toNat = 48 + d := by
  have : d = 0 ∨ d = 1 ∨ d = 2 ∨ d = 3 ∨ d = 4 ∨ d = 5 ∨ d = 6 ∨ d = 7 ∨ d = 8 ∨ d = 9 := by omega
  rcases this with rfl | rfl | rfl | rfl | rfl | rfl | rfl | rfl | rfl | rfl <;> rfl

theorem valRev_digitsRev : ∀ fuel n, n < fuel → valRev (digitsRev fuel n) = n := by
  intro fuel
  induction fuel with
  | zero => intro n h; omega
  | succ k ih =>
    intro n h
    simp only [digitsRev]
    by_cases hz : n / 10 = 0
    · simp only [hz, if_true, valRev, digit_toNat (n % 10) (Nat.mod_lt _ (by omega))]
      omega
    · simp only [hz, if_false, valRev, digit_toNat (n % 10) (Nat.mod_lt _ (by omega))]
      rw [ih (n / 10) (by omega)]
      omega

/-- decimal representation is injective -/
theorem natDigits_inj (a b : Nat) (h : natDigits a = natDigits b) : a = b := by
  unfold natDigits at h
  have h' : digitsRev (a + 1) a = digitsRev (b + 1) b := by
    have := congrArg List.reverse h
    simpa using this
  have ha := valRev_digitsRev (a + 1) a (by omega)
  have hb := valRev_digitsRev (b + 1) b (by omega)
  rw [h'] at ha
  omega

def isDigitC (c : Char) : Bool := '0' ≤ c && c ≤ '9'

theorem digit_isDigit (d : Nat) (h : d < 10) : isDigitC (Char.ofNat (48 + d)) = true := by
  have : d = 0 ∨ d = 1 ∨ d = 2 ∨ d = 3 ∨ d = 4 ∨ d = 5 ∨ d = 6 ∨ d = 7 ∨ d = 8 ∨ d = 9 := by omega
  rcases this with rfl | rfl | rfl | rfl | rfl | rfl | rfl | rfl | rfl | rfl <;> rfl

theorem digitsRev_spec : ∀ fuel n, 0 < fuel →
    digitsRev fuel n ≠ [] ∧ ∀ c ∈ digitsRev fuel n, isDigitC c = true := by
  intro fuel
  induction fuel with
  | zero => intro n h; omega
  | succ k ih =>
    intro n _
    simp only [digitsRev]
    refine ⟨by simp, ?_⟩
    intro c hc
    simp only [List.mem_cons] at hc
    rcases hc with rfl | hc
    · exact digit_isDigit _ (Nat.mod_lt _ (by omega))
    · split at hc
      · simp at hc
      · cases k with
        | zero => simp [digitsRev] at hc
        | succ k' => exact (ih (n / 10) (by omega)).2 c hc

/-- a name that ends in a digit is not a keyword (no Go keyword ends in a digit) -/
theorem keywords_no_digit_end : keywords.all (fun k => match k.getLast? with
    | some c => !isDigitC c
    | none => true) = true := by decide

def okChar (c : Char) : Bool := isLetter c || c == '_' || asciiPreds.isDigit c
def okHead (c : Char) : Bool := isLetter c || c == '_'

theorem fallbackBase_spec (s : Str) :
    ∃ c cs, fallbackBase s = c :: cs ∧ okHead c = true ∧ ∀ d ∈ cs, okChar d = true := by
  unfold fallbackBase
  have hall : ∀ d ∈ s.filter (fun c => isLetter c || c == '_' || asciiPreds.isDigit c), okChar d = true := by
    intro d hd; exact (List.mem_filter.mp hd).2
  cases hf : s.filter (fun c => isLetter c || c == '_' || asciiPreds.isDigit c) with
  | nil => exact ⟨'p', ['k', 'g'], by simp [hf], by decide, by decide⟩
  | cons c cs =>
    rw [hf] at hall
    simp only
    by_cases hd : asciiPreds.isDigit c = true
    · simp only [hd, if_true]
      refine ⟨'p', ['k', 'g'] ++ c :: cs, by simp, by decide, ?_⟩
      intro d hdm
      simp only [List.mem_append, List.mem_cons] at hdm
      rcases hdm with (rfl | rfl | h) | rfl | h
      · decide
      · decide
      · simp at h
      · exact hall d (by simp)
      · exact hall d (by simp [h])
    · simp only [hd]
      refine ⟨c, cs, rfl, ?_, fun d hdm => hall d (by simp [hdm])⟩
      have := hall c (by simp)
      simp only [okChar, Bool.or_eq_true] at this
      simp only [okHead, Bool.or_eq_true]
      rcases this with (h | h) | h
      · exact Or.inl h
      · exact Or.inr h
      · exact absurd h hd

theorem isDigitC_ok (c : Char) (h : isDigitC c = true) : okChar c = true := by
  simp only [okChar, asciiPreds, isDigitC] at h ⊢
  simp [h]

/-- the repaired fallback names are identifiers: sanitised base followed by a decimal number -/
theorem fallback_isIdent (s : Str) (i : Nat) : isIdent (fallbackBase s ++ natDigits i) = true := by
  obtain ⟨c, cs, hb, hh, hr⟩ := fallbackBase_spec s
  obtain ⟨hne, hdig⟩ := digitsRev_spec (i + 1) i (by omega)
  have hne' : natDigits i ≠ [] := by unfold natDigits; simpa using hne
  have hdig' : ∀ d ∈ natDigits i, isDigitC d = true := by
    intro d hd; unfold natDigits at hd; exact hdig d (by simpa using hd)
  rw [hb]
  simp only [List.cons_append, isIdent, Bool.and_eq_true, List.all_eq_true, Bool.not_eq_true']
  refine ⟨⟨by simpa [okHead] using hh, ?_⟩, ?_⟩
  · intro d hd
    simp only [List.mem_append] at hd
    rcases hd with hd | hd
    · simpa [okChar, Bool.or_assoc] using hr d hd
    · simpa [okChar, Bool.or_assoc] using isDigitC_ok d (hdig' d hd)
  · -- not a keyword: it ends in a digit
    cases hk : keywords.contains (c :: (cs ++ natDigits i)) with
    | false => rfl
    | true =>
      exfalso
      have hmem : (c :: (cs ++ natDigits i)) ∈ keywords := by simpa using hk
      have hall := List.all_eq_true.mp keywords_no_digit_end _ hmem
      obtain ⟨l, hl⟩ : ∃ l, (natDigits i).getLast? = some l := by
        cases h : (natDigits i).getLast? with
        | none => simp at h; exact absurd h hne'
        | some l => exact ⟨l, rfl⟩
      have hlast : (c :: (cs ++ natDigits i)).getLast? = some l := by
        rw [← List.cons_append, List.getLast?_append, hl]; rfl
      rw [hlast] at hall
      have := hdig' l (List.mem_of_getLast? hl)
      simp [this] at hall

/-- C03, repaired tracker, concretely: with `valid := isIdent` and the fallback
    `fallbackBase(last candidate) ++ decimal(i+1)` the hypotheses of `add_binds` / `add_valid` hold,
    so every referenced package gets a name and every name is a valid, non-keyword identifier. -/
theorem concrete_fallbackOK (cands : Str → List Str) (reserved : Str → Str → Bool) (stdNames : List Str)
    (hstd : ∀ n p, reserved n p = true → n ∈ stdNames) (last : Str → Str) :
    FallbackOK { cands := cands, reserved := reserved, stdNames := stdNames, valid := isIdent,
                 useFallback := true, fallback := fun p i => fallbackBase (last p) ++ natDigits (i + 1) } where
  on := rfl
  inj := by
    intro p i j h
    have := List.append_cancel_left h
    have := natDigits_inj _ _ this
    omega
  valid := fun p i => fallback_isIdent (last p) (i + 1)
  std := hstd

/-- the model of the repaired tracker that the probes run against the patched code (`cfgF`) meets
    the hypotheses: every theorem of `Props/C03a`/`C03b` applies to it -/
theorem cfgF_ok (std : List (Str × Str)) (checkStd : Bool) : FallbackOK (cfgF std checkStd) where
  on := rfl
  inj := by
    intro p i j h
    have := List.append_cancel_left h
    have := natDigits_inj _ _ this
    omega
  valid := fun p i => fallback_isIdent _ (i + 1)
  std := by
    intro n p h
    simp only [cfgF, Bool.and_eq_true] at h
    cases hl : std.lookup n with
    | none => simp [hl] at h
    | some q =>
      simp only [cfgF, List.mem_map]
      exact ⟨(n, q), by
        clear h
        induction std with
        | nil => simp at hl
        | cons x xs ih =>
          obtain ⟨a, b⟩ := x
          simp only [List.lookup] at hl
          by_cases hna : n = a
          · subst hna; simp at hl; subst hl; simp
          · have : (n == a) = false := by simp [hna]
            simp only [this] at hl
            exact List.mem_cons_of_mem _ (ih hl), rfl⟩

#print axioms concrete_fallbackOK
#print axioms cfgF_ok
end Gengo.LocalName
