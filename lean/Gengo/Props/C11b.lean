import Gengo.Model.TypeLit
import Gengo.Props.C15c
namespace Gengo.TypeLit
open Gengo.TypeRef Gengo.Tracker

/-!
### C11 ∘ C15: generic instantiations go through the reference parser and the namer's rewrite

For a named type with arguments the real printer does not recurse on types: it prints the
reference as a string (`path.Name[path.Arg,…]`), `ParseTypeRef` re-parses it, the namer rewrites
package paths to local names (`rewrite`, C15) and the result is printed.  `Model/TypeLit` recurses
on the argument *types* instead.  This file shows the two agree on the grammar C11 allows for
arguments (named types of any package — generic again or not — and predeclared names):
`parse ∘ print = id` is C15 `parse_print`; what remains is that printing the *rewritten*
reference tree is what `typeLit` prints.
-/

mutual
  /-- the reference tree of a type of the argument grammar (`none` outside it) -/
  def toTRef : GoType → Option TRef
    | .basic n => some (.mk [] n [])
    | .named pkg name args => (toTRefs args).map (.mk pkg name)
    | _ => none
  def toTRefs : List GoType → Option (List TRef)
    | [] => some []
    | t :: ts =>
      match toTRef t, toTRefs ts with
      | some r, some rs => some (r :: rs)
      | _, _ => none
end

mutual
  /-- a relabelled reference (package field = local name, empty = unqualified) as printed tree -/
  def ofTRef : TRef → TExpr
    | .mk q name args =>
      let base := if q.isEmpty then TExpr.ident name else TExpr.qual q name
      match args with
      | [] => base
      | a :: as => .inst base (ofTRefs (a :: as))
  def ofTRefs : List TRef → List TExpr
    | [] => []
    | a :: as => ofTRef a :: ofTRefs as
end

mutual
  /-- the argument grammar of C11: predeclared names and named types (of a real package), nested -/
  def ArgOK : GoType → Prop
    | .basic _ => True
    | .named pkg _ args => pkg ≠ [] ∧ ArgsOK args
    | _ => False
  def ArgsOK : List GoType → Prop
    | [] => True
    | t :: ts => ArgOK t ∧ ArgsOK ts
end

/-- the environment `typeLit` is given is the final import table: own package unqualified,
    every other package under the name the table binds (non-empty: `add_valid`) -/
structure EnvOf (env : Env) (final : Tracker) : Prop where
  name : ∀ p, env.localName p = localNameOf final p
  nonempty : ∀ p, p ≠ env.self → p ≠ [] → (localNameOf final p) ≠ []

mutual
  /-- **C11 ∘ C15**: for every type of the argument grammar the reference tree exists and what
      `typeLit` prints is the print of that tree relabelled with the final import table — i.e.
      (with `parse_print` and `rewrite_final_names`) what the real string round trip prints -/
  theorem typeLit_ofTRef (fixed : Bool) (env : Env) (final : Tracker) (he : EnvOf env final)
      (hself : env.self ≠ []) : (t : GoType) → ArgOK t →
      ∃ r, toTRef t = some r ∧ typeLit fixed env t = ofTRef (relabel final env.self r)
    | .basic n, _ => ⟨.mk [] n [], by simp [toTRef], by simp [typeLit, relabel, relabels, ofTRef]⟩
    | .named pkg name args, hw => by
      simp only [ArgOK] at hw
      have hpkg : pkg ≠ [] := hw.1
      obtain ⟨rs, hrs, hargs⟩ := typeLits_ofTRefs fixed env final he hself args hw.2
      refine ⟨.mk pkg name rs, by simp [toTRef, hrs], ?_⟩
      have hem : pkg.isEmpty = false := by cases pkg <;> simp_all
      by_cases hs : pkg = env.self
      · cases args with
        | nil =>
          simp only [toTRefs, Option.some.injEq] at hrs
          subst hrs
          simp [typeLit, relabel, ofTRef, hs, hem, relabels, hself]
        | cons a as =>
          cases rs with
          | nil => simp only [toTRefs] at hrs; split at hrs <;> simp at hrs
          | cons r rs' =>
            simp [typeLit, relabel, ofTRef, hargs, hs, hem, relabels, ofTRefs, hself]
      · have hne := he.nonempty pkg hs hpkg
        have hne' : (localNameOf final pkg).isEmpty = false := by
          cases hl : localNameOf final pkg <;> simp_all
        cases args with
        | nil =>
          simp only [toTRefs, Option.some.injEq] at hrs
          subst hrs
          simp [typeLit, relabel, ofTRef, hs, hem, relabels, hne', he.name]
        | cons a as =>
          cases rs with
          | nil => simp only [toTRefs] at hrs; split at hrs <;> simp at hrs
          | cons r rs' =>
            simp [typeLit, relabel, ofTRef, hargs, hs, hem, relabels, ofTRefs, hne', he.name]
    | .error, h => by simp [ArgOK] at h
    | .any, h => by simp [ArgOK] at h
    | .ptr _, h => by simp [ArgOK] at h
    | .slice _, h => by simp [ArgOK] at h
    | .array _ _, h => by simp [ArgOK] at h
    | .map _ _, h => by simp [ArgOK] at h
    | .chan _, h => by simp [ArgOK] at h
    | .struct _, h => by simp [ArgOK] at h
  theorem typeLits_ofTRefs (fixed : Bool) (env : Env) (final : Tracker) (he : EnvOf env final)
      (hself : env.self ≠ []) : (ts : List GoType) → ArgsOK ts →
      ∃ rs, toTRefs ts = some rs ∧ typeLits fixed env ts = ofTRefs (relabels final env.self rs)
    | [], _ => ⟨[], by simp [toTRefs], by simp [typeLits, relabels, ofTRefs]⟩
    | t :: ts, hw => by
      simp only [ArgsOK] at hw
      obtain ⟨r, hr, h1⟩ := typeLit_ofTRef fixed env final he hself t hw.1
      obtain ⟨rs, hrs, h2⟩ := typeLits_ofTRefs fixed env final he hself ts hw.2
      exact ⟨r :: rs, by simp [toTRefs, hr, hrs], by simp [typeLits, relabels, ofTRefs, h1, h2]⟩
end

#print axioms typeLit_ofTRef
end Gengo.TypeLit
