import Gengo.Model.Loader
/-!
C13 `methods_exact`: methods are grouped under the receiver's `*types.Named`.  For a generic type
the receiver of `func (G[T]) M()` is an *instantiated* named type — a different object than the
declared (origin) type.  `byOrigin = false`: pinned grouping; `true`: repaired (`Origin()`).
-/
namespace Gengo.Methods

/-- repaired grouping: exactly the declared methods of `T`, resp. those with value receivers,
    in declaration order — generic or not -/
theorem methods_exact (ms : List Method) (t : Nat) :
    methodsOf true ms t true = ms.filter (·.recvOrigin == t) ∧
    methodsOf true ms t false = ms.filter (fun m => m.recvOrigin == t && !m.ptrRecv) := by
  constructor <;> simp [methodsOf]

/-- pinned grouping (F12): the methods of a generic type are filed under another object -/
example : methodsOf false [⟨['M'], 1, 7, false⟩] 1 true = [] ∧
    methodsOf true [⟨['M'], 1, 7, false⟩] 1 true = [⟨['M'], 1, 7, false⟩] := by decide

end Gengo.Methods
