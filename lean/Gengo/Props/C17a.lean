import Gengo.Model.DeepCopy
namespace Gengo.DeepCopy

/-- `type NM map[string]int; type Out struct{ N NM }`, both enabled -/
def pkgNamedMap : Pkg := [⟨.map, [], true, false⟩, ⟨.struct, [.localNamed 0 false], true, false⟩]
/-- pinned code (F14): first run does not compile, later runs emit different code -/
example : compiles false false pkgNamedMap = false ∧ compiles false true pkgNamedMap = true := by decide
example : fieldStmt false false pkgNamedMap (.localNamed 0 false) ≠ fieldStmt false true pkgNamedMap (.localNamed 0 false) := by decide
/-- repaired code: compiles, and the same statement on every run -/
example : compiles true false pkgNamedMap = true ∧
    fieldStmt true false pkgNamedMap (.localNamed 0 false) = fieldStmt true true pkgNamedMap (.localNamed 0 false) := by decide

/-- untagged same-package dependency: `type Dep struct{…}` (not enabled) used by an enabled struct -/
def pkgUntagged : Pkg := [⟨.struct, [.slice], false, false⟩, ⟨.struct, [.localNamed 0 false], true, false⟩]
example : compiles false false pkgUntagged = false ∧ compiles true false pkgUntagged = true := by decide

/-- field of an instantiated generic type: `type Box[T any] struct{…}; type Use struct{ L Box[Item] }` -/
def pkgInst : Pkg := [⟨.struct, [.plain], true, true⟩, ⟨.struct, [.localNamed 0 true], true, false⟩]
example : (emitAll false pkgInst) = [0, 1, 0] ∧ (emitAll true pkgInst) = [0, 1] := by decide
example : compiles false false pkgInst = false ∧ compiles true false pkgInst = true := by decide

/-- an `error` field -/
example : fieldStmt false false [] .errorT = .panic ∧ fieldStmt true false [] .errorT = .assign := by decide

/-- C17 `run_stable` (repaired code): the statement chosen for a field does not depend on whether
    earlier output is present — for every package and every field type. -/
theorem fieldStmt_run_stable (p : Pkg) (f : FT) : fieldStmt true false p f = fieldStmt true true p f := by
  cases f <;> simp [fieldStmt, ptrFlag]

end Gengo.DeepCopy
