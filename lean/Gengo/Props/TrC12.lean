import Gengo.Gen.Code.C12
import Gengo.Model.Tags
/-!
C12, tie by translation: the Lean definitions that `go2lean` regenerates from `pkg/types/comments.go` on every run
(`Gengo.Code.splitKV`, `oneOf`, `ExtractCommentTags`) are equal to the hand-written model `Gengo.Tags` about which
`Props/C12a` proves `splitKV_spec`, `classify_once`, `tag_iff`, `others_spec`.  They never panic.
-/
namespace Gengo.TrC12
open Gengo Gengo.Go Gengo.Code

theorem splitKV_loop_value (cs k v : Str) :
    splitKV.loop1 cs k v true = pure (k, v ++ cs, true) := by
  induction cs generalizing v with
  | nil => simp [splitKV.loop1]
  | cons c cs ih => simp [splitKV.loop1, ih, bind, Except.bind, pure, Except.pure]

theorem splitKV_loop_key (cs k : Str) :
    splitKV.loop1 cs k [] false = pure (k ++ (Tags.splitKV cs).1, (Tags.splitKV cs).2, !cs.all (fun c => !(c == '=' || c == ' '))) := by
  induction cs generalizing k with
  | nil => simp [splitKV.loop1, Tags.splitKV]
  | cons c cs ih =>
    by_cases h : (c == '=' || c == ' ') = true
    · simp [splitKV.loop1, Tags.splitKV, h, splitKV_loop_value]
    · simp only [Bool.not_eq_true] at h
      simp [splitKV.loop1, Tags.splitKV, h, ih, bind, Except.bind, pure, Except.pure]

/-- the translated `splitKV` is the model's `splitKV` -/
theorem splitKV_eq (line : Str) : Code.splitKV line = pure (Tags.splitKV line) := by
  simp [Code.splitKV, splitKV_loop_key, bind, Except.bind, pure, Except.pure]

theorem oneOf_loop (b : Char) (ms : List Char) :
    oneOf.loop1 b ms = pure (if ms.contains b then .ret true else .next ()) := by
  induction ms with
  | nil => simp [oneOf.loop1]
  | cons m ms ih =>
    by_cases h : b = m
    · subst h; simp [oneOf.loop1]
    · have h' : (b == m) = false := by simpa using h
      simp [oneOf.loop1, h', h, ih]

/-- the translated `oneOf` is list membership -/
theorem oneOf_eq (ms : List Char) (b : Char) : Code.oneOf ms b = pure (ms.contains b) := by
  unfold Code.oneOf
  rw [oneOf_loop]
  by_cases h : b ∈ ms <;> simp [h, bind, Except.bind, pure, Except.pure]

theorem strTrim_space (l : Str) : Go.strTrim l [' '] = Tags.trimSpaces l := by
  have : (fun x : Char => decide (x = ' ')) = (fun x => x == ' ') := by funext x; rfl
  simp [Go.strTrim, Tags.trimSpaces, this]

theorem mapSet_append (m : List (Str × List Str)) (k v : Str) :
    Go.mapSet m k (Go.mapGet m k [] ++ [v]) = Tags.addTag m k v := by
  induction m with
  | nil => simp [Go.mapSet, Go.mapGet, Tags.addTag]
  | cons kv rest ih =>
    obtain ⟨k', vs⟩ := kv
    by_cases h : k' = k
    · subst h; simp [Go.mapSet, Go.mapGet, Tags.addTag]
    · have h' : (k' == k) = false := by simpa using h
      simp [Go.mapSet, Go.mapGet, Tags.addTag, h, h', ih]

theorem extract_loop (markers : List Char) (lines : List Str) (m : List (Str × List Str)) (o : List Str) :
    ExtractCommentTags.loop1 markers lines m o = pure (Tags.extractAux markers lines (m, o)) := by
  induction lines generalizing m o with
  | nil => simp [ExtractCommentTags.loop1, Tags.extractAux]
  | cons l ls ih =>
    rw [ExtractCommentTags.loop1, Tags.extractAux, Tags.classify, strTrim_space]
    cases ht : Tags.trimSpaces l with
    | nil => simp [Go.len, ih, bind, Except.bind, pure, Except.pure]
    | cons c cs =>
      have h1 : ¬ ((cs.length : Int) + 1 = 0) := by omega
      have h2 : ¬ ((cs.length : Int) + 1 < 1) := by omega
      by_cases hm : c ∈ markers
      · simp [Go.len, Go.idx, Go.slice, oneOf_eq, splitKV_eq, hm, h1, h2, ih, mapSet_append, bind, Except.bind, pure, Except.pure]
      · simp [Go.len, Go.idx, oneOf_eq, hm, h1, ih, bind, Except.bind, pure, Except.pure]

/-- the translated `ExtractCommentTags` is the model's `extract`, with the default markers when none are given -/
theorem extractCommentTags_eq (lines : List Str) (markers : List Char) :
    Code.ExtractCommentTags lines markers =
      pure (Tags.extract (if markers.isEmpty then Gengo.Gen.defaultMarkers else markers) lines) := by
  unfold Code.ExtractCommentTags
  cases markers with
  | nil => simp [Go.len, extract_loop, Tags.extract, Gengo.Gen.defaultMarkers, bind, Except.bind, pure, Except.pure]
  | cons a as =>
    have h0 : ¬ ((as.length : Int) + 1 = 0) := by omega
    simp [Go.len, h0, extract_loop, Tags.extract, bind, Except.bind, pure, Except.pure]

/-- never panics, never runs out of fuel: the outcome is always a value -/
theorem extractCommentTags_total (lines : List Str) (markers : List Char) :
    ∃ r, Code.ExtractCommentTags lines markers = .ok r := ⟨_, extractCommentTags_eq lines markers⟩

example : Code.ExtractCommentTags ["+foo=value1".toList, " text".toList, "+foo value2".toList] [] =
    .ok ([("foo".toList, ["value1".toList, "value2".toList])], ["text".toList]) := by rfl

end Gengo.TrC12
