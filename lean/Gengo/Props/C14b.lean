import Gengo.Model.Resolver
namespace Gengo.Resolver

/-! ### Termination of the repaired resolver, for every program -/

def nres (p : Prog) (f : Nat) : Nat := (p[f]?.map (·.results.length)).getD 0

def marked (vs : Visits) (f at_ : Nat) : Bool := ((vs.lookup f).bind (·[at_]?)).getD false

/-- all `(function, result index)` keys of a program -/
def keys (p : Prog) : List (Nat × Nat) :=
  (List.range p.length).flatMap fun f => (List.range (nres p f)).map fun a => (f, a)

/-- number of keys not yet marked -/
def unv (p : Prog) (vs : Visits) : Nat := ((keys p).filter fun k => !marked vs k.1 k.2).length

def WFV (p : Prog) (vs : Visits) : Prop := ∀ f marks, vs.lookup f = some marks → marks.length = nres p f

def Mono (vs vs' : Visits) : Prop := ∀ f a, marked vs f a = true → marked vs' f a = true

theorem Mono.refl (vs : Visits) : Mono vs vs := fun _ _ h => h
theorem Mono.trans {a b c : Visits} (h₁ : Mono a b) (h₂ : Mono b c) : Mono a c :=
  fun f x h => h₂ f x (h₁ f x h)

theorem mem_keys (p : Prog) (f a : Nat) (hf : f < p.length) (ha : a < nres p f) : (f, a) ∈ keys p := by
  simp only [keys, List.mem_flatMap, List.mem_range, List.mem_map]
  exact ⟨f, hf, a, ha, rfl⟩

theorem filter_len_mono {α : Type} (l : List α) (P Q : α → Bool) (h : ∀ x, Q x = true → P x = true) :
    (l.filter Q).length ≤ (l.filter P).length := by
  induction l with
  | nil => simp
  | cons x xs ih =>
    simp only [List.filter_cons]
    by_cases hq : Q x = true
    · simp only [hq, h x hq, if_true, List.length_cons]; omega
    · by_cases hp : P x = true
      · simp only [hq, hp, if_true, List.length_cons]; simp; omega
      · simp only [hq, hp]; simpa using ih

theorem filter_len_strict {α : Type} (l : List α) (P Q : α → Bool) (h : ∀ x, Q x = true → P x = true)
    (x₀ : α) (hx : x₀ ∈ l) (hp : P x₀ = true) (hq : Q x₀ = false) :
    (l.filter Q).length < (l.filter P).length := by
  induction l with
  | nil => simp at hx
  | cons x xs ih =>
    simp only [List.filter_cons]
    rcases List.mem_cons.mp hx with rfl | hx'
    · have := filter_len_mono xs P Q h
      simp only [hp, hq, if_true, List.length_cons]; simp; omega
    · have := ih hx'
      by_cases hqx : Q x = true
      · simp only [hqx, h x hqx, if_true, List.length_cons]; omega
      · by_cases hpx : P x = true
        · simp only [hqx, hpx, if_true, List.length_cons]; simp; omega
        · simp only [hqx, hpx]; simpa using this

theorem unv_mono (p : Prog) {vs vs' : Visits} (h : Mono vs vs') : unv p vs' ≤ unv p vs := by
  unfold unv
  apply filter_len_mono
  intro k hk
  simp only [Bool.not_eq_true'] at hk ⊢
  cases hm : marked vs k.1 k.2 with
  | false => rfl
  | true => rw [h _ _ hm] at hk; cases hk

theorem unv_strict (p : Prog) {vs vs' : Visits} (h : Mono vs vs') (f a : Nat) (hk : (f, a) ∈ keys p)
    (h0 : marked vs f a = false) (h1 : marked vs' f a = true) : unv p vs' < unv p vs := by
  unfold unv
  apply filter_len_strict _ _ _ _ (f, a) hk
  · simp [h0]
  · simp [h1]
  · intro k hk
    simp only [Bool.not_eq_true'] at hk ⊢
    cases hm : marked vs k.1 k.2 with
    | false => rfl
    | true => rw [h _ _ hm] at hk; cases hk

theorem lookup_setMark (vs : Visits) (f g : Nat) (m : List Bool) :
    (setMark vs f m).lookup g = if g = f then some m else vs.lookup g := by
  unfold setMark
  by_cases h : g = f
  · subst h; simp [List.lookup]
  · have hb : (g == f) = false := by simp [h]
    simp only [List.lookup, hb, h, if_false]
    induction vs with
    | nil => rfl
    | cons x xs ih =>
      obtain ⟨a, b⟩ := x
      by_cases ha : a = f
      · subst ha
        have : (g == a) = false := by simp [h]
        have e : List.filter (fun x => decide (x.fst ≠ a)) ((a, b) :: xs) = List.filter (fun x => decide (x.fst ≠ a)) xs := by
          simp [List.filter_cons]
        rw [e, ih]; simp [List.lookup, this]
      · have e : List.filter (fun x => decide (x.fst ≠ f)) ((a, b) :: xs) = (a, b) :: List.filter (fun x => decide (x.fst ≠ f)) xs := by
          simp [List.filter_cons, ha]
        rw [e]; simp only [List.lookup]; rw [ih]

theorem wfv_setMark (p : Prog) (vs : Visits) (f : Nat) (m : List Bool) (hw : WFV p vs)
    (hm : m.length = nres p f) : WFV p (setMark vs f m) := by
  intro g m' h
  rw [lookup_setMark] at h
  by_cases hg : g = f
  · subst hg; simp at h; subst h; exact hm
  · simp only [hg, if_false] at h; exact hw g m' h

/-- the repaired `visited` on a valid key: either already seen (state unchanged) or newly marked
    (strictly fewer unvisited keys) -/
theorem visited_spec (p : Prog) (vs : Visits) (f a : Nat) (hw : WFV p vs) (hf : f < p.length)
    (ha : a < nres p f) :
    ∃ seen vs', visited true vs f a (nres p f) = (seen, vs') ∧
      WFV p vs' ∧ Mono vs vs' ∧ (seen = false → unv p vs' < unv p vs) := by
  unfold visited
  cases hl : vs.lookup f with
  | some marks =>
    have hlen : marks.length = nres p f := hw f marks hl
    by_cases hs : marks.getD a false = true
    · have hs' : marks[a]?.getD false = true := by simpa [List.getD_eq_getElem?_getD] using hs
      exact ⟨true, vs, by simp [hs'], hw, Mono.refl vs, by simp⟩
    · have hmono : Mono vs (setMark vs f (marks.set a true)) := by
        intro g x hm
        simp only [marked, lookup_setMark] at hm ⊢
        by_cases hg : g = f
        · subst hg
          simp only [hl, Option.bind_some] at hm
          simp only [if_true, Option.bind_some]
          by_cases hx : x = a
          · subst hx; simp [List.getElem?_set, hlen, ha]
          · rw [List.getElem?_set_ne (Ne.symm hx)]; exact hm
        · simp only [hg, if_false]; exact hm
      have hs' : marks[a]?.getD false = false := by
        have : ¬ marks[a]?.getD false = true := by simpa [List.getD_eq_getElem?_getD] using hs
        simpa using this
      refine ⟨false, setMark vs f (marks.set a true), by simp [hs'], ?_, hmono, fun _ => ?_⟩
      · exact wfv_setMark p vs f _ hw (by simp [hlen])
      · apply unv_strict p hmono f a (mem_keys p f a hf ha)
        · simp only [marked, hl, Option.bind_some]
          simpa [List.getD_eq_getElem?_getD] using hs
        · simp [marked, lookup_setMark, List.getElem?_set, hlen, ha]
  | none =>
    have hmono : Mono vs (setMark vs f ((List.replicate (nres p f) false).set a true)) := by
      intro g x hm
      simp only [marked, lookup_setMark] at hm ⊢
      by_cases hg : g = f
      · subst hg; simp [hl] at hm
      · simp only [hg, if_false]; exact hm
    refine ⟨false, _, rfl, ?_, hmono, fun _ => ?_⟩
    · exact wfv_setMark p vs f _ hw (by simp)
    · apply unv_strict p hmono f a (mem_keys p f a hf ha)
      · simp [marked, hl]
      · simp [marked, lookup_setMark, List.getElem?_set, ha]

/-- what a recursive descent must guarantee on states with at most `B` unvisited keys -/
def RecOK (p : Prog) (rec : Rec) (B : Nat) : Prop :=
  ∀ vs g a, WFV p vs → g < p.length → a < nres p g → unv p vs ≤ B →
    ∃ out vs', rec vs g a = some (out, vs') ∧ WFV p vs' ∧ Mono vs vs'

theorem callAt_ok (p : Prog) (rec : Rec) (B : Nat) (hr : RecOK p rec B) (vs : Visits) (g a : Nat)
    (hw : WFV p vs) (hb : unv p vs ≤ B) :
    ∃ out vs', callAt p rec vs g a = some (out, vs') ∧ WFV p vs' ∧ Mono vs vs' := by
  unfold callAt
  cases hg : p[g]? with
  | none => exact ⟨[], vs, rfl, hw, Mono.refl vs⟩
  | some fn =>
    simp only
    cases ha : fn.results[a]? with
    | none => exact ⟨[], vs, rfl, hw, Mono.refl vs⟩
    | some ty =>
      simp only
      split
      · have hgl : g < p.length := by
          have := List.getElem?_eq_some_iff.mp hg; exact this.1
        have hal : a < nres p g := by
          have := List.getElem?_eq_some_iff.mp ha
          simp [nres, hg]; exact this.1
        exact hr vs g a hw hgl hal hb
      · exact ⟨_, vs, rfl, hw, Mono.refl vs⟩

theorem exprsAt_ok (p : Prog) (rec : Rec) (B : Nat) (hr : RecOK p rec B) (vs : Visits)
    (rhs : List Expr) (n a : Nat) (hw : WFV p vs) (hb : unv p vs ≤ B) :
    ∃ out vs', exprsAt p rec vs rhs n a = some (out, vs') ∧ WFV p vs' ∧ Mono vs vs' := by
  unfold exprsAt
  split
  · split
    · exact callAt_ok p rec B hr vs _ _ hw hb
    · exact ⟨[], vs, rfl, hw, Mono.refl vs⟩
  · split
    · exact ⟨[], vs, rfl, hw, Mono.refl vs⟩
    · exact callAt_ok p rec B hr vs _ _ hw hb
    · exact ⟨_, vs, rfl, hw, Mono.refl vs⟩
    · exact ⟨_, vs, rfl, hw, Mono.refl vs⟩

theorem overReturns_ok (p : Prog) (rec : Rec) (B : Nat) (hr : RecOK p rec B) (n a : Nat)
    (rs : List (List Expr)) :
    ∀ (vs : Visits) (acc : List Res), WFV p vs → unv p vs ≤ B →
      ∃ out vs', overReturns p rec n a rs vs acc = some (out, vs') ∧ WFV p vs' ∧ Mono vs vs' := by
  induction rs with
  | nil => intro vs acc hw _; exact ⟨acc, vs, rfl, hw, Mono.refl vs⟩
  | cons r rs ih =>
    intro vs acc hw hb
    obtain ⟨out, vs1, h1, hw1, hm1⟩ := exprsAt_ok p rec B hr vs r n a hw hb
    simp only [overReturns, h1]
    obtain ⟨out2, vs2, h2, hw2, hm2⟩ := ih vs1 (acc ++ out) hw1 (Nat.le_trans (unv_mono p hm1) hb)
    exact ⟨out2, vs2, h2, hw2, hm1.trans hm2⟩

/-- C14 `resolve_terminates` (repaired code): with more fuel than unvisited keys the resolver
    returns — for every program (any recursion structure), every visits state, every key. -/
theorem funcAt_terminates (p : Prog) :
    ∀ fuel, RecOK p (funcAt p true (fuel + 1)) fuel := by
  intro fuel
  induction fuel with
  | zero =>
    intro vs g a hw hg ha hb
    have hfn : p[g]? = some p[g] := List.getElem?_eq_getElem hg
    have hn : (p[g]).results.length = nres p g := by simp [nres, hfn]
    obtain ⟨seen, vs', hv, hw', hm', hs'⟩ := visited_spec p vs g a hw hg ha
    simp only [funcAt, hfn, hn, hv]
    cases seen with
    | true => exact ⟨[], vs', rfl, hw', hm'⟩
    | false => have := hs' rfl; omega
  | succ k ih =>
    intro vs g a hw hg ha hb
    have hfn : p[g]? = some p[g] := List.getElem?_eq_getElem hg
    have hn : (p[g]).results.length = nres p g := by simp [nres, hfn]
    obtain ⟨seen, vs', hv, hw', hm', hs'⟩ := visited_spec p vs g a hw hg ha
    rw [funcAt]
    simp only [hfn, hn, hv]
    cases seen with
    | true => exact ⟨[], vs', rfl, hw', hm'⟩
    | false =>
      have hlt := hs' rfl
      simp only [Bool.false_eq_true, if_false]
      obtain ⟨out, vs2, h2, hw2, hm2⟩ :=
        overReturns_ok p (funcAt p true (k + 1)) k ih (nres p g) a (p[g]).returns vs' [] hw' (by omega)
      exact ⟨out, vs2, h2, hw2, hm'.trans hm2⟩

theorem unv_le_keys (p : Prog) (vs : Visits) : unv p vs ≤ (keys p).length := by
  unfold unv; exact List.length_filter_le _ _

theorem resultsOfAux_shape (p : Prog) (f : Nat) (hf : f < p.length) (fn : Func) (hfn : p[f]? = some fn)
    (ats : List Nat) (hats : ∀ a ∈ ats, a < nres p f) :
    ∀ (vs : Visits) (acc : List (List Res)), WFV p vs → (∀ r ∈ acc, r ≠ []) →
      ∃ rs, resultsOfAux p true ((keys p).length + 1) f fn ats vs acc = some rs ∧
        rs.length = acc.length + ats.length ∧ ∀ r ∈ rs, r ≠ [] := by
  induction ats with
  | nil => intro vs acc _ hacc; exact ⟨acc, rfl, by simp, hacc⟩
  | cons a ats ih =>
    intro vs acc hw hacc
    obtain ⟨out, vs', h1, hw', _⟩ :=
      funcAt_terminates p (keys p).length vs f a hw hf (hats a (by simp)) (unv_le_keys p vs)
    simp only [resultsOfAux, h1]
    obtain ⟨rs, h2, hlen, hne⟩ := ih (fun x hx => hats x (by simp [hx])) vs'
      (acc ++ [if out.isEmpty then [Res.ty ((fn.results[a]?.map (·.name)).getD [])] else out]) hw' (by
      intro r hr
      simp only [List.mem_append, List.mem_singleton] at hr
      rcases hr with hr | rfl
      · exact hacc r hr
      · split <;> simp_all)
    exact ⟨rs, h2, by simp at hlen ⊢; omega, hne⟩

/-- C14 `shape` (repaired code): for every function of every program, `ResultsOf` returns, with
    exactly one non-empty list of alternatives per declared result. -/
theorem resultsOf_shape (p : Prog) (f : Nat) (hf : f < p.length) :
    ∃ rs, resultsOf p true ((keys p).length + 1) f = some rs ∧
      rs.length = (p[f]).results.length ∧ ∀ r ∈ rs, r ≠ [] := by
  have hfn : p[f]? = some p[f] := List.getElem?_eq_getElem hf
  simp only [resultsOf, hfn]
  obtain ⟨rs, h, hlen, hne⟩ := resultsOfAux_shape p f hf p[f] hfn (List.range (p[f]).results.length)
    (by intro a ha; simp [nres, hfn]; simpa using ha) [] [] (by intro g m h; simp at h) (by simp)
  exact ⟨rs, h, by simpa using hlen, hne⟩

#print axioms funcAt_terminates
#print axioms resultsOf_shape
end Gengo.Resolver
