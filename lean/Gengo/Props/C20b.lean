import Gengo.Model.Inflect
import Gengo.Gen.InflectTables
namespace Gengo.Inflect

/-- C20 `irregular_total` (repaired code): the irregular step never panics — whatever the
    regexp's folding relation and `ToLower` do to the matched word -/
theorem irregular_total (c : Cfg) (s : Str) : irregular c true s ≠ .panic := by
  unfold irregular irregular2
  split
  · simp
  · split <;> simp

/-- table fact used by the repaired rebuild (`first rune of the matched word ++ replacement[1:]`):
    every irregular word and its replacement start with the same letter — checked over the
    tables regenerated from rules.go -/
theorem plural_heads : irregularPlural.all (fun e => e.1.head? == e.2.head? && !e.1.isEmpty) = true := by decide
theorem singular_heads : irregularSingular.all (fun e => e.1.head? == e.2.head? && !e.1.isEmpty) = true := by decide

/-! ### the memoisation cache (`sync.Map` of `sync.OnceValue`) as a state machine -/

/-- cache contents: key ↦ memoised result -/
abbrev Cache := List (Str × Str)

/-- one `Inflected(s)` call: `LoadOrStore`, then the once-cell yields `f s` -/
def call (f : Str → Str) (cache : Cache) (s : Str) : Cache × Str :=
  match cache.lookup s with
  | some v => (cache, v)
  | none => ((s, f s) :: cache, f s)

def Sound (f : Str → Str) (cache : Cache) : Prop := ∀ k v, cache.lookup k = some v → v = f k

theorem call_sound (f : Str → Str) (cache : Cache) (s : Str) (h : Sound f cache) :
    Sound f (call f cache s).1 ∧ (call f cache s).2 = f s := by
  unfold call
  cases hl : cache.lookup s with
  | some v => exact ⟨h, h s v hl⟩
  | none =>
    refine ⟨?_, rfl⟩
    intro k v hk
    simp only [List.lookup] at hk
    by_cases hks : k = s
    · subst hks; simp at hk; exact hk.symm
    · have : (k == s) = false := by simp [hks]
      simp only [this] at hk
      exact h k v hk

/-- C20 `cache_refines`: in every sequence of calls — every linearisation of concurrent callers —
    each call returns the pure function's value -/
theorem cache_refines (f : Str → Str) (calls : List Str) :
    ∀ (cache : Cache), Sound f cache →
      ∀ (i : Nat) (hi : i < calls.length),
        ((calls.take i).foldl (fun c s => (call f c s).1) cache |> fun c => (call f c calls[i]).2) = f calls[i] := by
  intro cache h i hi
  have hs : Sound f ((calls.take i).foldl (fun c s => (call f c s).1) cache) := by
    generalize calls.take i = pre
    induction pre generalizing cache with
    | nil => exact h
    | cons x xs ih => exact ih _ (call_sound f cache x h).1
  exact (call_sound f _ _ hs).2

#print axioms cache_refines
end Gengo.Inflect
