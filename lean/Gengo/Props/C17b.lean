import Gengo.Model.Heap
namespace Gengo.Heap

mutual
  theorem deepCopy_spec : (v : HV) → ∀ next,
      next ≤ (deepCopy v next).2 ∧
      (∀ i ∈ (deepCopy v next).1.ids, next ≤ i ∧ i < (deepCopy v next).2) ∧
      (deepCopy v next).1.erase = v.erase
    | .scalar n, next => by simp [deepCopy, HV.ids, HV.erase]
    | .slice none es, next => by simp [deepCopy, HV.ids, HV.erase]
    | .slice (some j) es, next => by simp [deepCopy, HV.ids, HV.erase]
    | .map none es, next => by simp [deepCopy, HV.ids, HV.erase]
    | .map (some j) es, next => by simp [deepCopy, HV.ids, HV.erase]
    | .struct fs, next => by
      have := deepCopyList_spec fs next
      simp only [deepCopy, HV.ids, HV.erase]
      exact ⟨this.1, this.2.1, by rw [this.2.2]⟩
  theorem deepCopyList_spec : (vs : List HV) → ∀ next,
      next ≤ (deepCopyList vs next).2 ∧
      (∀ i ∈ idsList (deepCopyList vs next).1, next ≤ i ∧ i < (deepCopyList vs next).2) ∧
      eraseList (deepCopyList vs next).1 = eraseList vs
    | [], next => by simp [deepCopyList, idsList, eraseList]
    | v :: vs, next => by
      have h1 := deepCopy_spec v next
      have h2 := deepCopyList_spec vs (deepCopy v next).2
      simp only [deepCopyList, idsList, eraseList]
      refine ⟨by omega, ?_, by rw [h1.2.2, h2.2.2]⟩
      intro i hi
      simp only [List.mem_append] at hi
      rcases hi with hi | hi
      · have := h1.2.1 i hi; omega
      · have := h2.2.1 i hi; omega
end

/-- C17 `copy_equal` and `no_shared_container`: the copy is deeply equal to the original and no
    slice or map of the copy, at any struct nesting depth, shares its backing store with the
    original (so appending to or assigning into it cannot change the original). -/
theorem deepCopy_no_sharing (v : HV) (next : Nat) (hfresh : ∀ i ∈ v.ids, i < next) :
    (deepCopy v next).1.erase = v.erase ∧ ∀ i, i ∈ (deepCopy v next).1.ids → i ∉ v.ids := by
  have h := deepCopy_spec v next
  refine ⟨h.2.2, ?_⟩
  intro i hi hv
  have := h.2.1 i hi
  have := hfresh i hv
  omega

/-- by contrast, copying a slice field by assignment shares the backing store -/
example : let v := HV.struct [.slice (some 3) [1, 2]]
    (v.ids.any fun i => v.ids.contains i) = true := by decide

#print axioms deepCopy_no_sharing
end Gengo.Heap
