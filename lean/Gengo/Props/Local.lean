import Gengo.Model.Locality
namespace Gengo.Locality

/-! ### C07 / C08: what is local is decided by module membership -/

theorem roots_perm {ps qs : List P} (h : ps.Perm qs) : (roots ps).Perm (roots qs) :=
  (h.filter _).filterMap _

theorem mem_roots (ps : List P) (m : Path) :
    m ∈ roots ps ↔ ∃ q ∈ ps, q.matched = true ∧ q.modPath = some m := by
  simp only [roots, List.mem_filterMap, List.mem_filter]
  constructor
  · rintro ⟨q, ⟨hq, hm⟩, he⟩; exact ⟨q, hq, hm, he⟩
  · rintro ⟨q, hq, hm, he⟩; exact ⟨q, ⟨hq, hm⟩, he⟩

/-- a package is local iff its module is the module of some matched package -/
theorem isLocal_iff (ps : List P) (p : P) :
    isLocal ps p = true ↔ ∃ m, p.modPath = some m ∧ ∃ q ∈ ps, q.matched = true ∧ q.modPath = some m := by
  unfold isLocal
  cases hm : p.modPath with
  | none => simp
  | some m => simp [mem_roots]

/-- **a package of another module is never local, whatever its import path looks like** — in
    particular a nested module whose path extends the main module's path -/
theorem foreign_not_local (ps : List P) (p : P) (m : Path) (hm : p.modPath = some m)
    (hf : ∀ q ∈ ps, q.matched = true → q.modPath ≠ some m) : isLocal ps p = false := by
  cases h : isLocal ps p with
  | false => rfl
  | true =>
    obtain ⟨m', hm', q, hq, hqm, hqp⟩ := (isLocal_iff ps p).mp h
    rw [hm] at hm'; cases hm'
    exact absurd hqp (hf q hq hqm)

/-- a package without module information is never local -/
theorem no_module_not_local (ps : List P) (p : P) (hm : p.modPath = none) : isLocal ps p = false := by
  simp [isLocal, hm]

/-- every matched package with a module is local and direct -/
theorem matched_local (ps : List P) (p : P) (hp : p ∈ ps) (hm : p.matched = true) (m : Path) (hmod : p.modPath = some m) :
    (p.pkgPath, true) ∈ locals ps := by
  simp only [locals, List.mem_map, List.mem_filter]
  refine ⟨p, ⟨hp, (isLocal_iff ps p).mpr ⟨m, hmod, p, hp, hm, hmod⟩⟩, by simp [hm]⟩

/-- the decision does not depend on the order in which go/packages hands the packages over -/
theorem isLocal_perm {ps qs : List P} (h : ps.Perm qs) (p : P) : isLocal ps p = isLocal qs p := by
  unfold isLocal
  cases p.modPath with
  | none => rfl
  | some m =>
    have := (roots_perm h).mem_iff (a := m)
    rw [Bool.eq_iff_iff]
    simpa using this

theorem locals_perm {ps qs : List P} (h : ps.Perm qs) : (locals ps).Perm (locals qs) := by
  unfold locals
  have hf : (ps.filter (isLocal ps)).Perm (qs.filter (isLocal qs)) := by
    have : (isLocal ps) = (isLocal qs) := funext (isLocal_perm h)
    rw [this]; exact h.filter _
  exact hf.map _

-- the main module m with a nested module m/sub: m/sub/p is loaded as a dependency and is not local
example :
    let m : Path := ["example.com".toList, "m".toList]
    let sub : Path := m ++ ["sub".toList]
    let ps : List P := [⟨m ++ ["a".toList], some m, true⟩, ⟨sub ++ ["p".toList], some sub, false⟩, ⟨["fmt".toList], none, false⟩]
    locals ps = [(m ++ ["a".toList], true)] := by decide

#print axioms foreign_not_local
#print axioms locals_perm
end Gengo.Locality
