import Gengo.Props.TrC15b
import Gengo.Props.C15
/-!
C15 stated of the code as it stands: printing a well-formed reference and parsing it with the translated `ParseTypeRef`
gives the reference back — `parse_print` (proved of the model in `Props/C15` for every depth and width) carried over by
`parseTypeRef_eq`.
-/
namespace Gengo.TrCode
open Gengo Gengo.Go Gengo.Code Gengo.TypeRef

theorem code_parse_print (t : TRef) (h : WF t) :
    Code.parseTypeRef (t.print.length + t.depth + 1) t.print = .ok (some t) := by
  rw [TrC15b.parseTypeRef_eq _ _ (by omega), parse_print t h _ (by omega)]
  rfl

end Gengo.TrCode
