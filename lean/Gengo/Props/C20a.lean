import Gengo.Model.Inflect
namespace Gengo.Inflect

def asciiLower (c : Char) : Char := if 'A' ≤ c ∧ c ≤ 'Z' then Char.ofNat (c.toNat + 32) else c
def asciiWord (c : Char) : Bool :=
  ('0' ≤ c && c ≤ '9') || ('A' ≤ c && c ≤ 'Z') || ('a' ≤ c && c ≤ 'z') || c == '_'

/-- a configuration with Go's behaviour on the runes used below: `(?i)s` also matches U+017F
    (long s), which `ToLower` leaves alone -/
def goCfg : Cfg where
  table := [("person".toList, "people".toList), ("man".toList, "men".toList)]
  foldEq := fun a b => asciiLower a == b || (a == 'ſ' && b == 's')
  lower := asciiLower
  isWord := asciiWord

/-- pinned code (F2): the first character of the *whole input* is spliced in -/
example : irregular goCfg false "old-person".toList = .ok "old-oeople".toList := by decide
example : irregular goCfg false "wood-man".toList = .ok "wood-wen".toList := by decide
/-- pinned code (F3): a rune that folds to a table letter but does not lower-case to it panics -/
example : irregular goCfg false "perſon".toList = .panic := by decide
/-- repaired code -/
example : irregular goCfg true "old-person".toList = .ok "old-people".toList := by decide
example : irregular goCfg true "Old-Person".toList = .ok "Old-People".toList := by decide
example : irregular goCfg true "perſon".toList = .nomatch := by decide
/-- no word boundary inside snake/camel compounds -/
example : irregular goCfg true "old_person".toList = .nomatch := by decide
/-- found by the differential probe: a non-ASCII rune that folds to the first letter of a table
    word is itself a non-word character, so there *is* a boundary after a preceding letter -/
example : irregular goCfg false "woſon".toList = .nomatch ∧ irregular goCfg false "perſon".toList = .panic := by decide

end Gengo.Inflect

namespace Gengo.Inflect

theorem findAux_append (c : Cfg) (a b : Str) :
    ∀ (pre : Str) (best : Option (Str × Str)),
      ∃ best', findAux c pre (a ++ b) best = findAux c (pre ++ a) b best' := by
  induction a with
  | nil => intro pre best; exact ⟨best, by simp⟩
  | cons x xs ih =>
    intro pre best
    simp only [List.cons_append, findAux]
    obtain ⟨b', hb'⟩ := ih (pre ++ [x]) (if boundary c pre (x :: (xs ++ b)) && matchesTable c (x :: (xs ++ b)) then some (pre, x :: (xs ++ b)) else best)
    exact ⟨b', by rw [hb']; simp⟩

/-- inside a run of word characters there is no boundary, so no later split point can match -/
theorem findAux_inside (c : Cfg) (v : Str) (hv : ∀ x ∈ v, c.isWord x = true) :
    ∀ (pre : Str) (best : Option (Str × Str)), (∃ y, pre.getLast? = some y ∧ c.isWord y = true) →
      findAux c pre v best = best := by
  induction v with
  | nil => intro pre best _; rfl
  | cons x xs ih =>
    intro pre best ⟨y, hy, hyw⟩
    simp only [findAux]
    have hb : boundary c pre (x :: xs) = false := by simp [boundary, hy, hyw, hv x (by simp)]
    simp only [hb, Bool.and_false, Bool.false_and, Bool.false_eq_true, if_false]
    apply ih (fun z hz => hv z (by simp [hz]))
    exact ⟨x, by simp, hv x (by simp)⟩

/-- the match the regexp finds in `p ++ w`, when `w` is a table word (up to folding) made of word
    characters and there is a word boundary between `p` and `w` -/
theorem find_prefix (c : Cfg) (p w : Str) (hw : w ≠ []) (hword : ∀ x ∈ w, c.isWord x = true)
    (hb : boundary c p w = true) (hm : matchesTable c w = true) :
    find c (p ++ w) = some (p, w) := by
  unfold find
  obtain ⟨best', hbest⟩ := findAux_append c p w [] none
  rw [hbest]
  obtain ⟨x, xs, rfl⟩ := List.exists_cons_of_ne_nil hw
  simp only [List.nil_append, findAux, hb, hm, Bool.and_self, if_true]
  apply findAux_inside c xs (fun z hz => hword z (by simp [hz]))
  exact ⟨x, by simp, hword x (by simp)⟩

/-- C20 `irregular_prefix` (repaired code): everything before the irregular word is preserved
    and the word is inflected exactly as it is on its own — for every prefix `p` that ends in a
    word boundary and every spelling `w` (any case) of a table word. -/
theorem irregular_prefix (c : Cfg) (p w : Str) (hw : w ≠ []) (hword : ∀ x ∈ w, c.isWord x = true)
    (hb : boundary c p w = true) (hm : matchesTable c w = true) :
    irregular c true (p ++ w) =
      match irregular c true w with
      | .ok out => .ok (p ++ out)
      | o => o := by
  have h1 := find_prefix c p w hw hword hb hm
  have h2 : find c w = some ([], w) := by
    have := find_prefix c [] w hw hword (by
      obtain ⟨x, xs, rfl⟩ := List.exists_cons_of_ne_nil hw
      simp [boundary, hword x (by simp)]) hm
    simpa using this
  simp only [irregular, irregular2, if_true, h1, h2]
  cases c.table.lookup (w.map c.lower) <;> simp [List.append_assoc]

#print axioms irregular_prefix
end Gengo.Inflect

namespace Gengo.Inflect
/-- pinned pattern without the `s` flag: the lines before the last newline are lost (F2) -/
example : irregular goCfg false "a\nperson".toList = .ok "aeople".toList := by decide
example : irregular goCfg true "a\nperson".toList = .ok "a\npeople".toList := by decide
end Gengo.Inflect
