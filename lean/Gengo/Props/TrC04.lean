import Gengo.Gen.Code.C04
import Gengo.Props.GoRtLemmas
import Gengo.Props.C04e
/-!
`GetRegisteredGenerators` of pkg/gengo/register.go as translated (`Gengo.Code.registeredGens`; the registry map is the
parameter `reg`, a generator is identified by a string).  Without names it hands out every registered generator, in
whatever order the map is ranged: two presentations of one registry give permutations of one list — and
`Pipeline.gather_gens_perm` says that the (generator, text) pairs reaching the write phase do not depend on that order.
-/
namespace Gengo.TrC04
open Gengo Gengo.Go Gengo.GoRtLemmas

theorem loop1_spec (reg : List (Str × Str)) (hd : (reg.map (·.1)).Nodup) (l : List (Str × Str)) (hl : ∀ kv ∈ l, kv ∈ reg)
    (acc : List Str) :
    Code.registeredGens.loop1 reg l acc = pure (acc ++ l.map (·.2)) := by
  induction l generalizing acc with
  | nil => simp [Code.registeredGens.loop1]
  | cons kv rest ih =>
    obtain ⟨k, v⟩ := kv
    have hm := mapGet_of_mem reg hd (k, v) (hl _ (by simp))
    simp only at hm
    simp [Code.registeredGens.loop1, hm, ih (fun x hx => hl x (by simp [hx])), List.append_assoc]

theorem loop2_spec (reg : List (Str × Str)) (names : List Str) (acc : List Str) :
    Code.registeredGens.loop2 reg names acc = pure (acc ++ names.filterMap (reg.lookup ·)) := by
  induction names generalizing acc with
  | nil => simp [Code.registeredGens.loop2]
  | cons n rest ih =>
    cases hl : reg.lookup n with
    | none => simp [Code.registeredGens.loop2, mapHas_lookup, hl, ih]
    | some g => simp [Code.registeredGens.loop2, mapHas_lookup, mapGet_lookup, hl, ih, List.append_assoc]

/-- without names: every registered generator, in the order the map is ranged -/
theorem registeredGens_all (reg : List (Str × Str)) (hd : (reg.map (·.1)).Nodup) :
    Code.registeredGens reg [] = pure (reg.map (·.2)) := by
  simp [Code.registeredGens, Go.len, loop1_spec reg hd reg (fun _ h => h)]

/-- with names: those of them that are registered, in the order of the names -/
theorem registeredGens_named (reg : List (Str × Str)) (names : List Str) (hn : names ≠ []) :
    Code.registeredGens reg names = pure (names.filterMap (reg.lookup ·)) := by
  have : ¬ (names.length = 0) := fun h => hn (List.length_eq_zero_iff.mp h)
  simp [Code.registeredGens, Go.len, this, loop2_spec]

/-- **C04, of the translated code**: two orders in which the registry map may be ranged give permutations of one list of
    generators -/
theorem code_registered_perm (reg₁ reg₂ : List (Str × Str)) (h : reg₁.Perm reg₂) (hd : (reg₁.map (·.1)).Nodup) :
    ∃ g₁ g₂, Code.registeredGens reg₁ [] = .ok g₁ ∧ Code.registeredGens reg₂ [] = .ok g₂ ∧ g₁.Perm g₂ := by
  have hd₂ : (reg₂.map (·.1)).Nodup := (h.map (·.1)).nodup_iff.mp hd
  exact ⟨_, _, registeredGens_all reg₁ hd, registeredGens_all reg₂ hd₂, h.map (·.2)⟩

example : Code.registeredGens [("deepcopy".toList, "D".toList), ("runtimedoc".toList, "R".toList)] [] = .ok ["D".toList, "R".toList] := by rfl
example : Code.registeredGens [("deepcopy".toList, "D".toList), ("runtimedoc".toList, "R".toList)]
    ["runtimedoc".toList, "nope".toList] = .ok ["R".toList] := by rfl

#print axioms registeredGens_all
#print axioms registeredGens_named
#print axioms code_registered_perm
end Gengo.TrC04
