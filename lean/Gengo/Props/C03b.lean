import Gengo.Props.C03a
namespace Gengo.Tracker

/-- what ends up in the rendered body: plain text, or a qualified reference
    (`path` is ghost information: which package the reference was rendered for) -/
inductive Tok
  | text (s : Str)
  | qual (path localName ident : Str)

/-- a reference handed to the namer: to the file's own package, or to another one -/
inductive Ref
  | own (ident : Str)
  | foreign (path ident : Str)

structure WState where
  out : List Tok
  tracker : Tracker

/-- `rawNamer.Name`: own package unqualified; otherwise register, then qualify with the name the
    tracker now holds -/
def renderRef (c : Cfg) (w : WState) : Ref → WState
  | .own id => { w with out := w.out ++ [.text id] }
  | .foreign p id =>
    let t' := add c w.tracker p
    { out := w.out ++ [.qual p (localNameOf t' p) id], tracker := t' }

def renderAll (c : Cfg) (rs : List Ref) : WState := rs.foldl (renderRef c) ⟨[], empty⟩

def foreignPaths : List Ref → List Str
  | [] => []
  | .own _ :: rs => foreignPaths rs
  | .foreign p _ :: rs => p :: foreignPaths rs

/-- invariant of the writer: every qualified token carries the name its package is bound to, and
    only rendered foreign packages are bound -/
structure WInv (c : Cfg) (seen : List Str) (w : WState) : Prop where
  toks : ∀ p n id, Tok.qual p n id ∈ w.out → w.tracker.p2n.lookup p = some n
  only : ∀ p n, w.tracker.p2n.lookup p = some n → p ∈ seen
  all : ∀ p ∈ seen, (w.tracker.p2n.lookup p).isSome = true

theorem add_only (c : Cfg) (t : Tracker) (q p n : Str) (h : (add c t q).p2n.lookup p = some n) :
    p = q ∨ t.p2n.lookup p = some n := by
  unfold add at h
  split at h
  · exact Or.inr h
  · split at h
    · exact Or.inr h
    · simp only [List.lookup] at h
      by_cases hp : p = q
      · exact Or.inl hp
      · have : (p == q) = false := by simp [hp]
        simp only [this] at h
        exact Or.inr h

theorem renderRef_inv (c : Cfg) (hc : FallbackOK c) (seen : List Str) (w : WState) (r : Ref)
    (h : WInv c seen w) :
    WInv c (match r with | .own _ => seen | .foreign p _ => seen ++ [p]) (renderRef c w r) := by
  cases r with
  | own id =>
    refine ⟨?_, h.only, h.all⟩
    intro p n i hm
    simp only [renderRef, List.mem_append, List.mem_singleton] at hm
    rcases hm with hm | hm
    · exact h.toks p n i hm
    · cases hm
  | foreign q id =>
    simp only [renderRef]
    have hb := add_binds c hc w.tracker q
    refine ⟨?_, ?_, ?_⟩
    · intro p n i hm
      simp only [List.mem_append, List.mem_singleton] at hm
      rcases hm with hm | hm
      · exact add_stable c w.tracker p q n (h.toks p n i hm)
      · cases hm
        simp only [localNameOf]
        cases hl : (add c w.tracker q).p2n.lookup q with
        | none => simp [hl] at hb
        | some v => simp
    · intro p n hl
      simp only [List.mem_append, List.mem_singleton]
      rcases add_only c w.tracker q p n hl with rfl | hold
      · exact Or.inr rfl
      · exact Or.inl (h.only p n hold)
    · intro p hp
      simp only [List.mem_append, List.mem_singleton] at hp
      rcases hp with hp | rfl
      · cases hl : w.tracker.p2n.lookup p with
        | none => have := h.all p hp; simp [hl] at this
        | some v => simp [add_stable c w.tracker p q v hl]
      · exact hb

/-- C03 `imports_exact` (repaired tracker): after rendering any sequence of references, the
    import table binds exactly the packages that were referenced from other packages — none
    missing, none unused —, every qualified reference in the body uses the name its package is
    bound to at the end, and references to the file's own package are unqualified. -/
theorem imports_exact (c : Cfg) (hc : FallbackOK c) (rs : List Ref) :
    WInv c (foreignPaths rs) (renderAll c rs) := by
  unfold renderAll
  suffices h : ∀ (seen : List Str) (w : WState), WInv c seen w →
      WInv c (seen ++ foreignPaths rs) (rs.foldl (renderRef c) w) by
    have := h [] ⟨[], empty⟩ ⟨by simp, by simp [empty], by simp⟩
    simpa using this
  induction rs with
  | nil => intro seen w h; simpa [foreignPaths] using h
  | cons r rs ih =>
    intro seen w h
    have h1 := renderRef_inv c hc seen w r h
    cases r with
    | own id => simpa [foreignPaths] using ih seen _ h1
    | foreign p id =>
      have := ih (seen ++ [p]) _ h1
      simpa [foreignPaths, List.append_assoc] using this

#print axioms imports_exact
end Gengo.Tracker
