import Gengo.Model.Eval
import Gengo.Props.Order
namespace Gengo.Eval
open Gengo.Dumper

/-! helper lemmas for C10: map literals and map values are order-free -/

/-- `mapM` in `Option`, spelled out -/
def mapOpt {α β : Type} (g : α → Option β) : List α → Option (List β)
  | [] => some []
  | a :: l =>
    match g a, mapOpt g l with
    | some b, some bs => some (b :: bs)
    | _, _ => none

theorem mapOpt_cons_some {α β : Type} (g : α → Option β) (a : α) (l : List α) (xs : List β)
    (h : mapOpt g (a :: l) = some xs) : ∃ b bs, g a = some b ∧ mapOpt g l = some bs ∧ xs = b :: bs := by
  simp only [mapOpt] at h
  cases hg : g a with
  | none => simp [hg] at h
  | some b =>
    cases hl : mapOpt g l with
    | none => simp [hg, hl] at h
    | some bs => simp [hg, hl] at h; exact ⟨b, bs, rfl, rfl, h.symm⟩

theorem mapOpt_perm {α β : Type} (g : α → Option β) {l l' : List α} (h : l.Perm l') :
    ∀ xs, mapOpt g l = some xs → ∃ ys, mapOpt g l' = some ys ∧ xs.Perm ys := by
  induction h with
  | nil => intro xs h; exact ⟨xs, h, List.Perm.refl _⟩
  | @cons a l₁ l₂ _ ih =>
    intro xs h
    obtain ⟨b, bs, hg, hl, rfl⟩ := mapOpt_cons_some g a l₁ xs h
    obtain ⟨ys, hy, hp⟩ := ih bs hl
    exact ⟨b :: ys, by simp [mapOpt, hg, hy], hp.cons b⟩
  | swap a b l =>
    intro xs h
    obtain ⟨y, ys, hgb, hl, rfl⟩ := mapOpt_cons_some g b (a :: l) xs h
    obtain ⟨x, zs, hga, hl', rfl⟩ := mapOpt_cons_some g a l ys hl
    exact ⟨x :: y :: zs, by simp [mapOpt, hga, hgb, hl'], List.Perm.swap x y zs⟩
  | trans _ _ ih₁ ih₂ =>
    intro xs h
    obtain ⟨ys, hy, hp⟩ := ih₁ xs h
    obtain ⟨zs, hz, hq⟩ := ih₂ ys hy
    exact ⟨zs, hz, hp.trans hq⟩

/-- what one entry of a map literal means -/
def entryOf (k v : Ty) : Option Str × Expr → Option (SV × SV)
  | (some key, e) =>
    (match k with
     | .scalar _ _ => if key.isEmpty then none else (eval e v).map fun x => (.scalar key, x)
     | _ => none)
  | (none, _) => none

theorem evalEntries_eq_mapOpt (k v : Ty) : ∀ l, evalEntries k v l = mapOpt (entryOf k v) l := by
  intro l
  induction l with
  | nil => simp [evalEntries, mapOpt]
  | cons x l ih =>
    obtain ⟨key, e⟩ := x
    cases key with
    | none => simp [evalEntries, mapOpt, entryOf]
    | some key =>
      cases k with
      | scalar t z =>
        simp only [evalEntries, mapOpt, entryOf, ih]
        by_cases hk : key.isEmpty = true
        · simp [hk]
        · simp only [hk, Bool.false_eq_true, if_false]
          cases eval e v <;> cases mapOpt (entryOf (.scalar t z) v) l <;> simp
      | ptr _ => simp [evalEntries, mapOpt, entryOf]
      | struct _ _ => simp [evalEntries, mapOpt, entryOf]
      | map _ _ _ => simp [evalEntries, mapOpt, entryOf]
      | seq _ _ => simp [evalEntries, mapOpt, entryOf]

/-- the keys of the evaluated entries are the key texts of the literal's entries, in order -/
theorem mapOpt_keys (k v : Ty) : ∀ (l : List (Option Str × Expr)) xs, mapOpt (entryOf k v) l = some xs →
    xs.map keyOf = l.map fun x => x.1.getD [] := by
  intro l
  induction l with
  | nil => intro xs h; simp [mapOpt] at h; subst h; rfl
  | cons x l ih =>
    intro xs h
    obtain ⟨b, bs, hg, hl, rfl⟩ := mapOpt_cons_some _ x l xs h
    simp only [List.map_cons, ih bs hl]
    congr 1
    obtain ⟨key, e⟩ := x
    cases key with
    | none => simp [entryOf] at hg
    | some key =>
      cases k with
      | scalar t z =>
        simp only [entryOf] at hg
        split at hg
        · cases hg
        · cases he : eval e v with
          | none => simp [he] at hg
          | some x => simp [he] at hg; subst hg; simp [keyOf]
      | ptr _ => simp [entryOf] at hg
      | struct _ _ => simp [entryOf] at hg
      | map _ _ _ => simp [entryOf] at hg
      | seq _ _ => simp [entryOf] at hg

theorem inj_of_nodup_map {α β : Type} (f : α → β) : ∀ (l : List α), (l.map f).Nodup →
    ∀ a ∈ l, ∀ b ∈ l, f a = f b → a = b := by
  intro l
  induction l with
  | nil => intro _ a ha; simp at ha
  | cons x l ih =>
    intro hnd a ha b hb hab
    simp only [List.map_cons, List.nodup_cons, List.mem_map, not_exists, not_and] at hnd
    rcases List.mem_cons.mp ha with rfl | ha' <;> rcases List.mem_cons.mp hb with rfl | hb'
    · rfl
    · exact absurd hab.symm (hnd.1 b hb')
    · exact absurd hab (hnd.1 a ha')
    · exact ih hnd.2 a ha' b hb' hab

/-- **a map literal means the same map in whatever order it lists its (key-distinct) entries** -/
theorem evalEntries_canon_perm (k v : Ty) {l l' : List (Option Str × Expr)} (h : l.Perm l')
    (hnd : (l.map fun x => x.1.getD []).Nodup) :
    (evalEntries k v l').map canon = (evalEntries k v l).map canon := by
  rw [evalEntries_eq_mapOpt, evalEntries_eq_mapOpt]
  cases hl : mapOpt (entryOf k v) l with
  | some xs =>
    obtain ⟨ys, hy, hp⟩ := mapOpt_perm _ h xs hl
    rw [hy]
    simp only [Option.map_some, Option.some.injEq, canon]
    have hk := mapOpt_keys k v l xs hl
    exact (sortBy_perm keyOf hp (inj_of_nodup_map keyOf xs (by rw [hk]; exact hnd))).symm
  | none =>
    cases hl' : mapOpt (entryOf k v) l' with
    | none => rfl
    | some ys =>
      obtain ⟨xs, hx, _⟩ := mapOpt_perm _ h.symm ys hl'
      rw [hl] at hx; cases hx

end Gengo.Eval
