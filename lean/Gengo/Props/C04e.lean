import Gengo.Props.C04c
namespace Gengo.Pipeline
open Gengo.Tags

/-! ### C04: the generators are a set — what reaches the write phase does not depend on the order they are handed over in

`gather` runs the generators of a package one after the other, each on a context of its own; what it hands to the write
phase is, for every generator that rendered something, the pair (generator name, text).  The write phase visits that
set in whatever order `sync.Map.Range` happens to produce (`order` in `pkgExecute`, about which every theorem of C04
is stated for all orders).  So: permute the generators and the *set* of pairs stays the same, and a run fails for one
order exactly if it fails for the other (the generator it fails in first may be another one). -/

/-- what generator `g` contributes when it succeeds -/
def outOf (a : Args) (p : Pkg) (g : Gen) : Option (Str × Str) :=
  match runGen a p g with
  | .ok (some w) => some w
  | _ => none

def genOk (a : Args) (p : Pkg) (g : Gen) : Bool :=
  match runGen a p g with
  | .ok _ => true
  | .error _ => false

theorem gather_spec (a : Args) (p : Pkg) (gens : List Gen) (acc : List (Str × Str)) :
    (gens.all (genOk a p) = true → gather a p gens acc = .ok (acc ++ gens.filterMap (outOf a p))) ∧
    (gens.all (genOk a p) = false → ∃ e, gather a p gens acc = .error e) := by
  induction gens generalizing acc with
  | nil => simp [gather]
  | cons g gs ih =>
    cases hr : runGen a p g with
    | error e => simp [gather, hr, genOk]
    | ok o =>
      have hg : genOk a p g = true := by simp [genOk, hr]
      cases o with
      | none =>
        have ho : outOf a p g = none := by simp [outOf, hr]
        have := ih acc
        simp only [List.all_cons, hg, Bool.true_and, gather, hr, List.filterMap_cons, ho]
        exact this
      | some w =>
        have ho : outOf a p g = some w := by simp [outOf, hr]
        have := ih (acc ++ [w])
        simp only [List.all_cons, hg, Bool.true_and, gather, hr, List.filterMap_cons, ho]
        simpa [List.append_assoc] using this

/-- **C04 `gather_gens_perm`**: the same generators in another order — the run of the package succeeds for both orders
    or for neither, and when it succeeds the (generator, text) pairs handed to the write phase are the same up to order -/
theorem gather_gens_perm (a : Args) (p : Pkg) {gens gens' : List Gen} (h : gens.Perm gens') :
    match gather a p gens [], gather a p gens' [] with
    | .ok ws, .ok ws' => ws.Perm ws'
    | .error _, .error _ => True
    | _, _ => False := by
  have hall : gens.all (genOk a p) = gens'.all (genOk a p) := by
    cases h1 : gens.all (genOk a p) <;> cases h2 : gens'.all (genOk a p) <;> try rfl
    · rw [List.all_eq_true] at h2
      rw [List.all_eq_false] at h1
      obtain ⟨x, hx, hx'⟩ := h1
      exact absurd (h2 x (h.mem_iff.mp hx)) hx'
    · rw [List.all_eq_true] at h1
      rw [List.all_eq_false] at h2
      obtain ⟨x, hx, hx'⟩ := h2
      exact absurd (h1 x (h.mem_iff.mpr hx)) hx'
  cases hok : gens.all (genOk a p) with
  | true =>
    rw [(gather_spec a p gens []).1 hok, (gather_spec a p gens' []).1 (hall ▸ hok)]
    simpa using h.filterMap (outOf a p)
  | false =>
    obtain ⟨e, he⟩ := (gather_spec a p gens []).2 hok
    obtain ⟨e', he'⟩ := (gather_spec a p gens' []).2 (hall ▸ hok)
    rw [he, he']
    trivial

#print axioms gather_gens_perm
end Gengo.Pipeline
