import Gengo.Props.C20a
import Gengo.Props.C20b
namespace Gengo.Inflect

/-! ### C20: "inflected exactly as on its own", spelled out -/

/-- the replacement text: first rune of the word *as written*, then the table replacement's tail -/
theorem irregular_spelled (c : Cfg) (p w repl : Str) (hw : w ≠ []) (hword : ∀ x ∈ w, c.isWord x = true)
    (hb : boundary c p w = true) (hm : matchesTable c w = true)
    (hl : c.table.lookup (w.map c.lower) = some repl) :
    irregular c true (p ++ w) = .ok (p ++ w.take 1 ++ repl.drop 1) := by
  rw [irregular_prefix c p w hw hword hb hm]
  have h2 : find c w = some ([], w) := by
    have := find_prefix c [] w hw hword (by
      obtain ⟨x, xs, rfl⟩ := List.exists_cons_of_ne_nil hw
      simp [boundary, hword x (by simp)]) hm
    simpa using this
  simp [irregular, irregular2, h2, hl, List.append_assoc]

/-- same first rune ⇒ keeping the written first rune and appending the replacement's tail is the
    replacement itself (the table facts `plural_heads` / `singular_heads` provide the premise for
    every entry of rules.go) -/
theorem take_drop_same_head (k v : Str) (hk : k ≠ []) (hh : k.head? = v.head?) : k.take 1 ++ v.drop 1 = v := by
  cases k with
  | nil => exact absurd rfl hk
  | cons a as =>
    cases v with
    | nil => simp at hh
    | cons b bs => simp at hh; simp [hh]

/-- a lower-case table word after any boundary-ending prefix becomes prefix + table replacement -/
theorem irregular_entry (c : Cfg) (p k v : Str) (hk : k ≠ []) (hword : ∀ x ∈ k, c.isWord x = true)
    (hb : boundary c p k = true) (hm : matchesTable c k = true)
    (hl : c.table.lookup (k.map c.lower) = some v) (hh : k.head? = v.head?) :
    irregular c true (p ++ k) = .ok (p ++ v) := by
  rw [irregular_spelled c p k v hk hword hb hm hl, List.append_assoc, take_drop_same_head k v hk hh]

#print axioms irregular_entry
end Gengo.Inflect
