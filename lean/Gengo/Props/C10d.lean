import Gengo.Model.Dumper
import Gengo.Props.Order
namespace Gengo.Dumper

theorem mapEntries_eq_map (fixed sub : Bool) (es : List (Val × Val)) :
    mapEntries fixed sub es = es.map fun kv => ((valueLit fixed sub kv.1).show, valueLit fixed sub kv.2) := by
  induction es with
  | nil => simp [mapEntries]
  | cons e es ih =>
    obtain ⟨k, v⟩ := e
    simp [mapEntries, ih]

/-- C10 `map_order_fixed`: the text printed for a map does not depend on the order in which Go's
    `MapKeys` delivers the entries — provided distinct keys print differently (which the leaf
    printers guarantee: distinct scalars have distinct literals) -/
theorem map_order_fixed (fixed sub : Bool) (ty : Str) {es₁ es₂ : List (Val × Val)} (h : es₁.Perm es₂)
    (hd : ∀ a ∈ mapEntries fixed (if fixed then false else sub) es₁,
          ∀ b ∈ mapEntries fixed (if fixed then false else sub) es₁, a.1 = b.1 → a = b) :
    valueLit fixed sub (.map ty es₁) = valueLit fixed sub (.map ty es₂) := by
  simp only [valueLit]
  have hp : (mapEntries fixed (if fixed then false else sub) es₁).Perm
      (mapEntries fixed (if fixed then false else sub) es₂) := by
    rw [mapEntries_eq_map, mapEntries_eq_map]
    exact h.map _
  rw [sortBy_perm (·.1) hp hd]

#print axioms map_order_fixed
end Gengo.Dumper
