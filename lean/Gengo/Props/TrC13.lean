import Gengo.Gen.Code.C13
import Gengo.Model.Loader
import Gengo.Props.C13d
/-!
The closure `(*pkgInfo).SourceDir` invokes in place (pkg/types/package.go), as translated (`Gengo.Code.sourceDir`),
against the model `Locate.sourceDir` over segment lists.  Abstract: the accessors (`p.Package.PkgPath`, `p.Module().Path`,
`p.Module().Dir`, the two nil tests) and `filepath.Join` (`pathJoin`).  Import paths are written with `/` between their
segments (`joinSegs`); what `filepath.Join` does with a directory and a rooted remainder is a hypothesis of the last
theorem (`hJ`), the rest — the comparison, the slice expression `PkgPath[len(Module.Path):]` being in range — is proved.
-/
namespace Gengo.TrC13
open Gengo Gengo.Go Gengo.Locate

/-- an import path as it is written -/
def joinSegs : Path → Str
  | [] => []
  | [a] => a
  | a :: b :: r => a ++ '/' :: joinSegs (b :: r)

theorem joinSegs_append (mp rel : Path) (h1 : mp ≠ []) (h2 : rel ≠ []) :
    joinSegs (mp ++ rel) = joinSegs mp ++ '/' :: joinSegs rel := by
  induction mp with
  | nil => exact absurd rfl h1
  | cons a rest ih =>
    cases rest with
    | nil =>
      obtain ⟨b, r, rfl⟩ := List.exists_cons_of_ne_nil h2
      simp [joinSegs]
    | cons b r =>
      have := ih (by simp)
      simp only [List.cons_append] at this ⊢
      simp [joinSegs, this, List.append_assoc]

/-- **the translated closure never panics on a package of its module** (the slice `PkgPath[len(Module.Path):]` is in
    range because the module path is a prefix of the package path) and hands `filepath.Join` the module directory and
    the rooted remainder -/
theorem sourceDir_eq (mp rel : Path) (hmp : mp ≠ []) (dir : Str) (pathJoin : List Str → M Str) :
    Code.sourceDir false false (joinSegs (mp ++ rel)) (joinSegs mp) dir pathJoin
      = if rel = [] then pure dir else pathJoin [dir, '/' :: joinSegs rel] := by
  unfold Code.sourceDir
  by_cases hr : rel = []
  · subst hr; simp
  · rw [joinSegs_append mp rel hmp hr]
    have hne : (joinSegs mp ++ '/' :: joinSegs rel == joinSegs mp) = false := by
      apply beq_false_of_ne
      intro h
      have := congrArg List.length h
      simp at this
    have hlen : ¬ ((joinSegs mp).length + ((joinSegs rel).length + 1) < (joinSegs mp).length) := by omega
    simp [hne, hr, Go.slice, Go.len, bind, Except.bind, pure, Except.pure]
    have h2 : ¬ (((joinSegs mp).length : Int) + (((joinSegs rel).length : Int) + 1) < ((joinSegs mp).length : Int)) := by omega
    have h3 : ¬ (((joinSegs mp).length : Int) < 0) := by omega
    have h4 : (((joinSegs mp).length : Int) + (((joinSegs rel).length : Int) + 1)).toNat - (joinSegs mp).length
        = (joinSegs rel).length + 1 := by omega
    simp only [h3, decide_false, Bool.false_eq_true, if_false, h4]
    have h5 : List.take ((joinSegs rel).length + 1) ('/' :: joinSegs rel) = '/' :: joinSegs rel := by simp
    rw [h5]
    simp [h2]

/-- no module (a package outside every module): the empty string, which is nobody's directory -/
theorem sourceDir_noMod (pkgPath modPath modDir : Str) (pathJoin : List Str → M Str) :
    Code.sourceDir false true pkgPath modPath modDir pathJoin = pure [] := by
  simp [Code.sourceDir]

/-- **C13, of the translated code**: for a package `mp/rel` of the module `mp` kept in `md`, the translated `SourceDir` is
    the model's — provided `filepath.Join` of a directory and a rooted remainder is the directory extended by the
    remainder's segments (`hJ`) -/
theorem code_sourceDir_model (mp md rel : Path) (hmp : mp ≠ []) (renderDir : Path → Str) (pathJoin : List Str → M Str)
    (hJ : ∀ r, r ≠ [] → pathJoin [renderDir md, '/' :: joinSegs r] = pure (renderDir (md ++ r))) :
    Code.sourceDir false false (joinSegs (mp ++ rel)) (joinSegs mp) (renderDir md) pathJoin
      = pure (renderDir ((Locate.sourceDir { pkgPath := mp ++ rel, mod := some (mp, md) }).getD [])) := by
  rw [sourceDir_eq mp rel hmp, sourceDir_correct]
  by_cases hr : rel = []
  · subst hr; simp
  · simp [hr, hJ rel hr]

example : Code.sourceDir false false "example.com/app/a/b".toList "example.com/app".toList "/src/app".toList
    (fun l => pure (l.flatten)) = .ok "/src/app/a/b".toList := by rfl

#print axioms sourceDir_eq
#print axioms code_sourceDir_model
end Gengo.TrC13
