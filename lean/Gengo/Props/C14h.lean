import Gengo.Props.C14g
import Gengo.Props.C14e
namespace Gengo.Resolver2
open Gengo.Resolver (Res Visits visited MarkedExactly visited_unmarked)

/-! ### C14 `literal_exact` on the extended language -/

/-- every `return` of the body lists one literal per declared result (assignments may be anything) -/
def LiteralOnly (fn : Func) (body : List Stmt) : Prop :=
  ∀ s ∈ body, ∀ q rs, s = Stmt.ret q rs →
    ∃ rhs, rs = some rhs ∧ rhs.length = fn.results.length ∧ ∀ e ∈ rhs, ∃ v, e = Expr.lit v

def litAt (rhs : List Expr) (a : Nat) : List Res :=
  match rhs[a]? with
  | some (.lit v) => [.val v]
  | _ => []

/-- the literal values written at position `a` of each `return`, in source order -/
def litsAt : List Stmt → Nat → List Res
  | [], _ => []
  | .ret _ (some rhs) :: rest, a => litAt rhs a ++ litsAt rest a
  | _ :: rest, a => litsAt rest a

theorem exprsAt_literal (p : Prog) (rec : Rec) (retN q : Nat) (body : List Stmt) (vs : Visits)
    (rhs : List Expr) (n a : Nat) (hlen : rhs.length = n) (hlit : ∀ e ∈ rhs, ∃ v, e = Expr.lit v) (ha : a < n) :
    exprsAt p rec retN q rhs n a (post p rec retN body collect) vs = some (litAt rhs a, vs) := by
  unfold exprsAt litAt
  have hnot : ¬ (0 < rhs.length ∧ rhs.length < n) := by omega
  simp only [hnot, if_false]
  have hsome : ∃ e, rhs[a]? = some e := ⟨rhs[a]'(by omega), List.getElem?_eq_getElem (by omega)⟩
  obtain ⟨e, he⟩ := hsome
  obtain ⟨v, rfl⟩ := hlit e (List.mem_of_getElem? he)
  simp [he, exprAt, post, collect]

theorem stmtsAt_literal (p : Prog) (rec : Rec) (fn : Func) (body : List Stmt) (a : Nat)
    (ha : a < fn.results.length) :
    ∀ (ss : List Stmt), LiteralOnly fn ss → ∀ vs,
      stmtsAt p rec fn.results.length fn body a collect ss vs = some (litsAt ss a, vs)
  | [], _, vs => by simp [stmtsAt, litsAt, done]
  | .assign q l r :: rest, h, vs => by
    simp only [stmtsAt, litsAt]
    exact stmtsAt_literal p rec fn body a ha rest (fun s hs => h s (by simp [hs])) vs
  | .ret q rs :: rest, h, vs => by
    obtain ⟨rhs, rfl, hlen, hlit⟩ := h (.ret q rs) (by simp) q rs rfl
    simp only [stmtsAt, litsAt, seq, exprsAt_literal p rec _ q body vs rhs _ a hlen hlit ha,
      stmtsAt_literal p rec fn body a ha rest (fun s hs => h s (by simp [hs])) vs]

/-- per position: from any state in which position `a` is still unmarked -/
theorem funcAt_literal (p : Prog) (fuel g a : Nat) (fn : Func) (body : List Stmt) (hfn : p[g]? = some fn)
    (hb : fn.body = some body) (hl : LiteralOnly fn body) (ha : a < fn.results.length) (vs : Visits)
    (hun : (visited true vs g a fn.results.length).1 = false) :
    funcAt p (fuel + 1) vs g fn.results.length a collect =
      some (litsAt body a, (visited true vs g a fn.results.length).2) := by
  simp only [funcAt, hfn, hb]
  generalize hv : visited true vs g a fn.results.length = r at hun
  obtain ⟨seen, vs'⟩ := r
  simp only at hun
  subst hun
  simp only [Bool.false_eq_true, if_false]
  exact stmtsAt_literal p _ fn body a ha body hl vs'

/-- what `ResultsOf` reports for position `a` of a literal-only function -/
def expected (fn : Func) (body : List Stmt) (a : Nat) : List Res :=
  let l := litsAt body a
  if l.isEmpty then [Res.ty (fn.results[a]?.getD [])] else l

theorem resultsOfAux_literal (p : Prog) (fuel g : Nat) (fn : Func) (body : List Stmt) (hfn : p[g]? = some fn)
    (hb : fn.body = some body) (hl : LiteralOnly fn body) :
    ∀ (as done : List Nat) (vs : Visits) (acc : List (List Res)),
      MarkedExactly vs g fn.results.length done → (∀ a ∈ as, a < fn.results.length ∧ a ∉ done) → as.Nodup →
      resultsOfAux p (fuel + 1) g fn as vs acc = some (acc ++ as.map (expected fn body)) := by
  intro as
  induction as with
  | nil => intro done vs acc _ _ _; simp [resultsOfAux]
  | cons a as ih =>
    intro done vs acc hm hall hnd
    have ha := hall a (by simp)
    obtain ⟨hun, hm'⟩ := visited_unmarked vs g a fn.results.length done ha.1 ha.2 hm
    simp only [resultsOfAux, funcAt_literal p fuel g a fn body hfn hb hl ha.1 vs hun]
    rw [ih (a :: done) _ _ hm' ?_ (List.nodup_cons.mp hnd).2]
    · simp [expected, List.append_assoc]
    · intro b hb'
      refine ⟨(hall b (by simp [hb'])).1, ?_⟩
      simp only [List.mem_cons, not_or]
      exact ⟨fun e => (List.nodup_cons.mp hnd).1 (e ▸ hb'), (hall b (by simp [hb'])).2⟩

/-- **C14 `literal_exact`, extended language**: for a function all of whose `return`s list one
    literal per result — whatever assignments, named results and calls the rest of the program
    contains — `ResultsOf` reports, per declared result in order, exactly the literal values written
    at that position of each `return` in source order. -/
theorem literal_exact (p : Prog) (fuel g : Nat) (fn : Func) (body : List Stmt) (hfn : p[g]? = some fn)
    (hb : fn.body = some body) (hl : LiteralOnly fn body) :
    resultsOf p (fuel + 1) g = some ((List.range fn.results.length).map (expected fn body)) := by
  unfold resultsOf
  simp only [hfn]
  have := resultsOfAux_literal p fuel g fn body hfn hb hl (List.range fn.results.length) [] [] []
    (Or.inl ⟨rfl, rfl⟩) (by intro a ha; exact ⟨List.mem_range.mp ha, by simp⟩) List.nodup_range
  simpa using this

-- a literal-only function beside an assignment and a second function that forwards a call
example :
    let f : Func := ⟨["int".toList, "string".toList], [none, none],
      some [.assign 1 [some 7] [.opaque "int".toList],
            .ret 2 (some [.lit "1".toList, .lit "\"a\"".toList]),
            .ret 3 (some [.lit "2".toList, .lit "\"b\"".toList])]⟩
    resultsOf [f] 5 0 = some [[.val "1".toList, .val "2".toList], [.val "\"a\"".toList, .val "\"b\"".toList]] := by
  decide

#print axioms literal_exact
end Gengo.Resolver2
