import Gengo.Model.Template
namespace Gengo.Template

variable (env : Env) (fixed : Bool)

/-- (1) a character other than `@` in normal state is copied. -/
theorem scan_lit (c : Char) (r : List Char) (h : c ≠ '@') :
    scan env fixed (c :: r) = (scan env fixed r).map (c :: ·) := by
  have hc : (c == '@') = false := by simp [h]
  simp only [scan, run, step, hc]
  rcases hx : run env fixed .normal r with _ | ⟨st, o⟩
  · simp [hx]
  · rcases hy : finish env st with _ | y <;> simp [hx, hy]

/-- literal text without `@` is rendered verbatim -/
theorem scan_literal (l : List Char) (h : ∀ c ∈ l, c ≠ '@') : scan env fixed l = some l := by
  induction l with
  | nil => simp [scan, run, finish]
  | cons c cs ih =>
    rw [scan_lit env fixed c cs (h c (by simp)), ih (fun d hd => h d (by simp [hd]))]; simp

/-- collecting a name: name characters are absorbed into the accumulator -/
theorem run_name (acc n : List Char) (hn : ∀ c ∈ n, isNameChar c = true) (r : List Char) :
    run env fixed (.inName acc) (n ++ r) = run env fixed (.inName (acc ++ n)) r := by
  induction n generalizing acc with
  | nil => simp
  | cons c cs ih =>
    have hc : isNameChar c = true := hn c (by simp)
    simp only [List.cons_append, run, step, hc, if_true]
    rw [ih (acc ++ [c]) (fun d hd => hn d (by simp [hd]))]
    simp only [List.append_assoc, List.singleton_append, List.nil_append]
    rcases hx : run env fixed (St.inName (acc ++ c :: cs)) r with _ | ⟨st, o⟩ <;> simp [hx]

/-- what follows a finished placeholder whose text is `t` (`wasNil`: bound to a nil snippet) -/
def afterHole (t : List Char) (wasNil : Bool) : List Char → Option (List Char)
  | [] => some t
  | c :: r =>
    if c == '@' then (scan env fixed (c :: r)).map (t ++ ·)
    else if c == '\'' && (fixed || !wasNil) then (scan env fixed r).map (t ++ ·)
    else (scan env fixed r).map (fun o => t ++ c :: o)

/-- (2) `@` followed by a maximal run `n` of name characters: the placeholder is replaced by
    the complete rendering of its argument; one apostrophe is the delimiter; an `@` right after
    starts the next placeholder; any other terminator is copied.  Panics iff `flush` does. -/
theorem scan_hole (n r : List Char) (hn : ∀ c ∈ n, isNameChar c = true)
    (hr : ∀ c, r.head? = some c → isNameChar c = false) :
    scan env fixed ('@' :: n ++ r) =
      match flush env n with
      | none => none
      | some (t, wasNil) => afterHole env fixed t wasNil r := by
  have h0 : run env fixed .normal ('@' :: n ++ r) = run env fixed (.inName n) r := by
    simp only [List.cons_append, run, step]
    simp only [show (('@' : Char) == '@') = true from rfl, if_true]
    rw [run_name env fixed [] n hn r]
    simp only [List.nil_append]
    rcases hx : run env fixed (St.inName n) r with _ | ⟨st, o⟩ <;> simp [hx]
  simp only [scan, h0]
  cases r with
  | nil =>
    simp only [run, finish, afterHole]
    rcases hf : flush env n with _ | ⟨t, w⟩ <;> simp [hf]
  | cons c r =>
    have hc : isNameChar c = false := hr c rfl
    simp only [run, step, hc]
    rcases hf : flush env n with _ | ⟨t, w⟩
    · simp [hf]
    · simp only [afterHole]
      by_cases hat : c = '@'
      · subst hat
        simp only [show (('@' : Char) == '@') = true from rfl, if_true, scan, run, step]
        rcases hx : run env fixed (St.inName []) r with _ | ⟨st, o⟩
        · simp [hx]
        · rcases hy : finish env st with _ | y <;> simp [hx, hy]
      · have hat' : (c == '@') = false := by simp [hat]
        simp only [hat']
        by_cases hap : (c == '\'' && (fixed || !w)) = true
        · simp only [hap, if_true, scan]
          rcases hx : run env fixed St.normal r with _ | ⟨st, o⟩
          · simp [hx]
          · rcases hy : finish env st with _ | y <;> simp [hx, hy]
        · simp only [hap, scan]
          rcases hx : run env fixed St.normal r with _ | ⟨st, o⟩
          · simp [hx]
          · rcases hy : finish env st with _ | y <;> simp [hx, hy]

/-- (3) the scanner is history-free at every `@`. -/
theorem scan_at_hom (a r : List Char) (ha : ∀ c ∈ a, c ≠ '@') :
    scan env fixed (a ++ '@' :: r) = (scan env fixed ('@' :: r)).map (a ++ ·) := by
  induction a with
  | nil => simp
  | cons c cs ih =>
    rw [List.cons_append, scan_lit env fixed c _ (ha c (by simp)), ih (fun d hd => ha d (by simp [hd]))]
    rcases hx : scan env fixed ('@' :: r) with _ | x <;> simp [hx]

/-- pinned code: a nil argument followed by an apostrophe keeps the apostrophe (F5). -/
example : render (fun n => if n = ['x'] then some none else none) false "a@x'b".toList
    = some "a'b".toList := by decide
/-- repaired code: the apostrophe is consumed. -/
example : render (fun n => if n = ['x'] then some none else none) true "a@x'b".toList
    = some "ab".toList := by decide
/-- substituted text is never re-read as template syntax -/
example : render (fun n => if n = ['x'] then some (some (some "@y'".toList)) else none) true "\n\n@x'@x".toList
    = some "@y'@y'".toList := by decide

end Gengo.Template
