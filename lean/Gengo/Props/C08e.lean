import Gengo.Props.C08d
import Gengo.Props.C08c
/-!
C08 at the level of the *file*: the history model of `Props/C08c` keeps `gengo.sum` as an abstract
mapping; here the sum file is the byte string `SumFile.bytes` writes and `SumFile.loadLookup` reads
back, and the skip decision is the code's own comparison (`Sum(path)`, `""` for a missing entry,
against the current hash).  `roundtrip` (`Props/C08d`) is what connects the two: under the conditions
the real inputs meet — package paths and hashes are non-empty and free of white space, the package
list has no duplicates — every theorem of the abstract history holds of the bytes on disk, and the
third run leaves the file byte for byte as the second run wrote it.
-/
namespace Gengo.CacheFile
open Gengo.SumFile

/-- the world: package contents (abstract) and the bytes of `gengo.sum` (`none`: missing or unreadable) -/
structure WF where
  content : Str → Nat
  file : Option Str

structure SysF where
  hash : Nat → Str
  gen : Str → Nat → Nat
  pkgs : List Str                                    -- the local packages of the load, as `LocalPkgPaths` lists them
  hash_inj : ∀ a b, hash a = hash b → a = b
  gen_idem : ∀ p c, gen p (gen p c) = gen p c
  pkgs_nodup : pkgs.Nodup
  pkgs_clean : ∀ p ∈ pkgs, clean p
  hash_clean : ∀ c, clean (hash c)

/-- what `Execute` hands to `Save`: one entry per local package, the hash of the directory as loaded -/
def entries (s : SysF) (w : WF) : List (Str × Str) := s.pkgs.map fun p => (p, s.hash (w.content p))

/-- `pkgChanged` as the code computes it (repaired): Force, or no readable sum file, or `Sum(path) != hash` -/
def changedF (s : SysF) (force : Bool) (w : WF) (p : Str) : Bool :=
  force || match w.file with
    | none => true
    | some data => (loadLookup data p).getD [] != s.hash (w.content p)

def runF (s : SysF) (force : Bool) (w : WF) : WF where
  content := fun p => if s.pkgs.contains p && changedF s force w p then s.gen p (w.content p) else w.content p
  file := some (bytes (entries s w))

theorem entries_distinct (s : SysF) (w : WF) : Distinct (entries s w) := by
  unfold Distinct entries
  rw [List.map_map]
  have : ((fun e : Str × Str => e.1) ∘ fun p => (p, s.hash (w.content p))) = id := by
    funext p; rfl
  rw [this, List.map_id]
  exact s.pkgs_nodup

theorem entries_clean (s : SysF) (w : WF) : ∀ e ∈ entries s w, clean e.1 ∧ clean e.2 := by
  intro e he
  unfold entries at he
  obtain ⟨p, hp, rfl⟩ := List.mem_map.mp he
  exact ⟨s.pkgs_clean p hp, s.hash_clean _⟩

theorem entries_lookup (s : SysF) (w : WF) {p : Str} (hp : p ∈ s.pkgs) :
    (entries s w).lookup p = some (s.hash (w.content p)) := by
  apply lookup_mem (entries_distinct s w)
  unfold entries
  exact List.mem_map.mpr ⟨p, hp, rfl⟩

theorem read_entries (s : SysF) (w : WF) {p : Str} (hp : p ∈ s.pkgs) :
    loadLookup (bytes (entries s w)) p = some (s.hash (w.content p)) := by
  rw [roundtrip (entries s w) (entries_distinct s w) (entries_clean s w) p]
  exact entries_lookup s w hp

/-- what a later run reads for a listed package is what the earlier run recorded: the hash of the
    directory *as that run loaded it* -/
theorem read_back (s : SysF) (f : Bool) (w : WF) {p : Str} (hp : p ∈ s.pkgs) :
    ∃ data, (runF s f w).file = some data ∧ loadLookup data p = some (s.hash (w.content p)) := by
  refine ⟨bytes (entries s w), rfl, ?_⟩
  rw [roundtrip (entries s w) (entries_distinct s w) (entries_clean s w) p]
  exact entries_lookup s w hp

/-- the file-level decision is the abstract one: with non-empty hashes, comparing `Sum(path)` (empty
    for a missing entry) with the current hash is comparing the looked-up entry with `some hash` -/
theorem changedF_eq_abstract (s : SysF) (force : Bool) (w : WF) (p : Str) :
    changedF s force w p =
      (force || match w.file with
        | none => true
        | some data => loadLookup data p != some (s.hash (w.content p))) := by
  unfold changedF
  cases w.file with
  | none => rfl
  | some data =>
    simp only
    congr 1
    cases h : loadLookup data p with
    | some v =>
      simp only [Option.getD_some]
      by_cases e : v = s.hash (w.content p)
      · subst e; simp
      · have h1 : (v != s.hash (w.content p)) = true := by
          simp only [bne_iff_ne, ne_eq]; exact e
        have h2 : (some v != some (s.hash (w.content p))) = true := by
          simp only [bne_iff_ne, ne_eq, Option.some.injEq]; exact e
        rw [h1, h2]
    | none =>
      have hne : s.hash (w.content p) ≠ [] := (s.hash_clean _).1
      simp only [Option.getD_none]
      have : ([] != s.hash (w.content p)) = true := by
        simp only [bne_iff_ne, ne_eq]
        exact fun e => hne e.symm
      rw [this]
      simp

/-- C08 `skip_sound`, file form: a listed package skipped by a non-forced run has exactly the contents
    whose hash the sum file on disk holds for it -/
theorem skip_means_recorded (s : SysF) (w : WF) (p : Str) (h : changedF s false w p = false) :
    ∃ data, w.file = some data ∧ loadLookup data p = some (s.hash (w.content p)) := by
  rw [changedF_eq_abstract] at h
  simp only [Bool.false_or] at h
  cases hf : w.file with
  | none => rw [hf] at h; simp at h
  | some data =>
    rw [hf] at h
    simp only [bne_eq_false_iff_eq] at h
    exact ⟨data, rfl, h⟩

/-- the second of two runs finds, for every listed package, either what the first run generated
    (generating again changes nothing) or what it left alone -/
theorem second_run_content (s : SysF) (f₁ : Bool) (w : WF) {p : Str} (hp : p ∈ s.pkgs) :
    (runF s false (runF s f₁ w)).content p = (runF s f₁ w).content p := by
  have hc : s.pkgs.contains p = true := by simpa using hp
  obtain ⟨data, hfile, hread⟩ := read_back s f₁ w hp
  show (if s.pkgs.contains p && changedF s false (runF s f₁ w) p then _ else _) = _
  rw [hc, Bool.true_and]
  by_cases hch : changedF s false (runF s f₁ w) p = true
  · rw [if_pos hch]
    -- it changed between what run 1 loaded and what run 2 found: run 1 generated it
    have h1 : (runF s f₁ w).content p = s.gen p (w.content p) := by
      show (if s.pkgs.contains p && changedF s f₁ w p then _ else _) = _
      rw [hc, Bool.true_and]
      by_cases h0 : changedF s f₁ w p = true
      · rw [if_pos h0]
      · exfalso
        have hsame : (runF s f₁ w).content p = w.content p := by
          show (if s.pkgs.contains p && changedF s f₁ w p then _ else _) = _
          rw [hc, Bool.true_and, if_neg h0]
        rw [changedF_eq_abstract] at hch
        simp only [Bool.false_or, hfile, hread, hsame, bne_self_eq_false] at hch
        exact Bool.false_ne_true hch
    rw [h1, s.gen_idem]
  · rw [if_neg hch]

/-- C08 `converges`, file form: on unchanged inputs the third run regenerates no listed package, changes
    no listed package's contents, and writes `gengo.sum` byte for byte as the second run wrote it -/
theorem converges_bytes (s : SysF) (f₁ : Bool) (w : WF) :
    let w₂ := runF s false (runF s f₁ w)
    (∀ p ∈ s.pkgs, changedF s false w₂ p = false) ∧
    (∀ p ∈ s.pkgs, (runF s false w₂).content p = w₂.content p) ∧
    (runF s false w₂).file = w₂.file := by
  intro w₂
  have hstable : ∀ p ∈ s.pkgs, w₂.content p = (runF s f₁ w).content p :=
    fun p hp => second_run_content s f₁ w hp
  have hno : ∀ p ∈ s.pkgs, changedF s false w₂ p = false := by
    intro p hp
    rw [changedF_eq_abstract]
    show (false || (loadLookup (bytes (entries s (runF s f₁ w))) p != some (s.hash (w₂.content p)))) = false
    rw [read_entries s (runF s f₁ w) hp, hstable p hp]
    simp
  refine ⟨hno, ?_, ?_⟩
  · intro p hp
    show (if s.pkgs.contains p && changedF s false w₂ p then _ else _) = _
    rw [hno p hp, Bool.and_false]
    rfl
  · show some (bytes (entries s w₂)) = some (bytes (entries s (runF s f₁ w)))
    congr 2
    unfold entries
    apply List.map_congr_left
    intro p hp
    rw [hstable p hp]

/-- a concrete system meeting every hypothesis: two packages, hashes `h` followed by as many `x` as
    the contents count, a generator that normalises contents to 7 -/
def demoHash (n : Nat) : Str := 'h' :: List.replicate n 'x'

theorem demoHash_inj (a b : Nat) (h : demoHash a = demoHash b) : a = b := by
  unfold demoHash at h
  have := congrArg List.length h
  simpa using this

theorem demoHash_clean (n : Nat) : clean (demoHash n) := by
  refine ⟨by simp [demoHash], ?_⟩
  intro c hc
  simp only [demoHash, List.mem_cons, List.mem_replicate] at hc
  rcases hc with rfl | ⟨_, rfl⟩ <;> decide

def demo : SysF where
  hash := demoHash
  gen := fun _ _ => 7
  pkgs := ["m/a".toList, "m/b".toList]
  hash_inj := demoHash_inj
  gen_idem := fun _ _ => rfl
  pkgs_nodup := by decide
  pkgs_clean := by
    intro p hp
    simp only [List.mem_cons, List.not_mem_nil, or_false] at hp
    rcases hp with rfl | rfl <;> exact ⟨by decide, by decide⟩
  hash_clean := demoHash_clean

/-- the hypotheses are met by a system in which the first run does generate and the sum file is not trivial -/
example :
    (runF demo false ⟨fun _ => 3, none⟩).content "m/a".toList = 7 ∧
    (runF demo false ⟨fun _ => 3, none⟩).file = some "m/a hxxx\nm/b hxxx\n".toList := by
  refine ⟨by decide, ?_⟩
  simp [runF, entries, demo, demoHash, bytes, line, sortBy, List.mergeSort, lexLe]

#print axioms converges_bytes
#print axioms skip_means_recorded
end Gengo.CacheFile
