import Gengo.Model.Camel
namespace Gengo.Camel

def AllNonempty (gs : List (List Char)) : Prop := ∀ g ∈ gs, g ≠ []

theorem appendToLast_some {gs : List (List Char)} (h : gs ≠ []) (r : Char) :
    ∃ gs', appendToLast gs r = some gs' := by
  induction gs with
  | nil => exact absurd rfl h
  | cons g gs ih =>
    cases gs with
    | nil => exact ⟨_, rfl⟩
    | cons g' gs =>
      obtain ⟨t, ht⟩ := ih (by simp)
      exact ⟨g :: t, by simp [appendToLast, ht]⟩

theorem appendToLast_spec {gs gs' : List (List Char)} {r : Char} (h : appendToLast gs r = some gs') :
    gs'.flatten = gs.flatten ++ [r] ∧ (AllNonempty gs → AllNonempty gs') ∧ gs' ≠ [] := by
  induction gs generalizing gs' with
  | nil => simp [appendToLast] at h
  | cons g gs ih =>
    cases gs with
    | nil =>
      simp [appendToLast] at h; subst h
      refine ⟨by simp, ?_, by simp⟩
      intro _ x hx; simp at hx; subst hx; simp
    | cons g' gs =>
      simp only [appendToLast, Option.map_eq_some_iff] at h
      obtain ⟨t, ht, rfl⟩ := h
      obtain ⟨h1, h2, _⟩ := ih ht
      refine ⟨by simp [h1], ?_, by simp⟩
      intro hne x hx
      simp at hx
      rcases hx with rfl | hx
      · exact hne _ (by simp)
      · exact h2 (fun y hy => hne y (by simp [hy])) x hx

theorem group_spec (p : Preds) (guarded : Bool) (s : List Char) (gs : List (List Char)) (last : Class)
    (hne : AllNonempty gs) {out : List (List Char)} (h : group p guarded s gs last = some out) :
    out.flatten = gs.flatten ++ s ∧ AllNonempty out := by
  induction s generalizing gs last with
  | nil => simp [group] at h; subst h; exact ⟨by simp, hne⟩
  | cons r rs ih =>
    simp only [group] at h
    split at h
    · split at h
      · simp at h
      · rename_i gs' hgs'
        obtain ⟨h1, h2, _⟩ := appendToLast_spec hgs'
        obtain ⟨h3, h4⟩ := ih gs' _ (h2 hne) h
        exact ⟨by simp [h3, h1], h4⟩
    · have hne' : AllNonempty (gs ++ [[r]]) := by
        intro x hx; simp at hx; rcases hx with hx | rfl
        · exact hne x hx
        · simp
      obtain ⟨h3, h4⟩ := ih _ _ hne' h
      exact ⟨by simp [h3], h4⟩

/-- The repaired code never panics in pass 1. -/
theorem group_total (p : Preds) (s : List Char) (gs : List (List Char)) (last : Class) :
    ∃ out, group p true s gs last = some out := by
  induction s generalizing gs last with
  | nil => exact ⟨gs, rfl⟩
  | cons r rs ih =>
    simp only [group]
    split
    · rename_i hc
      have hgs : gs ≠ [] := by
        intro h; subst h; simp at hc
      obtain ⟨gs', hgs'⟩ := appendToLast_some hgs r
      simp only [hgs']
      exact ih _ _
    · exact ih _ _

theorem fixupAux_spec (p : Preds) (cur : List Char) (gs : List (List Char))
    (hc : cur ≠ []) (hne : AllNonempty gs) :
    ∃ out, fixupAux p cur gs = some out ∧ out.flatten = cur ++ gs.flatten := by
  induction gs generalizing cur with
  | nil => exact ⟨[cur], by simp [fixupAux]⟩
  | cons b rest ih =>
    have hb : b ≠ [] := hne b (by simp)
    have hrest : AllNonempty rest := fun x hx => hne x (by simp [hx])
    obtain ⟨a0, as, rfl⟩ := List.exists_cons_of_ne_nil hc
    obtain ⟨b0, bs, rfl⟩ := List.exists_cons_of_ne_nil hb
    simp only [fixupAux, List.head?_cons]
    split
    · have hal : (a0 :: as).getLast? = some ((a0 :: as).getLast hc) := List.getLast?_eq_some_getLast hc
      simp only [hal]
      obtain ⟨out, ho, hf⟩ := ih ((a0 :: as).getLast hc :: b0 :: bs) (by simp) hrest
      refine ⟨(a0 :: as).dropLast :: out, by simp [ho], ?_⟩
      have hsplit := List.dropLast_concat_getLast hc
      simp only [List.flatten_cons, hf]
      conv => rhs; rw [← hsplit]
      simp
    · obtain ⟨out, ho, hf⟩ := ih (b0 :: bs) (by simp) hrest
      exact ⟨(a0 :: as) :: out, by simp [ho], by simp [hf]⟩

theorem fixup_spec (p : Preds) (gs : List (List Char)) (hne : AllNonempty gs) :
    ∃ out, fixup p gs = some out ∧ out.flatten = gs.flatten := by
  cases gs with
  | nil => exact ⟨[], by simp [fixup]⟩
  | cons a rest =>
    obtain ⟨out, ho, hf⟩ := fixupAux_spec p a rest (hne a (by simp)) (fun x hx => hne x (by simp [hx]))
    exact ⟨out, by simp [fixup, ho], by simp [hf]⟩

/-- C19, repaired code: total, words non-empty, concatenation is the input — for every
    choice of the three Unicode predicates. -/
theorem split_total_lossless (p : Preds) (s : List Char) :
    ∃ ws, split p true s = some ws ∧ ws.flatten = s ∧ ∀ w ∈ ws, w ≠ [] := by
  obtain ⟨gs, hg⟩ := group_total p s [] .other
  obtain ⟨h1, h2⟩ := group_spec p true s [] .other (by intro x hx; simp at hx) hg
  obtain ⟨out, ho, hf⟩ := fixup_spec p gs h2
  refine ⟨out.filter (fun g => !g.isEmpty), by simp [split, hg, ho], ?_, ?_⟩
  · have : (out.filter (fun g => !g.isEmpty)).flatten = out.flatten := by
      clear ho hf
      induction out with
      | nil => rfl
      | cons g gs ih =>
        cases g with
        | nil => simpa using ih
        | cons c cs => simp [List.filter, ih]
    rw [this, hf, h1]; simp
  · intro w hw
    simp at hw
    exact hw.2

/-- C19, pinned code: a first rune of class `other` panics. -/
theorem split_pinned_panics (p : Preds) (r : Char) (rs : List Char)
    (h : classOf p r = .other) : split p false (r :: rs) = none := by
  simp [split, group, h, joins, appendToLast]

example : split ⟨fun c => 'a' ≤ c ∧ c ≤ 'z', fun c => 'A' ≤ c ∧ c ≤ 'Z', fun c => '0' ≤ c ∧ c ≤ '9'⟩ true "PDFLoader9x".toList
    = some ["PDF".toList, "Loader".toList, "9x".toList] := by decide

end Gengo.Camel

#print axioms Gengo.Camel.split_total_lossless
#print axioms Gengo.Camel.split_pinned_panics
