import Gengo.Props.C08a
import Gengo.Props.Order
namespace Gengo.SumFile

def Distinct (m : List (Str × Str)) : Prop := (m.map (·.1)).Nodup

theorem lookup_mem {m : List (Str × Str)} (hd : Distinct m) {k v : Str} (h : (k, v) ∈ m) :
    m.lookup k = some v := by
  induction m with
  | nil => simp at h
  | cons x xs ih =>
    obtain ⟨a, b⟩ := x
    unfold Distinct at hd
    simp only [List.map_cons, List.nodup_cons, List.mem_map, not_exists, not_and] at hd
    simp only [List.mem_cons, Prod.mk.injEq] at h
    rcases h with ⟨rfl, rfl⟩ | h
    · simp [List.lookup]
    · have hne : k ≠ a := by
        intro e; subst e
        exact hd.1 (k, v) h rfl
      have : (k == a) = false := by simp [hne]
      simp only [List.lookup, this]
      exact ih hd.2 h

theorem lookup_none_of_not_mem {m : List (Str × Str)} {k : Str} (h : ∀ v, (k, v) ∉ m) :
    m.lookup k = none := by
  induction m with
  | nil => rfl
  | cons x xs ih =>
    obtain ⟨a, b⟩ := x
    have hne : k ≠ a := by intro e; subst e; exact h b (by simp)
    have : (k == a) = false := by simp [hne]
    simp only [List.lookup, this]
    exact ih (fun v hv => h v (by simp [hv]))

theorem mem_of_lookup {m : List (Str × Str)} {k v : Str} (h : m.lookup k = some v) : (k, v) ∈ m := by
  induction m with
  | nil => simp at h
  | cons x xs ih =>
    obtain ⟨a, b⟩ := x
    simp only [List.lookup] at h
    by_cases hk : k = a
    · subst hk; simp at h; subst h; simp
    · have : (k == a) = false := by simp [hk]
      simp only [this] at h
      exact List.mem_cons_of_mem _ (ih h)

/-- two key-distinct association lists with the same entries give the same lookups -/
theorem lookup_of_same_entries {m₁ m₂ : List (Str × Str)} (hd₁ : Distinct m₁) (hd₂ : Distinct m₂)
    (h : ∀ e, e ∈ m₁ ↔ e ∈ m₂) (k : Str) : m₁.lookup k = m₂.lookup k := by
  cases h1 : m₁.lookup k with
  | some v =>
    have hm : (k, v) ∈ m₁ := mem_of_lookup h1
    exact (lookup_mem hd₂ ((h _).mp hm)).symm
  | none =>
    symm
    apply lookup_none_of_not_mem
    intro v hv
    have := lookup_mem hd₁ ((h _).mpr hv)
    rw [h1] at this; cases this

/-- C08 `roundtrip`: reading back what `Save` wrote yields the same mapping — every package's
    recorded hash, and nothing else -/
theorem roundtrip (m : List (Str × Str)) (hd : Distinct m) (h : ∀ e ∈ m, clean e.1 ∧ clean e.2) (k : Str) :
    loadLookup (bytes m) k = m.lookup k := by
  unfold loadLookup
  rw [load_bytes_entries m h]
  have hperm : (sortBy (·.1) m).Perm m := List.mergeSort_perm m _
  have hds : Distinct (sortBy (·.1) m).reverse := by
    unfold Distinct
    have hp2 : ((sortBy (·.1) m).reverse.map (·.1)).Perm (m.map (·.1)) :=
      ((List.reverse_perm _).trans hperm).map _
    exact hp2.nodup_iff.mpr hd
  apply lookup_of_same_entries hds hd
  intro e
  rw [List.mem_reverse]
  exact hperm.mem_iff

#print axioms roundtrip
end Gengo.SumFile
