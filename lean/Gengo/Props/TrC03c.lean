import Gengo.Props.TrC03b
import Gengo.Props.TrC19b
/-!
C03, tie by translation, third part: `toLocalName` (pkg/namer/import_tracker.go) as translated, with
`camelcase.LowerCamelCase` read as the translated `makeCase` with the empty linker (`Props/TrC19b`).  Because that
converter returns for every input (`code_makeCase_total`), `toLocalName` is a total function — the hypothesis `hLN` of
`TrC03b.trackerAdd_eq` / `code_add_refines` — and the translated `add` with the translated `toLocalName` inside refines
the model with no assumption left about how candidate names are computed.
-/
namespace Gengo.TrC03c
open Gengo Gengo.Go Gengo.Tracker Gengo.TrC03b

/-- `toLocalName` over the translated converter -/
def toLN (p : Go.Preds) (trans : Str → Int → Str) (oneGraphic : Str → Bool) (notAlnum : Char → Bool)
    (strToLower : Str → Str) : List Str → M Str :=
  Code.toLocalName (fun l => Code.makeCase p trans oneGraphic notAlnum [] (l.headD [])) strToLower

/-- the name it computes -/
def lnOf (p : Go.Preds) (trans : Str → Int → Str) (oneGraphic : Str → Bool) (notAlnum : Char → Bool)
    (strToLower : Str → Str) (ps : List Str) : Str :=
  match Code.makeCase p trans oneGraphic notAlnum [] (Go.strJoin ps []) with
  | .ok r => strToLower r
  | .error _ => []

/-- **the translated `toLocalName` returns for every list of segments** -/
theorem toLN_total (p : Go.Preds) (trans oneGraphic notAlnum strToLower) (ps : List Str) :
    toLN p trans oneGraphic notAlnum strToLower ps = pure (lnOf p trans oneGraphic notAlnum strToLower ps) := by
  obtain ⟨r, hr⟩ := TrC19b.code_makeCase_total p trans oneGraphic notAlnum [] (Go.strJoin ps [])
  simp [toLN, Code.toLocalName, lnOf, hr, bind, Except.bind, pure, Except.pure]

/-- **C03, of the translated code, candidates included**: `add` with the translated `toLocalName` and converter inside
    returns, and the tracker it leaves answers every lookup like the model's -/
theorem code_add_refines_full (p : Go.Preds) (trans : Str → Int → Str) (oneGraphic : Str → Bool) (notAlnum : Char → Bool)
    (strToLower : Str → Str) (isIdent : Str → Bool) (stdMap : List (Str × Str)) (sanitize : Str → Str)
    (needsPkg : Str → Bool) (itoa : Int → Str) (t : Tracker) (path : Str)
    (hok : FallbackOK (cfgFor (lnOf p trans oneGraphic notAlnum strToLower) isIdent stdMap sanitize needsPkg itoa path)) :
    ∃ r, Code.trackerAdd (toLN p trans oneGraphic notAlnum strToLower) isIdent stdMap sanitize needsPkg itoa
        (t.n2p.length + (cfgFor (lnOf p trans oneGraphic notAlnum strToLower) isIdent stdMap sanitize needsPkg itoa path).stdNames.length + 1)
        t path = .ok r ∧
      LookupEq r (add (cfgFor (lnOf p trans oneGraphic notAlnum strToLower) isIdent stdMap sanitize needsPkg itoa path) t path) :=
  code_add_refines _ _ (toLN_total p trans oneGraphic notAlnum strToLower) isIdent stdMap sanitize needsPkg itoa t path hok

#print axioms toLN_total
#print axioms code_add_refines_full
end Gengo.TrC03c
