import Gengo.Props.C19
namespace Gengo.Camel

/-- `makeCase(linker, transWord)`: split, drop single graphic non-alphanumeric words, transform and
    join.  `trans`, `dropWord` stand for `strings.ToLower/ToUpper`, `cases.Title`, the `ID` special
    case and the `unicode.IsGraphic/IsLetter/IsDigit` test — total library functions. -/
def makeCase (p : Preds) (guarded : Bool) (linker : List Char) (trans : List Char → Nat → List Char)
    (dropWord : List Char → Bool) (s : List Char) : Option (List Char) :=
  (split p guarded s).map fun ws =>
    let kept := ws.filter (fun w => !dropWord w)
    ((kept.zipIdx.map fun (w, i) => trans w i).intersperse linker).flatten

/-- C19: the six converters never fail (repaired `Split`), for every input, every Unicode
    classification and every word transformation -/
theorem makeCase_total (p : Preds) (linker : List Char) (trans) (dropWord) (s : List Char) :
    (makeCase p true linker trans dropWord s).isSome = true := by
  obtain ⟨ws, h, _, _⟩ := split_total_lossless p s
  simp [makeCase, h]

/-- `Split` as the Go function sees its argument: bytes that may not be valid UTF-8 -/
def splitBytes (p : Preds) (guarded : Bool) (decode : List UInt8 → Option (List Char)) (bs : List UInt8) :
    Option (List (List UInt8) ⊕ List (List Char)) :=
  match decode bs with
  | none => some (.inl [bs])                      -- not valid UTF-8: the whole string, one word
  | some s => (split p guarded s).map .inr

/-- C19: total on all byte strings; an invalid one comes back whole -/
theorem splitBytes_total (p : Preds) (decode) (bs : List UInt8) :
    (splitBytes p true decode bs).isSome = true ∧
    (decode bs = none → splitBytes p true decode bs = some (.inl [bs])) := by
  unfold splitBytes
  cases hd : decode bs with
  | none => simp
  | some s =>
    obtain ⟨ws, h, _, _⟩ := split_total_lossless p s
    simp [h]

end Gengo.Camel
