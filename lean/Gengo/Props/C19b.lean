import Gengo.Props.C19
namespace Gengo.Camel

/-- C19: the six converters never fail (repaired `Split`), for every input, every Unicode
    classification and every word transformation -/
theorem makeCase_total (p : Preds) (linker : List Char) (trans) (dropWord) (s : List Char) :
    (makeCase p true linker trans dropWord s).isSome = true := by
  obtain ⟨ws, h, _, _⟩ := split_total_lossless p s
  simp [makeCase, h]

/-- C19: total on all byte strings; an invalid one comes back whole -/
theorem splitBytes_total (p : Preds) (decode) (bs : List UInt8) :
    (splitBytes p true decode bs).isSome = true ∧
    (decode bs = none → splitBytes p true decode bs = some (.inl [bs])) := by
  unfold splitBytes
  cases hd : decode bs with
  | none => simp
  | some s =>
    obtain ⟨ws, h, _, _⟩ := split_total_lossless p s
    simp [h]

end Gengo.Camel
