import Gengo.Props.TrC01
import Gengo.Props.C01a
/-!
Property clauses stated of the code as it stands: each theorem here is a clause of C01 and C04 about a definition of
`Gengo.Code` — regenerated from /repo's Go source on every run — obtained from the clause proved of the hand-written
model through the equivalence theorem of `Props/Tr*.lean`.
-/
namespace Gengo.TrCode
open Gengo Gengo.Go Gengo.Code

theorem inj_of_nodup_keys (m : List (Str × Str)) (hd : (m.map (·.1)).Nodup) :
    ∀ a ∈ m, ∀ b ∈ m, a.1 = b.1 → a = b := by
  induction m with
  | nil => intro a ha; cases ha
  | cons x xs ih =>
    simp only [List.map_cons, List.nodup_cons] at hd
    intro a ha b hb hab
    rcases List.mem_cons.mp ha with rfl | ha' <;> rcases List.mem_cons.mp hb with rfl | hb'
    · rfl
    · exact absurd (List.mem_map.mpr ⟨b, hb', hab.symm⟩) hd.1
    · exact absurd (List.mem_map.mpr ⟨a, ha', hab⟩) hd.1
    · exact ih hd.2 a ha' b hb' hab

/-- C01 / C04: what the translated `writeImports` writes does not depend on the order in which the import table
    presents its bindings -/
theorem code_writeImports_perm (w : Str) {m₁ m₂ : List (Str × Str)} (h : m₁.Perm m₂) (hd : (m₁.map (·.1)).Nodup) :
    Code.writeImports w m₁ = Code.writeImports w m₂ := by
  have hd2 : (m₂.map (·.1)).Nodup := (h.map (·.1)).nodup_iff.mp hd
  rw [TrC01.writeImports_eq w m₁ hd, TrC01.writeImports_eq w m₂ hd2,
    Assemble.importBlock_perm h (inj_of_nodup_keys m₁ hd)]


end Gengo.TrCode
