import Gengo.Model.Heap
import Gengo.Model.DeepCopy
import Gengo.Props.C17b
namespace Gengo.Heap

/-! ### What the emitted statements do, and that the repaired choice is the deep copy -/

/-- shape of the values of a field type of the C17 domain -/
inductive Shape where
  | scalar                      -- basic, string, defined scalar, `error`/interface, bare type parameter
  | slice                       -- slice of scalars
  | map                         -- map of scalars (plain, or a defined map type)
  | struct (fields : List Shape)  -- same-package struct by value

/-- meaning of one emitted statement on the field's value -/
inductive Sem where
  | assign                      -- `out.F = in.F`  (and `*out = *in` of a defined scalar)
  | realloc                     -- `make` + `copy` / `range`, or the defined map's `DeepCopy()`
  | into (fields : List Sem)    -- `in.F.DeepCopyInto(&out.F)` of a struct: its own field statements

mutual
  def exec : Sem → HV → Nat → HV × Nat
    | .assign, v, next => (v, next)                       -- shares whatever the value holds
    | .realloc, .slice (some _) es, next => (.slice (some next) es, next + 1)
    | .realloc, .map (some _) es, next => (.map (some next) es, next + 1)
    | .realloc, v, next => (v, next)                      -- nil stays nil
    | .into fs, .struct vs, next => let r := execList fs vs next; (.struct r.1, r.2)
    | .into _, v, next => (v, next)
  def execList : List Sem → List HV → Nat → List HV × Nat
    | f :: fs, v :: vs, next =>
      let r1 := exec f v next
      let r2 := execList fs vs r1.2
      (r1.1 :: r2.1, r2.2)
    | _, vs, next => (vs, next)
end

mutual
  /-- the repaired generator's choice, by shape (mirrors `fieldStmt true` / the per-kind templates) -/
  def choose : Shape → Sem
    | .scalar => .assign
    | .slice => .realloc
    | .map => .realloc
    | .struct fs => .into (chooseList fs)
  def chooseList : List Shape → List Sem
    | [] => []
    | s :: ss => choose s :: chooseList ss
end

mutual
  def HasShape : HV → Shape → Prop
    | .scalar _, .scalar => True
    | .slice _ _, .slice => True
    | .map _ _, .map => True
    | .struct vs, .struct ss => HasShapes vs ss
    | _, _ => False
  def HasShapes : List HV → List Shape → Prop
    | [], [] => True
    | v :: vs, s :: ss => HasShape v s ∧ HasShapes vs ss
    | _, _ => False
end

mutual
  /-- the statements the repaired generator emits perform exactly the deep copy of `Model/Heap` -/
  theorem exec_choose : (v : HV) → (s : Shape) → HasShape v s → ∀ next, exec (choose s) v next = deepCopy v next
    | .scalar n, .scalar, _, next => by simp [choose, exec, deepCopy]
    | .slice none es, .slice, _, next => by simp [choose, exec, deepCopy]
    | .slice (some i) es, .slice, _, next => by simp [choose, exec, deepCopy]
    | .map none es, .map, _, next => by simp [choose, exec, deepCopy]
    | .map (some i) es, .map, _, next => by simp [choose, exec, deepCopy]
    | .struct vs, .struct ss, h, next => by
      simp only [choose, exec, deepCopy]
      rw [execList_choose vs ss h next]
    | .scalar _, .slice, h, _ => by simp [HasShape] at h
    | .scalar _, .map, h, _ => by simp [HasShape] at h
    | .scalar _, .struct _, h, _ => by simp [HasShape] at h
    | .slice _ _, .scalar, h, _ => by simp [HasShape] at h
    | .slice _ _, .map, h, _ => by simp [HasShape] at h
    | .slice _ _, .struct _, h, _ => by simp [HasShape] at h
    | .map _ _, .scalar, h, _ => by simp [HasShape] at h
    | .map _ _, .slice, h, _ => by simp [HasShape] at h
    | .map _ _, .struct _, h, _ => by simp [HasShape] at h
    | .struct _, .scalar, h, _ => by simp [HasShape] at h
    | .struct _, .slice, h, _ => by simp [HasShape] at h
    | .struct _, .map, h, _ => by simp [HasShape] at h
  theorem execList_choose : (vs : List HV) → (ss : List Shape) → HasShapes vs ss →
      ∀ next, execList (chooseList ss) vs next = deepCopyList vs next
    | [], [], _, next => by simp [chooseList, execList, deepCopyList]
    | v :: vs, s :: ss, h, next => by
      simp only [chooseList, execList, deepCopyList]
      rw [exec_choose v s h.1 next, execList_choose vs ss h.2]
    | [], _ :: _, h, _ => by simp [HasShapes] at h
    | _ :: _, [], h, _ => by simp [HasShapes] at h
end

/-- by contrast a slice copied by assignment keeps the backing store (the defect the property is
    about; what e.g. the `default:` branch does to a defined *slice* type, outside the domain) -/
example : (exec .assign (.slice (some 3) [1, 2]) 10).1.ids = [3] := by decide

/-- F26 (known finding): a bare type-parameter field is classified `Shape.scalar` — true of a field of `Box[int]`,
    false of a field of `Box[Item]` with `type Item struct{ Tags []int }`.  The statement chosen for it is the
    assignment whatever the instantiation, and on such a value the assignment keeps the backing store: the
    copy shares `Tags`.  `HasShape v s` in `exec_choose` is the hypothesis that excludes these instantiations
    (the value of a `.scalar` field must be a scalar), so the theorems of this file are about instantiations with
    scalar types only — the other ones are the finding, replayed on the real generator by corpus/C17/F26*.json. -/
theorem typeparam_field_assignment_shares :
    (exec (choose .scalar) (.struct [.slice (some 3) [1, 2]]) 10).1.ids = [3] ∧
    ¬ HasShape (.struct [.slice (some 3) [1, 2]]) .scalar := by
  refine ⟨by decide, ?_⟩
  simp [HasShape]

/-- `DeepCopy` of nil is nil: a nil slice or map field stays nil -/
theorem copy_nil_fields (es : List Nat) (ms : List (Nat × Nat)) (next : Nat) :
    (deepCopy (.slice none es) next).1 = .slice none es ∧ (deepCopy (.map none ms) next).1 = .map none ms := by
  simp [deepCopy]

#print axioms exec_choose
end Gengo.Heap

namespace Gengo.Heap
/-- the generated `func (in *T) DeepCopy() *T`: `nil` receiver ↦ `nil`, otherwise a new struct
    filled by `DeepCopyInto` -/
def deepCopyPtr : Option HV → Nat → Option HV
  | none, _ => none
  | some v, next => some (deepCopy v next).1

/-- C17 "DeepCopy of nil is nil" -/
theorem copy_nil (next : Nat) : deepCopyPtr none next = none := rfl

/-- and of a non-nil value: deeply equal, no container shared -/
theorem copy_some (v : HV) (next : Nat) (hfresh : ∀ i ∈ v.ids, i < next) :
    ∃ w, deepCopyPtr (some v) next = some w ∧ w.erase = v.erase ∧ ∀ i, i ∈ w.ids → i ∉ v.ids :=
  ⟨_, rfl, deepCopy_no_sharing v next hfresh⟩
end Gengo.Heap
