import Gengo.Model.SumFile
namespace Gengo.SumFile

def clean (s : Str) : Prop := s ≠ [] ∧ ∀ c ∈ s, isSpace c = false

theorem fieldsAux_clean (s : Str) (hs : ∀ c ∈ s, isSpace c = false) (rest cur : Str) :
    fieldsAux (s ++ rest) cur = fieldsAux rest (s.reverse ++ cur) := by
  induction s generalizing cur with
  | nil => simp
  | cons c cs ih =>
    have hc : isSpace c = false := hs c (by simp)
    simp only [List.cons_append, fieldsAux, hc, Bool.false_eq_true, if_false]
    rw [ih (fun d hd => hs d (by simp [hd])) (c :: cur)]
    simp

/-- a written line reads back as exactly its two fields -/
theorem fields_line (k v : Str) (hk : clean k) (hv : clean v) : fields (line (k, v)) = [k, v] := by
  unfold fields line
  simp only
  rw [fieldsAux_clean k hk.2]
  have hk' : (k.reverse ++ ([] : Str)).isEmpty = false := by
    cases k with
    | nil => exact absurd rfl hk.1
    | cons a as => simp
  simp only [fieldsAux, show isSpace ' ' = true from rfl, if_true, hk', Bool.false_eq_true, if_false]
  rw [fieldsAux_clean v hv.2]
  have hv' : (v.reverse ++ ([] : Str)).isEmpty = false := by
    cases v with
    | nil => exact absurd rfl hv.1
    | cons a as => simp
  simp [fieldsAux, show isSpace '\n' = true from rfl, hv.1]

theorem linesAux_clean (s : Str) (hs : '\n' ∉ s) (rest cur : Str) :
    linesAux (s ++ rest) cur = linesAux rest (s.reverse ++ cur) := by
  induction s generalizing cur with
  | nil => simp
  | cons c cs ih =>
    simp only [List.mem_cons, not_or] at hs
    have hc : (c == '\n') = false := by simp [Ne.symm hs.1]
    simp only [List.cons_append, linesAux, hc, Bool.false_eq_true, if_false]
    rw [ih hs.2 (c :: cur)]
    simp

theorem clean_no_nl {s : Str} (h : clean s) : '\n' ∉ s := by
  intro hm; have := h.2 _ hm; simp [isSpace] at this

/-- the file splits back into the written lines -/
theorem lines_flatten (es : List (Str × Str)) (h : ∀ e ∈ es, clean e.1 ∧ clean e.2) :
    lines ((es.map line).flatten) = es.map line := by
  unfold lines
  induction es with
  | nil => simp [linesAux]
  | cons e es ih =>
    obtain ⟨k, v⟩ := e
    have ⟨hk, hv⟩ := h (k, v) (by simp)
    simp only [List.map_cons, List.flatten_cons, line]
    have : k ++ (' ' :: (v ++ ['\n'])) ++ (es.map line).flatten
        = (k ++ ' ' :: v) ++ ('\n' :: (es.map line).flatten) := by simp
    rw [this, linesAux_clean (k ++ ' ' :: v) (by
      simp only [List.mem_append, List.mem_cons, not_or]
      exact ⟨clean_no_nl hk, by decide, clean_no_nl hv⟩)]
    simp only [linesAux, beq_self_eq_true, if_true]
    rw [ih (fun e he => h e (by simp [he]))]
    simp [line]

/-- C08 `roundtrip`, entry level: reading the written file yields the written entries, in the
    written (sorted) order, for any number of entries. -/
theorem load_bytes_entries (m : List (Str × Str)) (h : ∀ e ∈ m, clean e.1 ∧ clean e.2) :
    loadEntries (bytes m) = sortBy (·.1) m := by
  unfold loadEntries bytes
  have hs : ∀ e ∈ sortBy (·.1) m, clean e.1 ∧ clean e.2 :=
    fun e he => h e ((List.mergeSort_perm m _).mem_iff.mp he)
  rw [lines_flatten _ hs]
  generalize sortBy (·.1) m = es at hs
  induction es with
  | nil => rfl
  | cons e es ih =>
    obtain ⟨k, v⟩ := e
    have ⟨hk, hv⟩ := hs (k, v) (by simp)
    simp only [List.map_cons, List.filterMap_cons, fields_line k v hk hv]
    rw [ih (fun e he => hs e (by simp [he]))]

/-- pinned code: an empty hash is written as `path SP LF`, read back as "no entry",
    and `Sum` turns both a missing entry and an empty hash into `""` (F17). -/
example : loadEntries (line ("p".toList, [])) = [] := by decide
example : sumOf (some (loadEntries (line ("p".toList, [])))) "p".toList = sumOf (some [("p".toList, [])]) "p".toList := by decide

#print axioms load_bytes_entries
end Gengo.SumFile
