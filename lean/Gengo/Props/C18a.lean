import Gengo.Model.Partial
import Gengo.Props.C11a
namespace Gengo.Partial
open Gengo.TypeLit

/-- pinned code (F15): a tag containing a dot is not printed verbatim -/
example : tagText false "json:\"a.b\"".toList = none ∧ tagText false "json:\"name\"".toList = some "json:\"name\"".toList := by
  decide
example : tagText true "json:\"a.b\" doc:\"v1.2\"".toList = some "json:\"a.b\" doc:\"v1.2\"".toList := by decide

/-- C18 `fields_mirror` (repaired code): the generated struct has exactly the origin's fields that
    are not omitted, in order, each with a type expression denoting the origin field's type and
    with the origin's tag. -/
theorem fields_mirror (env : Env) (sc : Scope) (hself : sc.self = env.self) (omitted : List Str)
    (fs : List OField) (hdom : ∀ f ∈ fs, InDom env sc f.ty) :
    (genFields true env omitted fs).map (fun g => (g.1, denote sc g.2.1, g.2.2)) =
      (fs.filter fun f => !omitted.contains f.name).map fun f => (f.name, some f.ty, some f.tag) := by
  unfold genFields
  rw [List.map_map]
  apply List.map_congr_left
  intro f hf
  have hf' : f ∈ fs := (List.mem_filter.mp hf).1
  simp [denote_typeLit env sc hself f.ty (hdom f hf'), tagText]

#print axioms fields_mirror
end Gengo.Partial
