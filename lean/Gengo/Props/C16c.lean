import Gengo.Props.C10c
namespace Gengo.RuntimeDocText
open Gengo.Dumper Gengo.Eval

/-! ### C16 `doc_text_exact`: the literal the generator prints for doc lines denotes those lines

`runtimedocgen` emits a doc as `[]string{ <Value(line)>, … }` (the type's doc, assembled with
`Sprintf("%v,\n", line)`) or as `Value(lines)` (a field's doc).  Both are the composite literal
below.  With the leaf contract of C10 — the quoted text `strconv.Quote` prints for a line denotes
that line, whatever characters it contains — the literal evaluates to exactly the lines, in order:
nothing of the doc text is interpreted on the way (C09: `%v` arguments are never re-scanned). -/

def tString : Ty := .scalar "string".toList "\"\"".toList
def tDocs : Ty := .seq "[]string".toList tString

/-- the literal printed for the quoted lines `qs` -/
def docLiteral (qs : List Str) : Expr := .comp "[]string".toList (qs.map fun q => (none, Expr.raw q))

theorem evalElems_raw (qs : List Str) (h : ∀ q ∈ qs, q ≠ []) :
    evalElems tString (qs.map fun q => (none, Expr.raw q)) = some (qs.map SV.scalar) := by
  induction qs with
  | nil => simp [evalElems]
  | cons q qs ih =>
    have hq : q ≠ [] := h q (by simp)
    have hq' : q.isEmpty = false := by cases q <;> simp_all
    simp only [List.map_cons, evalElems, eval, tString, hq', Bool.false_eq_true, if_false]
    rw [show evalElems (Ty.scalar "string".toList "\"\"".toList) (qs.map fun q => (none, Expr.raw q)) = some (qs.map SV.scalar) from
      ih (fun x hx => h x (by simp [hx]))]

/-- **C16 `doc_text_exact`**: the printed doc literal denotes the list of its lines, each line being
    what its quoted text denotes — for any number of lines and any characters in them -/
theorem doc_text_exact (qs : List Str) (h : ∀ q ∈ qs, q ≠ []) :
    eval (docLiteral qs) tDocs = some (.seq (qs.map SV.scalar)) := by
  simp [docLiteral, tDocs, eval, evalElems_raw qs h]

/-- the same literal is what `snippet.Value` prints for a non-empty `[]string` (field docs), so C10's
    `eval_value` applies to it as well -/
theorem seqElems_lines (qs : List Str) (h : ∀ q ∈ qs, q ≠ []) :
    seqElems true (qs.map fun q => Val.leaf .string "string".toList q false) = qs.map fun q => (none, Expr.raw q) := by
  induction qs with
  | nil => simp [seqElems]
  | cons q qs ih =>
    have hq : q ≠ [] := h q (by simp)
    simp only [List.map_cons, seqElems, ih (fun x hx => h x (by simp [hx]))]
    simp [valueLit]

theorem value_of_lines (qs : List Str) (hne : qs ≠ []) (h : ∀ q ∈ qs, q ≠ []) :
    valueLit true false (.seq "[]string".toList (qs.map fun q => Val.leaf .string "string".toList q false)) = docLiteral qs := by
  cases qs with
  | nil => exact absurd rfl hne
  | cons q qs =>
    have := seqElems_lines (q :: qs) h
    simp only [List.map_cons] at this
    simp only [valueLit, docLiteral, List.map_cons]
    exact congrArg _ this

example : eval (docLiteral ["\"T does \\\"x\\\"\"".toList, "\"100% @name\"".toList]) tDocs
    = some (.seq [.scalar "\"T does \\\"x\\\"\"".toList, .scalar "\"100% @name\"".toList]) :=
  doc_text_exact _ (by intro q hq; simp at hq; rcases hq with rfl | rfl <;> decide)

#print axioms doc_text_exact
end Gengo.RuntimeDocText
