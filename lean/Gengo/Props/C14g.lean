import Gengo.Model.Resolver2
import Gengo.Props.C14b
namespace Gengo.Resolver2
open Gengo.Resolver (Res Visits visited WFV Mono unv visited_spec unv_mono unv_le_keys)

/-! ### C14 on the extended language: `ResultsOf` returns, with one non-empty list per result -/

/-- the result arities are all the termination argument needs: the key space of `Props/C14b` -/
def core (p : Prog) : Resolver.Prog := p.map fun fn => ⟨fn.results.map fun t => ⟨t, false⟩, []⟩

theorem core_length (p : Prog) : (core p).length = p.length := by simp [core]

theorem nres_core (p : Prog) (g : Nat) : Resolver.nres (core p) g = nres p g := by
  simp only [Resolver.nres, nres, core, List.getElem?_map]
  cases p[g]? <;> simp

/-- a producer that returns, keeps the table well formed and only adds marks — on states with at
    most `B` unvisited keys -/
def ProdOK (p : Prog) (B : Nat) (f : Visits → Out) : Prop :=
  ∀ vs, WFV (core p) vs → unv (core p) vs ≤ B →
    ∃ o vs', f vs = some (o, vs') ∧ WFV (core p) vs' ∧ Mono vs vs'

def KOK (p : Prog) (B : Nat) (k : K) : Prop := ∀ r, ProdOK p B (k r)

def RecOK (p : Prog) (B : Nat) (rec : Rec) : Prop :=
  ∀ g retN at_ k, (at_ < nres p g ∨ p[g]? = none) → KOK p B k → ProdOK p B (fun vs => rec vs g retN at_ k)

theorem ProdOK.le {p : Prog} {B B' : Nat} {f : Visits → Out} (h : ProdOK p B f) (hb : B' ≤ B) : ProdOK p B' f :=
  fun vs hw hu => h vs hw (Nat.le_trans hu hb)

theorem KOK.le {p : Prog} {B B' : Nat} {k : K} (h : KOK p B k) (hb : B' ≤ B) : KOK p B' k :=
  fun r => (h r).le hb

theorem done_ok (p : Prog) (B : Nat) : ProdOK p B done :=
  fun vs hw _ => ⟨[], vs, rfl, hw, Mono.refl vs⟩

theorem seq_ok {p : Prog} {B : Nat} {a b : Visits → Out} (ha : ProdOK p B a) (hb : ProdOK p B b) :
    ProdOK p B (seq a b) := by
  intro vs hw hu
  obtain ⟨o₁, vs₁, h₁, hw₁, hm₁⟩ := ha vs hw hu
  obtain ⟨o₂, vs₂, h₂, hw₂, hm₂⟩ := hb vs₁ hw₁ (Nat.le_trans (unv_mono (core p) hm₁) hu)
  exact ⟨o₁ ++ o₂, vs₂, by simp [seq, h₁, h₂], hw₂, hm₁.trans hm₂⟩

theorem errIdxs_lt (p : Prog) (g j : Nat) (h : j ∈ errIdxs p g) : j < nres p g := by
  unfold errIdxs at h
  cases hg : p[g]? with
  | none => simp [hg] at h
  | some fn =>
    simp only [hg, List.mem_filter, List.mem_range] at h
    simpa [nres, hg] using h.1

theorem litErrs_ok (p : Prog) (B : Nat) (rec : Rec) (hr : RecOK p B rec) (retN g : Nat) (k : K) (hk : KOK p B k) :
    ∀ js : List Nat, (∀ j ∈ js, j < nres p g) → ProdOK p B (litErrs rec retN g k js)
  | [], _ => by simpa [litErrs] using done_ok p B
  | j :: js, h => by
    simp only [litErrs]
    exact seq_ok (hr g retN j k (Or.inl (h j (by simp))) hk)
      (litErrs_ok p B rec hr retN g k hk js (fun x hx => h x (by simp [hx])))

theorem sigRets_lt (p : Prog) (sig : Sig) (g ci : Nat) (t : List Char) (hg : sig.target = some g)
    (h : (sigRets p sig)[ci]? = some t) : ci < nres p g ∨ p[g]? = none := by
  cases hp : p[g]? with
  | none => exact Or.inr rfl
  | some fn =>
    left
    simp only [sigRets, hg, Option.bind_some, hp] at h
    have := (List.getElem?_eq_some_iff.mp h).1
    simpa [nres, hp] using this

mutual
theorem exprAt_ok (p : Prog) (B : Nat) (rec : Rec) (hr : RecOK p B rec) (retN q : Nat) :
    ∀ (e : Expr) (ci : Nat) (k : K), KOK p B k → ProdOK p B (exprAt p rec retN q e ci k)
  | .call sig args, ci, k, hk => by
    intro vs hw hu
    rw [exprAt]
    cases ht : (sigRets p sig)[ci]? with
    | none => exact ⟨[], vs, rfl, hw, Mono.refl vs⟩
    | some t =>
      simp only []
      by_cases hf : follows t = true
      · simp only [hf, if_true]
        refine seq_ok ?_ ?_ vs hw hu
        · by_cases he : isErr t = true
          · simp only [he, if_true]; exact argsAt_ok p B rec hr retN q args sig.perr k hk
          · simp only [he]; exact done_ok p B
        · cases hg : sig.target with
          | none => exact done_ok p B
          | some g => exact hr g (nres p g) ci k (sigRets_lt p sig g ci t hg ht) hk
      · simp only [hf]; exact hk _ vs hw hu
  | .lit v, _, k, hk => by intro vs hw hu; rw [exprAt]; exact hk _ vs hw hu
  | .opaque t, _, k, hk => by intro vs hw hu; rw [exprAt]; exact hk _ vs hw hu
  | .ident x n ev, _, k, hk => by intro vs hw hu; rw [exprAt]; exact hk _ vs hw hu
  | .funcLit g t, _, k, hk => by intro vs hw hu; rw [exprAt]; exact hk _ vs hw hu
theorem argsAt_ok (p : Prog) (B : Nat) (rec : Rec) (hr : RecOK p B rec) (retN q : Nat) :
    ∀ (as : Args) (perr : List Bool) (k : K), KOK p B k → ProdOK p B (argsAt p rec retN q as perr k)
  | .nil, _, _, _ => by intro vs hw _; rw [argsAt]; exact ⟨[], vs, rfl, hw, Mono.refl vs⟩
  | .cons a rest, perr, k, hk => by
    have hrest := argsAt_ok p B rec hr retN q rest perr.tail k hk
    have hfirst : ProdOK p B (if perr.headD false then exprAt p rec retN q a 0 k else done) := by
      by_cases hp : perr.headD false = true
      · simp only [hp, if_true]; exact exprAt_ok p B rec hr retN q a 0 k hk
      · simp only [hp]; exact done_ok p B
    intro vs hw hu
    cases a <;> (simp only [argsAt]; refine seq_ok hfirst (seq_ok ?_ hrest) vs hw hu) <;> first
      | exact done_ok p B
      | exact litErrs_ok p B rec hr retN _ k hk _ (errIdxs_lt p _)
end

theorem exprsAt_ok (p : Prog) (B : Nat) (rec : Rec) (hr : RecOK p B rec) (retN q : Nat) (rhs : List Expr)
    (n at_ : Nat) (k : K) (hk : KOK p B k) : ProdOK p B (exprsAt p rec retN q rhs n at_ k) := by
  unfold exprsAt
  split
  · split
    · exact exprAt_ok p B rec hr retN q _ at_ k hk
    · exact done_ok p B
  · split
    · exact done_ok p B
    · exact exprAt_ok p B rec hr retN q _ 0 k hk

theorem assignedAt_ok (p : Prog) (B : Nat) (rec : Rec) (hr : RecOK p B rec) (retN x : Nat) (vis : List Stmt)
    (k : K) (hk : KOK p B k) : ProdOK p B (assignedAt p rec retN x vis k) := by
  unfold assignedAt
  split
  · exact done_ok p B
  · exact exprsAt_ok p B rec hr retN _ _ _ _ k hk

theorem post_ok (p : Prog) (B : Nat) (rec : Rec) (hr : RecOK p B rec) (retN : Nat) (body : List Stmt)
    (k : K) (hk : KOK p B k) : KOK p B (post p rec retN body k) := by
  intro r
  unfold post
  split
  · exact hk r
  · refine seq_ok ?_ (assignedAt_ok p B rec hr retN _ _ k hk)
    split
    · exact hk r
    · exact done_ok p B

theorem stmtsAt_ok (p : Prog) (B : Nat) (rec : Rec) (hr : RecOK p B rec) (retN : Nat) (fn : Func)
    (body : List Stmt) (at_ : Nat) (k : K) (hk : KOK p B k) :
    ∀ ss : List Stmt, ProdOK p B (stmtsAt p rec retN fn body at_ k ss)
  | [] => by simpa [stmtsAt] using done_ok p B
  | .assign _ _ _ :: rest => by simp only [stmtsAt]; exact stmtsAt_ok p B rec hr retN fn body at_ k hk rest
  | .ret q none :: rest => by
    simp only [stmtsAt]
    refine seq_ok ?_ (stmtsAt_ok p B rec hr retN fn body at_ k hk rest)
    split
    · exact assignedAt_ok p B rec hr retN _ _ k hk
    · exact done_ok p B
  | .ret q (some rhs) :: rest => by
    simp only [stmtsAt]
    exact seq_ok (exprsAt_ok p B rec hr retN q rhs retN at_ _ (post_ok p B rec hr retN body k hk))
      (stmtsAt_ok p B rec hr retN fn body at_ k hk rest)

/-- **C14 `resolve_terminates`, extended language**: with more fuel than unvisited keys a descent
    returns — whatever the program (recursion through calls, arguments, function literals,
    assignments, named results) and whatever the consumer does between two productions, as long
    as the consumer itself returns and only adds marks. -/
theorem funcAt_terminates (p : Prog) : ∀ fuel, RecOK p fuel (funcAt p (fuel + 1)) := by
  intro fuel
  induction fuel with
  | zero =>
    intro g retN at_ k hat hk vs hw hu
    cases hg : p[g]? with
    | none => exact ⟨[], vs, by simp [funcAt, hg], hw, Mono.refl vs⟩
    | some fn =>
      cases hb : fn.body with
      | none => exact ⟨[], vs, by simp [funcAt, hg, hb], hw, Mono.refl vs⟩
      | some body =>
        simp only [funcAt, hg, hb]
        have hat' : at_ < nres p g := by rcases hat with h | h; exact h; simp [hg] at h
        have hlen : g < (core p).length := by
          rw [core_length]; exact (List.getElem?_eq_some_iff.mp hg).1
        have hn : fn.results.length = Resolver.nres (core p) g := by rw [nres_core]; simp [nres, hg]
        obtain ⟨seen, vs', hv, hw', hm', hs'⟩ :=
          visited_spec (core p) vs g at_ hw hlen (by rw [nres_core]; exact hat')
        simp only [hn, hv]
        cases seen with
        | true => exact ⟨[], vs', rfl, hw', hm'⟩
        | false => have := hs' rfl; omega
  | succ n ih =>
    intro g retN at_ k hat hk vs hw hu
    cases hg : p[g]? with
    | none => exact ⟨[], vs, by simp [funcAt, hg], hw, Mono.refl vs⟩
    | some fn =>
      cases hb : fn.body with
      | none => exact ⟨[], vs, by simp [funcAt, hg, hb], hw, Mono.refl vs⟩
      | some body =>
        simp only [funcAt, hg, hb]
        have hat' : at_ < nres p g := by rcases hat with h | h; exact h; simp [hg] at h
        have hlen : g < (core p).length := by
          rw [core_length]; exact (List.getElem?_eq_some_iff.mp hg).1
        have hn : fn.results.length = Resolver.nres (core p) g := by rw [nres_core]; simp [nres, hg]
        obtain ⟨seen, vs', hv, hw', hm', hs'⟩ :=
          visited_spec (core p) vs g at_ hw hlen (by rw [nres_core]; exact hat')
        simp only [hn, hv]
        cases seen with
        | true => exact ⟨[], vs', rfl, hw', hm'⟩
        | false =>
          have hlt := hs' rfl
          simp only [Bool.false_eq_true, if_false]
          obtain ⟨o, vs2, h2, hw2, hm2⟩ :=
            stmtsAt_ok p n (funcAt p (n + 1)) ih retN fn body at_ k (hk.le (Nat.le_succ n)) body vs' hw' (by omega)
          exact ⟨o, vs2, h2, hw2, hm'.trans hm2⟩

theorem collect_ok (p : Prog) (B : Nat) : KOK p B collect :=
  fun _ vs hw _ => ⟨_, vs, rfl, hw, Mono.refl vs⟩

theorem resultsOfAux_shape (p : Prog) (g : Nat) (fn : Func)
    (ats : List Nat) (hats : ∀ a ∈ ats, a < nres p g) :
    ∀ (vs : Visits) (acc : List (List Res)), WFV (core p) vs → (∀ r ∈ acc, r ≠ []) →
      ∃ rs, resultsOfAux p ((Resolver.keys (core p)).length + 1) g fn ats vs acc = some rs ∧
        rs.length = acc.length + ats.length ∧ ∀ r ∈ rs, r ≠ [] := by
  induction ats with
  | nil => intro vs acc _ hacc; exact ⟨acc, rfl, by simp, hacc⟩
  | cons a ats ih =>
    intro vs acc hw hacc
    obtain ⟨out, vs', h1, hw', _⟩ :=
      funcAt_terminates p (Resolver.keys (core p)).length g fn.results.length a collect
        (Or.inl (hats a (by simp))) (collect_ok p _) vs hw (unv_le_keys (core p) vs)
    simp only [resultsOfAux, h1]
    obtain ⟨rs, h2, hlen, hne⟩ := ih (fun x hx => hats x (by simp [hx])) vs'
      (acc ++ [if out.isEmpty then [Res.ty (fn.results[a]?.getD [])] else out]) hw' (by
      intro r hr
      simp only [List.mem_append, List.mem_singleton] at hr
      rcases hr with hr | rfl
      · exact hacc r hr
      · split <;> simp_all)
    exact ⟨rs, h2, by simp at hlen ⊢; omega, hne⟩

/-- **C14 `shape`, extended language**: for every function of every program, `ResultsOf` returns
    (no unbounded recursion) exactly one non-empty list of alternatives per declared result. -/
theorem resultsOf_shape (p : Prog) (g : Nat) (hg : g < p.length) :
    ∃ rs, resultsOf p ((Resolver.keys (core p)).length + 1) g = some rs ∧
      rs.length = (p[g]).results.length ∧ ∀ r ∈ rs, r ≠ [] := by
  have hfn : p[g]? = some p[g] := List.getElem?_eq_getElem hg
  simp only [resultsOf, hfn]
  obtain ⟨rs, h, hlen, hne⟩ := resultsOfAux_shape p g p[g] (List.range (p[g]).results.length)
    (by intro a ha; simp [nres, hfn]; simpa using ha) [] [] (by intro f m h; simp at h) (by simp)
  exact ⟨rs, h, by simpa using hlen, hne⟩

#print axioms funcAt_terminates
#print axioms resultsOf_shape
end Gengo.Resolver2
