import Gengo.Model.Sprintf
namespace Gengo.Sprintf

/-- inverse of `Comment`: strip `// ` from every line -/
def joinLines : List Str → Str
  | [] => []
  | [l] => l
  | l :: ls => l ++ '\n' :: joinLines ls

theorem splitLines_join (cur : Str) (v : Str) :
    joinLines (splitLines v cur) = cur.reverse ++ v := by
  induction v generalizing cur with
  | nil => simp [splitLines, joinLines]
  | cons c cs ih =>
    simp only [splitLines]
    by_cases hc : c = '\n'
    · subst hc
      simp only [show (('\n' : Char) == '\n') = true from rfl, if_true]
      have := ih []
      cases hs : splitLines cs [] with
      | nil =>
        -- splitLines never returns the empty list
        exfalso
        clear this ih
        have : ∀ (l cur : Str), splitLines l cur ≠ [] := by
          intro l
          induction l with
          | nil => intro cur; simp [splitLines]
          | cons a as ih2 => intro cur; simp only [splitLines]; split <;> simp [ih2]
        exact this cs [] hs
      | cons l ls =>
        rw [hs] at this
        simp only [joinLines]
        simp at this
        rw [this]
    · have hc' : (c == '\n') = false := by simp [hc]
      simp only [hc', Bool.false_eq_true, if_false]
      rw [ih (c :: cur)]
      simp

/-- C09 `comment_roundtrip`: `Comment` renders each line of its text as a `// ` line — splitting the
    text into lines loses nothing -/
theorem lines_roundtrip (v : Str) : joinLines (splitLines v []) = v := by
  simpa using splitLines_join [] v

/-- every rendered line starts with `// ` and the lines are the text's lines, in order -/
theorem comment_lines (v : Str) (hv : v ≠ []) :
    comment v = (((splitLines v []).map fun l => "// ".toList ++ l).intersperse ['\n']).flatten := by
  unfold comment
  have : v.isEmpty = false := by cases v <;> simp_all
  simp [this]

end Gengo.Sprintf
