import Gengo.Props.C16a
namespace Gengo.RuntimeDoc

/-! ### C16: the fuel of `runtimeDoc` is no restriction for acyclic embedding -/

theorem findSome?_ext {α β : Type} {l : List α} {f g : α → Option β} (h : ∀ x ∈ l, f x = g x) :
    l.findSome? f = l.findSome? g := by
  induction l with
  | nil => rfl
  | cons x xs ih =>
    simp only [List.findSome?_cons, h x (List.mem_cons_self ..)]
    rw [ih fun y hy => h y (List.mem_cons_of_mem _ hy)]

/-- a promoted method's owner lies strictly below: its rank is bounded like the frontier's -/
theorem promotedOwner_rank (p : Pkg) (rank : Nat → Nat)
    (hacyc : ∀ id, ∀ t ∈ embeddedTargets p id, rank t < rank id) (r : Nat) :
    ∀ fuel frontier o, (∀ x ∈ frontier, rank x < r) → promotedOwner p fuel frontier = some o → rank o < r := by
  intro fuel
  induction fuel with
  | zero => intro frontier o _ h; simp [promotedOwner] at h
  | succ fuel ih =>
    intro frontier o hf h
    simp only [promotedOwner] at h
    split at h
    · rename_i o' ho
      cases h
      have : o ∈ frontier.filter fun id => (p[id]?.map covered).getD false := by rw [ho]; simp
      exact hf o (List.mem_filter.mp this).1
    · cases h
    · split at h
      · cases h
      · refine ih _ o ?_ h
        intro y hy
        obtain ⟨x, hx, hyx⟩ := List.mem_flatMap.mp hy
        exact Nat.lt_trans (hacyc x y hyx) (hf x hx)

theorem embeds_target (ft : Bool) (p : Pkg) (id : Nat) (t : TypeD) (fields : List Field)
    (ht : p[id]? = some t) (hk : t.kind = .struct fields) (e : Option Nat × Str) (he : e ∈ embeds ft fields)
    (tid : Nat) (h1 : e.1 = some tid) : tid ∈ embeddedTargets p id := by
  simp only [embeddedTargets, ht, hk]
  unfold embeds at he
  obtain ⟨f, hf, hfe⟩ := List.mem_filterMap.mp he
  split at hfe
  · rename_i hc
    cases hfe
    simp only [Bool.and_eq_true] at hc
    exact List.mem_filterMap.mpr ⟨f, hf, by simp only [hc.1, if_true]; exact h1⟩
  · cases hfe

/-- **fuel adequacy**: with any rank function that decreases along same-package embedding (one
    exists iff embedding is acyclic, which Go's type checker enforces for by-value embedding and
    which the domain assumes for pointers), every amount of fuel above the rank gives the same
    answer.  So `runtimeDoc … fuel` with `fuel > rank id` *is* the generated method's result. -/
theorem runtimeDoc_fuel_stable (ft fs : Bool) (p : Pkg) (rank : Nat → Nat)
    (hacyc : ∀ id, ∀ t ∈ embeddedTargets p id, rank t < rank id) :
    ∀ fuel id names, rank id < fuel →
      runtimeDoc ft fs p fuel id names = runtimeDoc ft fs p (fuel + 1) id names := by
  intro fuel
  induction fuel with
  | zero => intro id names h; omega
  | succ fuel ih =>
    intro id names h
    rw [runtimeDoc, runtimeDoc]
    cases ht : p[id]? with
    | none => rfl
    | some t =>
      simp only
      cases hc : covered t with
      | false =>
        simp only [Bool.not_false, if_true]
        cases ho : promotedOwner p (p.length + 1) (embeddedTargets p id) with
        | none => rfl
        | some o =>
          simp only
          have := promotedOwner_rank p rank hacyc (rank id) _ _ o (fun x hx => hacyc id x hx) ho
          exact ih o names (by omega)
      | true =>
        simp only [Bool.not_true, Bool.false_eq_true, if_false]
        cases hk : t.kind with
        | iface => rfl
        | scalar => rfl
        | struct fields =>
          simp only
          cases names with
          | nil => rfl
          | cons n rest =>
            simp only
            cases hl : (cases ft fields).lookup n with
            | some d => rfl
            | none =>
              simp only
              apply findSome?_ext
              intro e he
              cases h1 : e.1 with
              | none => rfl
              | some tid =>
                simp only
                have := hacyc id tid (embeds_target ft p id t fields ht hk e he tid h1)
                rw [ih tid (n :: rest) (by omega)]

/-- any two sufficient amounts of fuel agree -/
theorem runtimeDoc_fuel_irrelevant (ft fs : Bool) (p : Pkg) (rank : Nat → Nat)
    (hacyc : ∀ id, ∀ t ∈ embeddedTargets p id, rank t < rank id) (id : Nat) (names : List Str) :
    ∀ k, runtimeDoc ft fs p (rank id + 1 + k) id names = runtimeDoc ft fs p (rank id + 1) id names := by
  intro k
  induction k with
  | zero => rfl
  | succ k ih =>
    rw [← ih]
    exact (runtimeDoc_fuel_stable ft fs p rank hacyc (rank id + 1 + k) id names (by omega)).symm

/-- the form the driver uses: the harness presents the declarations in a topological order of
    embedding (a type only embeds types listed before it — a decidable condition on the encoded
    package, and one every acyclic package can be brought into), so `rank := id` works and the
    driver's fuel `p.length + 2` — like any larger amount — gives *the* answer for every declared type -/
theorem runtimeDoc_driver_fuel (ft fs : Bool) (p : Pkg)
    (htopo : ∀ id, ∀ t ∈ embeddedTargets p id, t < id) (id : Nat) (hid : id < p.length) (names : List Str) (k : Nat) :
    runtimeDoc ft fs p (p.length + 2 + k) id names = runtimeDoc ft fs p (id + 1) id names := by
  have h := runtimeDoc_fuel_irrelevant ft fs p (fun i => i) htopo id names (p.length + 1 + k - id)
  have e : id + 1 + (p.length + 1 + k - id) = p.length + 2 + k := by omega
  rw [e] at h
  exact h

#print axioms runtimeDoc_fuel_stable
end Gengo.RuntimeDoc
