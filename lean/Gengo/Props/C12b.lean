import Gengo.Model.Layout
namespace Gengo.Layout

/-- pinned code: the trailing comment of the previous line is reported as documentation (F11) -/
example :
    let rows := [Row.decl 1 (some ['x']), Row.decl 1 none]
    docAt (build false rows 1 ⟨[], []⟩) 2 = [['x']] := by decide

/-- repaired code on the same layout -/
example :
    let rows := [Row.decl 1 (some ['x']), Row.decl 1 none]
    docAt (build true rows 1 ⟨[], []⟩) 2 = [] ∧ commentAt (build true rows 1 ⟨[], []⟩) 1 = [['x']] := by decide

theorem lookup_append_none {m : List (Nat × List Str)} {k k' : Nat} {v : List Str} (h : k' ≠ k) :
    (m ++ [(k, v)]).lookup k' = m.lookup k' := by
  induction m with
  | nil =>
    have : (k' == k) = false := by simp [h]
    simp [List.lookup, this]
  | cons x xs ih =>
    obtain ⟨a, b⟩ := x
    simp only [List.cons_append, List.lookup]
    cases k' == a <;> simp [ih]

theorem lookup_append_self {m : List (Nat × List Str)} {k : Nat} {v : List Str} (h : m.lookup k = none) :
    (m ++ [(k, v)]).lookup k = some v := by
  induction m with
  | nil => simp [List.lookup]
  | cons x xs ih =>
    obtain ⟨a, b⟩ := x
    simp only [List.cons_append, List.lookup] at h ⊢
    cases hka : k == a with
    | true => simp [hka] at h
    | false => simp only [hka] at h ⊢; exact ih h

theorem lookup_put_ne (m : List (Nat × List Str)) (k k' : Nat) (v : List Str) (h : k' ≠ k) :
    (put m k v).lookup k' = m.lookup k' := by
  unfold put; split
  · rfl
  · exact lookup_append_none h

theorem lookup_put_self (m : List (Nat × List Str)) (k : Nat) (v : List Str) (h : m.lookup k = none) :
    (put m k v).lookup k = some v := by
  unfold put; simp [h, lookup_append_self h]

theorem afterDecl_lead (idx : Idx) (ln h : Nat) (tr : Option Str) :
    (afterDecl true idx ln h tr).lead = idx.lead := by cases tr <;> simp [afterDecl]

theorem afterDecl_trail (idx : Idx) (ln h : Nat) (tr : Option Str) :
    (afterDecl true idx ln h tr).trail = put idx.trail ln ((tr.map ([·])).getD []) := by
  cases tr <;> simp [afterDecl]

def WF (rows : List Row) : Prop := ∀ r ∈ rows, WFRow r

/-- frame: rows laid out from line `ln` on never change what is recorded for earlier lines -/
theorem build_frame (rows : List Row) (hw : WF rows) :
    ∀ (ln : Nat) (idx : Idx) (k : Nat), k < ln →
      (build true rows ln idx).lead.lookup k = idx.lead.lookup k ∧
      (build true rows ln idx).trail.lookup k = idx.trail.lookup k := by
  induction rows with
  | nil => intro ln idx k _; simp [build]
  | cons r rs ih =>
    have hw' : WF rs := fun x hx => hw x (by simp [hx])
    have hr : WFRow r := hw r (by simp)
    intro ln idx k hk
    cases r with
    | blank => simp only [build]; exact ih hw' _ _ _ (by omega)
    | comment ls =>
      have hls : 1 ≤ ls.length := by
        cases ls with
        | nil => exact absurd rfl hr
        | cons _ _ => simp
      simp only [build]
      split
      · have := ih hw' (ln + ls.length) { idx with lead := put idx.lead (ln + ls.length - 1) ls } k (by omega)
        rw [this.1, this.2]
        exact ⟨lookup_put_ne _ _ _ _ (by omega), rfl⟩
      · exact ih hw' _ _ _ (by omega)
    | decl h tr =>
      have hh : 1 ≤ h := hr
      simp only [build]
      have := ih hw' (ln + h) (afterDecl true idx ln h tr) k (by omega)
      rw [this.1, this.2, afterDecl_lead, afterDecl_trail]
      exact ⟨rfl, lookup_put_ne _ _ _ _ (by omega)⟩

/-- nothing is recorded yet for lines from `ln` on -/
def Fresh (idx : Idx) (ln : Nat) : Prop :=
  ∀ k, ln ≤ k → idx.lead.lookup k = none ∧ idx.trail.lookup k = none

def declHead : List Row → Bool
  | .decl _ _ :: _ => true
  | _ => false

theorem doc_correct_aux (rows : List Row) (hw : WF rows) :
    ∀ (ln : Nat) (idx : Idx) (above : Option (List Str)), 1 ≤ ln → Fresh idx ln →
      (declHead rows = true → (idx.lead.lookup (ln - 1)).getD [] = above.getD []) →
      ∀ e ∈ truth rows ln above,
        docAt (build true rows ln idx) e.1 = e.2.1 ∧ commentAt (build true rows ln idx) e.1 = e.2.2 := by
  induction rows with
  | nil => intro ln idx above _ _ _ e he; simp [truth] at he
  | cons r rs ih =>
    have hw' : WF rs := fun x hx => hw x (by simp [hx])
    have hr : WFRow r := hw r (by simp)
    intro ln idx above hln hfresh hlink e he
    cases r with
    | blank =>
      simp only [truth, build] at he ⊢
      apply ih hw' (ln + 1) idx none (by omega) (fun k hk => hfresh k (by omega)) _ e he
      intro _
      simp [(hfresh ln (by omega)).1]
    | comment ls =>
      have hls : 1 ≤ ls.length := by
        cases ls with
        | nil => exact absurd rfl hr
        | cons _ _ => simp
      simp only [truth] at he
      simp only [build]
      split
      · rename_i h' tr' rs'
        apply ih hw' (ln + ls.length) _ (some ls) (by omega) _ _ e he
        · intro k hk
          refine ⟨?_, (hfresh k (by omega)).2⟩
          simp only
          rw [lookup_put_ne _ _ _ _ (by omega)]
          exact (hfresh k (by omega)).1
        · intro _
          simp only
          rw [lookup_put_self _ _ _ (hfresh _ (by omega)).1]
      · rename_i hnd
        apply ih hw' (ln + ls.length) idx (some ls) (by omega) (fun k hk => hfresh k (by omega)) _ e he
        intro hd
        cases rs with
        | nil => simp [declHead] at hd
        | cons r' rs' =>
          cases r' with
          | decl h' tr' => exact absurd rfl (hnd h' tr' rs')
          | blank => simp [declHead] at hd
          | comment _ => simp [declHead] at hd
    | decl h tr =>
      have hh : 1 ≤ h := hr
      simp only [truth, List.mem_cons] at he
      simp only [build]
      generalize hidx1 : afterDecl true idx ln h tr = idx1
      have hlead : idx1.lead = idx.lead := by rw [← hidx1, afterDecl_lead]
      have htrail : idx1.trail = put idx.trail ln ((tr.map ([·])).getD []) := by
        rw [← hidx1, afterDecl_trail]
      rcases he with rfl | he
      · -- this declaration
        have hf := build_frame rs hw' (ln + h) idx1
        constructor
        · simp only [docAt]
          rw [(hf (ln - 1) (by omega)).1, hlead]
          exact hlink rfl
        · simp only [commentAt]
          rw [(hf ln (by omega)).2, htrail, lookup_put_self _ _ _ (hfresh ln (by omega)).2]
      · apply ih hw' (ln + h) idx1 none (by omega) _ _ e he
        · intro k hk
          rw [hlead, htrail]
          exact ⟨(hfresh k (by omega)).1, by
            rw [lookup_put_ne _ _ _ _ (by omega)]; exact (hfresh k (by omega)).2⟩
        · intro _
          rw [hlead]
          simp [(hfresh (ln + h - 1) (by omega)).1]

/-- C12 `doc_correct` / `comment_correct` / `no_trailing_as_doc` (repaired code): in every
    layout — any number of declarations, any heights, any mix of documented, undocumented,
    detached and trailing comments — every declaration gets exactly the comment group that ends
    on the line directly above it (nothing if there is none) and exactly its own trailing
    comment. -/
theorem doc_correct (rows : List Row) (hw : WF rows) :
    ∀ e ∈ truth rows 1 none,
      docAt (build true rows 1 ⟨[], []⟩) e.1 = e.2.1 ∧ commentAt (build true rows 1 ⟨[], []⟩) e.1 = e.2.2 :=
  doc_correct_aux rows hw 1 ⟨[], []⟩ none (by omega) (by intro k _; simp) (by intro _; simp)

/-- **C12, composed**: what `Doc` / `Comment` return for every declaration of every layout — the tag
    extraction of (the `go:`-filtered lines of) the group that ends directly above it, and the
    filtered lines of its own trailing comment; never the previous line's trailing comment -/
theorem docOf_correct (rows : List Row) (hw : WF rows) :
    ∀ e ∈ truth rows 1 none,
      docOf (build true rows 1 ⟨[], []⟩) e.1 = Tags.extract Gengo.Gen.defaultMarkers (commentLines e.2.1) ∧
      commentOf (build true rows 1 ⟨[], []⟩) e.1 = commentLines e.2.2 := by
  intro e he
  obtain ⟨h1, h2⟩ := doc_correct rows hw e he
  simp [docOf, commentOf, h1, h2]

#print axioms doc_correct
#print axioms docOf_correct
end Gengo.Layout
