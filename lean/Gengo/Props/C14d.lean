import Gengo.Model.Resolver
namespace Gengo.Resolver
/-!
### C14 `stable`: the `funcResults` cache (`sync.Map`) in front of the resolver

`ResultsOf` stores what the resolver computed under the `*types.Func` and returns the stored
value afterwards.  As a state machine over any sequence of calls (every linearisation of
concurrent callers): each call returns the pure resolver's value, so repeated calls agree.
-/
abbrev RCache := List (Nat × Option (List (List Res)))

def cachedCall (f : Nat → Option (List (List Res))) (c : RCache) (k : Nat) : RCache × Option (List (List Res)) :=
  match c.lookup k with
  | some v => (c, v)
  | none => ((k, f k) :: c, f k)

def RSound (f : Nat → Option (List (List Res))) (c : RCache) : Prop := ∀ k v, c.lookup k = some v → v = f k

theorem cachedCall_sound (f) (c : RCache) (k : Nat) (h : RSound f c) :
    RSound f (cachedCall f c k).1 ∧ (cachedCall f c k).2 = f k := by
  unfold cachedCall
  cases hl : c.lookup k with
  | some v => exact ⟨h, h k v hl⟩
  | none =>
    refine ⟨?_, rfl⟩
    intro k' v hk
    simp only [List.lookup] at hk
    by_cases hks : k' = k
    · subst hks; simp at hk; exact hk.symm
    · have : (k' == k) = false := by simp [hks]
      simp only [this] at hk
      exact h k' v hk

theorem stable (p : Prog) (fuel : Nat) (calls : List Nat) (i : Nat) (hi : i < calls.length) :
    ((calls.take i).foldl (fun c k => (cachedCall (resultsOf p true fuel) c k).1) [] |>
      fun c => (cachedCall (resultsOf p true fuel) c calls[i]).2) = resultsOf p true fuel calls[i] := by
  have hs : ∀ (pre : List Nat) (c : RCache), RSound (resultsOf p true fuel) c →
      RSound (resultsOf p true fuel) (pre.foldl (fun c k => (cachedCall (resultsOf p true fuel) c k).1) c) := by
    intro pre
    induction pre with
    | nil => intro c h; exact h
    | cons x xs ih => intro c h; exact ih _ (cachedCall_sound _ c x h).1
  exact (cachedCall_sound _ _ _ (hs _ [] (by intro k v h; simp at h))).2

#print axioms stable
end Gengo.Resolver
