import Gengo.Model.Loader
namespace Gengo.Locate
/-!
### C13 `sourceDir_correct`, `locate_correct`

Paths as segment lists (the harness compares with `filepath.Clean`ed strings, so `Join`'s
cleaning is the identity on them).  `SourceDir` (package.go:246-267):
`Module().Dir` for the module's root package, else `Join(Module().Dir, PkgPath[len(Module().Path):])`;
`""` without a module.  `LocateInPackage` (load.go:149-159): `range u.pkgs` — a Go map — and the
first package whose `SourceDir()` equals the file's directory.
-/
theorem sourceDir_correct (mp md rel : Path) :
    sourceDir { pkgPath := mp ++ rel, mod := some (mp, md) } = some (md ++ rel) := by
  unfold sourceDir
  by_cases h : rel = []
  · subst h; simp
  · have : mp ++ rel ≠ mp := by
      intro e
      have := congrArg List.length e
      simp at this
      exact h this
    simp [this]

theorem sourceDir_root (mp md : Path) : sourceDir { pkgPath := mp, mod := some (mp, md) } = some md := by
  simpa using sourceDir_correct mp md []

/-- **`locate_correct`**: when the module packages of the universe lie in pairwise distinct
    directories, the package found for a file in `p`'s directory is `p` — for every iteration
    order of the package map (the statement quantifies over the list). -/
theorem locate_correct (pkgs : List P) (p : P) (dir : Path) (hp : p ∈ pkgs) (hdir : sourceDir p = some dir)
    (hd : ∀ q ∈ pkgs, sourceDir q = some dir → q = p) : locate pkgs dir = some p := by
  unfold locate
  induction pkgs with
  | nil => simp at hp
  | cons x xs ih =>
    simp only [List.find?_cons]
    cases hx : (sourceDir x == some dir) with
    | true =>
      simp only
      have : sourceDir x = some dir := by simpa using hx
      rw [hd x (List.mem_cons_self ..) this]
    | false =>
      simp only
      rcases List.mem_cons.mp hp with rfl | hp'
      · simp [hdir] at hx
      · exact ih hp' fun q hq => hd q (List.mem_cons_of_mem _ hq)

/-- and a directory no package lives in is answered with `nil` -/
theorem locate_none (pkgs : List P) (dir : Path) (h : ∀ q ∈ pkgs, sourceDir q ≠ some dir) : locate pkgs dir = none := by
  unfold locate
  rw [List.find?_eq_none]
  intro q hq
  simpa using h q hq

/-- a package without module information can never be located (its `SourceDir()` is `""`) -/
example (dir : Path) : locate [{ pkgPath := [['f','m','t']], mod := none }] dir = none := by
  simp [locate, sourceDir]

#print axioms locate_correct
end Gengo.Locate
