namespace Gengo.Resolver
/-!
### C14 `closure_index_safe`

`callExprResultAt` (function_result_resolver.go:337-352): for a call whose result at the asked
position is `error`, every function-literal argument is inspected — for each result index of the
*literal's* signature, a tuple is indexed to ask whether that result is `error`.  The pinned code
indexes the *callee's* result tuple (`rets.At(inlineRetAt)`), the repaired code the literal's own
(`inlineFnRets.At(inlineRetAt)`).  `types.Tuple.At` panics out of range.  The core language of
`Model/Resolver` has no closures; this is the index arithmetic of that one loop on its own.
-/

/-- the (index, length of the indexed tuple) pairs the loop evaluates, for a callee with
    `calleeN` results and a literal with `closureN` results -/
def closureIdx (fixed : Bool) (calleeN closureN : Nat) : List (Nat × Nat) :=
  (List.range closureN).map fun i => (i, if fixed then closureN else calleeN)

/-- repaired code: every index is within the tuple it indexes, for all signatures -/
theorem closure_index_safe (calleeN closureN : Nat) : ∀ x ∈ closureIdx true calleeN closureN, x.1 < x.2 := by
  intro x hx
  simp only [closureIdx, List.mem_map, List.mem_range] at hx
  obtain ⟨i, hi, rfl⟩ := hx
  simpa using hi

/-- pinned code: safe exactly when the literal has no more results than the callee -/
theorem closure_index_pinned (calleeN closureN : Nat) :
    (∀ x ∈ closureIdx false calleeN closureN, x.1 < x.2) ↔ closureN ≤ calleeN := by
  simp only [closureIdx, List.mem_map, List.mem_range]
  constructor
  · intro h
    cases closureN with
    | zero => omega
    | succ k =>
      have := h (k, calleeN) ⟨k, by omega, by simp⟩
      simp at this; omega
  · rintro h x ⟨i, hi, rfl⟩
    simp; omega

/-- F13 (second half): `func f() error { return g(func() (int, error) { … }) }` with
    `func g(func() (int, error)) error` — callee 1 result, literal 2: index 1 of a 1-tuple -/
example : ∃ x ∈ closureIdx false 1 2, ¬ x.1 < x.2 := by decide

#print axioms closure_index_pinned
end Gengo.Resolver
