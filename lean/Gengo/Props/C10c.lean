import Gengo.Model.Eval
import Gengo.Props.C10perm
import Gengo.Props.Order
namespace Gengo.Eval
open Gengo.Dumper

theorem show_empty (e : Expr) (h : e.show = []) : e = .raw [] := by
  cases e with
  | raw s => simp [Expr.show] at h; rw [h]
  | addr e => simp [Expr.show] at h
  | closure ty e => simp [Expr.show] at h
  | comp ty es => simp [Expr.show] at h

def names (fts : List FieldTy) : List Str := fts.map fun | .mk n _ _ => n

mutual
  /-- well-typed values of the C10 domain -/
  def WF : Val → Ty → Prop
    | .leaf k ty lit e, .scalar text z =>
      ty = text ∧ lit ≠ [] ∧ (e = true → lit = z) ∧
      (match k with | .basic n => n ≠ [] | .string => True | _ => False)
    | .nilPtr, .ptr _ => True
    | .ptr v, .ptr t =>
      WF v t ∧ (match v with | .leaf .. => True | .struct .. => True | .map .. => True | .seq .. => True | _ => False)
    | .struct ty fs, .struct text fts => ty = text ∧ text ≠ [] ∧ WFFields fs fts ∧ (names fts).Nodup
    | .map ty es, .map text k v =>
      ty = text ∧ text ≠ [] ∧ (match k with | .scalar .. => True | _ => False) ∧ WFEntries es k v ∧
      -- the keys print to distinct literals (they are distinct keys of one Go map); the entries may
      -- be presented in any order
      ((mapEntries true false es).map (·.1)).Nodup
    | .seq ty es, .seq text t => ty = text ∧ text ≠ [] ∧ WFList es t
    | _, _ => False
  def WFFields : List (Str × Bool × Val) → List FieldTy → Prop
    | [], [] => True
    | (n, ex, v) :: fs, .mk name ex' t :: fts =>
      n = name ∧ ex = ex' ∧ n ≠ [] ∧ WF v t ∧ (ex = false → denote v t = some (zero t)) ∧ WFFields fs fts
    | _, _ => False
  def WFEntries : List (Val × Val) → Ty → Ty → Prop
    | [], _, _ => True
    | (k, v) :: es, kt, vt => WF k kt ∧ WF v vt ∧ WFEntries es kt vt
  def WFList : List Val → Ty → Prop
    | [], _ => True
    | v :: vs, t => WF v t ∧ WFList vs t
end

/-- an empty (zero) value denotes the zero value of its type -/
theorem empty_denote_zero (v : Val) (t : Ty) (hw : WF v t) (he : v.isEmpty = true) :
    denote v t = some (zero t) := by
  cases v with
  | leaf k ty lit e =>
    cases t with
    | scalar text z =>
      simp only [WF] at hw
      simp only [Val.isEmpty] at he
      have hz := hw.2.2.1 he
      subst hz
      simp [denote, zero, hw.1, hw.2.1]
    | _ => simp [WF] at hw
  | nilPtr => cases t <;> simp_all [WF, denote, zero]
  | ptr v => simp [Val.isEmpty] at he
  | struct ty fs => simp [Val.isEmpty] at he
  | map ty es =>
    cases t with
    | map text k v =>
      simp only [Val.isEmpty, List.isEmpty_iff] at he
      subst he
      simp only [WF] at hw
      simp [denote, denoteEntries, zero, hw.1, canon, sortBy]
    | _ => simp [WF] at hw
  | seq ty es =>
    cases t with
    | seq text t' =>
      simp only [Val.isEmpty, List.isEmpty_iff] at he
      subst he
      simp only [WF] at hw
      simp [denote, denoteList, zero, hw.1]
    | _ => simp [WF] at hw
  | iface => cases t <;> simp [WF] at hw

/-- keys of the printed field list are names of the struct's fields -/
theorem structFields_keys (fs : List (Str × Bool × Val)) :
    ∀ x ∈ structFields true fs, ∃ f ∈ fs, x.1 = some f.1 := by
  induction fs with
  | nil => simp [structFields]
  | cons f rest ih =>
    obtain ⟨n, ex, v⟩ := f
    intro x hx
    simp only [structFields] at hx
    split at hx
    · split at hx
      · obtain ⟨g, hg, h⟩ := ih x hx; exact ⟨g, by simp [hg], h⟩
      · simp only [List.mem_cons] at hx
        rcases hx with rfl | hx
        · exact ⟨(n, ex, v), by simp, rfl⟩
        · obtain ⟨g, hg, h⟩ := ih x hx; exact ⟨g, by simp [hg], h⟩
    · obtain ⟨g, hg, h⟩ := ih x hx; exact ⟨g, by simp [hg], h⟩

/-- skipping a field whose name does not occur among the remaining keys yields its zero value -/
theorem evalFields_skip (name : Str) (ex : Bool) (t : Ty) (fts : List FieldTy)
    (es : List (Option Str × Expr)) (h : ∀ x ∈ es, x.1 ≠ some name) :
    evalFields (.mk name ex t :: fts) es = (evalFields fts es).map (zero t :: ·) := by
  cases es with
  | nil => simp [evalFields]
  | cons x xs =>
    obtain ⟨k, e⟩ := x
    have : k ≠ some name := h (k, e) (by simp)
    simp [evalFields, this]

theorem wfFields_names (fs : List (Str × Bool × Val)) (fts : List FieldTy) (h : WFFields fs fts) :
    fs.map (·.1) = names fts := by
  induction fs generalizing fts with
  | nil => cases fts <;> simp_all [WFFields, names]
  | cons f rest ih =>
    obtain ⟨n, ex, v⟩ := f
    cases fts with
    | nil => simp [WFFields] at h
    | cons ft fts' =>
      obtain ⟨name, ex', t⟩ := ft
      simp only [WFFields] at h
      have := ih fts' h.2.2.2.2.2
      simp only [names] at this ⊢
      simp [h.1, this]


theorem raw_nil_ne : ("nil".toList : Str) ≠ [] := by decide

mutual
  /-- C10 `eval_valueLit` (repaired printer): the printed expression, evaluated at the value's
      type, is the value (nil/empty identified, omitted fields zero).  With `SubValue` on the only
      other outcome is the hole, and then the value is the zero value of its type. -/
  theorem eval_valueLit : (v : Val) → (t : Ty) → WF v t → ∀ sub,
      (valueLit true sub v = .raw [] ∧ sub = true ∧ denote v t = some (zero t)) ∨
      (valueLit true sub v ≠ .raw [] ∧ eval (valueLit true sub v) t = denote v t)
    | .leaf k ty lit e, t, hw, sub => by
      cases t with
      | scalar text z =>
        simp only [WF] at hw
        right
        refine ⟨by simp [valueLit, hw.2.1], ?_⟩
        have : lit.isEmpty = false := by cases lit <;> simp_all
        simp [valueLit, eval, denote, hw.1, hw.2.1, this]
      | _ => simp [WF] at hw
    | .nilPtr, t, hw, sub => by
      cases t with
      | ptr t' => right; exact ⟨by simp [valueLit], by simp [valueLit, eval, denote]⟩
      | _ => simp [WF] at hw
    | .iface, t, hw, _ => by cases t <;> simp [WF] at hw
    | .ptr elem, t, hw, sub => by
      cases t with
      | ptr t' =>
        simp only [WF] at hw
        obtain ⟨hwe, hshape⟩ := hw
        right
        cases elem with
        | leaf k ty lit e =>
          cases t' with
          | scalar text z =>
            simp only [WF] at hwe
            obtain ⟨h1, h2, _, hk⟩ := hwe
            have hl : lit.isEmpty = false := by cases lit <;> simp_all
            cases k <;> simp_all [valueLit, Val.kind, Val.tyText, eval, denote]
          | _ => simp [WF] at hwe
        | struct ty fs =>
          have ih := eval_valueLit (.struct ty fs) t' hwe false
          rcases ih with ⟨_, hs, _⟩ | ⟨hne, hev⟩
          · cases hs
          · have hv : valueLit true false (Val.struct ty fs) = Expr.comp ty (structFields true fs) := by simp [valueLit]
            have hg : valueLit true sub (.ptr (Val.struct ty fs)) = .addr (.comp ty (structFields true fs)) := by
              simp [valueLit, Val.kind]
            rw [hg]; rw [hv] at hev
            exact ⟨by simp, by simp [eval, denote, hev]⟩
        | map ty es' =>
          have ih := eval_valueLit (.map ty es') t' hwe false
          rcases ih with ⟨_, hs, _⟩ | ⟨hne, hev⟩
          · cases hs
          · have hv : valueLit true false (Val.map ty es') = Expr.comp ty ((sortBy (·.1) (mapEntries true false es')).map fun kv => (some kv.1, kv.2)) := by simp [valueLit]
            have hg : valueLit true sub (.ptr (Val.map ty es')) = .addr (.comp ty ((sortBy (·.1) (mapEntries true false es')).map fun kv => (some kv.1, kv.2))) := by
              simp [valueLit, Val.kind]
            rw [hg]; rw [hv] at hev
            exact ⟨by simp, by simp [eval, denote, hev]⟩
        | seq ty es' =>
          have ih := eval_valueLit (.seq ty es') t' hwe false
          rcases ih with ⟨_, hs, _⟩ | ⟨hne, hev⟩
          · cases hs
          · have hv : valueLit true false (Val.seq ty es') = Expr.comp ty (seqElems true es') := by simp [valueLit]
            have hg : valueLit true sub (.ptr (Val.seq ty es')) = .addr (.comp ty (seqElems true es')) := by
              simp [valueLit, Val.kind]
            rw [hg]; rw [hv] at hev
            exact ⟨by simp, by simp [eval, denote, hev]⟩
        | nilPtr => simp at hshape
        | ptr _ => simp at hshape
        | iface => simp at hshape
      | _ => simp [WF] at hw
    | .struct ty fs, t, hw, sub => by
      cases t with
      | struct text fts =>
        simp only [WF] at hw
        obtain ⟨hty, hne, hwf, hnd⟩ := hw
        have ⟨hf1, hf2⟩ := eval_fields fs fts hwf hnd
        simp only [valueLit]
        by_cases hc : (sub && (structFields true fs).isEmpty) = true
        · left
          simp only [Bool.and_eq_true, List.isEmpty_iff] at hc
          refine ⟨by simp [hc.1, hc.2], hc.1, ?_⟩
          simp [denote, hty, hf2 hc.2, zero]
        · right
          simp only [hc]
          refine ⟨by simp, ?_⟩
          simp [eval, denote, hty, hf1]
      | _ => simp [WF] at hw
    | .map ty es, t, hw, sub => by
      cases t with
      | map text kt vt =>
        simp only [WF] at hw
        obtain ⟨hty, hne, hk, hwe, hnd⟩ := hw
        right
        simp only [valueLit, if_true]
        refine ⟨by simp, ?_⟩
        have hperm : ((mapEntries true false es).map fun kv => ((some kv.1 : Option Str), kv.2)).Perm
            ((sortBy (·.1) (mapEntries true false es)).map fun kv => (some kv.1, kv.2)) := by
          unfold sortBy
          exact ((List.mergeSort_perm _ _).map _).symm
        have hkeys : (((mapEntries true false es).map fun kv => ((some kv.1 : Option Str), kv.2)).map
            fun x => x.1.getD []).Nodup := by
          simpa [List.map_map, Function.comp_def] using hnd
        have hc := evalEntries_canon_perm kt vt hperm hkeys
        rw [eval_entries es kt vt hk hwe] at hc
        simp only [eval, denote, hty, if_true]
        have h2 := congrArg (Option.map SV.map) hc
        simpa [Option.map_map, Function.comp_def] using h2
      | _ => simp [WF] at hw
    | .seq ty es, t, hw, sub => by
      cases t with
      | seq text t' =>
        simp only [WF] at hw
        obtain ⟨hty, hne, hwl⟩ := hw
        right
        simp only [valueLit]
        refine ⟨by simp, ?_⟩
        simp [eval, denote, hty, eval_elems es t' hwl]
      | _ => simp [WF] at hw
  theorem eval_fields : (fs : List (Str × Bool × Val)) → (fts : List FieldTy) → WFFields fs fts →
      (names fts).Nodup →
      evalFields fts (structFields true fs) = denoteFields fs fts ∧
      (structFields true fs = [] → denoteFields fs fts = some (zeros fts))
    | [], [], _, _ => by simp [structFields, evalFields, denoteFields, zeros]
    | [], _ :: _, h, _ => by simp [WFFields] at h
    | _ :: _, [], h, _ => by simp [WFFields] at h
    | (n, ex, v) :: rest, .mk name ex' t :: fts, h, hnd => by
      simp only [WFFields] at h
      obtain ⟨rfl, rfl, hn, hwv, hunexp, hrest⟩ := h
      have hnd' : (names fts).Nodup := by simp [names] at hnd ⊢; exact hnd.2
      have hnotin : n ∉ names fts := by simp [names] at hnd ⊢; exact hnd.1
      have ⟨ih1, ih2⟩ := eval_fields rest fts hrest hnd'
      -- keys of the remaining printed fields differ from `n`
      have hkeys : ∀ x ∈ structFields true rest, x.1 ≠ some n := by
        intro x hx hxe
        obtain ⟨g, hg, hgx⟩ := structFields_keys rest x hx
        rw [hxe] at hgx
        have : g.1 ∈ names fts := by rw [← wfFields_names rest fts hrest]; exact List.mem_map_of_mem hg
        simp at hgx; rw [← hgx] at this; exact hnotin this
      simp only [structFields]
      by_cases hc : (ex && !v.isEmpty) = true
      · simp only [hc, if_true]
        rcases eval_valueLit v t hwv true with ⟨hhole, _, hz⟩ | ⟨hne, hev⟩
        · -- the hole: field omitted, value is zero
          have hse : (valueLit true true v).show.isEmpty = true := by rw [hhole]; simp [Expr.show]
          simp only [hse, if_true]
          rw [evalFields_skip n ex t fts _ hkeys, ih1]
          refine ⟨by simp [denoteFields, hz]; cases denoteFields rest fts <;> rfl, ?_⟩
          intro he; simp [denoteFields, hz, ih2 he, zeros]
        · have hse : (valueLit true true v).show.isEmpty = false := by
            cases hs : (valueLit true true v).show with
            | nil => exact absurd (show_empty _ hs) hne
            | cons _ _ => rfl
          simp only [hse, Bool.false_eq_true, if_false]
          refine ⟨?_, by simp⟩
          simp only [evalFields, if_true, hev, ih1, denoteFields, and_self]
      · have hc' : (ex && !v.isEmpty) = false := by simpa using hc
        simp only [hc', Bool.false_eq_true, if_false]
        have hz : denote v t = some (zero t) := by
          cases hex : ex with
          | false => exact hunexp hex
          | true =>
            have : v.isEmpty = true := by simpa [hex] using hc
            exact empty_denote_zero v t hwv this
        rw [evalFields_skip n ex t fts _ hkeys, ih1]
        refine ⟨by simp [denoteFields, hz]; cases denoteFields rest fts <;> rfl, ?_⟩
        intro he; simp [denoteFields, hz, ih2 he, zeros]
  theorem eval_entries : (es : List (Val × Val)) → (kt vt : Ty) →
      (match kt with | .scalar .. => True | _ => False) → WFEntries es kt vt →
      evalEntries kt vt ((mapEntries true false es).map fun kv => (some kv.1, kv.2)) = denoteEntries es kt vt
    | [], _, _, _, _ => by simp [mapEntries, evalEntries, denoteEntries]
    | (k, v) :: rest, kt, vt, hk, hw => by
      simp only [WFEntries] at hw
      obtain ⟨hwk, hwv, hrest⟩ := hw
      have ih := eval_entries rest kt vt hk hrest
      cases kt with
      | scalar text z =>
        cases k with
        | leaf kk ty lit e =>
          simp only [WF] at hwk
          have hl : lit.isEmpty = false := by cases lit <;> simp_all
          rcases eval_valueLit v vt hwv false with ⟨_, hs, _⟩ | ⟨_, hev⟩
          · cases hs
          · simp only [mapEntries, List.map_cons, evalEntries, valueLit, Expr.show, hl, Bool.false_eq_true,
              if_false, hev, ih, denoteEntries, denote, hwk.1, hwk.2.1, ne_eq, not_false_eq_true, and_self, if_true]
            cases denote v vt <;> cases denoteEntries rest (.scalar text z) vt <;> simp
        | nilPtr => simp [WF] at hwk
        | ptr _ => simp [WF] at hwk
        | struct _ _ => simp [WF] at hwk
        | map _ _ => simp [WF] at hwk
        | seq _ _ => simp [WF] at hwk
        | iface => simp [WF] at hwk
      | _ => simp at hk
  theorem eval_elems : (es : List Val) → (t : Ty) → WFList es t →
      evalElems t (seqElems true es) = denoteList es t
    | [], _, _ => by simp [seqElems, evalElems, denoteList]
    | v :: rest, t, hw => by
      simp only [WFList] at hw
      have ih := eval_elems rest t hw.2
      rcases eval_valueLit v t hw.1 false with ⟨_, hs, _⟩ | ⟨_, hev⟩
      · cases hs
      · simp only [seqElems, evalElems, hev, ih, denoteList]
end

/-- C10, top level: what `snippet.Value(v)` prints evaluates, at the value's type, to the value -/
theorem eval_value (v : Val) (t : Ty) (hw : WF v t) : eval (valueLit true false v) t = denote v t := by
  rcases eval_valueLit v t hw false with ⟨_, hs, _⟩ | ⟨_, h⟩
  · cases hs
  · exact h

def tStr : Ty := .scalar ['s'] ['"', '"']
def tDur : Ty := .scalar ['D'] ['0']
/-- pinned printer (F9): `*string` does not compile, `*Duration` has the wrong pointee type -/
example : eval (valueLit false false (.ptr (.leaf .string ['s'] ['"','x','"'] false))) (.ptr tStr) = none := by
  simp [valueLit, Val.kind, eval, tStr]
example : eval (valueLit false false (.ptr (.leaf (.basic ['i']) ['D'] ['5'] false))) (.ptr tDur) = none := by
  simp [valueLit, Val.kind, eval, tDur]
/-- repaired printer on the same values -/
example : eval (valueLit true false (.ptr (.leaf .string ['s'] ['"','x','"'] false))) (.ptr tStr)
    = some (.ptr (.scalar ['"','x','"'])) := by
  simp [valueLit, Val.kind, Val.tyText, eval, tStr]
example : eval (valueLit true false (.ptr (.leaf (.basic ['i']) ['D'] ['5'] false))) (.ptr tDur)
    = some (.ptr (.scalar ['5'])) := by
  simp [valueLit, Val.kind, Val.tyText, eval, tDur]

#print axioms eval_valueLit
end Gengo.Eval
