namespace Gengo

/-- among `l.length + 1` values of an injective sequence one is missing from `l` -/
theorem exists_fresh {α : Type} [DecidableEq α] (l : List α) :
    ∀ (f : Nat → α), (∀ i j, f i = f j → i = j) → ∃ i, i ≤ l.length ∧ f i ∉ l := by
  induction l with
  | nil => intro f _; exact ⟨0, by simp, by simp⟩
  | cons a l ih =>
    intro f hf
    obtain ⟨i, hi, hfi⟩ := ih f hf
    by_cases hia : f i = a
    · -- skip index i
      let g : Nat → α := fun j => if j < i then f j else f (j + 1)
      have hg : ∀ j k, g j = g k → j = k := by
        intro j k h
        simp only [g] at h
        by_cases hj : j < i <;> by_cases hk : k < i <;> simp only [hj, hk, if_true, if_false] at h
        · exact hf _ _ h
        · have := hf _ _ h; omega
        · have := hf _ _ h; omega
        · have := hf _ _ h; omega
      obtain ⟨j, hj, hgj⟩ := ih g hg
      by_cases hji : j < i
      · refine ⟨j, by simp; omega, ?_⟩
        simp only [g, hji, if_true] at hgj
        simp only [List.mem_cons, not_or]
        refine ⟨?_, hgj⟩
        intro e
        have := hf j i (by rw [e, hia]); omega
      · refine ⟨j + 1, by simp; omega, ?_⟩
        simp only [g, hji, if_false] at hgj
        simp only [List.mem_cons, not_or]
        refine ⟨?_, hgj⟩
        intro e
        have := hf (j + 1) i (by rw [e, hia]); omega
    · exact ⟨i, by simp; omega, by simp [hia, hfi]⟩

#print axioms exists_fresh
end Gengo
