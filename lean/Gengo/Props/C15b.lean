import Gengo.Model.Namer
import Gengo.Props.C03b
namespace Gengo.TypeRef
open Gengo.Tracker

mutual
  /-- the tree with every package path forgotten -/
  def skeleton : TRef → TRef
    | .mk _ name args => .mk [] name (skeletons args)
  def skeletons : List TRef → List TRef
    | [] => []
    | a :: as => skeleton a :: skeletons as
end

mutual
  /-- foreign package paths mentioned in the tree -/
  def foreign (self : Str) : TRef → List Str
    | .mk pkg _ args => (if pkg.isEmpty || pkg = self then [] else [pkg]) ++ foreigns self args
  def foreigns (self : Str) : List TRef → List Str
    | [] => []
    | a :: as => foreign self a ++ foreigns self as
end

mutual
  /-- C15 `rewrite_shape`: the rewrite changes nothing but package paths — same names, same
      argument structure at every depth -/
  theorem rewrite_shape (c : Cfg) (self : Str) : (t : Tracker) → (r : TRef) →
      skeleton (rewrite c self t r).1 = skeleton r
    | t, .mk pkg name args => by
      simp only [rewrite, skeleton]
      rw [rewriteList_shape]
  theorem rewriteList_shape (c : Cfg) (self : Str) : (t : Tracker) → (rs : List TRef) →
      skeletons (rewriteList c self t rs).1 = skeletons rs
    | t, [] => by simp [rewriteList, skeletons]
    | t, a :: as => by
      simp only [rewriteList, skeletons]
      rw [rewrite_shape, rewriteList_shape]
end

/-- which paths are bound -/
def Bound (t : Tracker) (p : Str) : Prop := (t.p2n.lookup p).isSome = true

theorem bound_add (c : Cfg) (hc : FallbackOK c) (t : Tracker) (q p : Str) :
    Bound (add c t q) p ↔ Bound t p ∨ p = q := by
  constructor
  · intro h
    unfold Bound at h ⊢
    cases hl : (add c t q).p2n.lookup p with
    | none => simp [hl] at h
    | some n =>
      rcases add_only c t q p n hl with rfl | hold
      · exact Or.inr rfl
      · exact Or.inl (by simp [hold])
  · rintro (h | rfl)
    · unfold Bound at h ⊢
      cases hl : t.p2n.lookup p with
      | none => simp [hl] at h
      | some n => simp [add_stable c t p q n hl]
    · exact add_binds c hc t p

mutual
  /-- C15 `rewrite_registers_exactly`: after the rewrite the tracker binds what it bound before
      plus exactly the foreign packages of the tree — in particular not the target package -/
  theorem rewrite_bound (c : Cfg) (hc : FallbackOK c) (self : Str) : (t : Tracker) → (r : TRef) →
      ∀ p, Bound (rewrite c self t r).2 p ↔ Bound t p ∨ p ∈ foreign self r
    | t, .mk pkg name args => by
      intro p
      simp only [rewrite, foreign]
      by_cases he : pkg.isEmpty = true
      · simp only [he, if_true, Bool.true_or, List.nil_append]
        exact rewriteList_bound c hc self t args p
      · by_cases hs : pkg = self
        · subst hs
          have he' : pkg.isEmpty = false := by simpa using he
          simp only [he', Bool.false_eq_true, if_false, if_true, decide_true, Bool.or_true, List.nil_append]
          exact rewriteList_bound c hc pkg t args p
        · simp only [he, hs, Bool.false_eq_true, if_false, decide_false, Bool.or_false,
            List.singleton_append, List.mem_cons]
          rw [rewriteList_bound c hc self _ args p, bound_add c hc]
          constructor
          · rintro ((h | h) | h)
            · exact Or.inl h
            · exact Or.inr (Or.inl h)
            · exact Or.inr (Or.inr h)
          · rintro (h | h | h)
            · exact Or.inl (Or.inl h)
            · exact Or.inl (Or.inr h)
            · exact Or.inr h
  theorem rewriteList_bound (c : Cfg) (hc : FallbackOK c) (self : Str) : (t : Tracker) → (rs : List TRef) →
      ∀ p, Bound (rewriteList c self t rs).2 p ↔ Bound t p ∨ p ∈ foreigns self rs
    | t, [] => by intro p; simp [rewriteList, foreigns]
    | t, a :: as => by
      intro p
      simp only [rewriteList, foreigns, List.mem_append]
      rw [rewriteList_bound c hc self _ as p, rewrite_bound c hc self t a p]
      constructor
      · rintro ((h | h) | h)
        · exact Or.inl h
        · exact Or.inr (Or.inl h)
        · exact Or.inr (Or.inr h)
      · rintro (h | h | h)
        · exact Or.inl (Or.inl h)
        · exact Or.inl (Or.inr h)
        · exact Or.inr h
end

#print axioms rewrite_bound
end Gengo.TypeRef
