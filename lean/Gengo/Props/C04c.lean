import Gengo.Props.C04b
namespace Gengo.Pipeline
open Gengo.Tags

/-! ### C04, combined: package order *and* type-table order at once -/

/-- `q` is `p` with its name → type table presented in another order -/
def TypesShuffled (p q : Pkg) : Prop := ∃ ts, q = { p with types := ts } ∧ p.types.Perm ts

def TypesDistinct (p : Pkg) : Prop := ∀ x ∈ p.types, ∀ y ∈ p.types, x.name = y.name → x = y

theorem gather_types (a : Args) (p : Pkg) {ts : List TypeObj} (h : p.types.Perm ts) (hd : TypesDistinct p) :
    ∀ (gens : List Gen) acc, gather a { p with types := ts } gens acc = gather a p gens acc := by
  intro gens
  induction gens with
  | nil => intro acc; simp [gather]
  | cons g gs ih =>
    intro acc
    simp only [gather, runGen_types_perm a p g h hd]
    split <;> simp [ih]

theorem writes_types (parses : Str → Bool) (a : Args) (p : Pkg) (ts : List TypeObj) :
    ∀ ws stale eff, writes parses a { p with types := ts } ws stale eff = writes parses a p ws stale eff := by
  intro ws
  induction ws with
  | nil => intro stale eff; simp [writes]
  | cons w ws ih => intro stale eff; obtain ⟨gn, text⟩ := w; simp only [writes, ih]

theorem pkgExecute_shuffled (parses : Str → Bool) (order) (a : Args) (gens : List Gen) {p q : Pkg}
    (h : TypesShuffled p q) (hd : TypesDistinct p) :
    pkgExecute parses order a q gens = pkgExecute parses order a p gens := by
  obtain ⟨ts, rfl, hperm⟩ := h
  unfold pkgExecute
  rw [gather_types a p hperm hd gens []]
  split
  · rfl
  · exact writes_types parses a p ts _ _ _

theorem goPkgs_shuffled (parses : Str → Bool) (order) (a : Args) (root : Str) (prev) (all : List Pkg)
    (gens : List Gen) (sh : Pkg → Pkg) (ps : List Pkg)
    (hsh : ∀ p ∈ ps, TypesShuffled p (sh p) ∧ TypesDistinct p) :
    ∀ eff, goPkgs parses order a root prev all gens (ps.map sh) eff = goPkgs parses order a root prev all gens ps eff := by
  induction ps with
  | nil => intro eff; rfl
  | cons p ps ih =>
    intro eff
    have hp := hsh p (by simp)
    have ih' := ih (fun q hq => hsh q (by simp [hq]))
    obtain ⟨ts, hq, _⟩ := hp.1
    have hdirect : (sh p).direct = p.direct := by rw [hq]
    have hchanged : pkgChanged a prev (sh p) = pkgChanged a prev p := by rw [hq]; rfl
    simp only [List.map_cons, goPkgs, hdirect, hchanged, pkgExecute_shuffled parses order a gens hp.1 hp.2, ih']

/-- **C04 `execute_deterministic`**: present the local packages in any order, and inside every
    package present the name → type table in any order (Go map iteration, process restarts,
    entrypoint order): the whole run — every effect with its payload, the sum file's bytes, the
    result — is the same. -/
theorem execute_deterministic (parses : Str → Bool) (order) (a : Args) (root : Str) (prev) (gens : List Gen)
    (pkgs₁ pkgs₂ : List Pkg) (sh : Pkg → Pkg)
    (hperm : pkgs₂.Perm (pkgs₁.map sh))
    (hsh : ∀ p ∈ pkgs₁, TypesShuffled p (sh p) ∧ TypesDistinct p)
    (hd : ∀ x ∈ pkgs₁, ∀ y ∈ pkgs₁, x.path = y.path → x = y) :
    execute parses order a root prev pkgs₂ gens = execute parses order a root prev pkgs₁ gens := by
  have hpath : ∀ p ∈ pkgs₁, (sh p).path = p.path := by
    intro p hp; obtain ⟨ts, hq, _⟩ := (hsh p hp).1; rw [hq]
  have hhash : ∀ p ∈ pkgs₁, (sh p).hash = p.hash := by
    intro p hp; obtain ⟨ts, hq, _⟩ := (hsh p hp).1; rw [hq]
  -- distinct paths survive the shuffle
  have hd' : ∀ x ∈ pkgs₁.map sh, ∀ y ∈ pkgs₁.map sh, x.path = y.path → x = y := by
    intro x hx y hy hxy
    obtain ⟨p, hp, rfl⟩ := List.mem_map.mp hx
    obtain ⟨q, hq, rfl⟩ := List.mem_map.mp hy
    rw [hpath p hp, hpath q hq] at hxy
    rw [hd p hp q hq hxy]
  rw [execute_perm parses order a root prev gens hperm.symm hd' |>.symm]
  unfold execute
  have hsorted : sortedPkgs (pkgs₁.map sh) = (sortedPkgs pkgs₁).map sh := by
    unfold sortedPkgs sortBy
    rw [← List.map_mergeSort]
    intro x hx y hy
    simp only [hpath x hx, hpath y hy]
  have hsum : sumData (pkgs₁.map sh) = sumData pkgs₁ := by
    unfold sumData
    congr 1
    rw [List.map_map]
    apply List.map_congr_left
    intro p hp
    simp [hpath p hp, hhash p hp]
  rw [hsorted, goPkgs_congr_all parses order a root _ _ _ gens hsum]
  apply goPkgs_shuffled
  intro p hp
  have : p ∈ pkgs₁ := by
    have : (sortedPkgs pkgs₁).Perm pkgs₁ := by unfold sortedPkgs sortBy; exact List.mergeSort_perm _ _
    exact this.mem_iff.mp hp
  exact hsh p this

#print axioms execute_deterministic
end Gengo.Pipeline
