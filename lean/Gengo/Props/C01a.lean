import Gengo.Model.Assemble
import Gengo.Props.Order
namespace Gengo.Assemble

/-- C01 `header_first` + `package_clause`: the assembled source opens with the block comment
    naming the generator, followed by the package clause with the target package's name -/
theorem header_first (pkg gen : Str) (imports : List (Str × Str)) (frags : List Str) :
    (header pkg gen).isPrefixOf (source pkg gen imports frags) = true := by
  unfold source
  rw [List.append_assoc]
  exact List.isPrefixOf_iff_prefix.mpr ⟨_, rfl⟩

/-- C01 `body_verbatim`: what the generator rendered is in the source, in order, untouched -/
theorem body_verbatim (pkg gen : Str) (imports : List (Str × Str)) (frags : List Str) :
    ∃ pre, source pkg gen imports frags = pre ++ frags.flatten := ⟨_, rfl⟩

/-- C04: the import block does not depend on the iteration order of the tracker's map -/
theorem importBlock_perm {m₁ m₂ : List (Str × Str)} (h : m₁.Perm m₂)
    (hd : ∀ a ∈ m₁, ∀ b ∈ m₁, a.1 = b.1 → a = b) : importBlock m₁ = importBlock m₂ := by
  unfold importBlock
  have he : m₁.isEmpty = m₂.isEmpty := by
    cases m₁ <;> cases m₂ <;> simp_all
  rw [he, sortBy_perm (·.1) h hd]

/-- C01/C03 `import_block_exact`: one line per binding, exactly the tracker's bindings -/
theorem importBlock_lines (m : List (Str × Str)) (hm : m ≠ []) :
    ∃ es : List (Str × Str), es.Perm m ∧ importBlock m = "\nimport (\n".toList ++ (es.map importLine).flatten ++ ")\n".toList := by
  refine ⟨sortBy (·.1) m, List.mergeSort_perm m _, ?_⟩
  unfold importBlock
  cases m with
  | nil => exact absurd rfl hm
  | cons x xs => simp

example : importBlock [(['e'], ['e'])] = "\nimport (\n\te \"e\"\n)\n".toList := by
  simp [importBlock, sortBy, importLine]

#print axioms importBlock_perm
end Gengo.Assemble
