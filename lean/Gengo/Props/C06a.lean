import Gengo.Model.Tags
namespace Gengo.Tags

/-- keys of a Go map are distinct -/
def DistinctKeys (m : List (Str × List Str)) : Prop := (m.map (·.1)).Nodup

theorem loop_spec (p : Str) (m : List (Str × List Str)) (en : Bool) (hd : DistinctKeys m) :
    isEnabledLoop p m en =
      match m.lookup p with
      | some vs => decide (vs.flatten ≠ "false".toList)
      | none => en || m.any (fun kv => (p ++ [':']).isPrefixOf kv.1) := by
  induction m generalizing en with
  | nil => simp [isEnabledLoop]
  | cons kv rest ih =>
    obtain ⟨k, vs⟩ := kv
    have hd' : DistinctKeys rest := by
      unfold DistinctKeys at hd ⊢; simp at hd; exact hd.2
    simp only [isEnabledLoop]
    by_cases hk : k = p
    · subst hk; simp [List.lookup]
    · have hk' : (p == k) = false := by simp [Ne.symm hk]
      simp only [hk, if_false, List.lookup, hk']
      by_cases hp : (p ++ [':']).isPrefixOf k = true
      · simp only [hp, if_true]
        rw [ih true hd']
        cases List.lookup p rest <;> simp [hp]
      · simp only [hp]
        rw [ih en hd']
        cases List.lookup p rest <;> simp [hp]

/-- C06 enablement rule: the early-return loop computes the order-free rule -/
theorem enabled_spec (gen : Str) (m : List (Str × List Str)) (hd : DistinctKeys m) :
    isEnabled gen m = enabledSpec gen m := by
  unfold isEnabled enabledSpec
  rw [loop_spec _ _ _ hd]
  generalize Gengo.Gen.tagPrefix ++ gen = p
  rcases hl : List.lookup p m with _ | vs <;> simp [hl]

theorem distinct_tail {x : Str × List Str} {l : List (Str × List Str)} (hd : DistinctKeys (x :: l)) :
    DistinctKeys l := by
  unfold DistinctKeys at hd ⊢; simp at hd; exact hd.2

theorem distinct_perm {m₁ m₂ : List (Str × List Str)} (h : m₁.Perm m₂) (hd : DistinctKeys m₁) :
    DistinctKeys m₂ := by
  unfold DistinctKeys at hd ⊢
  exact (h.map _).nodup_iff.mp hd

/-- lookup in a key-distinct association list is invariant under permutation -/
theorem lookup_perm {m₁ m₂ : List (Str × List Str)} (h : m₁.Perm m₂) (hd : DistinctKeys m₁) (k : Str) :
    m₁.lookup k = m₂.lookup k := by
  induction h with
  | nil => rfl
  | @cons x l₁ l₂ _ ih =>
    obtain ⟨k', v⟩ := x
    simp only [List.lookup]
    rw [ih (distinct_tail hd)]
  | swap x y l =>
    obtain ⟨k1, v1⟩ := x; obtain ⟨k2, v2⟩ := y
    have hne : k2 ≠ k1 := by
      unfold DistinctKeys at hd; simp at hd; exact hd.1.1
    simp only [List.lookup]
    by_cases h1 : k = k1
    · subst h1
      have : (k == k2) = false := by simp [Ne.symm hne]
      simp [this]
    · have h1' : (k == k1) = false := by simp [h1]
      simp [h1']
  | trans h₁ _ ih₁ ih₂ =>
    rw [ih₁ hd, ih₂ (distinct_perm h₁ hd)]

/-- C04/C06: the verdict does not depend on Go's map iteration order -/
theorem enabled_perm (gen : Str) {m₁ m₂ : List (Str × List Str)} (h : m₁.Perm m₂) (hd : DistinctKeys m₁) :
    isEnabled gen m₁ = isEnabled gen m₂ := by
  rw [enabled_spec gen m₁ hd, enabled_spec gen m₂ (distinct_perm h hd)]
  unfold enabledSpec
  simp only
  rw [lookup_perm h hd]
  rcases hl : List.lookup (Gengo.Gen.tagPrefix ++ gen) m₂ with _ | vs
  · simp only; exact h.any_eq
  · rfl

/-- the prefix regenerated from `IsGeneratorEnabled` is the one the statement names -/
theorem tagPrefix_is_gengo : Gengo.Gen.tagPrefix = "gengo:".toList := by decide

-- generator names that are prefixes of one another do not enable each other
example : isEnabled "deepcopy".toList [("gengo:deepcopyx".toList, [[]]), ("gengo:deepcopyx:a".toList, [[]])] = false := by decide
example : isEnabled "deepcopy".toList [("gengo:deepcopy:interfaces".toList, ["X".toList])] = true := by decide
example : isEnabled "g".toList [("gengo:g:sub".toList, [[]]), ("gengo:g".toList, ["false".toList])] = false := by decide

end Gengo.Tags
