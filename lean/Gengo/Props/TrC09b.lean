import Gengo.Gen.Code.C09
import Gengo.Model.Snippet
/-!
The iterator bodies of `Snippets.Frag` and `Fragments` (pkg/gengo/snippet/snippet.go) as translated.  A snippet is what
the two functions see of it: the answer of `IsNil()` and the fragments its `Frag` yields (`Bool × List Str`); the
sequence a `Snippets` value ranges over is the parameter `items`.  `if !yield(x) { return }` is read as "emit x" (a
consumer that never stops early, which `SnippetWriter.Render` is).  The fragments handed on are those of the non-nil
parts, in order — whose concatenation is the model's `renderSeq` over leaves.
-/
namespace Gengo.TrC09b
open Gengo Gengo.Go Gengo.Template

theorem loop2_spec (items : List (Bool × List Str)) (fs out : List Str) :
    Code.snippetsFrag.loop2 items fs out = pure (.next (out ++ fs)) := by
  induction fs generalizing out with
  | nil => simp [Code.snippetsFrag.loop2]
  | cons v rest ih => simp [Code.snippetsFrag.loop2, ih, List.append_assoc]

theorem loop1_spec (items l : List (Bool × List Str)) (out : List Str) :
    Code.snippetsFrag.loop1 items l out = pure (.next (out ++ (l.filter (fun c => !c.1)).flatMap (·.2))) := by
  induction l generalizing out with
  | nil => simp [Code.snippetsFrag.loop1]
  | cons c rest ih =>
    obtain ⟨n, fs⟩ := c
    cases n
    · simp [Code.snippetsFrag.loop1, loop2_spec, ih, List.append_assoc]
    · simp [Code.snippetsFrag.loop1, ih]

/-- **`Snippets.Frag` hands on the fragments of its non-nil parts, in order** -/
theorem snippetsFrag_eq (items : List (Bool × List Str)) :
    Code.snippetsFrag items = pure ((items.filter (fun c => !c.1)).flatMap (·.2)) := by
  simp [Code.snippetsFrag, loop1_spec]

theorem fragments_loop (fs out : List Str) : Code.fragments.loop1 fs out = pure (.next (out ++ fs)) := by
  induction fs generalizing out with
  | nil => simp [Code.fragments.loop1]
  | cons v rest ih => simp [Code.fragments.loop1, ih, List.append_assoc]

/-- **`Fragments`: nothing for a nil snippet, its fragments otherwise** -/
theorem fragments_eq (s : Bool × List Str) : Code.fragments s = pure (if s.1 then [] else s.2) := by
  obtain ⟨n, fs⟩ := s
  cases n <;> simp [Code.fragments, fragments_loop]

/-- the model's view of such a part: a leaf with the answer of `IsNil()` and the concatenation of its fragments -/
def leafOf (c : Bool × List Str) : Snip := .leaf c.1 (some c.2.flatten)

/-- **C09, of the translated code**: the text a consumer of `Snippets.Frag` receives is the model's `renderSeq` -/
theorem code_seq_render (f5 f6 : Bool) (items : List (Bool × List Str)) :
    (Code.snippetsFrag items).toOption.map List.flatten = renderSeq f5 f6 (items.map leafOf) := by
  rw [snippetsFrag_eq]
  simp only [Except.toOption, pure, Except.pure, Option.map_some]
  induction items with
  | nil => simp [renderSeq]
  | cons c rest ih =>
    obtain ⟨n, fs⟩ := c
    cases n
    · simp only [List.map_cons, renderSeq, leafOf, Snip.isNil, Bool.false_eq_true, if_false, renderS, ← ih]
      simp
    · simp only [List.map_cons, renderSeq, leafOf, Snip.isNil, if_true, ← ih]
      simp

example : Code.snippetsFrag [(false, ["a".toList, "b".toList]), (true, ["x".toList]), (false, ["c".toList])]
    = .ok ["a".toList, "b".toList, "c".toList] := by rfl

#print axioms snippetsFrag_eq
#print axioms fragments_eq
#print axioms code_seq_render
end Gengo.TrC09b
