import Gengo.Props.C17b
import Gengo.Props.C17d
namespace Gengo.Heap

/-! ### C18 `copy_as_*`: what the generated `DeepCopyAs` / `DeepCopyIntoAs` compute -/

mutual
  /-- Go's zero value of a shape -/
  def zero : Shape → HV
    | .scalar => .scalar 0
    | .slice => .slice none []
    | .map => .map none []
    | .struct fs => .struct (zeros fs)
  def zeros : List Shape → List HV
    | [] => []
    | s :: ss => zero s :: zeros ss
end

/-- `DeepCopyIntoAs` on `out := new(Origin)`: origin fields in declaration order, flagged
    `true` when omitted from the partial type; `vs` are the partial value's fields (the retained
    ones, same order).  A retained field gets the statements `StructFieldsCopy` emits for its
    shape (= `deepCopy`, by `exec_choose`); an omitted one is skipped and keeps `new`'s zero. -/
def copyIntoAs : List (Bool × Shape) → List HV → Nat → List HV × Nat
  | [], _, next => ([], next)
  | (true, sh) :: fs, vs, next => let r := copyIntoAs fs vs next; (zero sh :: r.1, r.2)
  | (false, sh) :: fs, v :: vs, next =>
    let c := exec (choose sh) v next
    let r := copyIntoAs fs vs c.2
    (c.1 :: r.1, r.2)
  | (false, _) :: _, [], next => ([], next)

/-- `DeepCopyAs`: `nil` receiver ↦ `nil` -/
def deepCopyAs (fs : List (Bool × Shape)) : Option (List HV) → Nat → Option (List HV)
  | none, _ => none
  | some vs, next => some (copyIntoAs fs vs next).1

/-- the values at the positions flagged `b` -/
def pick (b : Bool) : List (Bool × Shape) → List HV → List HV
  | (b', _) :: fs, v :: vs => if b' = b then v :: pick b fs vs else pick b fs vs
  | _, _ => []

def shapesOf (b : Bool) (fs : List (Bool × Shape)) : List Shape := (fs.filter (·.1 = b)).map (·.2)

theorem copy_as_nil (fs : List (Bool × Shape)) (next : Nat) : deepCopyAs fs none next = none := rfl

mutual
  theorem zero_ids : (s : Shape) → (zero s).ids = []
    | .scalar => by simp [zero, HV.ids]
    | .slice => by simp [zero, HV.ids]
    | .map => by simp [zero, HV.ids]
    | .struct fs => by simp [zero, HV.ids, zeros_ids fs]
  theorem zeros_ids : (ss : List Shape) → idsList (zeros ss) = []
    | [] => by simp [zeros, idsList]
    | s :: ss => by simp [zeros, idsList, zero_ids s, zeros_ids ss]
end

/-- **C18 `copy_as_retained_equal_omitted_zero`** (and no sharing): for a partial value whose
    fields have the retained fields' shapes, the result has one field per origin field; the
    retained positions are deeply equal to the partial value's fields, the omitted positions hold
    Go's zero values, and every container identity in the result is fresh. -/
theorem copyIntoAs_spec : (fs : List (Bool × Shape)) → (vs : List HV) → HasShapes vs (shapesOf false fs) → ∀ next,
    let r := copyIntoAs fs vs next
    r.1.length = fs.length ∧
    eraseList (pick false fs r.1) = eraseList vs ∧
    pick true fs r.1 = zeros (shapesOf true fs) ∧
    next ≤ r.2 ∧ ∀ i ∈ idsList r.1, next ≤ i ∧ i < r.2
  | [], vs, h, next => by
    cases vs with
    | nil => simp [copyIntoAs, pick, shapesOf, zeros, eraseList, idsList]
    | cons v vs => simp [shapesOf, HasShapes] at h
  | (true, sh) :: fs, vs, h, next => by
    have hs : shapesOf false ((true, sh) :: fs) = shapesOf false fs := by simp [shapesOf]
    rw [hs] at h
    obtain ⟨h1, h2, h3, h4, h5⟩ := copyIntoAs_spec fs vs h next
    simp only [copyIntoAs]
    refine ⟨by simp [h1], ?_, ?_, h4, ?_⟩
    · simpa [pick] using h2
    · simp [pick, shapesOf, zeros] at h3 ⊢
      exact h3
    · intro i hi
      simp only [idsList, zero_ids, List.nil_append] at hi
      exact h5 i hi
  | (false, sh) :: fs, [], h, next => by simp [shapesOf, HasShapes] at h
  | (false, sh) :: fs, v :: vs, h, next => by
    have hs : shapesOf false ((false, sh) :: fs) = sh :: shapesOf false fs := by simp [shapesOf]
    rw [hs] at h
    obtain ⟨hv, hvs⟩ := h
    simp only [copyIntoAs]
    rw [exec_choose v sh hv next]
    have hc := deepCopy_spec v next
    obtain ⟨h1, h2, h3, h4, h5⟩ := copyIntoAs_spec fs vs hvs (deepCopy v next).2
    refine ⟨by simp [h1], ?_, ?_, by omega, ?_⟩
    · simp [pick, eraseList, hc.2.2, h2]
    · simp [pick, shapesOf] at h3 ⊢
      exact h3
    · intro i hi
      simp only [idsList, List.mem_append] at hi
      rcases hi with hi | hi
      · have := hc.2.1 i hi; omega
      · have := h5 i hi; omega

/-- no container is shared between the partial value and the origin value built from it -/
theorem copy_as_no_sharing (fs : List (Bool × Shape)) (vs : List HV) (h : HasShapes vs (shapesOf false fs))
    (next : Nat) (hfresh : ∀ i ∈ idsList vs, i < next) :
    ∀ i ∈ idsList (copyIntoAs fs vs next).1, i ∉ idsList vs := by
  intro i hi hv
  have := (copyIntoAs_spec fs vs h next).2.2.2.2 i hi
  have := hfresh i hv
  omega

-- non-vacuity: a three-field origin, middle field omitted
example : deepCopyAs [(false, .slice), (true, .map), (false, .scalar)] (some [.slice (some 3) [1, 2], .scalar 7]) 10
    = some [.slice (some 10) [1, 2], .map none [], .scalar 7] := by
  simp [deepCopyAs, copyIntoAs, exec, choose, zero]

#print axioms copyIntoAs_spec
end Gengo.Heap

namespace Gengo.PartialAccept
/-! ### C18 `reject_*`: the acceptance decision of `GenerateType` (partialstruct.go:55-90) -/

inductive Rhs where
  | ident (isTypeName : Bool)        -- `type X Y`: `ObjectOf(Y)` is a `*types.TypeName` or not
  | selector (isTypeName : Bool)     -- `type X pkg.Y`
  | other                            -- `type X struct{…}`, `type X []Y`, `type X G[A]`, …

inductive Err | notStruct | noOrigin
deriving DecidableEq

/-- `underlyingIsStruct` = `named.Underlying().(*types.Struct)` succeeds -/
def accept (underlyingIsStruct : Bool) (rhs : Rhs) : Except Err Unit :=
  if !underlyingIsStruct then .error .notStruct
  else match rhs with
    | .ident true | .selector true => .ok ()
    | _ => .error .noOrigin

theorem reject_non_struct (rhs : Rhs) : accept false rhs = .error .notStruct := rfl

theorem reject_no_origin : accept true .other = .error .noOrigin ∧ accept true (.ident false) = .error .noOrigin ∧
    accept true (.selector false) = .error .noOrigin := ⟨rfl, rfl, rfl⟩

/-- a generator call is accepted exactly for a struct declared from a named origin -/
theorem accept_iff (u : Bool) (rhs : Rhs) :
    accept u rhs = .ok () ↔ u = true ∧ (rhs = .ident true ∨ rhs = .selector true) := by
  cases u <;> cases rhs with
  | ident b => cases b <;> simp [accept]
  | selector b => cases b <;> simp [accept]
  | other => simp [accept]
end Gengo.PartialAccept

namespace Gengo.PartialGeneric
/-! ### C18 `copy_as`, independent of the field kinds

The same statement for *any* kind of field value (pointers, foreign named types, interfaces …):
all that is used of the per-field copy statement is that its result equals its source in the
sense `eqv` (for the C17 domain that is `exec_choose` + `deepCopy_spec`; for the other kinds of
C18's domain the executed probe checks it with `reflect.DeepEqual`). -/

variable {V F : Type}

/-- origin fields in declaration order, flagged `true` when omitted; `vs` = the partial value's
    fields (the retained ones, same order); `none` = the two do not fit (ill-typed input) -/
def copyIntoAs (copyF : F → V → V) (zeroF : F → V) : List (Bool × F) → List V → Option (List V)
  | [], [] => some []
  | [], _ :: _ => none
  | (true, f) :: fs, vs => (copyIntoAs copyF zeroF fs vs).map (zeroF f :: ·)
  | (false, f) :: fs, v :: vs => (copyIntoAs copyF zeroF fs vs).map (copyF f v :: ·)
  | (false, _) :: _, [] => none

def deepCopyAs (copyF : F → V → V) (zeroF : F → V) (fs : List (Bool × F)) : Option (List V) → Option (Option (List V))
  | none => some none                       -- nil receiver ↦ nil
  | some vs => (copyIntoAs copyF zeroF fs vs).map some

/-- the values at the positions flagged `b` -/
def pick (b : Bool) : List (Bool × F) → List V → List V
  | (b', _) :: fs, v :: vs => if b' = b then v :: pick b fs vs else pick b fs vs
  | _, _ => []

theorem copy_as_nil (copyF : F → V → V) (zeroF : F → V) (fs : List (Bool × F)) :
    deepCopyAs copyF zeroF fs none = some none := rfl

/-- retained fields are copies of the source's fields (pointwise, in order), omitted fields are
    zero, and there is exactly one result field per origin field -/
theorem copy_as_spec (copyF : F → V → V) (zeroF : F → V) :
    ∀ (fs : List (Bool × F)) (vs out : List V), copyIntoAs copyF zeroF fs vs = some out →
      out.length = fs.length ∧
      pick false fs out = ((fs.filter (·.1 = false)).zip vs).map (fun x => copyF x.1.2 x.2) ∧
      pick true fs out = (fs.filter (·.1 = true)).map (fun x => zeroF x.2) ∧
      vs.length = (fs.filter (·.1 = false)).length
  | [], [], out, h => by simp [copyIntoAs] at h; subst h; simp [pick]
  | [], _ :: _, out, h => by simp [copyIntoAs] at h
  | (true, f) :: fs, vs, out, h => by
    simp only [copyIntoAs, Option.map_eq_some_iff] at h
    obtain ⟨out', h', rfl⟩ := h
    obtain ⟨h1, h2, h3, h4⟩ := copy_as_spec copyF zeroF fs vs out' h'
    refine ⟨by simp [h1], by simpa [pick] using h2, by simp [pick, h3], by simpa using h4⟩
  | (false, f) :: fs, [], out, h => by simp [copyIntoAs] at h
  | (false, f) :: fs, v :: vs, out, h => by
    simp only [copyIntoAs, Option.map_eq_some_iff] at h
    obtain ⟨out', h', rfl⟩ := h
    obtain ⟨h1, h2, h3, h4⟩ := copy_as_spec copyF zeroF fs vs out' h'
    refine ⟨by simp [h1], by simp [pick, h2], by simpa [pick] using h3, by simp [h4]⟩

#print axioms copy_as_spec
end Gengo.PartialGeneric
