import Gengo.Props.TrC08
import Gengo.Props.C08d
/-!
C08 stated of the code as it stands: what the translated `(*File).Bytes` writes reads back (through the model of
`Load`) to the same lookup for every key — `roundtrip` of `Props/C08d` carried over by `sumBytes_eq`.
-/
namespace Gengo.TrCode
open Gengo Gengo.Go Gengo.Code Gengo.SumFile

theorem code_bytes_roundtrip (m : List (Str × Str)) (hd : Distinct m) (h : ∀ e ∈ m, clean e.1 ∧ clean e.2) (k : Str) :
    ∃ b, Code.sumBytes m = .ok b ∧ loadLookup b k = m.lookup k :=
  ⟨SumFile.bytes m, TrC08.sumBytes_eq m hd, roundtrip m hd h k⟩

end Gengo.TrCode
