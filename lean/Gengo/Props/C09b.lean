import Gengo.Model.Sprintf
namespace Gengo.Sprintf

def one : Arg := ⟨some ['1'], some ['i','n','t']⟩

/-- pinned code (F6): `%%` is not a percent sign -/
example : sprintf false "100%%".toList [] = none := by decide
example : sprintf false "a%%b".toList [] = none := by decide
example : sprintf false "%%v".toList [one] = some "%1".toList := by decide
/-- repaired code -/
example : sprintf true "100%%".toList [] = some "100%".toList := by decide
example : sprintf true "a%%b %v:%T".toList [one, one] = some "a%b 1:int".toList := by decide
example : sprintf true "%v".toList [] = none := by decide
example : sprintf true "%d".toList [one] = none := by decide
example : sprintf true "x%".toList [] = none := by decide

/-- text without `%` is verbatim (both versions) -/
theorem scan_literal (fixed : Bool) (l : Str) (args : List Arg) (h : '%' ∉ l) :
    ∀ fuel, l.length < fuel → scan fixed fuel l args = some l := by
  induction l with
  | nil => intro fuel hf; cases fuel with
    | zero => simp at hf
    | succ k => rfl
  | cons c cs ih =>
    intro fuel hf
    simp only [List.mem_cons, not_or] at h
    cases fuel with
    | zero => simp at hf
    | succ k =>
      have hc : (c == '%') = false := by simp [Ne.symm h.1]
      simp only [scan, hc, Bool.false_eq_true, if_false]
      rw [ih h.2 k (by simp at hf; omega)]
      rfl

example : comment "a\n\nb".toList = "// a\n// \n// b".toList := by decide
example : directive "embed".toList ["doc/b.md".toList, []] = "//go:embed doc/b.md".toList := by decide

end Gengo.Sprintf
