import Gengo.Props.C03a
import Gengo.Props.C03c
namespace Gengo.Tracker

/-! ### C03 `std_reserved`: a std short name is only ever bound to its std path -/

def NoReserved (c : Cfg) (t : Tracker) : Prop := ∀ p n, t.p2n.lookup p = some n → c.reserved n p = false

theorem noReserved_empty (c : Cfg) : NoReserved c empty := by intro p n h; simp [empty] at h

theorem add_noReserved (c : Cfg) (t : Tracker) (q : Str) (h : NoReserved c t) : NoReserved c (add c t q) := by
  unfold add
  split
  · exact h
  · split
    · exact h
    · rename_i n hn
      have hf := choose_free c t q n hn
      intro p m hl
      simp only [List.lookup] at hl
      by_cases hpq : p = q
      · subst hpq
        simp at hl; subst hl
        unfold free at hf
        simp only [Bool.and_eq_true, Bool.not_eq_eq_eq_not, Bool.not_true] at hf
        exact hf.1.1
      · have : (p == q) = false := by simp [hpq]
        simp only [this] at hl
        exact h p m hl

theorem adds_noReserved (c : Cfg) (ps : List Str) : NoReserved c (ps.foldl (add c) empty) := by
  suffices h : ∀ t, NoReserved c t → NoReserved c (ps.foldl (add c) t) from h _ (noReserved_empty c)
  induction ps with
  | nil => intro t h; exact h
  | cons p ps ih => intro t h; exact ih _ (add_noReserved c t p h)

end Gengo.Tracker

namespace Gengo.LocalName
open Gengo.Tracker

/-- **`std_reserved`** for the concrete tracker (`checkStd = true`, i.e. the Go tracker as
    `NewDefaultImportTracker` builds it): after any sequence of references, if a bound name is
    one of the std short names of the regenerated table, the package it is bound to is that std
    package — `fmt` never names anything but `fmt`, `json` nothing but `encoding/json`. -/
theorem std_reserved (std : List (Str × Str)) (ps : List Str) (p n q : Str)
    (hb : (ps.foldl (add (cfgF std true)) empty).p2n.lookup p = some n) (hs : std.lookup n = some q) : q = p := by
  have := adds_noReserved (cfgF std true) ps p n hb
  simp only [cfgF, hs, Bool.true_and] at this
  simpa using this

#print axioms std_reserved
end Gengo.LocalName
