import Gengo.Model.Loader
namespace Gengo.Loader

def tPkg : Obj := { id := 1, name := ['T'], kind := .typeName, scope := .pkg }
def tLocal : Obj := { id := 2, name := ['T'], kind := .typeName, scope := .local_ }
def tParam : Obj := { id := 3, name := ['T'], kind := .typeName, scope := .typeParam }

/-- pinned code (F12): which object `Type("T")` returns depends on the iteration order -/
example : lookupType false [tPkg, tLocal] ['T'] = some 2 ∧ lookupType false [tLocal, tPkg] ['T'] = some 1 := by decide
example : lookupType false [tPkg, tParam] ['T'] = some 3 := by decide
/-- repaired code: always the package-scope object -/
example : lookupType true [tPkg, tLocal] ['T'] = some 1 ∧ lookupType true [tLocal, tParam, tPkg] ['T'] = some 1 := by decide

theorem lookup_filter_ne (m : List (Str × Nat)) (k k' : Str) (h : k' ≠ k) :
    (m.filter (·.1 ≠ k)).lookup k' = m.lookup k' := by
  induction m with
  | nil => rfl
  | cons x xs ih =>
    obtain ⟨a, b⟩ := x
    by_cases ha : a = k
    · subst ha
      have hb : (k' == a) = false := by simp [h]
      have : List.filter (fun x => decide (x.fst ≠ a)) ((a, b) :: xs) = List.filter (fun x => decide (x.fst ≠ a)) xs := by
        simp [List.filter_cons]
      rw [this, ih]
      simp [List.lookup, hb]
    · have : List.filter (fun x => decide (x.fst ≠ k)) ((a, b) :: xs) = (a, b) :: List.filter (fun x => decide (x.fst ≠ k)) xs := by
        simp [List.filter_cons, ha]
      rw [this]
      simp only [List.lookup]
      rw [ih]

theorem lookup_assign (m : List (Str × Nat)) (k k' : Str) (v : Nat) :
    (assign m k v).lookup k' = if k' = k then some v else m.lookup k' := by
  unfold assign
  by_cases h : k' = k
  · subst h; simp [List.lookup]
  · have hb : (k' == k) = false := by simp [h]
    simp only [List.lookup, hb, h, if_false]
    exact lookup_filter_ne m k k' h

/-- the predicate the repaired loop applies, restricted to one name -/
def hit (name : Str) (o : Obj) : Bool := o.kind = .typeName && o.scope = .pkg && o.name = name

/-- the repaired table holds, for each name, the *last* package-scope type object of that name
    in iteration order (and what was there before if there is none) -/
theorem typesTable_lookup (name : Str) (defs : List Obj) :
    ∀ (m : List (Str × Nat)),
      (typesTable true defs m).lookup name =
        match defs.reverse.find? (hit name) with
        | some o => some o.id
        | none => m.lookup name := by
  induction defs with
  | nil => intro m; simp [typesTable]
  | cons o os ih =>
    intro m
    simp only [typesTable, List.reverse_cons, List.find?_append]
    by_cases hc : (o.kind = .typeName && (!true || o.scope = .pkg)) = true
    · simp only [hc, if_true]
      rw [ih]
      cases hf : os.reverse.find? (hit name) with
      | some o' => simp
      | none =>
        simp only [Option.none_or, List.find?_cons, List.find?_nil]
        rw [lookup_assign]
        have hk : o.kind = .typeName ∧ o.scope = .pkg := by simpa using hc
        by_cases hn : name = o.name
        · subst hn
          have : hit o.name o = true := by simp [hit, hk.1, hk.2]
          simp [this]
        · have : hit name o = false := by simp [hit, Ne.symm hn]
          simp [this, hn]
    · have hc' : (decide (o.kind = ObjKind.typeName) && (!true || decide (o.scope = Scope.pkg))) = false := by
        simpa using hc
      simp only [hc', Bool.false_eq_true, if_false]
      rw [ih]
      cases hf : os.reverse.find? (hit name) with
      | some o' => simp
      | none =>
        have : hit name o = false := by
          simp only [Bool.not_true, Bool.false_or, Bool.and_eq_true, decide_eq_true_eq, not_and] at hc
          simp only [hit, Bool.and_eq_false_imp, Bool.and_eq_true, decide_eq_true_eq, decide_eq_false_iff_not]
          intro ⟨h1, h2⟩; exact absurd h2 (hc h1)
        simp [this]

/-- package scope binds at most one type object to a name -/
def ScopeFunctional (defs : List Obj) : Prop :=
  ∀ a ∈ defs, ∀ b ∈ defs, hit a.name a = true → hit a.name b = true → a.id = b.id

/-- C13 `tables_exact` / C04 `table_order_free` (repaired code): `Type(name)` is the package-scope
    object of that name — whatever else `Defs` contains (function-local types, type parameters of
    the same name) and in whatever order the map is iterated. -/
theorem tables_exact (defs : List Obj) (hs : ScopeFunctional defs) (o : Obj) (ho : o ∈ defs)
    (hh : hit o.name o = true) : lookupType true defs o.name = some o.id := by
  unfold lookupType
  rw [typesTable_lookup]
  cases hf : defs.reverse.find? (hit o.name) with
  | some o' =>
    have hm : o' ∈ defs := by simpa using List.mem_of_find?_eq_some hf
    have hh' : hit o.name o' = true := List.find?_some hf
    simp [hs o ho o' hm hh hh']
  | none =>
    have := List.find?_eq_none.mp hf o (by simpa using ho)
    simp [hh] at this

theorem tables_only_pkg (defs : List Obj) (name : Str) (h : ∀ o ∈ defs, hit name o = false) :
    lookupType true defs name = none := by
  unfold lookupType
  rw [typesTable_lookup]
  have : defs.reverse.find? (hit name) = none :=
    List.find?_eq_none.mpr (fun o ho => by simpa using h o (by simpa using ho))
  simp [this]

#print axioms tables_exact
end Gengo.Loader
