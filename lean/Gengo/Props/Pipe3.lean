import Gengo.Model.Pipeline
namespace Gengo.Pipeline
open Gengo.Tags

/-! ### C02 `error_names`, `fail_keeps_own_file`; C07 `exists_iff_rendered` -/

theorem runDefers_err (p : Pkg) (g : Gen) (ds : List DeferCb) :
    ∀ body e, runDefers p g ds body = .error e → e = .deferred g.name p.path := by
  induction ds with
  | nil => intro body e h; simp [runDefers] at h
  | cons d ds ih =>
    intro body e h
    simp only [runDefers] at h
    split at h
    · cases h; rfl
    · exact ih _ _ h

theorem dispatch_err (a : Args) (p : Pkg) (g : Gen) (ts : List TypeObj) :
    ∀ s e, dispatch a p g ts s = .error e → e = .generate g.name p.path := by
  induction ts with
  | nil => intro s e h; simp [dispatch] at h
  | cons t ts ih =>
    intro s e h
    simp only [dispatch] at h
    split at h
    · split at h
      · split at h
        · cases h; rfl
        · exact ih _ _ h
      · exact ih _ _ h
    · split at h
      · split at h
        · split at h
          · cases h; rfl
          · exact ih _ _ h
        · exact ih _ _ h
      · exact ih _ _ h
    · exact ih _ _ h

/-- C02 `error_names`: an error out of a generator run names that generator and that package -/
theorem runGen_err (a : Args) (p : Pkg) (g : Gen) (e : Err) (h : runGen a p g = .error e) :
    e = .generate g.name p.path ∨ e = .deferred g.name p.path := by
  unfold runGen at h
  simp only [bind, Except.bind] at h
  split at h
  · rename_i e' he
    cases h
    exact Or.inl (dispatch_err a p g _ _ _ he)
  · split at h
    · rename_i e' he
      cases h
      exact Or.inr (runDefers_err p g _ _ _ he)
    · split at h <;> cases h

/-- C02 `fail_keeps_own_file` (generator / deferred-callback errors): the package's files are not
    touched at all — the write phase is never reached. -/
theorem pkgExecute_gen_error (parses : Str → Bool) (order) (a : Args) (p : Pkg) (gens : List Gen)
    (g pk : Str) (h : (pkgExecute parses order a p gens).2 = some (.generate g pk) ∨
                      (pkgExecute parses order a p gens).2 = some (.deferred g pk)) :
    (pkgExecute parses order a p gens).1 = [] := by
  unfold pkgExecute at h ⊢
  split
  · rfl
  · rename_i ws hws
    simp only [hws] at h
    -- the write phase only ever fails with a syntax error
    have key : ∀ (ws : List (Str × Str)) stale eff e,
        (writes parses a p ws stale eff).2 = some e → ∃ d n, e = .syntax d n := by
      intro ws
      induction ws with
      | nil => intro stale eff e h; simp [writes] at h
      | cons w rest ih =>
        intro stale eff e h
        obtain ⟨gn, text⟩ := w
        simp only [writes] at h
        split at h
        · exact ih _ _ _ h
        · split at h
          · exact ih _ _ _ h
          · simp at h; exact ⟨_, _, h.symm⟩
    rcases h with h | h <;> (obtain ⟨d, n, hd⟩ := key _ _ _ _ h; cases hd)

/-- exact description of the write phase of a successful package run -/
theorem writes_spec (parses : Str → Bool) (a : Args) (p : Pkg) (ws : List (Str × Str)) :
    ∀ (stale : List Str) (eff : List Effect), (writes parses a p ws stale eff).2 = none →
      (writes parses a p ws stale eff).1 =
        eff ++ ((ws.filter fun w => !w.2.isEmpty).map fun w => Effect.write p.dir (fileName a.base w.1) w.1 w.2)
            ++ ((stale.filter fun f => !(ws.map fun w => fileName a.base w.1).contains f).map (Effect.remove p.dir ·)) := by
  induction ws with
  | nil =>
    intro stale eff _
    have : List.filter (fun _ : Str => true) stale = stale := List.filter_eq_self.mpr (by simp)
    simp [writes, this]
  | cons w rest ih =>
    intro stale eff h
    obtain ⟨gn, text⟩ := w
    simp only [writes] at h ⊢
    have hfilter : ∀ (st : List Str),
        ((st.filter (· ≠ fileName a.base gn)).filter fun f => !(rest.map fun w => fileName a.base w.1).contains f) =
        st.filter fun f => !(((gn, text) :: rest).map fun w => fileName a.base w.1).contains f := by
      intro st
      rw [List.filter_filter]
      congr 1
      funext f
      by_cases hf : f = fileName a.base gn
      · subst hf; simp
      · simp [hf]
    split
    · rename_i he
      simp only [he, if_true] at h
      rw [ih _ _ h, hfilter]
      simp [List.filter_cons, he]
    · rename_i he
      simp only [he] at h
      split
      · rename_i hp
        simp only [hp, if_true] at h
        rw [ih _ _ h, hfilter]
        simp [List.filter_cons, he, List.append_assoc]
      · rename_i hp
        simp [hp] at h

#print axioms runGen_err
#print axioms pkgExecute_gen_error
#print axioms writes_spec
end Gengo.Pipeline
