import Gengo.Model.Camel
import Gengo.Model.TypeRef
import Gengo.Model.Namer
import Gengo.Model.Template
import Gengo.Model.Tags
import Gengo.Model.Sprintf
import Gengo.Model.Snippet
import Gengo.Model.Inflect
import Gengo.Model.LocalName
import Gengo.Model.Layout
import Gengo.Model.Resolver
import Gengo.Model.Pipeline
import Gengo.Model.Dumper
import Gengo.Gen.InflectTables
import Gengo.Gen.StdList
import Gengo.Gen.Consts
import Gengo.Model.DeepCopy
import Gengo.Model.RuntimeDoc
import Gengo.Model.TypeLit
import Gengo.Model.Partial
import Gengo.Model.Assemble
import Gengo.Model.Loader
import Gengo.Model.Register
import Gengo.Model.Locality
import Gengo.Drv.Resolve2
open Gengo

def hexVal (c : Char) : Nat :=
  if '0' ≤ c ∧ c ≤ '9' then c.toNat - 48 else if 'a' ≤ c ∧ c ≤ 'f' then c.toNat - 87 else 0

def unhexBytes : List Char → List UInt8
  | a :: b :: rest => (hexVal a * 16 + hexVal b).toUInt8 :: unhexBytes rest
  | _ => []

def unhex (s : String) : List Char :=
  if s == "-" then [] else
  match String.fromUTF8? (ByteArray.mk (unhexBytes s.toList).toArray) with
  | some str => str.toList
  | none => []

def hexDigit (n : Nat) : Char := if n < 10 then Char.ofNat (48 + n) else Char.ofNat (87 + n)

def hex (l : List Char) : String :=
  let bs := (String.ofList l).toUTF8.toList
  if bs.isEmpty then "-" else String.ofList (bs.flatMap fun b => [hexDigit (b.toNat / 16), hexDigit (b.toNat % 16)])

def sortByStr {α} (key : α → List Char) (l : List α) : List α :=
  l.mergeSort fun a b => decide (String.ofList (key a) ≤ String.ofList (key b))

def asciiPreds : Camel.Preds :=
  ⟨fun c => 'a' ≤ c && c ≤ 'z', fun c => 'A' ≤ c && c ≤ 'Z', fun c => '0' ≤ c && c ≤ '9'⟩

def tmplEnv : Template.Env := fun n =>
  if n == ['a'] then some (some (some ['X']))
  else if n == ['b'] then some none
  else if n == ['c'] then some (some (some "@a'".toList))
  else none

def showTags (r : List (Tags.Str × List Tags.Str) × List Tags.Str) : String :=
  let m := r.1.mergeSort (fun a b => decide (String.ofList a.1 ≤ String.ofList b.1))
  "tags " ++ String.intercalate "," (m.map fun kv => hex kv.1 ++ "=" ++ String.intercalate "|" (kv.2.map hex)) ++
  " others " ++ String.intercalate "," (r.2.map hex)

def stdPaths : List (List Char) := Gengo.Gen.stdPaths
def stdTab : List (List Char × List Char) := LocalName.stdTable stdPaths

namespace InflProbe
open Inflect
def lowerC (c : Char) : Char := if 'A' ≤ c && c ≤ 'Z' then Char.ofNat (c.toNat + 32) else if c == '\u212a' then 'k' else c
def cfg (tab : List (List Char × List Char)) : Cfg where
  table := tab
  foldEq := fun a b => (if 'A' ≤ a && a ≤ 'Z' then Char.ofNat (a.toNat + 32) else a) == b || (a == 'ſ' && b == 's') || (a == '\u212a' && b == 'k')
  lower := lowerC
  isWord := fun c => ('0' ≤ c && c ≤ '9') || ('A' ≤ c && c ≤ 'Z') || ('a' ≤ c && c ≤ 'z') || c == '_'
def run (f2 f3 : Bool) (which h : String) : String :=
  match irregular2 (cfg (if which == "plural" then irregularPlural else irregularSingular)) f2 f3 (unhex h) with
  | .nomatch => "nomatch"
  | .panic => "panic"
  | .ok s => "ok " ++ hex s
end InflProbe

namespace DcProbe
open DeepCopy
/-- decl := <under s|m|c>:<enabled>:<generic>:<fields>; field := p|s|m|e|L<id>|I<id> -/
def parseDecl (t : String) : Decl :=
  match t.splitOn ":" with
  | [u, en, ge, fs] =>
    { under := if u == "s" then .struct else if u == "m" then .map else .scalar,
      enabled := en == "1", generic := ge == "1",
      fields := if fs == "-" then [] else (fs.splitOn ",").map fun f =>
        match f.toList with
        | ['p'] => FT.plain
        | ['s'] => .slice
        | ['m'] => .map
        | ['e'] => .errorT
        | 'L' :: d => .localNamed (String.ofList d).toNat! false
        | 'I' :: d => .localNamed (String.ofList d).toNat! true
        | _ => .plain }
  | _ => { under := .scalar, fields := [], enabled := false }

def showStmt : Stmt → String
  | .assign => "assign"
  | .copySlice => "slice"
  | .copyMap => "map"
  | .callInto i => s!"into{i}"
  | .viaCopy i => s!"copy{i}"
  | .viaCopyDeref i => s!"deref{i}"
  | .panic => "panic"

def run (fx prev : String) (decls : List String) : String :=
  let p : Pkg := decls.map parseDecl
  let fixed := fx == "1"
  let em := emitAll fixed p
  let anyPanic := em.any fun id => match p[id]? with
    | some d => d.under == .struct && d.fields.any fun f => fieldStmt fixed (prev == "1") p f == .panic
    | none => false
  if anyPanic then "panic" else
  "emit=" ++ String.intercalate "," (em.map toString) ++ " stmts=" ++
    String.intercalate ";" (em.map fun id => match p[id]? with
      | some d => if d.under == .struct then String.intercalate "," (d.fields.map fun f => showStmt (fieldStmt fixed (prev == "1") p f)) else "-"
      | none => "?")
end DcProbe

namespace RdProbe
open RuntimeDoc
def lines (h : String) : List (List Char) := if h == "-" then [] else (h.splitOn "|").map unhex
/-- type := name:exported:kind(s|c|i):doc:fields ; field := name~exported~emb(0|v|p)~cls(o|i|e)~doc~target(-|id)~thasexp -/
def parseType (t : String) : TypeD :=
  match t.splitOn ":" with
  | [name, ex, k, doc, fs] =>
    let fields : List Field := if fs == "-" then [] else (fs.splitOn ",").map fun f =>
      match f.splitOn "~" with
      | [n, e, emb, cls, d, tg, the] =>
        { name := n.toList, exported := e == "1", embedded := emb != "0", embPtr := emb == "p",
          cls := if cls == "i" then .inlineStruct else if cls == "e" then .emptyStruct else .other,
          doc := lines d, target := if tg == "-" then none else some tg.toNat!, targetHasExported := the == "1" }
      | _ => { name := [], exported := false, embedded := false, doc := [] }
    { name := name.toList, exported := ex == "1",
      kind := if k == "s" then .struct fields else if k == "i" then .iface else .scalar, doc := lines doc }
  | _ => { name := [], exported := false, kind := .iface, doc := [] }

def run1 (f16 f19 : Bool) (p : Pkg) (id : Nat) (names : String) : String :=
  match runtimeDoc f16 f19 p (p.length + 2) id (if names == "-" then [] else [names.toList]) with
  | none => "none"
  | some ls => "some " ++ String.intercalate "|" (ls.map hex)

def run (fxB : Bool) (id : String) (names : String) (types : List String) : String :=
  run1 fxB fxB (types.map parseType) id.toNat! names

/-- every query of the package: exported non-interface types × the name list, in order -/
def runAll (f16 f19 : Bool) (names : List String) (types : List String) : String :=
  let p : Pkg := types.map parseType
  let qs := (List.range p.length).flatMap fun i =>
    match p[i]? with
    | some t => if t.exported && (match t.kind with | .iface => false | _ => true) then names.map fun n => run1 f16 f19 p i n else []
    | none => []
  String.intercalate ";" qs
end RdProbe

namespace TlProbe
open TypeLit
partial def parseTy : List String → Option (GoType × List String)
  | "basic" :: n :: r => some (.basic n.toList, r)
  | "error" :: r => some (.error, r)
  | "any" :: r => some (.any, r)
  | "named" :: pkg :: name :: n :: r =>
    let rec args : Nat → List String → List GoType → Option (List GoType × List String)
      | 0, r, acc => some (acc.reverse, r)
      | k + 1, r, acc => (match parseTy r with
        | some (t, r') => args k r' (t :: acc)
        | none => none)
    (args n.toNat! r []).map fun (as, r') => (.named (unhex pkg) name.toList as, r')
  | "ptr" :: r => (parseTy r).map fun (t, r') => (.ptr t, r')
  | "slice" :: r => (parseTy r).map fun (t, r') => (.slice t, r')
  | "chan" :: r => (parseTy r).map fun (t, r') => (.chan t, r')
  | "array" :: n :: r => (parseTy r).map fun (t, r') => (.array n.toNat! t, r')
  | "map" :: r => (match parseTy r with
    | some (k, r1) => (parseTy r1).map fun (v, r2) => (.map k v, r2)
    | none => none)
  | "struct" :: n :: r =>
    let rec fields : Nat → List String → List Field → Option (List Field × List String)
      | 0, r, acc => some (acc.reverse, r)
      | k + 1, name :: emb :: tag :: r, acc => (match parseTy r with
        | some (t, r') => fields k r' (Field.mk name.toList (emb == "1") t (unhex tag) :: acc)
        | none => none)
      | _, _, _ => none
    (fields n.toNat! r []).map fun (fs, r') => (.struct fs, r')
  | _ => none

/-- `tlit <fixed> <hexself> <names: hexpath=hexname,...|-> <type tokens…>` -/
def run (fx self names : String) (toks : List String) : String :=
  let tab : List (List Char × List Char) := if names == "-" then [] else
    (names.splitOn ",").map fun kv => match kv.splitOn "=" with
      | [k, v] => (unhex k, unhex v)
      | _ => ([], [])
  let env : Env := { self := unhex self, localName := fun p => (tab.lookup p).getD [] }
  match parseTy toks with
  | some (t, []) => "ok " ++ hex (typeLit (fx == "1") env t).show
  | _ => "bad-op"
end TlProbe

namespace ValProbe
open Dumper

/-- recursive-descent parser for the prefix encoding of a value tree -/
partial def parseVal : List String → Option (Val × List String)
  | "nilptr" :: r => some (.nilPtr, r)
  | "iface" :: r => some (.iface, r)
  | "leaf" :: k :: ty :: lit :: e :: r =>
    let kind : Kind := if k == "s" then .string else .basic (k.drop 2).toString.toList
    some (.leaf kind (unhex ty) (unhex lit) (e == "1"), r)
  | "ptr" :: r => (parseVal r).map fun (v, r') => (.ptr v, r')
  | "struct" :: ty :: n :: r =>
    let rec fields : Nat → List String → List (List Char × Bool × Val) → Option (List (List Char × Bool × Val) × List String)
      | 0, r, acc => some (acc.reverse, r)
      | k + 1, name :: ex :: r, acc =>
        (match parseVal r with
         | some (v, r') => fields k r' ((unhex name, ex == "1", v) :: acc)
         | none => none)
      | _, _, _ => none
    (fields n.toNat! r []).map fun (fs, r') => (.struct (unhex ty) fs, r')
  | "map" :: ty :: n :: r =>
    let rec entries : Nat → List String → List (Val × Val) → Option (List (Val × Val) × List String)
      | 0, r, acc => some (acc.reverse, r)
      | k + 1, r, acc =>
        (match parseVal r with
         | some (kv, r1) =>
           (match parseVal r1 with
            | some (vv, r2) => entries k r2 ((kv, vv) :: acc)
            | none => none)
         | none => none)
    (entries n.toNat! r []).map fun (es, r') => (.map (unhex ty) es, r')
  | "seq" :: ty :: n :: r =>
    let rec elems : Nat → List String → List Val → Option (List Val × List String)
      | 0, r, acc => some (acc.reverse, r)
      | k + 1, r, acc =>
        (match parseVal r with
         | some (v, r') => elems k r' (v :: acc)
         | none => none)
    (elems n.toNat! r []).map fun (es, r') => (.seq (unhex ty) es, r')
  | _ => none

def run (fx : String) (toks : List String) : String :=
  match parseVal toks with
  | some (v, []) => "ok " ++ hex (valueLit (fx == "1") false v).show
  | _ => "bad-op"
end ValProbe

namespace ExecProbe
open Pipeline

def L (s : String) : List Char := s.toList
def S (l : List Char) : String := String.ofList l

/-- tags: `k=v|v&k=v`, `-` for none -/
def parseTags (s : String) : TagMap :=
  if s == "-" then [] else
  (s.splitOn "&").map fun kv =>
    match kv.splitOn "=" with
    | [k, vs] => (L k, (vs.splitOn "|").map fun v => if v == "_" then [] else L v)
    | _ => (L kv, [[]])

/-- reactions: `gen@pkg@type:<v><r>[d|e]` — verdict o/s/i/f, render n/v/x, optional `d` = registers a
    rendering defer, `e` = registers a failing defer -/
structure React where
  key : String
  verdict : Verdict
  render : Char
  deferK : Option Char

def parseReacts (s : String) : List React :=
  if s == "-" then [] else
  (s.splitOn ",").filterMap fun r =>
    match r.splitOn ":" with
    | [k, code] =>
      match code.toList with
      | v :: rk :: rest =>
        let verdict := if v == 's' then Verdict.skip else if v == 'i' then .ignore else if v == 'f' then .fail else .ok
        some ⟨k, verdict, rk, rest.head?⟩
      | _ => none
    | _ => none

/-- the recording generator of the harness as a state machine: state = (calls so far, helper emitted) -/
def mkGen (reacts : List React) (name : String) (hasAlias : Bool) : Gen :=
  let f : Nat × Bool → Str → TypeObj → (Nat × Bool) × Reaction := fun st pkg t =>
    let n := st.1
    match reacts.find? (fun r => r.key == name ++ "@" ++ S pkg ++ "@" ++ S t.name) with
    | some r =>
      let renders : List Str :=
        if r.render == 'v' then
          (if st.2 then [] else [L ("// helper of " ++ name ++ "\n")]) ++ [L ("var _" ++ name ++ "_" ++ S t.name ++ "_" ++ toString n ++ " = 1\n")]
        else if r.render == 'x' then [L "func {\n"]
        else if r.render == 'b' then [L "// custom body\n"]
        else if r.render == 'm' then [L "// map body\n"] else []
      let defers : List DeferCb := match r.deferK with
        | some 'd' => [⟨0, [L ("// deferred " ++ name ++ " " ++ S t.name ++ "\n")], false⟩]
        | some 'e' => [⟨0, [], true⟩]
        | _ => []
      ((n + 1, st.2 || r.render == 'v'), ⟨renders, defers, r.verdict⟩)
    | none => ((n + 1, st.2), ⟨[], [], .ok⟩)
  { name := L name, σ := Nat × Bool, new := (0, false), onType := f, onAlias := if hasAlias then some f else none }

def parsePkg (s : String) : Pkg :=
  match s.splitOn "^" with
  | [path, direct, dir, hash, files, ptags, types] =>
    { path := L path, direct := direct == "1", dir := L dir, hash := if hash == "-" then [] else L hash,
      goFiles := if files == "-" then [] else (files.splitOn ",").map L,
      pkgTags := parseTags ptags,
      types := if types == "-" then [] else (types.splitOn "/").map fun t =>
        match t.splitOn "~" with
        | [n, k, tg] => { name := L n, kind := if k == "n" then .named else if k == "a" then .alias else .typeParam, tags := parseTags tg }
        | _ => { name := L t, kind := .other, tags := [] } }
  | _ => { path := [], direct := false, dir := [], hash := [], goFiles := [], pkgTags := [], types := [] }

def showErr : Err → String
  | .generate g p => "generate:" ++ S g ++ ":" ++ S p
  | .deferred g p => "deferred:" ++ S g ++ ":" ++ S p
  | .syntax d n => "syntax:" ++ S d ++ "/" ++ S n

def showEffect : Effect → String
  | .write d n _ _ => "w:" ++ S d ++ "/" ++ S n
  | .remove d n => "r:" ++ S d ++ "/" ++ S n
  | .writeSum _ data => "s:" ++ hex data

def run (fxB : Bool) (args : List String) : String :=
  match args with
  | [flags, prev, globals, gens, reacts, pkgs] =>
    let pkgs := if pkgs == "" then "-" else pkgs
    let fl := flags.toList
    let a : Args := { globals := parseTags globals, base := L "zz_generated", all := fl[0]! == '1', force := fl[1]! == '1', emptyHashChanged := fxB }
    let prevSum : Option (List (Str × Str)) :=
      if prev == "none" then none else if prev == "-" then some [] else
      some ((prev.splitOn ",").map fun kv => match kv.splitOn "=" with
        | k :: rest => (L k, L (String.intercalate "=" rest))
        | _ => (L kv, []))
    let rs := parseReacts reacts
    let gs := (gens.splitOn ",").map fun g =>
      match g.splitOn "+" with
      | [n, _] => mkGen rs n true
      | _ => mkGen rs g false
    let ps := (pkgs.splitOn ";").map parsePkg
    let parses : Str → Bool := fun t => (TypeRef.lastIndexOfSub (L "func {") t).isNone
    let r := execute parses id a (L "root") prevSum ps gs
    let calls := (sortedPkgs ps).flatMap fun p => gs.flatMap fun g =>
      if (a.all || p.direct) && pkgChanged a (if a.all then prevSum else none) p then
        match dispatch a p g (sortedTypes p.types) { st := g.new, body := [], defers := [], ignore := false, calls := [] } with
        | .ok s => s.calls.map fun c => S g.name ++ "@" ++ S p.path ++ "@" ++ S c.1 ++ (if c.2 then "!" else "")
        | .error _ => ["?"]
      else []
    let bodies := r.1.filterMap fun e => match e with
      | .write _ _ g body => some (g, body)
      | _ => none
    -- bodies keyed pkgpath/gen: recover the package path from the directory
    let bodyStrs := r.1.filterMap fun e => match e with
      | .write d _ g body => (ps.find? (fun p => p.dir == d)).map fun p => S p.path ++ "/" ++ S g ++ "=" ++ hex body
      | _ => none
    let _ := bodies
    "result=" ++ (match r.2 with | none => "ok" | some e => showErr e) ++
    " effects=" ++ String.intercalate "," (r.1.map showEffect) ++
    " calls=" ++ String.intercalate "," calls ++
    " bodies=" ++ String.intercalate "," (sortByStr String.toList bodyStrs)
  | _ => "bad-op"
end ExecProbe

namespace C19Drv
open Camel
/-- classes: one digit per rune, bit 0 = IsLower, bit 1 = IsUpper, bit 2 = IsDigit (Go's unicode tables,
    computed by the harness) -/
def predsOf (s : List Char) (cls : List Char) : Preds :=
  let tab := s.zip (cls.map fun d => d.toNat - 48)
  let look (bit : Nat) (c : Char) : Bool := match tab.lookup c with
    | some b => (b / bit) % 2 == 1
    | none => false
  ⟨look 1, look 2, look 4⟩

def bytesOf (h : String) : List UInt8 := if h == "-" then [] else unhexBytes h.toList

def decode (bs : List UInt8) : Option (List Char) :=
  (String.fromUTF8? (ByteArray.mk bs.toArray)).map (·.toList)

def hexBytes (bs : List UInt8) : String :=
  if bs.isEmpty then "-" else String.ofList (bs.flatMap fun b => [hexDigit (b.toNat / 16), hexDigit (b.toNat % 16)])

def runSplit (guarded : Bool) (h cls : String) : String :=
  let bs := bytesOf h
  let p := predsOf ((decode bs).getD []) cls.toList
  match splitBytes p guarded decode bs with
  | none => "panic"
  | some (.inl ws) => "ok " ++ String.intercalate "|" (ws.map hexBytes)
  | some (.inr ws) => "ok " ++ String.intercalate "|" (ws.map hex)

/-- `case <linker> <hex> <classes> {<word> <t0> <t1>}*` — per-word transforms supplied by the harness -/
def runCase (guarded : Bool) (linker h cls : String) (tab : List String) : String :=
  let bs := bytesOf h
  match decode bs with
  | none => "ok " ++ (match tab with | _ :: t0 :: _ => t0 | _ => "missing-word")
  | some s =>
    let p := predsOf s cls.toList
    let rec triples : List String → List (List Char × List Char × List Char)
      | w :: a :: b :: r => (unhex w, unhex a, unhex b) :: triples r
      | _ => []
    let t := triples tab
    let missing : List Char := "\u0000missing-word".toList
    let trans (w : List Char) (i : Nat) : List Char := match t.lookup w with
      | some (a, b) => if i == 0 then a else b
      | none => missing
    match makeCase p guarded (unhex linker) trans asciiDropWord s with
    | none => "panic"
    | some o => "ok " ++ hex o
end C19Drv


namespace C09Drv
open Template
/-- prefix encoding of a snippet tree:
    `L <0|1> <hex|!>` leaf (isNil, text or panic) · `C <hex>` Comment · `D <hex> <k> <hex>^k` GoDirective ·
    `T <fmt> <k> {<name> snip}^k` · `P <fmt> <k> {snip_v snip_t}^k` Sprintf · `Q <k> snip^k` Snippets -/
partial def parse : List String → Option (Snip × List String)
  | "L" :: n :: t :: r => some (.leaf (n == "1") (if t == "!" then none else some (unhex t)), r)
  | "C" :: t :: r => some (.leaf false (some (Sprintf.comment (unhex t))), r)
  | "D" :: d :: k :: r =>
    let n := k.toNat!
    some (.leaf false (some (Sprintf.directive (unhex d) ((r.take n).map unhex))), r.drop n)
  | "T" :: f :: k :: r =>
    let rec goT : Nat → List String → List (List Char) → List Snip → Option (List (List Char) × List Snip × List String)
      | 0, r, ns, as => some (ns.reverse, as.reverse, r)
      | k + 1, n :: r, ns, as => (match parse r with
        | some (a, r') => goT k r' (unhex n :: ns) (a :: as)
        | none => none)
      | _, _, _, _ => none
    (goT k.toNat! r [] []).map fun (ns, as, r') => (.tmpl (unhex f) ns as, r')
  | "P" :: f :: k :: r =>
    let rec goP : Nat → List String → List Snip → List Snip → Option (List Snip × List Snip × List String)
      | 0, r, vs, ts => some (vs.reverse, ts.reverse, r)
      | k + 1, r, vs, ts => (match parse r with
        | some (v, r1) => (match parse r1 with
          | some (t, r2) => goP k r2 (v :: vs) (t :: ts)
          | none => none)
        | none => none)
    (goP k.toNat! r [] []).map fun (vs, ts, r') => (.sprintf (unhex f) vs ts, r')
  | "Q" :: k :: r =>
    let rec goQ : Nat → List String → List Snip → Option (List Snip × List String)
      | 0, r, as => some (as.reverse, r)
      | k + 1, r, as => (match parse r with
        | some (a, r') => goQ k r' (a :: as)
        | none => none)
    (goQ k.toNat! r []).map fun (as, r') => (.seq as, r')
  | _ => none

def run (f5 f6 : Bool) (toks : List String) : String :=
  match parse toks with
  | some (s, []) => (match renderTop f5 f6 s with
    | none => "panic"
    | some o => "ok " ++ hex o)
  | _ => "bad-op"
end C09Drv


namespace C15Drv
open TypeRef
def trackerCfg (fx : String → Bool) : Tracker.Cfg :=
  if fx "F8" then LocalName.cfgF stdTab true else LocalName.cfgP stdTab true

def showImports (t : Tracker.Tracker) : String :=
  String.intercalate "," ((sortByStr (·.1) t.p2n).map fun e => hex e.1 ++ "=" ++ hex e.2)

/-- `tname <self> {<pkg> <name>}*`: render the references in order through one namer -/
def runNames (fx : String → Bool) (self : String) (refs : List String) : String :=
  let c := trackerCfg fx
  let rec go : List String → Tracker.Tracker → List String → Option (List String × Tracker.Tracker)
    | p :: n :: r, t, out => (match nameOf (fx "F4") c (unhex self) t (unhex p) (unhex n) with
      | none => none
      | some (nm, t') => go r t' (hex nm :: out))
    | _, t, out => some (out.reverse, t)
  match go refs Tracker.empty [] with
  | none => "panic"
  | some (names, t) => "ok " ++ String.intercalate "," names ++ " imports " ++ showImports t
end C15Drv


namespace C13Drv
open Loader
/-- `tables {<id>:<k t|c|f|v>:<s p|l|q>:<m 0|1>:<namehex>}*` — the Defs objects in the order given -/
def parseObj (t : String) : Option Obj :=
  match t.splitOn ":" with
  | [id, k, sc, m, n] => some {
      id := id.toNat!, name := unhex n,
      kind := if k == "t" then .typeName else if k == "c" then .const_ else if k == "f" then .func else .var_,
      scope := if sc == "p" then .pkg else if sc == "l" then .local_ else .typeParam,
      isMethod := m == "1" }
  | _ => none

def showTab (m : List (List Char × Nat)) : String :=
  String.intercalate "," ((sortByStr (·.1) m).map fun e => hex e.1 ++ "=" ++ toString e.2)

def runTables (guarded : Bool) (toks : List String) : String :=
  let defs := toks.filterMap parseObj
  "types " ++ showTab (typesTable guarded defs []) ++
  " consts " ++ showTab (tableOf guarded .const_ defs []) ++
  " funcs " ++ showTab (tableOf guarded .func defs [])

/-- `methods <t> <canPtr> {<namehex>:<origin>:<object>:<ptr>}*` -/
def runMethods (byOrigin : Bool) (t canPtr : String) (toks : List String) : String :=
  let ms : List Methods.Method := toks.filterMap fun x => match x.splitOn ":" with
    | [n, o, ob, p] => some ⟨unhex n, o.toNat!, ob.toNat!, p == "1"⟩
    | _ => none
  String.intercalate "," ((Methods.methodsOf byOrigin ms t.toNat! (canPtr == "1")).map fun m => hex m.name)

/-- `register <root>* | {<path>><imp>,<imp>…}*` — registration from the roots in order; answers every
    package's import table as path=0/1 (resolved to non-nil) -/
def runRegister (fixed guardRoots : Bool) (toks : List String) : String :=
  let roots := toks.takeWhile (· != "|")
  let nodes : Register.Graph := (toks.dropWhile (· != "|")).drop 1 |>.map fun t =>
    match t.splitOn ">" with
    | [p, is] => ⟨unhex p, if is == "" then [] else (is.splitOn ",").map unhex⟩
    | _ => ⟨unhex t, []⟩
  let u := Register.loadRoots guardRoots fixed nodes (nodes.length + 1) (roots.map unhex) []
  -- the table of a package is the one of its latest registration; a package registered twice is listed
  let ks := Register.keys u
  let latest := (sortByStr id ks.eraseDups).filterMap fun k => (u.lookup k).map fun t => (k, t)
  let twice := (sortByStr id ks.eraseDups).filter fun k => (ks.filter (· == k)).length > 1
  String.intercalate " " (latest.map fun e =>
    hex e.1 ++ ":" ++ String.intercalate "," ((sortByStr (·.1) e.2).map fun i => hex i.1 ++ "=" ++ (if i.2 then "1" else "0"))) ++
  " twice=" ++ String.intercalate "," (twice.map hex)

/-- `locate <dirsegs> {<pkgpathsegs>;<modpath>;<moddir>}*` segments joined by `/`, `-` = no module -/
def segs (s : String) : Locate.Path := if s == "" || s == "." then [] else (s.splitOn "/").map String.toList
def runLocate (dir : String) (toks : List String) : String :=
  let ps : List Locate.P := toks.map fun t => match t.splitOn ";" with
    | pp :: mp :: md :: _ => ⟨segs pp, if mp == "-" then none else some (segs mp, segs md)⟩
    | _ => ⟨[], none⟩
  -- with a fourth field (matched by the patterns: 0|1) the locality decision of `Load` is answered as well
  let lps : List Locality.P := toks.filterMap fun t => match t.splitOn ";" with
    | [pp, mp, _, m] => some ⟨segs pp, if mp == "-" then none else some (segs mp), m == "1"⟩
    | _ => none
  let showPath (p : Locate.Path) : String := String.intercalate "/" (p.map String.ofList)
  let localsPart : String :=
    if lps.isEmpty then "" else
      " locals " ++ String.intercalate "," ((sortByStr id ((Locality.locals lps).map fun e => (showPath e.1 ++ "=" ++ (if e.2 then "1" else "0")).toList)).map String.ofList)
  let sd := ps.map fun p => match Locate.sourceDir p with
    | none => "-"
    | some d => String.intercalate "/" (d.map String.ofList)
  let loc := match Locate.locate ps (segs dir) with
    | none => "none"
    | some p => String.intercalate "/" (p.pkgPath.map String.ofList)
  "dirs " ++ String.intercalate "," sd ++ " locate " ++ loc ++ localsPart
end C13Drv


namespace C18Drv
open TypeLit
/-- `partial <self> <imports> <omit> {<name> <tag> <n> <n type tokens>}*` -/
def run (f15 f10 : Bool) (self names om : String) (toks : List String) : String :=
  let tab : List (List Char × List Char) := if names == "-" then [] else
    (names.splitOn ",").map fun kv => match kv.splitOn "=" with
      | [k, v] => (unhex k, unhex v)
      | _ => ([], [])
  let env : Env := { self := unhex self, localName := fun p => (tab.lookup p).getD [] }
  let omitted : List (List Char) := if om == "-" then [] else (om.splitOn ",").map unhex
  let rec fields : Nat → List String → Option (List Partial.OField)
    | 0, _ => some []
    | _, [] => some []
    | fuel + 1, name :: tag :: n :: r =>
      (match TlProbe.parseTy (r.take n.toNat!) with
       | some (t, []) => (fields fuel (r.drop n.toNat!)).map fun fs => ⟨unhex name, t, unhex tag⟩ :: fs
       | _ => none)
    | _, _ => none
  match fields (toks.length + 1) toks with
  | none => "bad-op"
  | some fs =>
    "fields " ++ String.intercalate ";" ((Partial.genFields f15 env omitted fs).map fun (n, e, tg) =>
      hex n ++ "|" ++ hex (TExpr.show (if f10 then e else e)) ++ "|" ++ (match tg with | some t => hex t | none => "?"))
end C18Drv


def handle (fx : String → Bool) (line : String) : String :=
  let fxB := fx "all"
  let fx1 := if fxB then "1" else "0"
  match line.splitOn " " with
  | ["split", h, cls] => C19Drv.runSplit (fx "F1") h cls
  | "case" :: linker :: h :: cls :: tab => C19Drv.runCase (fx "F1") linker h cls tab
  | "snip" :: toks => C09Drv.run (fx "F5") (fx "F6") toks
  | ["tref", h] =>
    let s := unhex h
    (match TypeRef.parse (fx "F4") (s.length + 2) s with
     | none => "err"
     | some t => "ok " ++ hex t.print)
  | ["tsplit", h] =>
    let s := unhex h
    "ref=" ++ (match TypeRef.parseRef s with
      | some (p, n) => hex p ++ "," ++ hex n
      | none => "err") ++
    " pie=" ++ (let r := TypeRef.pkgImportPathAndExpose s; hex r.1 ++ "," ++ hex r.2)
  | "tname" :: self :: refs => C15Drv.runNames fx self refs
  | ["tmpl", h] =>
    (match Template.render tmplEnv fxB (unhex h) with
     | none => "panic"
     | some o => "ok " ++ hex o)
  | "tags" :: markers :: hs => showTags (Tags.extract (if markers == "-" then Gengo.Gen.defaultMarkers else unhex markers) (hs.map unhex))
  | ["sprintf", h] =>
    (match Sprintf.sprintf fxB (unhex h) [⟨some ['1'], some ['1']⟩, ⟨some ['T'], some ['T']⟩] with
     | none => "panic"
     | some o => "ok " ++ hex o)
  | "layout" :: toks =>
    -- rows: `b` | `c <k> <line>^k` | `d <h> <-|trail>`
    let rec rows : Nat → List String → List Layout.Row
      | 0, _ => []
      | _, [] => []
      | fuel + 1, "b" :: r => Layout.Row.blank :: rows fuel r
      | fuel + 1, "c" :: k :: r => Layout.Row.comment ((r.take k.toNat!).map unhex) :: rows fuel (r.drop k.toNat!)
      | fuel + 1, "d" :: h :: t :: r => Layout.Row.decl h.toNat! (if t == "-" then none else some (unhex t)) :: rows fuel r
      | _, _ => []
    let rs := rows (toks.length + 1) toks
    let idx := Layout.build (fx "F11") rs 1 ⟨[], []⟩
    let decls := Layout.truth rs 1 none
    String.intercalate " " (decls.map fun e =>
      let d := Layout.docOf idx e.1
      "doc=" ++ showTags d ++ ";comment=" ++ String.intercalate "," ((Layout.commentOf idx e.1).map hex))
  | ["resolve", f, prog] =>
    let fx := if fx "F13a" then "1" else "0"
    let parseTy (c : Char) : Resolver.Ty :=
      if c == 'e' then ⟨"error".toList, true⟩ else if c == 's' then ⟨"string".toList, false⟩ else ⟨"int".toList, false⟩
    let parseExpr (t : String) : Resolver.Expr :=
      match t.toList with
      | 'L' :: h => .lit (unhex (String.ofList h))
      | 'O' :: h => .opaque (unhex (String.ofList h))
      | 'C' :: j => .call (String.ofList j).toNat!
      | _ => .lit []
    let funcs : Resolver.Prog := (prog.splitOn ";").map fun fs =>
      match fs.splitOn "|" with
      | tys :: rets => { results := tys.toList.map parseTy,
                         returns := rets.map fun r => (r.splitOn ",").map parseExpr }
      | _ => { results := [], returns := [] }
    let showRes : Resolver.Res → String
      | .val v => String.ofList v
      | .ty t => String.ofList t
    (match Resolver.resultsOf funcs (fx == "1") 200 f.toNat! with
     | none => "diverge"
     | some rs => "(" ++ String.intercalate ", " (rs.map fun r => String.intercalate " | " (r.map showRes)) ++ ")")
  | "resolve2" :: toks => R2Drv.run toks
  | "assemble" :: pkg :: gen :: imps :: frags =>
    let tab : List (List Char × List Char) := if imps == "-" then [] else
      (imps.splitOn ",").map fun kv => match kv.splitOn "=" with
        | [k, v] => (unhex k, unhex v)
        | _ => ([], [])
    "ok " ++ hex (Assemble.source (unhex pkg) (unhex gen) tab (frags.map unhex)) ++ " file " ++ hex (Assemble.fileName "zz_generated".toList (unhex gen))
  | "partial" :: self :: names :: om :: toks => C18Drv.run (fx "F15") (fx "F10") self names om toks
  | "tables" :: toks => C13Drv.runTables (fx "F12a") toks
  | "methods" :: t :: canPtr :: toks => C13Drv.runMethods (fx "F12c") t canPtr toks
  | "register" :: toks => C13Drv.runRegister (fx "F12b") (fx "F24") toks
  | "locate" :: dir :: toks => C13Drv.runLocate dir toks
  | "sumrt" :: kvs =>
    let rec pairs : List String → List (List Char × List Char)
      | k :: v :: r => (unhex k, unhex v) :: pairs r
      | _ => []
    let m := pairs kvs
    let b := SumFile.bytes m
    let loaded := SumFile.loadEntries b
    let keys := (sortByStr id (loaded.map (·.1))).eraseDups
    "bytes=" ++ hex b ++ " load=" ++ String.intercalate "," (keys.map fun k => hex k ++ "=" ++ hex ((SumFile.loadLookup b k).getD []))
  | "exec" :: args => ExecProbe.run (fx "F17") args
  | "vlit" :: toks => ValProbe.run (if fx "F9" then "1" else "0") toks
  | ["infl", which, h] => InflProbe.run (fx "F2") (fx "F3") which h
  | "dcopy2" :: decls =>
    let f := if fx "F14" then "1" else "0"
    let r1 := DcProbe.run f "0" decls
    if r1 == "panic" then "panic" else
    let p : DeepCopy.Pkg := decls.map DcProbe.parseDecl
    let b (prev : Bool) : String := if DeepCopy.compiles (fx "F14") prev p then "ok" else "fail"
    "run1 " ++ r1 ++ " build=" ++ b false ++ " run2 " ++ DcProbe.run f "1" decls ++ " build=" ++ b true
  | "rdoc" :: id :: names :: types => RdProbe.run fxB id names types
  | "rdocall" :: n :: rest => RdProbe.runAll (fx "F16") (fx "F19") (rest.take n.toNat!) (rest.drop n.toNat!)
  | "tlit" :: self :: names :: toks => TlProbe.run (if fx "F10" then "1" else "0") self names toks
  | "track" :: hs =>
    let r := (hs.map unhex).foldl (fun (acc : Option (Tracker.Tracker × List String)) p =>
      acc.bind fun (t, out) => (if fxB then some (LocalName.addF stdTab true t p) else LocalName.addP stdTab true t p).map fun t' =>
        (t', out ++ [hex (Tracker.localNameOf t' p)])) (some (Tracker.empty, []))
    (match r with
     | none => "panic"
     | some (_, out) => "ok " ++ String.intercalate "," out)
  | _ => "bad-op"

partial def loop (fx : String → Bool) (i o : IO.FS.Stream) : IO Unit := do
  let line ← i.getLine
  if line.isEmpty then return ()
  o.putStrLn (handle fx (line.dropEndWhile (· == '\n')).toString)
  o.flush
  loop fx i o

/-- `MODEL_FIXED=F1,F4,…` (or `all`): the findings whose repaired model side is active -/
def main : IO Unit := do
  let ids := ((← IO.getEnv "MODEL_FIXED").getD "").splitOn ","
  let fx : String → Bool := fun id => ids.contains id || ids.contains "all"
  loop fx (← IO.getStdin) (← IO.getStdout)
