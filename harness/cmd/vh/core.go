package main

// Generic correspondence engine: streams of cases are run against the real code
// (in-process) and against the Lean model (through the line-protocol driver), the
// canonical outputs are diffed, an independent oracle is evaluated on every
// implementation output, failing cases are shrunk, and a JSON result is written for the
// runner (./check) to turn into evidence, KNOWN-FINDING and VIOLATION lines.

import (
	"bufio"
	"encoding/hex"
	"encoding/json"
	"fmt"
	"io"
	"os"
	"os/exec"
	"path/filepath"
	"reflect"
	"sort"
	"strings"
	"sync"
	"time"
)

// ---------------------------------------------------------------- PRNG (splitmix64)

type Rng struct{ s uint64 }

func NewRng(seed uint64) *Rng { return &Rng{s: seed} }

func (r *Rng) U64() uint64 {
	r.s += 0x9e3779b97f4a7c15
	z := r.s
	z = (z ^ (z >> 30)) * 0xbf58476d1ce4e5b9
	z = (z ^ (z >> 27)) * 0x94d049bb133111eb
	return z ^ (z >> 31)
}

func (r *Rng) Intn(n int) int {
	if n <= 0 {
		return 0
	}
	return int(r.U64() % uint64(n))
}
func (r *Rng) Bool() bool         { return r.U64()&1 == 1 }
func (r *Rng) Chance(p int) bool  { return r.Intn(100) < p }
func (r *Rng) Fork(k uint64) *Rng { return NewRng(r.s*0x2545f4914f6cdd1d + k*0x9e3779b97f4a7c15 + 1) }

func Pick[T any](r *Rng, xs []T) T { return xs[r.Intn(len(xs))] }

func (r *Rng) Str(al []rune, max int) string {
	n := r.Intn(max + 1)
	b := make([]rune, n)
	for i := range b {
		b[i] = al[r.Intn(len(al))]
	}
	return string(b)
}

// ---------------------------------------------------------------- helpers

func hx(s string) string {
	if s == "" {
		return "-"
	}
	return hex.EncodeToString([]byte(s))
}

func unhx(s string) string {
	if s == "-" {
		return ""
	}
	b, _ := hex.DecodeString(s)
	return string(b)
}

func hxs(ss []string, sep string) string {
	o := make([]string, len(ss))
	for i, s := range ss {
		o[i] = hx(s)
	}
	return strings.Join(o, sep)
}

// guard maps a panic of the real code to the canonical output "panic".
func guard(f func() string) (out string) {
	defer func() {
		if e := recover(); e != nil {
			out = "panic"
		}
	}()
	return f()
}

// ---------------------------------------------------------------- cases and streams

// A Case is plain data (JSON round-trips through its exported fields).
type Case interface {
	// Line is the request sent to the Lean driver; "" = oracle-only case.
	Line() string
	// Run executes the real code and returns its canonical output.
	Run() string
	// Oracle judges the implementation output against the property, independently of the
	// model: "" = the property holds on this case (or the case is outside its domain).
	Oracle(out string) string
	// Shrinks proposes strictly smaller cases.
	Shrinks() []Case
	// Classes are histogram buckets (input distribution written to the evidence).
	Classes() []string
	// Nontrivial says whether the case reaches a non-default branch of the code under test.
	Nontrivial() bool
}

// InDomain is optional: cases outside the property's stated domain (malformed stream) are
// compared for model/impl agreement only and get no oracle verdict.
type domainer interface{ InDomain() bool }

// modelOut lets a case post-process the model's answer (e.g. decode) before diffing.
type modelCanon interface{ CanonModel(string) string }

type Stream struct {
	Name           string
	Quick          int
	Thorough       int
	New            func() Case                         // zero value for decoding replays / corpus
	Gen            func(r *Rng, i int) Case            // random generation
	Enum           func(tier string, yield func(Case)) // optional exhaustive enumeration
	EnumExhaustive bool
	Parallel       int                         // >0: Run() is called from that many goroutines
	BatchRun       func(cases []Case) []string // optional: run all cases at once (child-process pools)
	ShrinkBudget   int                         // evaluations per failing case (default 400)
	MaxShrinks     int                         // failing cases shrunk per stream (default 60)
	Rule           string
}

type Property struct {
	ID      string
	Streams []*Stream
}

var registry = map[string]*Property{}

func register(p *Property) { registry[p.ID] = p }

// ---------------------------------------------------------------- driver client

type Driver struct {
	cmd *exec.Cmd
	in  *bufio.Writer
	out *bufio.Reader
	mu  sync.Mutex
}

func startDriver(path string, fixed string) (*Driver, error) {
	cmd := exec.Command(path)
	cmd.Env = append(os.Environ(), "MODEL_FIXED="+fixed)
	cmd.Stderr = os.Stderr
	ip, err := cmd.StdinPipe()
	if err != nil {
		return nil, err
	}
	op, err := cmd.StdoutPipe()
	if err != nil {
		return nil, err
	}
	if err := cmd.Start(); err != nil {
		return nil, err
	}
	return &Driver{cmd: cmd, in: bufio.NewWriterSize(ip, 1<<20), out: bufio.NewReaderSize(op, 1<<20)}, nil
}

// Batch sends all lines and reads as many answers (pipelined).
func (d *Driver) Batch(lines []string) ([]string, error) {
	d.mu.Lock()
	defer d.mu.Unlock()
	errc := make(chan error, 1)
	go func() {
		for _, l := range lines {
			if _, err := d.in.WriteString(l); err != nil {
				errc <- err
				return
			}
			d.in.WriteByte('\n')
		}
		errc <- d.in.Flush()
	}()
	res := make([]string, 0, len(lines))
	for range lines {
		s, err := d.out.ReadString('\n')
		if err != nil {
			return res, fmt.Errorf("driver died after %d answers: %v", len(res), err)
		}
		res = append(res, strings.TrimRight(s, "\n"))
	}
	if err := <-errc; err != nil {
		return res, err
	}
	return res, nil
}

func (d *Driver) Ask(line string) string {
	r, err := d.Batch([]string{line})
	if err != nil || len(r) != 1 {
		return "driver-error"
	}
	return r[0]
}

func (d *Driver) Close() {
	d.in.Flush()
	if c, ok := d.cmd.Stdin.(io.Closer); ok {
		c.Close()
	}
	d.cmd.Process.Kill()
	d.cmd.Wait()
}

// ---------------------------------------------------------------- results

type Violation struct {
	Kind     string          `json:"kind"` // counterexample | correspondence
	Stream   string          `json:"stream"`
	Case     json.RawMessage `json:"case"`
	Line     string          `json:"line,omitempty"`
	Impl     string          `json:"impl"`
	Model    string          `json:"model,omitempty"`
	Oracle   string          `json:"oracle,omitempty"`
	Key      string          `json:"key"`
	Original json.RawMessage `json:"original_case,omitempty"`
	Replay   string          `json:"replay,omitempty"`
	Note     string          `json:"note,omitempty"`
}

type StreamResult struct {
	Name          string         `json:"name"`
	Cases         int            `json:"cases"`
	Distinct      int            `json:"distinct"`
	Nontrivial    int            `json:"distinct_nontrivial"`
	ModelCompared int            `json:"model_compared"`
	Disagreements int            `json:"disagreements"`
	OracleFails   int            `json:"oracle_failures"`
	OutOfDomain   int            `json:"out_of_domain"`
	Exhaustive    bool           `json:"exhaustive"`
	Hist          map[string]int `json:"histogram"`
	Rule          string         `json:"rule"`
	Samples       []any          `json:"samples"`
}

type Result struct {
	Property   string          `json:"property"`
	Tier       string          `json:"tier"`
	Seed       uint64          `json:"seed"`
	Streams    []*StreamResult `json:"streams"`
	Violations []*Violation    `json:"violations"`
	WallS      float64         `json:"wall_s"`
	Notes      []string        `json:"notes,omitempty"`
}

func caseJSON(c Case) json.RawMessage {
	b, err := json.Marshal(c)
	if err != nil {
		return json.RawMessage(`"unmarshalable"`)
	}
	return b
}

func caseKey(stream string, c Case) string {
	if k, ok := c.(interface{ Key() string }); ok {
		return stream + ":" + k.Key()
	}
	return stream + ":" + string(caseJSON(c))
}

func modelAnswer(c Case, s string) string {
	if m, ok := c.(modelCanon); ok {
		return m.CanonModel(s)
	}
	return s
}

func inDomain(c Case) bool {
	if d, ok := c.(domainer); ok {
		return d.InDomain()
	}
	return true
}

type failure struct {
	c      Case
	impl   string
	model  string
	oracle string
}

// evaluate runs one case on both sides.
func evaluate(d *Driver, c Case) failure {
	f := failure{c: c}
	f.impl = c.Run()
	if l := c.Line(); l != "" && d != nil {
		f.model = modelAnswer(c, d.Ask(l))
	} else {
		f.model = f.impl
	}
	if inDomain(c) {
		f.oracle = guardedOracle(c, f.impl)
	}
	return f
}

// guardedOracle: an oracle calls into the implementation for its references; a panic there is the implementation's (the
// case's own Run reports panics of the call under test as its outcome) and is reported as the oracle's failure
// instead of taking the harness down
func guardedOracle(c Case, impl string) (out string) {
	defer func() {
		if e := recover(); e != nil {
			msg := fmt.Sprint(e)
			if len(msg) > 200 {
				msg = msg[:200]
			}
			out = "a reference call into the implementation panicked: " + msg
		}
	}()
	return c.Oracle(impl)
}

func (f failure) failing() string {
	if f.oracle != "" {
		// the signature keeps a shrink from wandering off to a different failure
		w := strings.Fields(f.oracle)
		if len(w) > 3 {
			w = w[:3]
		}
		return "counterexample:" + strings.Join(w, " ")
	}
	if f.model != f.impl {
		return "correspondence"
	}
	return ""
}

// shrink greedily reduces a failing case while it keeps failing the same way.
func shrink(d *Driver, f failure, budget int) failure {
	kind := f.failing()
	for budget > 0 {
		progressed := false
		for _, s := range f.c.Shrinks() {
			budget--
			g := evaluate(d, s)
			if g.failing() == kind {
				f = g
				progressed = true
				break
			}
			if budget <= 0 {
				break
			}
		}
		if !progressed {
			break
		}
	}
	return f
}

func runStream(p *Property, st *Stream, d *Driver, tier string, seed uint64, replayDir string, res *Result, only []Case) {
	sr := &StreamResult{Name: st.Name, Hist: map[string]int{}, Rule: st.Rule}
	res.Streams = append(res.Streams, sr)

	var cases []Case
	if only != nil {
		cases = only
	} else {
		// corpus first
		cases = append(cases, loadCorpus(p.ID, st)...)
		sr.Hist["corpus"] = len(cases)
		n := st.Quick
		if tier == "thorough" {
			n = st.Thorough
		}
		if st.Gen != nil {
			rng := NewRng(seed ^ hashStr(p.ID+"/"+st.Name))
			for i := 0; i < n; i++ {
				cases = append(cases, st.Gen(rng.Fork(uint64(i)), i))
			}
		}
		if st.Enum != nil {
			before := len(cases)
			st.Enum(tier, func(c Case) { cases = append(cases, c) })
			sr.Hist["enumerated"] = len(cases) - before
			sr.Exhaustive = st.EnumExhaustive && st.Gen == nil
		}
	}
	sr.Cases = len(cases)

	// implementation side
	impl := make([]string, len(cases))
	if st.BatchRun != nil {
		impl = st.BatchRun(cases)
	} else if st.Parallel > 1 {
		var wg sync.WaitGroup
		ch := make(chan int)
		for w := 0; w < st.Parallel; w++ {
			wg.Add(1)
			go func() {
				defer wg.Done()
				for i := range ch {
					impl[i] = cases[i].Run()
				}
			}()
		}
		for i := range cases {
			ch <- i
		}
		close(ch)
		wg.Wait()
	} else {
		for i, c := range cases {
			impl[i] = c.Run()
		}
	}

	// model side
	model := make([]string, len(cases))
	var lines []string
	var idx []int
	for i, c := range cases {
		if l := c.Line(); l != "" {
			lines = append(lines, l)
			idx = append(idx, i)
		} else {
			model[i] = impl[i]
		}
	}
	if d != nil && len(lines) > 0 {
		ans, err := d.Batch(lines)
		if err != nil {
			res.Notes = append(res.Notes, "driver: "+err.Error())
		}
		for j, i := range idx {
			if j < len(ans) {
				model[i] = modelAnswer(cases[i], ans[j])
			} else {
				model[i] = "driver-error"
			}
		}
		sr.ModelCompared = len(lines)
	}

	seen := map[string]bool{}
	seenKeys := map[string]bool{}
	shrunk := map[string]int{} // per failure kind: disagreements without a failing input must not use up the budget of the failing inputs
	for i, c := range cases {
		js := string(caseJSON(c))
		first := !seen[js]
		if first {
			seen[js] = true
			sr.Distinct++
			if c.Nontrivial() {
				sr.Nontrivial++
			}
		}
		for _, cl := range c.Classes() {
			sr.Hist[cl]++
		}
		switch {
		case impl[i] == "panic":
			sr.Hist["impl:panic"]++
		case strings.HasPrefix(impl[i], "err"):
			sr.Hist["impl:error"]++
		}
		if len(sr.Samples) < 3 && c.Nontrivial() && first {
			sr.Samples = append(sr.Samples, map[string]any{"case": json.RawMessage(js), "request": clip(c.Line(), 400), "impl": clip(impl[i], 400), "model": clip(model[i], 400)})
		}
		f := failure{c: c, impl: impl[i], model: model[i]}
		dom := inDomain(c)
		if !dom {
			sr.OutOfDomain++
		} else {
			f.oracle = guardedOracle(c, impl[i])
		}
		if model[i] == "bad-op" {
			res.Notes = append(res.Notes, "harness bug: driver answered bad-op for "+clip(c.Line(), 200))
		}
		kind := f.failing()
		if kind == "" {
			continue
		}
		kind = strings.SplitN(kind, ":", 2)[0]
		if f.oracle != "" {
			sr.OracleFails++
		}
		if f.model != f.impl {
			sr.Disagreements++
		}
		// a failure that carries a class key is identified without shrinking (and never dropped by the cap)
		if ck := caseKey(st.Name, c); strings.HasPrefix(ck, st.Name+":class: ") {
			key := ck + "|" + kind
			if !seenKeys[key] {
				seenKeys[key] = true
				res.Violations = append(res.Violations, &Violation{Kind: kind, Stream: st.Name, Case: caseJSON(c), Line: c.Line(), Impl: clip(f.impl, 2000), Model: clip(f.model, 2000), Oracle: f.oracle, Key: ck, Original: caseJSON(c)})
			}
			continue
		}
		maxShrinks, budget := 60, 400
		if st.MaxShrinks > 0 {
			maxShrinks = st.MaxShrinks
		}
		if st.ShrinkBudget > 0 {
			budget = st.ShrinkBudget
		}
		if len(res.Violations) >= 40 || shrunk[kind] >= maxShrinks {
			continue
		}
		shrunk[kind]++
		g := shrink(d, f, budget)
		key := caseKey(st.Name, g.c) + "|" + kind
		if seenKeys[key] {
			continue
		}
		seenKeys[key] = true
		v := &Violation{Kind: kind, Stream: st.Name, Case: caseJSON(g.c), Line: g.c.Line(), Impl: g.impl, Model: g.model, Oracle: g.oracle, Key: caseKey(st.Name, g.c), Original: caseJSON(c)}
		res.Violations = append(res.Violations, v)
	}
}

func clip(s string, n int) string {
	if len(s) > n {
		return s[:n] + "…"
	}
	return s
}

func hashStr(s string) uint64 {
	h := uint64(1469598103934665603)
	for i := 0; i < len(s); i++ {
		h ^= uint64(s[i])
		h *= 1099511628211
	}
	return h
}

// ---------------------------------------------------------------- corpus / replay files

type caseFile struct {
	Property string          `json:"property"`
	Stream   string          `json:"stream"`
	Case     json.RawMessage `json:"case"`
	Note     string          `json:"note,omitempty"`
}

func verifRoot() string {
	if r := os.Getenv("VERIF_ROOT"); r != "" {
		return r
	}
	return "/verif"
}

func loadCorpus(prop string, st *Stream) []Case {
	var out []Case
	files, _ := filepath.Glob(filepath.Join(verifRoot(), "corpus", prop, "*.json"))
	sort.Strings(files)
	for _, f := range files {
		b, err := os.ReadFile(f)
		if err != nil {
			continue
		}
		var cf caseFile
		if json.Unmarshal(b, &cf) != nil || cf.Stream != st.Name || st.New == nil {
			continue
		}
		c := st.New()
		if json.Unmarshal(cf.Case, c) == nil {
			out = append(out, derefCase(c))
		}
	}
	return out
}

func derefCase(c Case) Case {
	v := reflect.ValueOf(c)
	if v.Kind() == reflect.Ptr {
		if d, ok := v.Elem().Interface().(Case); ok {
			return d
		}
	}
	return c
}

func findStream(p *Property, name string) *Stream {
	for _, s := range p.Streams {
		if s.Name == name {
			return s
		}
	}
	return nil
}

// ---------------------------------------------------------------- main loop of `vh run`

func runProperty(p *Property, tier string, seed uint64, driverPath, fixed, outPath, replayDir string, onlyFile string) int {
	t0 := time.Now()
	res := &Result{Property: p.ID, Tier: tier, Seed: seed}
	var d *Driver
	if driverPath != "" {
		var err error
		d, err = startDriver(driverPath, fixed)
		if err != nil {
			fmt.Fprintln(os.Stderr, "cannot start driver:", err)
			return 2
		}
		defer d.Close()
	}
	if onlyFile != "" {
		b, err := os.ReadFile(onlyFile)
		if err != nil {
			fmt.Fprintln(os.Stderr, err)
			return 2
		}
		var cf caseFile
		if err := json.Unmarshal(b, &cf); err != nil {
			fmt.Fprintln(os.Stderr, err)
			return 2
		}
		st := findStream(p, cf.Stream)
		if st == nil || st.New == nil {
			fmt.Fprintln(os.Stderr, "unknown stream", cf.Stream)
			return 2
		}
		c := st.New()
		if err := json.Unmarshal(cf.Case, c); err != nil {
			fmt.Fprintln(os.Stderr, err)
			return 2
		}
		runStream(p, st, d, tier, seed, replayDir, res, []Case{derefCase(c)})
	} else {
		for _, st := range p.Streams {
			runStream(p, st, d, tier, seed, replayDir, res, nil)
		}
	}
	// replay files
	os.MkdirAll(replayDir, 0o755)
	for i, v := range res.Violations {
		name := filepath.Join(replayDir, fmt.Sprintf("%s-%s-%d.json", p.ID, v.Stream, i))
		cf := map[string]any{"property": p.ID, "stream": v.Stream, "case": v.Case, "kind": v.Kind, "impl": v.Impl, "model": v.Model, "oracle": v.Oracle, "request": v.Line, "key": v.Key, "original_case": v.Original}
		b, _ := json.MarshalIndent(cf, "", " ")
		if os.WriteFile(name, b, 0o644) == nil {
			v.Replay = name
		}
	}
	res.WallS = time.Since(t0).Seconds()
	b, _ := json.MarshalIndent(res, "", " ")
	if outPath == "" || outPath == "-" {
		os.Stdout.Write(b)
		fmt.Println()
	} else if err := os.WriteFile(outPath, b, 0o644); err != nil {
		fmt.Fprintln(os.Stderr, err)
		return 2
	}
	for _, n := range res.Notes {
		if strings.HasPrefix(n, "harness bug") || strings.HasPrefix(n, "driver:") {
			fmt.Fprintln(os.Stderr, n)
			return 2
		}
	}
	if len(res.Violations) > 0 {
		return 1
	}
	return 0
}
