package main

// The pipeline oracle: what the statements of C02, C06, C07 and C08 prescribe for a scenario,
// computed from the scenario alone (plus the directory hashes and the previous gengo.sum, which are
// inputs), independently of the Lean model.

import (
	"fmt"
	"path/filepath"
	"sort"
	"strings"
)

type simGen struct {
	calls    []string
	body     string
	ignore   bool
	rendered bool
}

type simOut struct {
	results   map[string]bool   // acceptable classifications of Execute's result
	calls     []string          // the complete call log of a successful run
	processed []int             // packages that go through pkgExecute, in order
	skipped   []int             // packages skipped as cached
	bodies    map[string]string // pkgpath/gen → rendered text (successful run)
	failPkg   int               // index of the failing package, -1 if none
	failGen   string
	files     map[string]string // expectation per rel path of every <base>.* candidate: "exists" | "absent" | "any"
	sumWant   string            // expected text of gengo.sum after the run; "\x00keep" = unchanged
}

func relFile(p PPkg, g string) string { return p.Dir + "/" + pipeBase + "." + g + ".go" }

func (s *PScn) changed(i int, o *POut) bool {
	all := s.All && s.Alone == 0
	if !all {
		return true // the sum file is only consulted under All
	}
	if s.Force || !o.HasPrev {
		return true
	}
	cur := o.Hashes[s.Pkgs[i].path()]
	rec := ""
	for _, l := range strings.Split(o.PrevSum, "\n") {
		f := strings.Fields(l)
		if len(f) >= 2 && f[0] == s.Pkgs[i].path() {
			rec = f[1]
		}
	}
	// skipped only if the recorded hash exists and equals the current one
	return rec == "" || cur == "" || rec != cur
}

func (s *PScn) simulate(o *POut) *simOut {
	sim := &simOut{results: map[string]bool{}, bodies: map[string]string{}, failPkg: -1, files: map[string]string{}}
	all := s.All && s.Alone == 0
	loaded := s.loaded()
	var order []int
	for i := range s.Pkgs {
		if loaded[i] && (all || s.isDirect(i)) {
			order = append(order, i)
		}
	}
	sort.Slice(order, func(a, b int) bool { return s.Pkgs[order[a]].path() < s.Pkgs[order[b]].path() })
	failed := ""
	syntaxFail := map[string]bool{}
	for _, pi := range order {
		p := s.Pkgs[pi]
		if !s.changed(pi, o) {
			sim.skipped = append(sim.skipped, pi)
			continue
		}
		sim.processed = append(sim.processed, pi)
		gens := map[string]*simGen{}
		var pkgCalls []string
		for _, g := range s.Gens {
			sg := &simGen{}
			gens[g.Name] = sg
			var defers []string
			n := 0
			helper := false
			for _, call := range s.expectedCalls(pi, g) {
				pkgCalls = append(pkgCalls, call)
				key := strings.TrimSuffix(call, "!")
				isAlias := strings.HasSuffix(call, "!")
				typ := key[strings.LastIndex(key, "@")+1:]
				code, ok := s.Reacts[key]
				idx := n
				n++
				if !ok {
					continue
				}
				switch code[1] {
				case 'v':
					if !helper {
						helper = true
						sg.body += fmt.Sprintf("// helper of %s\n", g.Name)
					}
					sg.body += fmt.Sprintf("var _%s_%s_%d = 1\n", g.Name, typ, idx)
				case 'x':
					sg.body += "func {\n"
				case 'm':
					sg.body += "// map body\n"
				case 'b':
					if len(s.Custom[key]) > 0 {
						sg.body += "// custom body\n"
					}
				}
				if len(code) > 2 {
					switch code[2] {
					case 'd':
						defers = append(defers, fmt.Sprintf("// deferred %s %s\n", g.Name, typ))
					case 'e':
						defers = append(defers, "\x00fail")
					}
				}
				switch code[0] {
				case 'i':
					if !isAlias {
						sg.ignore = true
					}
				case 'f':
					failed = "generate:" + g.Name + ":" + p.path()
				}
				if failed != "" {
					break
				}
			}
			if failed == "" {
				for _, d := range defers {
					if d == "\x00fail" {
						failed = "deferred:" + g.Name + ":" + p.path()
						break
					}
					sg.body += d
				}
			}
			if failed != "" {
				sim.failPkg, sim.failGen = pi, g.Name
				break
			}
		}
		if failed != "" {
			sim.results[failed] = true
			// nothing of this package is touched
			for rel := range o.Before {
				if filepath.Dir(rel) == p.Dir && strings.HasPrefix(filepath.Base(rel), pipeBase+".") {
					sim.files[rel] = "same"
				}
			}
			break
		}
		sim.calls = append(sim.calls, pkgCalls...)
		// write phase
		anySyntax := false
		for _, g := range s.Gens {
			if strings.Contains(gens[g.Name].body, "func {\n") {
				anySyntax = true
				syntaxFail["syntax:"+relFile(p, g.Name)] = true
			}
		}
		if anySyntax {
			for r := range syntaxFail {
				sim.results[r] = true
			}
			sim.failPkg = pi
			for _, g := range s.Gens {
				sg := gens[g.Name]
				rel := relFile(p, g.Name)
				switch {
				case strings.Contains(sg.body, "func {\n"):
					sim.files[rel] = "same" // the failing generator's own file is left as it was
				default:
					sim.files[rel] = "any" // written or not, depending on the visiting order of the written set
				}
			}
			// stale files may or may not have been reached; own files of the failing generators are untouched
			for rel := range o.Before {
				if filepath.Dir(rel) == p.Dir && strings.HasPrefix(filepath.Base(rel), pipeBase+".") {
					if _, ok := sim.files[rel]; !ok {
						sim.files[rel] = "same"
					}
				}
			}
			failed = "syntax"
			break
		}
		ours := map[string]bool{}
		for _, g := range s.Gens {
			sg := gens[g.Name]
			rel := relFile(p, g.Name)
			ours[rel] = true
			sim.bodies[p.path()+"/"+g.Name] = sg.body
			_, existed := o.Before[rel]
			switch {
			case sg.body != "":
				sim.files[rel] = "exists"
			case sg.ignore && existed:
				sim.files[rel] = "same"
			default:
				sim.files[rel] = "absent"
			}
		}
		// stale outputs: every other Go file named <base>.* that the loader parsed
		for rel := range o.Before {
			if filepath.Dir(rel) == p.Dir && strings.HasPrefix(filepath.Base(rel), pipeBase+".") && !ours[rel] {
				if strings.HasSuffix(rel, ".go") && !strings.HasSuffix(rel, "_test.go") {
					sim.files[rel] = "absent"
				} else {
					sim.files[rel] = "same"
				}
			}
		}
	}
	if failed == "" {
		sim.results["ok"] = true
	}
	sim.sumWant = "\x00keep"
	if failed == "" && all {
		var lines []string
		for i := range s.Pkgs {
			if loaded[i] {
				lines = append(lines, s.Pkgs[i].path()+" "+o.Hashes[s.Pkgs[i].path()]+"\n")
			}
		}
		sort.Strings(lines)
		sim.sumWant = strings.Join(lines, "")
	}
	return sim
}

// judge compares an outcome with the simulation; `clauses` selects which statements are checked
// ("calls", "files", "errors", "sum", "other").
func (s *PScn) judge(o *POut, clauses string) string {
	if strings.HasPrefix(o.Result, "harness:") || o.Result == "loaderr" {
		return ""
	}
	if strings.HasPrefix(o.Result, "panic:") {
		return "Execute panicked: " + o.Result
	}
	sim := s.simulate(o)
	has := func(c string) bool { return strings.Contains(clauses, c) }
	if has("errors") || has("calls") {
		if !sim.results[o.Result] {
			var want []string
			for r := range sim.results {
				want = append(want, r)
			}
			sort.Strings(want)
			return fmt.Sprintf("Execute returned %s; the scenario prescribes %s", o.Result, strings.Join(want, " or "))
		}
	}
	if has("errors") && o.Result != "ok" {
		// the error text names generator and package, or carries the syntax position
		switch {
		case strings.HasPrefix(o.Result, "generate:"), strings.HasPrefix(o.Result, "deferred:"):
			f := strings.SplitN(o.Result, ":", 3)
			if !strings.Contains(o.ErrText, f[1]) || !strings.Contains(o.ErrText, f[2]) {
				return "the error does not name generator and package: " + o.ErrText
			}
		case strings.HasPrefix(o.Result, "syntax:"):
			if !strings.Contains(o.ErrText, strings.TrimPrefix(o.Result, "syntax:")) {
				return "the syntax error does not carry the file position: " + o.ErrText
			}
		}
	}
	if has("calls") && o.Result == "ok" {
		if strings.Join(o.Calls, ",") != strings.Join(sim.calls, ",") {
			return fmt.Sprintf("GenerateType/GenerateAliasType calls were [%s]; the enabled package-level types prescribe [%s]", strings.Join(o.Calls, " "), strings.Join(sim.calls, " "))
		}
		for k, want := range sim.bodies {
			if got := o.Bodies[k]; got != want {
				return fmt.Sprintf("rendered text of %s is %q; calls in order followed by each deferred callback once give %q", k, got, want)
			}
		}
	}
	if has("files") {
		for rel, want := range sim.files {
			b, hadB := o.Before[rel]
			a, hasA := o.After[rel]
			switch want {
			case "exists":
				if !hasA {
					return "generator rendered something but " + rel + " does not exist"
				}
			case "absent":
				if hasA {
					return rel + " exists although its generator rendered nothing (or it is a stale output)"
				}
			case "same":
				if hadB != hasA || a != b {
					return rel + " was changed although it had to be left as it was"
				}
			}
		}
	}
	if has("other") {
		for rel, b := range o.Before {
			if rel == "gengo.sum" {
				continue
			}
			if _, judged := sim.files[rel]; judged {
				continue
			}
			if a, ok := o.After[rel]; !ok || a != b {
				return "file " + rel + " is not gengo's own output of a processed package but was changed or deleted"
			}
		}
		for rel := range o.After {
			if _, ok := o.Before[rel]; ok || rel == "gengo.sum" {
				continue
			}
			if _, judged := sim.files[rel]; !judged {
				return "unexpected new file " + rel
			}
		}
		if !(s.All && s.Alone == 0) {
			if o.Before["gengo.sum"] != o.After["gengo.sum"] {
				return "gengo.sum was touched although All is not set"
			}
		}
	}
	if has("sum") {
		prev := "none"
		if o.HasPrev {
			prev = hx(o.PrevSum)
		}
		if sim.sumWant == "\x00keep" {
			if o.Sum != prev {
				return "gengo.sum was rewritten by a run that failed (or that did not have All set)"
			}
		} else if o.Sum != hx(sim.sumWant) {
			return fmt.Sprintf("gengo.sum is %q; one sorted `path hash` line per local package gives %q", unhx(o.Sum), sim.sumWant)
		}
	}
	return ""
}
