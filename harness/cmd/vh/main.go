package main

import (
	"flag"
	"fmt"
	"os"
	"sort"
	"strconv"
)

func main() {
	if len(os.Args) < 2 {
		fmt.Fprintln(os.Stderr, "usage: vh run <property> [flags] | vh list | vh child <kind> ...")
		os.Exit(2)
	}
	switch os.Args[1] {
	case "list":
		ids := []string{}
		for id := range registry {
			ids = append(ids, id)
		}
		sort.Strings(ids)
		for _, id := range ids {
			fmt.Print(id)
			for _, s := range registry[id].Streams {
				fmt.Print(" ", s.Name)
			}
			fmt.Println()
		}
	case "run":
		fs := flag.NewFlagSet("run", flag.ExitOnError)
		tier := fs.String("tier", "quick", "quick|thorough")
		seed := fs.String("seed", "1", "seed")
		driver := fs.String("driver", "", "path of the Lean driver")
		fixed := fs.String("fixed", "", "comma list of finding ids whose repaired model side is active")
		out := fs.String("out", "-", "result file")
		rdir := fs.String("replay-dir", "/verif/replays", "")
		only := fs.String("case", "", "run one case file (replay)")
		if len(os.Args) < 3 {
			os.Exit(2)
		}
		fs.Parse(os.Args[3:])
		p := registry[os.Args[2]]
		if p == nil {
			fmt.Fprintln(os.Stderr, "unknown property", os.Args[2])
			os.Exit(2)
		}
		s, _ := strconv.ParseUint(*seed, 10, 64)
		os.Setenv("VH_TIER", *tier)
		os.Setenv("VERIF_SEED", *seed)
		os.Exit(runProperty(p, *tier, s, *driver, *fixed, *out, *rdir, *only))
	case "child":
		os.Exit(childMain(os.Args[2:]))
	default:
		fmt.Fprintln(os.Stderr, "unknown command")
		os.Exit(2)
	}
}

// childMain runs supervised single operations (things that may not return or may kill the
// process); each property file registers its handlers here.
var childHandlers = map[string]func(args []string) int{}

func childMain(args []string) int {
	if len(args) == 0 {
		return 2
	}
	h := childHandlers[args[0]]
	if h == nil {
		return 2
	}
	return h(args[1:])
}
