package main

// C13 — the loaded universe mirrors the type checker's view of each package.

import (
	"fmt"
	"go/token"
	"go/types"
	"os"
	"path/filepath"
	"sort"
	"strings"

	gengotypes "github.com/octohelm/gengo/pkg/types"
	"golang.org/x/tools/go/packages"
)

// ---------------------------------------------------------------- package-scope tables and methods

type LDecl struct {
	Kind string `json:"kind"` // type gtype iface alias const var func method localtype tparam recvtparam init blank
	Name string `json:"name"`
	Recv string `json:"recv,omitempty"` // receiver type name (method, recvtparam)
	Ptr  bool   `json:"ptr,omitempty"`
	Gen  bool   `json:"gen,omitempty"` // receiver type is generic
}

type tablesCase struct {
	Decls []LDecl `json:"decls"`
	out   string
	line  string
	have  bool
}

func (c *tablesCase) source() string {
	var b strings.Builder
	b.WriteString("package p\n\n")
	for i, d := range c.Decls {
		switch d.Kind {
		case "type":
			fmt.Fprintf(&b, "type %s struct{ X int }\n\n", d.Name)
		case "gtype":
			fmt.Fprintf(&b, "type %s[T any] struct{ V T }\n\n", d.Name)
		case "iface":
			fmt.Fprintf(&b, "type %s interface{ Im%d() }\n\n", d.Name, i)
		case "alias":
			fmt.Fprintf(&b, "type %s = int\n\n", d.Name)
		case "const":
			fmt.Fprintf(&b, "const %s = %d\n\n", d.Name, i)
		case "var":
			fmt.Fprintf(&b, "var %s = %d\n\n", d.Name, i)
		case "func":
			fmt.Fprintf(&b, "func %s() {}\n\n", d.Name)
		case "method":
			star, targ := "", ""
			if d.Ptr {
				star = "*"
			}
			if d.Gen {
				targ = "[T]"
			}
			fmt.Fprintf(&b, "func (r %s%s%s) %s() {}\n\n", star, d.Recv, targ, d.Name)
		case "recvtparam": // the receiver's type parameter carries the name of (possibly) a package-level type
			fmt.Fprintf(&b, "func (r %s[%s]) R%d() {}\n\n", d.Recv, d.Name, i)
		case "localtype":
			fmt.Fprintf(&b, "func local%d() {\n\ttype %s int\n\tconst C%s = %d\n\tvar _ %s = C%s\n}\n\n", i, d.Name, d.Name, i, d.Name, d.Name)
		case "tparam":
			fmt.Fprintf(&b, "func generic%d[%s any](x %s) {}\n\n", i, d.Name, d.Name)
		case "localiface": // a function-local named interface: its methods belong to the local type, whatever it is called
			fmt.Fprintf(&b, "func localI%d() {\n\ttype %s interface{ Sync%d() error }\n\tvar _ %s\n}\n\n", i, d.Name, i, d.Name)
		case "init":
			b.WriteString("func init() {}\n\n")
		case "blank":
			b.WriteString("func _() {}\n\nvar _ = 1\n\nconst _ = 2\n\n")
		case "blanktype": // two of each: a table that admitted them would have to choose
			b.WriteString("type _ struct{ X, Y int }\n\ntype _ int\n\nconst _ = \"guard\"\n\nconst _ = 8\n\n")
		case "ifacelit": // methods of interface literals (in a variable's type, an alias, a type assertion) are nobody's package-level functions
			fmt.Fprintf(&b, "var W%d interface{ %s() }\n\ntype Al%d = interface{ %s() }\n\nfunc assert%d(x any) bool { _, ok := x.(interface{ %s() }); return ok }\n\n", i, d.Name, i, d.Name, i, d.Name)
		}
	}
	return b.String()
}

func posKey(fset *token.FileSet, pos token.Pos) string {
	p := fset.Position(pos)
	return fmt.Sprintf("%s:%d:%d", filepath.Base(p.Filename), p.Line, p.Column)
}

// modelRequest type-checks the same source independently (go/packages, not through gengo) and lists
// types.Info.Defs in source order as the model's input; ids are positions.
func defsOf(dir, pat string) (fset *token.FileSet, pkg *packages.Package, err error) {
	fixLoadEnv()
	fset = token.NewFileSet()
	cfg := &packages.Config{Fset: fset, Mode: gengotypes.LoadAllSyntax, Dir: dir}
	pkgs, err := packages.Load(cfg, pat)
	if err != nil || len(pkgs) != 1 {
		return nil, nil, fmt.Errorf("load: %v", err)
	}
	return fset, pkgs[0], nil
}

type defObj struct {
	pos  string
	line string
}

func modelDefs(fset *token.FileSet, pkg *packages.Package) (toks []string, ids map[string]int) {
	type ent struct {
		pos token.Pos
		obj types.Object
	}
	var es []ent
	for id, o := range pkg.TypesInfo.Defs {
		if o != nil {
			es = append(es, ent{id.Pos(), o})
		}
	}
	sort.Slice(es, func(i, j int) bool { return es[i].pos < es[j].pos })
	ids = map[string]int{}
	scope := pkg.Types.Scope()
	for i, e := range es {
		k := ""
		isMethod := false
		switch x := e.obj.(type) {
		case *types.TypeName:
			k = "t"
		case *types.Const:
			k = "c"
		case *types.Func:
			k = "f"
			isMethod = x.Type().(*types.Signature).Recv() != nil
		case *types.Var:
			k = "v"
		default:
			continue
		}
		sc := "l"
		if e.obj.Parent() == scope || (k == "f" && !isMethod && e.obj.Parent() == nil) {
			sc = "p"
		}
		if tn, ok := e.obj.(*types.TypeName); ok {
			if _, isTP := tn.Type().(*types.TypeParam); isTP {
				sc = "q"
			}
		}
		ids[posKey(fset, e.obj.Pos())] = i
		toks = append(toks, fmt.Sprintf("%d:%s:%s:%s:%s", i, k, sc, b01(isMethod), hx(e.obj.Name())))
	}
	return toks, ids
}

func showObjTable[T types.Object](fset *token.FileSet, m map[string]T, ids map[string]int, funcs bool) string {
	ks := make([]string, 0, len(m))
	for k := range m {
		ks = append(ks, k)
	}
	sort.Strings(ks)
	var o []string
	for _, k := range ks {
		if funcs && (k == "init" || k == "_") {
			continue // several may exist; the statement sets init and blank-named functions aside — nothing else
		}
		id := -1
		if any(m[k]) != nil {
			if v, ok := ids[posKey(fset, m[k].Pos())]; ok {
				id = v
			}
		}
		o = append(o, fmt.Sprintf("%s=%d", hx(k), id))
	}
	return strings.Join(o, ",")
}

// eval queries the loaded package: the three tables for the model, and the oracle's verdict.
func (c *tablesCase) eval(p gengotypes.Package, dir string, idx int) {
	c.have = true
	c.out = guard(func() string {
		if p == nil {
			return "loaderr"
		}
		fset, pkg, err := defsOf(dir, fmt.Sprintf("./c%d", idx))
		if err != nil {
			return "loaderr"
		}
		toks, ids := modelDefs(fset, pkg)
		c.line = "tables " + strings.Join(toks, " ")
		out := "types " + showObjTable(p.FileSet(), p.Types(), ids, false) + " consts " + showObjTable(p.FileSet(), p.Constants(), ids, false) + " funcs " + showObjTable(p.FileSet(), p.Functions(), ids, true)
		if v := scopeOracle(p); v != "" {
			out += " ORACLE:" + v
		}
		return out
	})
}

// scopeOracle: the statement of C13 judged against the loader's own types.Package (pointer identity).
func scopeOracle(p gengotypes.Package) string {
	sc := p.Pkg().Scope()
	wantT, wantC, wantF := map[string]types.Object{}, map[string]types.Object{}, map[string]types.Object{}
	for _, n := range sc.Names() {
		switch o := sc.Lookup(n).(type) {
		case *types.TypeName:
			wantT[n] = o
		case *types.Const:
			wantC[n] = o
		case *types.Func:
			wantF[n] = o
		}
	}
	for n, o := range wantT {
		if p.Types()[n] != o || p.Type(n) != o {
			return fmt.Sprintf("Type(%q) is not the package-scope type name (got %v)", n, describeObj(p, p.Type(n)))
		}
	}
	for n := range p.Types() {
		if _, ok := wantT[n]; !ok {
			return fmt.Sprintf("Types() lists %q (%v), which is not a package-scope type name", n, describeObj(p, p.Types()[n]))
		}
	}
	for n, o := range wantC {
		if p.Constants()[n] != o || p.Constant(n) != o {
			return fmt.Sprintf("Constant(%q) is not the package-scope constant (got %v)", n, describeObj(p, p.Constant(n)))
		}
	}
	for n := range p.Constants() {
		if _, ok := wantC[n]; !ok {
			return fmt.Sprintf("Constants() lists %q (%v), which is not a package-scope constant", n, describeObj(p, p.Constants()[n]))
		}
	}
	for n, o := range wantF {
		if p.Functions()[n] != o || p.Function(n) != o {
			return fmt.Sprintf("Function(%q) is not the package-scope function", n)
		}
	}
	for n := range p.Functions() {
		if _, ok := wantF[n]; !ok && n != "init" && n != "_" {
			return fmt.Sprintf("Functions() lists %q, which is not a package-scope function", n)
		}
	}
	// methods
	for _, n := range sc.Names() {
		tn, ok := sc.Lookup(n).(*types.TypeName)
		if !ok || tn.IsAlias() {
			continue
		}
		named, ok := tn.Type().(*types.Named)
		if !ok {
			continue
		}
		if _, isIface := named.Underlying().(*types.Interface); isIface {
			continue // abstract methods of an interface type: not judged (DESIGN.md section 5)
		}
		var all, val []string
		for i := 0; i < named.NumMethods(); i++ {
			m := named.Method(i)
			all = append(all, m.Name())
			if _, ptr := m.Type().(*types.Signature).Recv().Type().(*types.Pointer); !ptr {
				val = append(val, m.Name())
			}
		}
		for _, q := range []struct {
			ptr  bool
			want []string
		}{{true, all}, {false, val}, {true, all}, {false, val}, {false, val}, {true, all}} { // asked repeatedly: the answer must not wear out
			var got []string
			for _, m := range p.MethodsOf(named, q.ptr) {
				got = append(got, m.Name())
			}
			sort.Strings(got)
			w := append([]string{}, q.want...)
			sort.Strings(w)
			if strings.Join(got, ",") != strings.Join(w, ",") {
				return fmt.Sprintf("MethodsOf(%s, %v) = [%s], the declared methods are [%s]", n, q.ptr, strings.Join(got, " "), strings.Join(w, " "))
			}
		}
	}
	return ""
}

func describeObj(p gengotypes.Package, o types.Object) string {
	if o == nil || (fmt.Sprintf("%v", o) == "<nil>") {
		return "nil"
	}
	pos := p.FileSet().Position(o.Pos())
	kind := "package-level"
	if o.Parent() != p.Pkg().Scope() {
		kind = "not package-level"
	}
	return fmt.Sprintf("%s declared at line %d, %s", o.Name(), pos.Line, kind)
}

func (c *tablesCase) Run() string {
	if c.have {
		return strings.Split(c.out, " ORACLE:")[0]
	}
	b := loadBatch([]map[string]string{{"p.go": c.source()}})
	defer b.Close()
	c.eval(b.Pkg(0), b.Dir, 0)
	return strings.Split(c.out, " ORACLE:")[0]
}
func (c *tablesCase) Line() string { c.Run(); return c.line }
func (c *tablesCase) CanonModel(m string) string {
	// init and blank-named declarations are set aside by the statement
	f := strings.Split(m, " ")
	for i, x := range f {
		var keep []string
		for _, e := range strings.Split(x, ",") {
			if strings.HasPrefix(e, hx("init")+"=") || strings.HasPrefix(e, hx("_")+"=") {
				continue
			}
			keep = append(keep, e)
		}
		f[i] = strings.Join(keep, ",")
	}
	return strings.Join(f, " ")
}
func (c *tablesCase) Oracle(out string) string {
	if out == "panic" {
		return "the loader panicked"
	}
	if i := strings.Index(c.out, " ORACLE:"); i >= 0 {
		return c.out[i+8:]
	}
	return ""
}
func (c *tablesCase) Shrinks() []Case {
	var out []Case
	for i := range c.Decls {
		n := append(append([]LDecl{}, c.Decls[:i]...), c.Decls[i+1:]...)
		// keep methods' receivers declared
		ok := true
		decl := map[string]bool{}
		for _, d := range n {
			if d.Kind == "type" || d.Kind == "gtype" {
				decl[d.Name] = true
			}
		}
		for _, d := range n {
			if (d.Kind == "method" || d.Kind == "recvtparam") && !decl[d.Recv] {
				ok = false
			}
		}
		if ok {
			out = append(out, &tablesCase{Decls: n})
		}
	}
	return out
}
func (c *tablesCase) Key() string {
	var s []string
	for _, d := range c.Decls {
		x := d.Kind + ":" + d.Name
		if d.Recv != "" {
			x += "@" + d.Recv
			if d.Ptr {
				x += "*"
			}
		}
		s = append(s, x)
	}
	return strings.Join(s, " ")
}
func (c *tablesCase) Classes() []string {
	m := map[string]bool{}
	names := map[string]int{}
	for _, d := range c.Decls {
		m["decl:"+d.Kind] = true
		switch d.Kind {
		case "type", "gtype", "iface", "alias", "localtype", "localiface", "tparam", "recvtparam":
			names[d.Name]++
		}
		if d.Kind == "method" && d.Gen {
			m["method-on-generic"] = true
		}
	}
	for _, n := range names {
		if n > 1 {
			m["shadowing"] = true
		}
	}
	var cl []string
	for k := range m {
		cl = append(cl, k)
	}
	sort.Strings(cl)
	return cl
}
func (c *tablesCase) Nontrivial() bool { return len(c.Decls) > 1 }

func genTables(r *Rng) *tablesCase {
	c := &tablesCase{}
	names := []string{"A", "B", "C", "D"}
	declared := map[string]string{} // name → kind
	used := map[string]bool{}
	n := 2 + r.Intn(8)
	mi := 0
	for i := 0; i < n; i++ {
		switch r.Intn(18) {
		case 16, 17:
			c.Decls = append(c.Decls, LDecl{Kind: "localiface", Name: Pick(r, append(names, "Z"))})
		case 14:
			c.Decls = append(c.Decls, LDecl{Kind: "blanktype"})
		case 15:
			c.Decls = append(c.Decls, LDecl{Kind: "ifacelit", Name: Pick(r, []string{"FA", "FB", "FC", "FD", "M1", "Close", "KA"})})
		case 0, 1, 2:
			nm := Pick(r, names)
			if used[nm] {
				continue
			}
			k := Pick(r, []string{"type", "gtype", "iface", "alias", "type", "gtype"})
			if r.Chance(10) && !used["_Ctype_int"] {
				nm = Pick(r, []string{"_Ctype_int", "_Ctype_struct_x", "_T"})
				if used[nm] {
					continue
				}
			}
			used[nm], declared[nm] = true, k
			c.Decls = append(c.Decls, LDecl{Kind: k, Name: nm})
		case 3:
			nm := "K" + Pick(r, names)
			if r.Chance(15) {
				// names that look like what a tool would have generated (cgo's mangling prefixes, a leading underscore): declared
				// by hand they are package-level names like any other
				nm = Pick(r, []string{"_Ciconst_X", "_Cvar_v", "_cgo_x", "_K", "__"})
			}
			if used[nm] {
				continue
			}
			used[nm] = true
			c.Decls = append(c.Decls, LDecl{Kind: Pick(r, []string{"const", "var"}), Name: nm})
		case 4:
			nm := "F" + Pick(r, names)
			if r.Chance(12) {
				nm = Pick(r, []string{"_Cfunc_f", "_C2func_g", "_Cgo_use", "_f"})
			}
			if used[nm] {
				continue
			}
			used[nm] = true
			c.Decls = append(c.Decls, LDecl{Kind: "func", Name: nm})
		case 5, 6, 7:
			var recvs []string
			for nm, k := range declared {
				if k == "type" || k == "gtype" {
					recvs = append(recvs, nm)
				}
			}
			if len(recvs) == 0 {
				continue
			}
			sort.Strings(recvs)
			rv := Pick(r, recvs)
			mi++
			c.Decls = append(c.Decls, LDecl{Kind: "method", Name: fmt.Sprintf("M%d", mi), Recv: rv, Ptr: r.Bool(), Gen: declared[rv] == "gtype"})
		case 8, 9:
			c.Decls = append(c.Decls, LDecl{Kind: "localtype", Name: Pick(r, append(names, "KA", "Z"))})
		case 10:
			c.Decls = append(c.Decls, LDecl{Kind: "tparam", Name: Pick(r, append(names, "Z"))})
		case 11:
			var recvs []string
			for nm, k := range declared {
				if k == "gtype" {
					recvs = append(recvs, nm)
				}
			}
			if len(recvs) == 0 {
				continue
			}
			sort.Strings(recvs)
			c.Decls = append(c.Decls, LDecl{Kind: "recvtparam", Name: Pick(r, append(names, "Z")), Recv: Pick(r, recvs)})
		case 12:
			c.Decls = append(c.Decls, LDecl{Kind: "init"})
		case 13:
			hasBlank := false
			for _, d := range c.Decls {
				if d.Kind == "blank" {
					hasBlank = true
				}
			}
			if !hasBlank {
				c.Decls = append(c.Decls, LDecl{Kind: "blank"})
			}
		}
	}
	// local const KA shadows package const KA only if localtype named A exists: C<Name>; make names collide on purpose
	return c
}

func tablesBatch(cases []Case) []string {
	res := make([]string, len(cases))
	const chunk = 150
	for start := 0; start < len(cases); start += chunk {
		end := min(start+chunk, len(cases))
		var pkgs []map[string]string
		for _, c := range cases[start:end] {
			pkgs = append(pkgs, map[string]string{"p.go": c.(*tablesCase).source()})
		}
		b := loadBatch(pkgs)
		for i, c := range cases[start:end] {
			tc := c.(*tablesCase)
			tc.eval(b.Pkg(i), b.Dir, i)
			res[start+i] = strings.Split(tc.out, " ORACLE:")[0]
		}
		b.Close()
	}
	return res
}

// ---------------------------------------------------------------- methods (model comparison on a focused shape)

type methodsCase struct {
	Generic bool   `json:"generic"`
	Ms      []bool `json:"ptr_receivers"` // one method per entry, pointer receiver or not
	Query   bool   `json:"query_ptr"`
	out     string
	have    bool
}

func (c *methodsCase) source() string {
	var b strings.Builder
	b.WriteString("package p\n\n")
	targ := ""
	if c.Generic {
		b.WriteString("type T[P any] struct{ V P }\n\n")
		targ = "[P]"
	} else {
		b.WriteString("type T struct{ V int }\n\n")
	}
	b.WriteString("type Other struct{}\n\nfunc (Other) X() {}\n\n")
	for i, ptr := range c.Ms {
		star := ""
		if ptr {
			star = "*"
		}
		fmt.Fprintf(&b, "func (r %sT%s) M%d() {}\n\n", star, targ, i)
	}
	return b.String()
}
func (c *methodsCase) Line() string {
	var toks []string
	toks = append(toks, hx("X")+":2:2:0")
	for i, ptr := range c.Ms {
		obj := 1
		if c.Generic {
			obj = 10 + i // every method declaration of a generic type has its own instantiated receiver
		}
		toks = append(toks, fmt.Sprintf("%s:1:%d:%s", hx(fmt.Sprintf("M%d", i)), obj, b01(ptr)))
	}
	return "methods 1 " + b01(c.Query) + " " + strings.Join(toks, " ")
}
func (c *methodsCase) eval(p gengotypes.Package) {
	c.have = true
	c.out = guard(func() string {
		if p == nil {
			return "loaderr"
		}
		named := p.Pkg().Scope().Lookup("T").Type().(*types.Named)
		// earlier questions must not change later answers
		p.MethodsOf(named, false)
		p.MethodsOf(named, true)
		p.MethodsOf(named, false)
		var names []string
		for _, m := range p.MethodsOf(named, c.Query) {
			names = append(names, m.Name())
		}
		sort.Strings(names) // Defs is a map: arrival order is arbitrary; the model's list is in declaration order
		for i := range names {
			names[i] = hx(names[i])
		}
		return strings.Join(names, ",")
	})
}
func (c *methodsCase) Run() string {
	if !c.have {
		b := loadBatch([]map[string]string{{"p.go": c.source()}})
		defer b.Close()
		c.eval(b.Pkg(0))
	}
	return c.out
}
func (c *methodsCase) CanonModel(m string) string {
	if m == "" {
		return m
	}
	p := strings.Split(m, ",")
	sort.Strings(p)
	return strings.Join(p, ",")
}
func (c *methodsCase) Oracle(out string) string {
	var want []string
	for i, ptr := range c.Ms {
		if c.Query || !ptr {
			want = append(want, hx(fmt.Sprintf("M%d", i)))
		}
	}
	sort.Strings(want)
	if out != strings.Join(want, ",") {
		return fmt.Sprintf("MethodsOf(T, %v) returned [%s]; declared: [%s] (generic=%v)", c.Query, out, strings.Join(want, ","), c.Generic)
	}
	return ""
}
func (c *methodsCase) Shrinks() []Case {
	var out []Case
	for i := range c.Ms {
		out = append(out, &methodsCase{Generic: c.Generic, Ms: append(append([]bool{}, c.Ms[:i]...), c.Ms[i+1:]...), Query: c.Query})
	}
	return out
}
func (c *methodsCase) Key() string {
	return fmt.Sprintf("generic=%v ptr=%v query=%v", c.Generic, c.Ms, c.Query)
}
func (c *methodsCase) Classes() []string {
	return []string{fmt.Sprintf("generic:%v", c.Generic), fmt.Sprintf("methods:%d", len(c.Ms))}
}
func (c *methodsCase) Nontrivial() bool { return len(c.Ms) > 0 }

func methodsBatch(cases []Case) []string {
	res := make([]string, len(cases))
	var pkgs []map[string]string
	for _, c := range cases {
		pkgs = append(pkgs, map[string]string{"p.go": c.(*methodsCase).source()})
	}
	b := loadBatch(pkgs)
	defer b.Close()
	for i, c := range cases {
		mc := c.(*methodsCase)
		mc.eval(b.Pkg(i))
		res[i] = mc.out
	}
	return res
}

// ---------------------------------------------------------------- imports, SourceDir, LocateInPackage on package DAGs

type dagCase struct {
	N     int     `json:"n"`                  // packages d0 … d(n-1); d0 is the module root package when Root
	Edges [][]int `json:"edges"`              // Edges[i] = indices (> i) imported by package i
	Roots []int   `json:"roots"`              // load patterns, in this order
	Std   bool    `json:"std"`                // package 0 also imports fmt and strings
	Dang  []int   `json:"dangling,omitempty"` // packages whose directory holds a dangling symbolic link (an editor's lock file `.#p.go`): the go tool ignores it, hashing the directory fails
	Dir   int     `json:"linedir,omitempty"`  // a //line directive ahead of every package's declaration: 1 names a file of its own beside the source, 2 a file in the next package's directory, 3 an absolute path elsewhere
	out   string
	have  bool
}

func (c *dagCase) files(prefix string) map[string]string {
	m := map[string]string{}
	for i := 0; i < c.N; i++ {
		var b strings.Builder
		fmt.Fprintf(&b, "package d%d\n\n", i)
		if i < len(c.Edges) {
			for _, j := range c.Edges[i] {
				fmt.Fprintf(&b, "import _ %q\n", prefix+fmt.Sprintf("/d%d", j))
			}
		}
		if c.Std && i == 0 {
			b.WriteString("import _ \"fmt\"\nimport _ \"strings\"\n")
		}
		switch c.Dir {
		case 1:
			b.WriteString("\n//line gen.y:7\n")
		case 2:
			fmt.Fprintf(&b, "\n//line ../d%d/p.go:1\n", (i+1)%c.N)
		case 3:
			b.WriteString("\n//line /abs/elsewhere/gen.y:7\n")
		}
		fmt.Fprintf(&b, "\nvar V%d = %d\n", i, i)
		m[fmt.Sprintf("d%d/p.go", i)] = b.String()
	}
	return m
}

func (c *dagCase) reachable() map[int]bool {
	m := map[int]bool{}
	var visit func(i int)
	visit = func(i int) {
		if m[i] || i >= c.N {
			return
		}
		m[i] = true
		if i < len(c.Edges) {
			for _, j := range c.Edges[i] {
				visit(j)
			}
		}
	}
	for _, r := range c.Roots {
		visit(r)
	}
	return m
}

// effectiveRoots: the order in which Load meets the roots.  The first root travels in the first chunk of
// patterns, the others in a later one (see loadDags); inside a chunk `go list` prints packages in
// dependency order, so among the later roots a dependency precedes its importers.
func (c *dagCase) effectiveRoots() []int {
	if len(c.Roots) == 0 {
		return nil
	}
	out := []int{c.Roots[0]}
	isRoot := map[int]bool{}
	for _, r := range c.Roots[1:] {
		isRoot[r] = true
	}
	seen := map[int]bool{}
	var visit func(i int)
	visit = func(i int) {
		if seen[i] || i >= c.N {
			return
		}
		seen[i] = true
		if i < len(c.Edges) {
			for _, j := range c.Edges[i] {
				visit(j)
			}
		}
		if isRoot[i] {
			out = append(out, i)
		}
	}
	for _, r := range c.Roots[1:] {
		visit(r)
	}
	return out
}

func (c *dagCase) Line() string {
	var roots, nodes []string
	for _, r := range c.effectiveRoots() {
		roots = append(roots, hx(fmt.Sprintf("d%d", r)))
	}
	for i := range c.reachable() {
		var is []string
		if i < len(c.Edges) {
			for _, j := range c.Edges[i] {
				is = append(is, hx(fmt.Sprintf("d%d", j)))
			}
		}
		nodes = append(nodes, hx(fmt.Sprintf("d%d", i))+">"+strings.Join(is, ","))
	}
	sort.Strings(nodes)
	return "register " + strings.Join(roots, " ") + " | " + strings.Join(nodes, " ")
}

// eval: the import tables (module-local edges only, std imports go to the oracle), SourceDir, LocateInPackage
func (c *dagCase) eval(u *gengotypes.Universe, root, prefix string) {
	c.have = true
	c.out = guard(func() string {
		if u == nil {
			return "loaderr"
		}
		var parts []string
		oracle := ""
		var reach []int
		for i := range c.reachable() {
			reach = append(reach, i)
		}
		sort.Ints(reach)
		for _, i := range reach {
			p := u.Package(prefix + fmt.Sprintf("/d%d", i))
			if p == nil {
				return fmt.Sprintf("missing-package ORACLE:Universe.Package(%q) is nil although the package belongs to the closure of the loaded roots (it was loaded, and its importers' tables refer to it)", fmt.Sprintf("d%d", i))
			}
			var is []string
			for path, ip := range p.Imports() {
				ok := ip != nil && fmt.Sprintf("%v", ip) != "<nil>"
				if strings.HasPrefix(path, prefix+"/") {
					is = append(is, hx(strings.TrimPrefix(path, prefix+"/"))+"="+b01(ok))
				}
				if oracle == "" {
					if !ok {
						oracle = fmt.Sprintf("Imports()[%q] of package d%d is nil", path, i)
					} else if ip != u.Package(path) {
						oracle = fmt.Sprintf("Imports()[%q] of package d%d is not the package Universe.Package returns", path, i)
					}
				}
			}
			sort.Strings(is)
			parts = append(parts, hx(fmt.Sprintf("d%d", i))+":"+strings.Join(is, ","))
			// SourceDir and LocateInPackage
			wantDir := filepath.Join(root, strings.TrimPrefix(prefix, batchMod+"/"), fmt.Sprintf("d%d", i))
			if oracle == "" && filepath.Clean(p.SourceDir()) != wantDir {
				oracle = fmt.Sprintf("SourceDir() of d%d is %q, its files are in %q", i, p.SourceDir(), wantDir)
			}
			if oracle == "" && len(p.Files()) > 0 {
				if lp := u.LocateInPackage(p.Files()[0].Pos()); lp != p {
					oracle = fmt.Sprintf("LocateInPackage(position in d%d) did not return that package", i)
				}
				// and for the position of the last declaration (behind the line directive when there is one)
				if ds := p.Files()[0].Decls; oracle == "" && len(ds) > 0 {
					if lp := u.LocateInPackage(ds[len(ds)-1].Pos()); lp != p {
						got := "no package"
						if lp != nil {
							got = lp.Pkg().Path()
						}
						oracle = fmt.Sprintf("LocateInPackage(position of the declaration of V%d, in d%d/p.go) returned %s", i, i, got)
					}
				}
			}
			// the import table must be total
			if oracle == "" && i < len(c.Edges) {
				for _, j := range c.Edges[i] {
					if _, ok := p.Imports()[prefix+fmt.Sprintf("/d%d", j)]; !ok {
						oracle = fmt.Sprintf("Imports() of d%d lacks d%d", i, j)
					}
				}
			}
		}
		// packages some importer's table does not point to any more (registered a second time)
		dup := map[string]bool{}
		for _, i := range reach {
			p := u.Package(prefix + fmt.Sprintf("/d%d", i))
			for path, ip := range p.Imports() {
				if strings.HasPrefix(path, prefix+"/") && ip != u.Package(path) {
					dup[hx(strings.TrimPrefix(path, prefix+"/"))] = true
				}
			}
		}
		out := strings.Join(parts, " ") + " twice=" + strings.Join(sortedKeys(dup), ",")
		if oracle != "" {
			out += " ORACLE:" + oracle
		}
		return out
	})
}

func loadDags(cases []*dagCase) {
	loadDagsFset(cases, false)
	// and once more, loaded by a caller that brings its own file set (packages.Config.Fset): the answers of that load
	// are the ones judged when they differ from the first — they are kept whenever a case came out differently
	first := make([]string, len(cases))
	for i, c := range cases {
		first[i] = c.out
	}
	loadDagsFset(cases, true)
	for i, c := range cases {
		if c.out != first[i] && strings.Contains(first[i], " ORACLE:") && !strings.Contains(c.out, " ORACLE:") {
			c.out = first[i] // the plain load already failed its oracle: that failure is the one reported
		}
	}
}

func loadDagsFset(cases []*dagCase, own bool) {
	fixLoadEnv()
	root, err := os.MkdirTemp("", "vhdag")
	if err != nil {
		return
	}
	defer os.RemoveAll(root)
	os.WriteFile(filepath.Join(root, "go.mod"), []byte("module "+batchMod+"\n\ngo 1.24\n"), 0o644)
	// go/packages hands the patterns to `go list` in chunks of at most 16 383 characters and concatenates
	// the roots of the chunks; inside one chunk roots come in dependency order, across chunks they do not.
	// The first root of every graph goes into the first chunk, filler packages with long names fill it up,
	// and the remaining roots follow: a root that an earlier root imports then arrives AFTER its importer.
	var first, rest, fillers []string
	for k, c := range cases {
		prefix := fmt.Sprintf("%s/g%d", batchMod, k)
		for name, content := range c.files(prefix) {
			full := filepath.Join(root, fmt.Sprintf("g%d", k), name)
			os.MkdirAll(filepath.Dir(full), 0o755)
			os.WriteFile(full, []byte(content), 0o644)
		}
		for _, i := range c.Dang {
			if i < c.N {
				os.Symlink("nobody@nowhere.1234", filepath.Join(root, fmt.Sprintf("g%d", k), fmt.Sprintf("d%d", i), ".#p.go"))
			}
		}
		for i, r := range c.Roots {
			pat := fmt.Sprintf("./g%d/d%d", k, r)
			if i == 0 {
				first = append(first, pat)
			} else {
				rest = append(rest, pat)
			}
		}
	}
	if len(rest) > 0 {
		long := strings.Repeat("x", 180)
		for i := 0; i < 95; i++ {
			d := fmt.Sprintf("filler/f%d_%s", i, long)
			os.MkdirAll(filepath.Join(root, d), 0o755)
			os.WriteFile(filepath.Join(root, d, "f.go"), []byte("package f\n"), 0o644)
			fillers = append(fillers, "./"+d)
		}
	}
	pats := append(append(first, fillers...), rest...)
	old := os.Stdout
	devnull, _ := os.OpenFile(os.DevNull, os.O_WRONLY, 0)
	os.Stdout = devnull
	u, err := gengotypes.Load(pats, func(cfg *packages.Config) {
		cfg.Dir = root
		if own {
			cfg.Fset = token.NewFileSet()
		}
	})
	os.Stdout = old
	devnull.Close()
	if err != nil {
		u = nil
	}
	for k, c := range cases {
		c.eval(u, root, fmt.Sprintf("%s/g%d", batchMod, k))
	}
}

func (c *dagCase) Run() string {
	if !c.have {
		loadDags([]*dagCase{c})
	}
	return strings.Split(c.out, " ORACLE:")[0]
}
func (c *dagCase) Oracle(out string) string {
	if i := strings.Index(c.out, " ORACLE:"); i >= 0 {
		return c.out[i+8:]
	}
	if out == "panic" {
		return "the loader panicked"
	}
	return ""
}
func (c *dagCase) Shrinks() []Case {
	var out []Case
	if c.N > 1 {
		n := &dagCase{N: c.N - 1, Std: c.Std, Dir: c.Dir, Dang: c.Dang}
		for i := 0; i < c.N-1 && i < len(c.Edges); i++ {
			var e []int
			for _, j := range c.Edges[i] {
				if j < c.N-1 {
					e = append(e, j)
				}
			}
			n.Edges = append(n.Edges, e)
		}
		for _, r := range c.Roots {
			if r < c.N-1 {
				n.Roots = append(n.Roots, r)
			}
		}
		if len(n.Roots) > 0 {
			out = append(out, n)
		}
	}
	for i := range c.Edges {
		for k := range c.Edges[i] {
			n := &dagCase{N: c.N, Roots: c.Roots, Std: c.Std, Dir: c.Dir, Dang: c.Dang}
			for a := range c.Edges {
				n.Edges = append(n.Edges, append([]int{}, c.Edges[a]...))
			}
			n.Edges[i] = append(n.Edges[i][:k:k], n.Edges[i][k+1:]...)
			out = append(out, n)
		}
	}
	if len(c.Roots) > 1 {
		out = append(out, &dagCase{N: c.N, Edges: c.Edges, Roots: c.Roots[:1], Std: c.Std, Dir: c.Dir, Dang: c.Dang})
	}
	if c.Std {
		out = append(out, &dagCase{N: c.N, Edges: c.Edges, Roots: c.Roots, Dir: c.Dir, Dang: c.Dang})
	}
	if c.Dir != 0 {
		out = append(out, &dagCase{N: c.N, Edges: c.Edges, Roots: c.Roots, Std: c.Std, Dang: c.Dang})
	}
	for k := range c.Dang {
		out = append(out, &dagCase{N: c.N, Edges: c.Edges, Roots: c.Roots, Std: c.Std, Dir: c.Dir, Dang: append(append([]int{}, c.Dang[:k]...), c.Dang[k+1:]...)})
	}
	return out
}
func (c *dagCase) Key() string {
	if c.Dir != 0 || len(c.Dang) > 0 {
		return fmt.Sprintf("n=%d edges=%v roots=%v std=%v linedir=%d dangling=%v", c.N, c.Edges, c.Roots, c.Std, c.Dir, c.Dang)
	}
	return fmt.Sprintf("n=%d edges=%v roots=%v std=%v", c.N, c.Edges, c.Roots, c.Std)
}
func (c *dagCase) Classes() []string {
	e := 0
	for _, x := range c.Edges {
		e += len(x)
	}
	return []string{fmt.Sprintf("packages:%d", c.N), fmt.Sprintf("edges:%d", min(e, 6)), fmt.Sprintf("roots:%d", len(c.Roots)), fmt.Sprintf("line-directive:%d", c.Dir), fmt.Sprintf("dangling-links:%d", min(len(c.Dang), 2))}
}
func (c *dagCase) Nontrivial() bool {
	for _, x := range c.Edges {
		if len(x) > 0 {
			return true
		}
	}
	return false
}

func dagBatch(cases []Case) []string {
	cs := make([]*dagCase, len(cases))
	for i, c := range cases {
		cs[i] = c.(*dagCase)
	}
	loadDags(cs)
	res := make([]string, len(cases))
	for i, c := range cs {
		res[i] = strings.Split(c.out, " ORACLE:")[0]
	}
	return res
}

func genDag(r *Rng) *dagCase {
	c := &dagCase{N: 1 + r.Intn(6), Std: r.Chance(30)}
	if r.Chance(30) {
		c.Dir = 1 + r.Intn(3)
	}
	if r.Chance(20) {
		for i := 0; i < c.N; i++ {
			if r.Chance(40) {
				c.Dang = append(c.Dang, i)
			}
		}
	}
	for i := 0; i < c.N; i++ {
		var e []int
		for j := i + 1; j < c.N; j++ {
			if r.Chance(40) {
				e = append(e, j)
			}
		}
		c.Edges = append(c.Edges, e)
	}
	c.Roots = []int{0}
	for i := 1; i < c.N; i++ {
		if r.Chance(30) {
			c.Roots = append(c.Roots, i)
		}
	}
	if r.Chance(40) { // a dependency listed as a root before the package that imports it, and the reverse
		for i, j := 0, len(c.Roots)-1; i < j; i, j = i+1, j-1 {
			c.Roots[i], c.Roots[j] = c.Roots[j], c.Roots[i]
		}
	}
	return c
}

// ---------------------------------------------------------------- the dependency closure of /repo itself

type closureCase struct {
	Repeat int `json:"repeat"`
	stats  string
}

func (c *closureCase) Line() string { return "" }
func (c *closureCase) Run() string {
	return guard(func() string {
		fixLoadEnv()
		repo := os.Getenv("VERIF_REPO")
		if repo == "" {
			repo = "/repo"
		}
		cfg := &packages.Config{Mode: packages.NeedName | packages.NeedImports | packages.NeedDeps | packages.NeedFiles | packages.NeedModule, Dir: repo}
		roots, err := packages.Load(cfg, "./pkg/...", "./devpkg/...")
		if err != nil {
			return "loaderr"
		}
		all := map[string]*packages.Package{}
		packages.Visit(roots, func(p *packages.Package) bool { all[p.PkgPath] = p; return true }, nil)
		old := os.Stdout
		devnull, _ := os.OpenFile(os.DevNull, os.O_WRONLY, 0)
		os.Stdout = devnull
		u, err := gengotypes.Load([]string{"./pkg/...", "./devpkg/..."}, func(cfg *packages.Config) { cfg.Dir = repo })
		os.Stdout = old
		devnull.Close()
		if err != nil {
			return "loaderr"
		}
		checked, fns := 0, 0
		var paths []string
		for p := range all {
			paths = append(paths, p)
		}
		sort.Strings(paths)
		for _, path := range paths {
			p := u.Package(path)
			if p == nil {
				return "ORACLE:package " + path + " of the closure is not in the universe"
			}
			if len(p.Files()) == 0 {
				continue // `unsafe` has no syntax (observation O10)
			}
			checked++
			if v := scopeOracle(p); v != "" {
				return "ORACLE:" + path + ": " + v
			}
			fns += len(p.Functions())
			for ipath, ip := range p.Imports() {
				if ip == nil || fmt.Sprintf("%v", ip) == "<nil>" {
					return fmt.Sprintf("ORACLE:%s: Imports()[%q] is nil", path, ipath)
				}
				if ip != u.Package(ipath) {
					return fmt.Sprintf("ORACLE:%s: Imports()[%q] differs from Universe.Package", path, ipath)
				}
			}
			for ipath := range all[path].Imports {
				if _, ok := p.Imports()[ipath]; !ok {
					return fmt.Sprintf("ORACLE:%s: Imports() lacks %q", path, ipath)
				}
			}
			if all[path].Module != nil {
				if len(all[path].GoFiles) > 0 {
					want := filepath.Dir(all[path].GoFiles[0])
					if filepath.Clean(p.SourceDir()) != want {
						return fmt.Sprintf("ORACLE:%s: SourceDir() = %q, files are in %q", path, p.SourceDir(), want)
					}
				}
				if lp := u.LocateInPackage(p.Files()[0].Pos()); lp != p {
					return fmt.Sprintf("ORACLE:%s: LocateInPackage(position in the package) returned another package", path)
				}
			}
		}
		c.stats = fmt.Sprintf("packages=%d functions=%d", checked, fns)
		return "ok " + c.stats
	})
}
func (c *closureCase) Oracle(out string) string {
	if strings.HasPrefix(out, "ORACLE:") {
		return out[7:]
	}
	if out == "panic" {
		return "the loader panicked on the closure of /repo"
	}
	return ""
}
func (c *closureCase) Shrinks() []Case   { return nil }
func (c *closureCase) Key() string       { return "closure of /repo" }
func (c *closureCase) Classes() []string { return []string{c.stats} }
func (c *closureCase) Nontrivial() bool  { return true }

// ---------------------------------------------------------------- module layouts: SourceDir and LocateInPackage

// modCase: a main module and a second module it requires, replaced by a directory (beside the main module or
// nested in it); every package is asked for SourceDir, one position is located.
type modCase struct {
	Main   string `json:"main"`           // module path of the main module
	Lib    string `json:"lib"`            // module path of the required module
	LibRel string `json:"librel"`         // where the replacement lives, relative to the main module: ../lib | ./inner | ../deep/er/lib
	Query  int    `json:"query"`          // which package the located position is in
	Link   bool   `json:"link,omitempty"` // the directory the layout is loaded from is a symbolic link to where it is
	Cgo    bool   `json:"cgo,omitempty"`  // the package a/b of the main module and lib/sub are cgo-only packages (every Go file imports "C"): the go tool compiles them to files in its build cache whose //line directives name the sources
	out    string
	line   string
	have   bool
}

func (c *modCase) pkgs() []struct{ path, dir string } {
	lib := filepath.Clean(filepath.Join("app", c.LibRel))
	return []struct{ path, dir string }{
		{c.Main, "app"}, {c.Main + "/a", "app/a"}, {c.Main + "/a/b", "app/a/b"},
		{c.Lib, lib}, {c.Lib + "/sub", lib + "/sub"}, {c.Lib + "/sub/leaf", lib + "/sub/leaf"},
	}
}

func (c *modCase) eval() {
	c.have = true
	c.out = guard(func() string {
		fixLoadEnv()
		root, err := os.MkdirTemp("", "vhmod")
		if err != nil {
			return "loaderr"
		}
		defer os.RemoveAll(root)
		root, _ = filepath.EvalSymlinks(root)
		wroot := root
		if c.Link {
			// the whole layout is reached through a symbolic link (a linked checkout, /tmp -> /private/tmp): the go tool
			// names directories and files through the path it was started in, and so must everything derived from them
			wroot = filepath.Join(root, "real")
			os.MkdirAll(wroot, 0o755)
			os.Symlink("real", filepath.Join(root, "via"))
			root = filepath.Join(root, "via")
		}
		ps := c.pkgs()
		w := func(rel, content string) {
			full := filepath.Join(wroot, rel)
			os.MkdirAll(filepath.Dir(full), 0o755)
			os.WriteFile(full, []byte(content), 0o644)
		}
		w("app/go.mod", fmt.Sprintf("module %s\n\ngo 1.24\n\nrequire %s v0.0.0\n\nreplace %s => %s\n", c.Main, c.Lib, c.Lib, c.LibRel))
		w(ps[3].dir+"/go.mod", fmt.Sprintf("module %s\n\ngo 1.24\n", c.Lib))
		w("app/main.go", fmt.Sprintf("package app\n\nimport (\n\t_ %q\n\t_ %q\n)\n\ntype Root int\n", c.Main+"/a", c.Lib))
		w("app/a/a.go", fmt.Sprintf("package a\n\nimport _ %q\n\ntype A int\n", c.Main+"/a/b"))
		w("app/a/b/b.go", fmt.Sprintf("package b\n\nimport _ %q\n\ntype B int\n", c.Lib+"/sub"))
		if c.Cgo {
			w("app/a/b/b.go", fmt.Sprintf("package b\n\n// #include <stdint.h>\nimport \"C\"\n\nimport _ %q\n\ntype B int\n\nvar Native C.int32_t\n", c.Lib+"/sub"))
		}
		w(ps[3].dir+"/lib.go", "package lib\n\ntype Lib int\n")
		w(ps[4].dir+"/sub.go", fmt.Sprintf("package sub\n\nimport _ %q\n\ntype Sub int\n", c.Lib+"/sub/leaf"))
		if c.Cgo {
			w(ps[4].dir+"/sub.go", fmt.Sprintf("package sub\n\n// #include <stdint.h>\nimport \"C\"\n\nimport _ %q\n\ntype Sub int\n\nvar Native C.int64_t\n", c.Lib+"/sub/leaf"))
		}
		w(ps[5].dir+"/leaf.go", "package leaf\n\ntype Leaf int\n")
		old := os.Stdout
		devnull, _ := os.OpenFile(os.DevNull, os.O_WRONLY, 0)
		os.Stdout = devnull
		u, err := gengotypes.Load([]string{"./..."}, func(cfg *packages.Config) { cfg.Dir = filepath.Join(root, "app") })
		os.Stdout = old
		devnull.Close()
		if err != nil || u == nil {
			return "loaderr"
		}
		rel := func(d string) string {
			r, err := filepath.Rel(root, filepath.Clean(d))
			if err != nil {
				return "?" + d
			}
			return filepath.ToSlash(r)
		}
		var dirs, toks []string
		oracle := ""
		for pi, pp := range ps {
			p := u.Package(pp.path)
			if p == nil {
				return "missing-package " + pp.path
			}
			sd := p.SourceDir()
			dirs = append(dirs, rel(sd))
			if oracle == "" && filepath.Clean(sd) != filepath.Join(root, pp.dir) {
				oracle = fmt.Sprintf("SourceDir() of %s is %q, its files are in %q", pp.path, sd, filepath.Join(root, pp.dir))
			}
			matched := b01(pi < 3) // ./... in the main module matches its three packages, never those of a nested module
			if m := p.Module(); m != nil {
				toks = append(toks, pp.path+";"+m.Path+";"+rel(m.Dir)+";"+matched)
			} else {
				toks = append(toks, pp.path+";-;-;"+matched)
			}
		}
		// which packages the loader calls local (processed under All, hashed into gengo.sum), and which of them direct
		var locs []string
		for path, direct := range u.LocalPkgPaths() {
			locs = append(locs, path+"="+b01(direct))
		}
		sort.Strings(locs)
		wantLocal := map[string]bool{}
		for _, pp := range ps[:3] {
			wantLocal[pp.path+"=1"] = true
		}
		for _, l := range locs {
			if oracle == "" && !wantLocal[l] {
				oracle = "LocalPkgPaths() lists " + l + ": only the three packages of the main module were asked for, the others belong to another module"
			}
		}
		if oracle == "" && len(locs) != 3 {
			oracle = fmt.Sprintf("LocalPkgPaths() lists %v, the main module has three packages", locs)
		}
		qp := u.Package(ps[c.Query].path)
		loc := "none"
		if len(qp.Files()) > 0 {
			// the position of the package's own type declaration (Root, A, B, Lib, Sub, Leaf): a declaration the user wrote
			qpos := qp.Files()[0].Pos()
			for _, tn := range []string{"Root", "A", "B", "Lib", "Sub", "Leaf"} {
				if t := qp.Type(tn); t != nil {
					qpos = t.Pos()
				}
			}
			lp := u.LocateInPackage(qpos)
			if lp != nil && fmt.Sprintf("%v", lp) != "<nil>" {
				loc = lp.Pkg().Path()
			}
			if oracle == "" && lp != qp {
				oracle = fmt.Sprintf("LocateInPackage(position in %s) returned %s", ps[c.Query].path, loc)
			}
		}
		c.line = "locate " + ps[c.Query].dir + " " + strings.Join(toks, " ")
		out := "dirs " + strings.Join(dirs, ",") + " locate " + loc + " locals " + strings.Join(locs, ",")
		if oracle != "" {
			out += " ORACLE:" + oracle
		}
		return out
	})
}

func (c *modCase) Line() string {
	if !c.have {
		c.eval()
	}
	return c.line
}
func (c *modCase) Run() string {
	if !c.have {
		c.eval()
	}
	return strings.Split(c.out, " ORACLE:")[0]
}
func (c *modCase) Oracle(out string) string {
	if i := strings.Index(c.out, " ORACLE:"); i >= 0 {
		return c.out[i+8:]
	}
	if out == "panic" || out == "loaderr" || strings.HasPrefix(out, "missing-package") {
		return "loading the two-module layout failed: " + out
	}
	return ""
}
func (c *modCase) Shrinks() []Case { return nil }
func (c *modCase) Key() string {
	return fmt.Sprintf("%s %s %s q%d cgo=%v link=%v", c.Main, c.Lib, c.LibRel, c.Query, c.Cgo, c.Link)
}
func (c *modCase) Classes() []string {
	return []string{"replacement:" + c.LibRel, fmt.Sprintf("query:%d", c.Query), fmt.Sprintf("through-a-link:%v", c.Link)}
}
func (c *modCase) Nontrivial() bool { return true }

func init() {
	register(&Property{ID: "C13", Streams: []*Stream{
		{
			Name: "modules", New: func() Case { return &modCase{} },
			Enum: func(tier string, yield func(Case)) {
				mains := []string{"example.com/app", "app", "example.com/app/v2"}
				libs := []string{"example.com/lib", "lib.io/x.v3", "example.com/app/inner"}
				rels := []string{"../lib", "./inner", "../deep/er/lib"}
				for mi, m := range mains {
					for li, l := range libs {
						for ri, rl := range rels {
							if tier != "thorough" && (mi+li+ri)%3 != 0 {
								continue
							}
							for q := 0; q < 6; q++ {
								if tier != "thorough" && q%2 != (mi+li)%2 {
									continue
								}
								yield(&modCase{Main: m, Lib: l, LibRel: rl, Query: q, Cgo: (q+ri)%3 == 0})
								if (q+mi+ri)%2 == 0 {
									yield(&modCase{Main: m, Lib: l, LibRel: rl, Query: q, Cgo: (q+ri)%3 == 1, Link: true})
								}
							}
						}
					}
				}
			},
			EnumExhaustive: false, ShrinkBudget: 1, MaxShrinks: 3,
			Rule: "two-module layouts: a main module (3 module paths) requiring a second module (3 paths, one of them looking like a sub-path of the main module) that a replace directive points at a directory beside the main module, nested inside it, or deeper elsewhere; three packages per module, in a third of the layouts one package of each module is cgo-only (every Go file imports C: the loaded syntax lives in the go tool's build cache, its //line directives name the sources); compared with the model (path arithmetic of SourceDir, LocateInPackage as search over the universe, the locality decision of Load): the source directory of all six packages, the package located for a position and LocalPkgPaths(); oracle: SourceDir() = the directory the harness wrote the files to, LocateInPackage(position) = the package itself, local = exactly the three packages of the main module, all direct",
		},
		{
			Name: "tables", Quick: 900, Thorough: 6000, New: func() Case { return &tablesCase{} },
			Gen:      func(r *Rng, i int) Case { return genTables(r) },
			BatchRun: tablesBatch, ShrinkBudget: 40, MaxShrinks: 5,
			Rule: "synthetic packages of 2–9 declarations among struct / generic / interface / alias types, consts, vars, funcs, value- and pointer-receiver methods on plain and generic types, function-local types, named interfaces and constants, type parameters of generic functions and of receivers (all often sharing names with package-level declarations), init and blank functions/variables/constants, pairs of blank type and constant declarations, interface literals (in a variable's type, an alias, a type assertion) whose method carries the name of a package-level function; loaded with the real types.Load (150 per load); the model gets types.Info.Defs of an independent type-check of the same source; compared: Types/Constants/Functions as name → object position; oracle: the loader's own types.Package scope by pointer identity, Named.Method(i) for MethodsOf",
		},
		{
			Name: "methods", New: func() Case { return &methodsCase{} },
			Enum: func(tier string, yield func(Case)) {
				for _, g := range []bool{false, true} {
					for n := 0; n <= 3; n++ {
						for mask := 0; mask < 1<<n; mask++ {
							ms := make([]bool, n)
							for i := range ms {
								ms[i] = mask>>i&1 == 1
							}
							for _, q := range []bool{false, true} {
								yield(&methodsCase{Generic: g, Ms: ms, Query: q})
							}
						}
					}
				}
			},
			EnumExhaustive: true, BatchRun: methodsBatch, ShrinkBudget: 20, MaxShrinks: 3,
			Rule: "every combination of {plain, generic} type × 0–3 methods × {value, pointer} receivers × MethodsOf(T, true/false), next to a second type with a method of its own",
		},
		{
			Name: "imports", Quick: 300, Thorough: 2000, New: func() Case { return &dagCase{} },
			Gen:      func(r *Rng, i int) Case { return genDag(r) },
			BatchRun: dagBatch, ShrinkBudget: 30, MaxShrinks: 4,
			Rule: "acyclic import graphs of 1–6 module packages (some also importing std packages; in a third of the graphs every file has a `//line` directive ahead of its declaration, naming a file beside the source, a file in another package's directory, or an absolute path elsewhere; in a fifth of the graphs some package directories hold a dangling symbolic link, which the go tool ignores and the directory hash stumbles over), loaded from 1–6 roots listed in either order, all graphs of a run in one types.Load — and in a second one by a caller that supplies its own token.FileSet through packages.Config; compared with the registration model: every import table entry resolved or not; oracle: Imports() total, non-nil and identical to Universe.Package(path), SourceDir() = directory of the files, LocateInPackage(position) = the package, for the start of the file and for its last declaration",
		},
		{
			Name: "closure", New: func() Case { return &closureCase{} },
			Enum:           func(tier string, yield func(Case)) { yield(&closureCase{Repeat: 1}) },
			EnumExhaustive: false,
			Rule:           "the dependency closure of /repo's own packages (pkg/..., devpkg/...; about 200 packages incl. std) loaded with the real loader; oracle only, on every package: tables = package scope, MethodsOf = declared methods, Imports() total and non-nil, SourceDir, LocateInPackage",
		},
	}})
}
