package main

// Structural facts with type information, re-extracted from the checkout under test on every run of the
// checks that need them: where the code iterates over a map (or a sync.Map, or maps.Keys/Values/All) and where it
// sorts.  The determinism theorems (C04, C10 map_order_fixed, C08 sumData_perm) are about a model that emits in
// sorted order at exactly these places; the expectation the list is compared with is expected/map_iteration.json.

import (
	"bytes"
	"encoding/json"
	"fmt"
	"go/ast"
	"go/printer"
	"go/token"
	"go/types"
	"os"
	"path/filepath"
	"sort"
	"strings"

	"golang.org/x/tools/go/packages"
)

func exprText(fset *token.FileSet, e ast.Expr) string {
	var b bytes.Buffer
	printer.Fprint(&b, fset, e)
	return strings.Join(strings.Fields(b.String()), " ")
}

func calleeName(info *types.Info, call *ast.CallExpr) string {
	var id *ast.Ident
	switch f := call.Fun.(type) {
	case *ast.Ident:
		id = f
	case *ast.SelectorExpr:
		id = f.Sel
	case *ast.IndexExpr: // explicit instantiation
		switch g := f.X.(type) {
		case *ast.Ident:
			id = g
		case *ast.SelectorExpr:
			id = g.Sel
		}
	}
	if id == nil {
		return ""
	}
	fn, _ := info.Uses[id].(*types.Func)
	if fn == nil {
		return ""
	}
	if sig, ok := fn.Type().(*types.Signature); ok && sig.Recv() != nil {
		return "(" + types.TypeString(sig.Recv().Type(), nil) + ")." + fn.Name()
	}
	if fn.Pkg() == nil {
		return fn.Name()
	}
	return fn.Pkg().Path() + "." + fn.Name()
}

var sortCallees = map[string]bool{
	"sort.Strings": true, "sort.Ints": true, "sort.Slice": true, "sort.SliceStable": true, "sort.Sort": true, "sort.Stable": true,
	"slices.Sort": true, "slices.SortFunc": true, "slices.SortStableFunc": true, "slices.Sorted": true, "slices.SortedFunc": true,
	"slices.SortedStableFunc": true, "go/ast.SortImports": true,
}

var mapIterCallees = map[string]bool{"maps.Keys": true, "maps.Values": true, "maps.All": true, "(*sync.Map).Range": true, "(reflect.Value).MapKeys": true, "(reflect.Value).MapRange": true}

func mapIterationFacts(repo string) (map[string][]string, error) {
	fixLoadEnv()
	cfg := &packages.Config{
		Mode: packages.NeedName | packages.NeedFiles | packages.NeedSyntax | packages.NeedTypes | packages.NeedTypesInfo | packages.NeedImports | packages.NeedDeps,
		Dir:  repo,
	}
	pkgs, err := packages.Load(cfg, "./pkg/...", "./devpkg/...")
	if err != nil {
		return nil, err
	}
	out := map[string][]string{}
	for _, p := range pkgs {
		if len(p.Errors) > 0 {
			return nil, fmt.Errorf("%s: %v", p.PkgPath, p.Errors[0])
		}
		for _, f := range p.Syntax {
			file := p.Fset.Position(f.Pos()).Filename
			rel, _ := filepath.Rel(repo, file)
			if strings.HasSuffix(rel, "_test.go") || strings.HasPrefix(filepath.Base(rel), "zz_") || strings.Contains(rel, "__generators__") {
				continue
			}
			for _, d := range f.Decls {
				fd, ok := d.(*ast.FuncDecl)
				if !ok || fd.Body == nil {
					continue
				}
				name := fd.Name.Name
				if fd.Recv != nil && len(fd.Recv.List) > 0 {
					name = strings.TrimPrefix(exprText(p.Fset, fd.Recv.List[0].Type), "*") + "." + name
				}
				var ev []string
				iter := false
				ast.Inspect(fd.Body, func(n ast.Node) bool {
					switch x := n.(type) {
					case *ast.RangeStmt:
						if t := p.TypesInfo.TypeOf(x.X); t != nil {
							if _, ok := t.Underlying().(*types.Map); ok {
								ev = append(ev, "range-map "+exprText(p.Fset, x.X))
								iter = true
							}
						}
						// range over a method value such as gfs.Range (range-over-func)
						if sel, ok := x.X.(*ast.SelectorExpr); ok {
							if fn, ok := p.TypesInfo.Uses[sel.Sel].(*types.Func); ok {
								if sig, ok := fn.Type().(*types.Signature); ok && sig.Recv() != nil {
									if full := "(" + types.TypeString(sig.Recv().Type(), nil) + ")." + fn.Name(); mapIterCallees[full] {
										ev = append(ev, "iterate "+full)
										iter = true
									}
								}
							}
						}
					case *ast.CallExpr:
						c := calleeName(p.TypesInfo, x)
						switch {
						case mapIterCallees[c]:
							ev = append(ev, "iterate "+c)
							iter = true
						case sortCallees[c]:
							ev = append(ev, "sort "+c)
						}
					}
					return true
				})
				if iter {
					out[filepath.ToSlash(rel)+":"+name] = ev
				}
			}
		}
	}
	return out, nil
}

func init() {
	childHandlers["facts"] = func(args []string) int {
		repo := os.Getenv("VERIF_REPO")
		if repo == "" {
			repo = "/repo"
		}
		m, err := mapIterationFacts(repo)
		if err != nil {
			fmt.Fprintln(os.Stderr, err)
			return 1
		}
		keys := make([]string, 0, len(m))
		for k := range m {
			keys = append(keys, k)
		}
		sort.Strings(keys)
		ordered := make([]map[string]any, 0, len(keys))
		for _, k := range keys {
			ordered = append(ordered, map[string]any{"func": k, "events": m[k]})
		}
		b, _ := json.MarshalIndent(ordered, "", " ")
		os.Stdout.Write(append(b, '\n'))
		return 0
	}
}
