package main

// C16 — runtimedoc output returns the source documentation at run time.

import (
	"fmt"
	"sort"
	"strings"
)

type RField struct {
	Name     string   `json:"name"`
	Exported bool     `json:"exported"`
	Emb      string   `json:"emb,omitempty"` // "" | v | p
	Cls      string   `json:"cls,omitempty"` // o other · i inline struct · e empty struct
	Doc      []string `json:"doc,omitempty"`
	Target   int      `json:"target"` // embedded: index of the embedded type, else -1
}

type RType struct {
	Name     string   `json:"name"`
	Exported bool     `json:"exported"`
	Kind     string   `json:"kind"` // s struct · c defined non-struct (int, map, slice, func) · i interface
	Generic  bool     `json:"generic,omitempty"`
	Under    string   `json:"under,omitempty"` // kind c: the underlying type text
	Doc      []string `json:"doc,omitempty"`
	Fields   []RField `json:"fields,omitempty"`
	Hdr      string   `json:"hdr,omitempty"`   // struct: a comment after the opening brace, on the header's line (it belongs to no declaration)
	Above    string   `json:"above,omitempty"` // types without doc: a one-line function with a comment behind it on the line directly above
	Far      bool     `json:"far,omitempty"`   // struct: declared as `type T far.TSrc` over a struct of a package of ANOTHER module (reached through a replace directive), where its fields and their docs stand
}

// farOK: only structs whose fields need nothing of the local package can be declared elsewhere
func (t RType) farOK() bool {
	if !t.Far || t.Kind != "s" || t.Generic {
		return false
	}
	for _, f := range t.Fields {
		if f.Emb != "" || f.Cls == "e" {
			return false
		}
	}
	return true
}

func (c *rdocCase) hasFar() bool {
	for _, t := range c.Types {
		if t.farOK() {
			return true
		}
	}
	return false
}

// farSource: the package of the other module that declares the structs the far types are defined over
func (c *rdocCase) farSource(pkg string) string {
	var b strings.Builder
	fmt.Fprintf(&b, "package %s\n\n", pkg)
	for _, t := range c.Types {
		if !t.farOK() {
			continue
		}
		if t.Hdr != "" {
			fmt.Fprintf(&b, "type %sSrc struct { // %s\n", strings.ToUpper(t.Name), t.Hdr)
		} else {
			fmt.Fprintf(&b, "type %sSrc struct {\n", strings.ToUpper(t.Name))
		}
		for _, f := range t.Fields {
			for _, l := range f.Doc {
				if l == "" {
					b.WriteString("\t//\n")
				} else {
					b.WriteString("\t// " + l + "\n")
				}
			}
			if f.Cls == "i" {
				fmt.Fprintf(&b, "\t%s struct{ X int }\n", f.Name)
			} else {
				fmt.Fprintf(&b, "\t%s int\n", f.Name)
			}
		}
		b.WriteString("}\n\n")
	}
	return b.String()
}

type rdocCase struct {
	Types []RType `json:"types"`
	res   *rdocRes
}

type rdocRes struct {
	execErr string
	build   string
	answers []string // per query, in the order of queries()
	again   string   // a question answered differently when asked again
	rerun   string   // what a second run over the first run's output changed
	ran     bool
}

var rdocNames = []string{"-", "Nope", "F0", "F1", "F2", "f0", "T0", "T1"}

func hxl(ls []string) string {
	if len(ls) == 0 {
		return "-"
	}
	return hxs(ls, "|")
}

func (t RType) hasExp() bool {
	for _, f := range t.Fields {
		if f.Exported {
			return true
		}
	}
	return false
}

func (c *rdocCase) source(pkg string) string {
	var b strings.Builder
	fmt.Fprintf(&b, "// +gengo:runtimedoc\npackage %s\n\n", pkg)
	if c.hasFar() {
		fmt.Fprintf(&b, "import far %q\n\n", "farmod/"+pkg)
	}
	b.WriteString("type E struct{}\n\n")
	doc := func(ls []string, indent string) {
		for _, l := range ls {
			if l == "" {
				b.WriteString(indent + "//\n")
			} else {
				b.WriteString(indent + "// " + l + "\n")
			}
		}
	}
	for _, t := range c.Types {
		doc(t.Doc, "")
		if t.Above != "" && len(t.Doc) == 0 {
			fmt.Fprintf(&b, "func fn%s() {} // %s\n", t.Name, t.Above)
		}
		tp := ""
		if t.Generic {
			tp = "[P any]"
		}
		switch t.Kind {
		case "c":
			u := t.Under
			if u == "" {
				u = "int"
			}
			fmt.Fprintf(&b, "type %s %s\n\n", t.Name, u)
		case "i":
			fmt.Fprintf(&b, "type %s interface{ M() }\n\n", t.Name)
		default:
			if t.farOK() {
				fmt.Fprintf(&b, "type %s far.%sSrc\n\n", t.Name, strings.ToUpper(t.Name))
				break
			}
			if t.Hdr != "" {
				fmt.Fprintf(&b, "type %s%s struct { // %s\n", t.Name, tp, t.Hdr)
			} else {
				fmt.Fprintf(&b, "type %s%s struct {\n", t.Name, tp)
			}
			for _, f := range t.Fields {
				doc(f.Doc, "\t")
				switch {
				case f.Emb == "v":
					fmt.Fprintf(&b, "\t%s\n", f.Name)
				case f.Emb == "p":
					fmt.Fprintf(&b, "\t*%s\n", f.Name)
				case f.Cls == "i":
					fmt.Fprintf(&b, "\t%s struct{ X int }\n", f.Name)
				case f.Cls == "e":
					fmt.Fprintf(&b, "\t%s E\n", f.Name)
				default:
					fmt.Fprintf(&b, "\t%s int\n", f.Name)
				}
			}
			b.WriteString("}\n\n")
		}
	}
	return b.String()
}

// docLines: what Doc returns for a comment (tag lines split off, `go:` prose dropped, lines trimmed) —
// the ground truth of the harness, which wrote the comment.
func docLines(ls []string) []string {
	var o []string
	for _, l := range ls {
		t := strings.Trim(l, " ")
		if t != "" && (t[0] == '+' || t[0] == '@') {
			continue
		}
		if strings.HasPrefix(t, "go:") {
			continue
		}
		o = append(o, t)
	}
	// Text() drops leading and trailing empty lines of the group and collapses runs of empty lines
	for len(o) > 0 && o[0] == "" {
		o = o[1:]
	}
	for len(o) > 0 && o[len(o)-1] == "" {
		o = o[:len(o)-1]
	}
	var c []string
	for i, l := range o {
		if l == "" && i > 0 && o[i-1] == "" {
			continue
		}
		c = append(c, l)
	}
	return c
}

func (c *rdocCase) modelTypes() string {
	var enc []string
	for _, t := range c.Types {
		var fs []string
		for _, f := range t.Fields {
			tg, the := "-", "1"
			if f.Target >= 0 {
				tg = fmt.Sprint(f.Target)
				the = b01(c.Types[f.Target].hasExp())
			}
			emb := f.Emb
			if emb == "" {
				emb = "0"
			}
			cls := f.Cls
			if cls == "" {
				cls = "o"
			}
			fs = append(fs, strings.Join([]string{f.Name, b01(f.Exported), emb, cls, hxl(docLines(f.Doc)), tg, the}, "~"))
		}
		fenc := strings.Join(fs, ",")
		if fenc == "" {
			fenc = "-"
		}
		enc = append(enc, strings.Join([]string{t.Name, b01(t.Exported), t.Kind, hxl(docLines(t.Doc)), fenc}, ":"))
	}
	return strings.Join(enc, " ")
}

type rquery struct {
	typ  int
	name string
}

func (c *rdocCase) queries() []rquery {
	var qs []rquery
	for i, t := range c.Types {
		if !t.Exported || t.Kind == "i" {
			continue
		}
		for _, nm := range rdocNames {
			qs = append(qs, rquery{i, nm})
		}
	}
	return qs
}

func (c *rdocCase) Line() string {
	return "rdocall " + fmt.Sprint(len(rdocNames)) + " " + strings.Join(rdocNames, " ") + " " + c.modelTypes()
}

const rdocProbeCommon = `package main

import (
	"encoding/hex"
	"fmt"
	"reflect"
	"strings"
	"unsafe"
)

func hx(s string) string {
	if s == "" {
		return "-"
	}
	return hex.EncodeToString([]byte(s))
}

// embedded pointers are allocated: the statement does not say on which values the methods are called
func initPtrs(v reflect.Value) {
	if v.Kind() != reflect.Struct {
		return
	}
	for i := 0; i < v.NumField(); i++ {
		f := v.Field(i)
		if !f.CanSet() && f.CanAddr() {
			// a field of an unexported embedded struct: reachable by the generated methods, so it is allocated too
			f = reflect.NewAt(f.Type(), unsafe.Pointer(f.UnsafeAddr())).Elem()
		}
		if f.Kind() == reflect.Ptr && f.CanSet() && f.Type().Elem().Kind() == reflect.Struct {
			f.Set(reflect.New(f.Type().Elem()))
			initPtrs(f.Elem())
		} else if f.Kind() == reflect.Struct && f.CanSet() {
			initPtrs(f)
		}
	}
}

// a question is registered once and asked three times: in order, in order again, and in reverse order — what
// RuntimeDoc returns may not depend on what was asked before
func q(tag string, v any, names ...string) {
	questions = append(questions, func(pass string) { ask(tag+pass, v, names...) })
}

var questions []func(pass string)

func ask(tag string, v any, names ...string) {
	defer func() {
		if e := recover(); e != nil {
			fmt.Println(tag, "panic")
		}
	}()
	initPtrs(reflect.ValueOf(v).Elem())
	m, ok := v.(interface {
		RuntimeDoc(names ...string) ([]string, bool)
	})
	if !ok {
		fmt.Println(tag, "none")
		return
	}
	doc, ok := m.RuntimeDoc(names...)
	if !ok {
		fmt.Println(tag, "none")
		return
	}
	o := []string{}
	for _, l := range doc {
		o = append(o, hx(l))
	}
	fmt.Println(tag, "some "+strings.Join(o, "|"))
}

var probes []func()

func main() {
	for _, p := range probes {
		p()
	}
	for _, f := range questions {
		f("")
	}
	for _, f := range questions {
		f("@2")
	}
	for i := len(questions) - 1; i >= 0; i-- {
		questions[i]("@3")
	}
}
`

func (c *rdocCase) probe(pkg string) string {
	var b strings.Builder
	fmt.Fprintf(&b, "package main\n\nimport %s %q\n\nvar _ %s.E\n\nfunc init() {\n\tprobes = append(probes, func() {\n", pkg, genMod+"/"+pkg, pkg)
	for k, q := range c.queries() {
		t := c.Types[q.typ]
		targ := ""
		if t.Generic {
			targ = "[int]"
		}
		tag := fmt.Sprintf("%s#%d", pkg, k)
		if q.name == "-" {
			fmt.Fprintf(&b, "\t\tq(%q, new(%s.%s%s))\n", tag, pkg, t.Name, targ)
		} else {
			fmt.Fprintf(&b, "\t\tq(%q, new(%s.%s%s), %q)\n", tag, pkg, t.Name, targ, q.name)
		}
	}
	b.WriteString("\t})\n}\n")
	return b.String()
}

func rdocJob(cases []*rdocCase) *genJob {
	// two runs (the second over a package that holds the output of the first) under an output base name that is not the
	// default one: what is compiled and asked is what the second run left
	job := &genJob{Files: map[string]string{}, Gens: []string{"runtimedoc"}, Runs: 2, Base: "zz_docs", ProbeCommon: rdocProbeCommon, Probes: map[string]string{}}
	for i, c := range cases {
		pkg := fmt.Sprintf("p%d", i)
		job.Files[pkg+"/a.go"] = c.source(pkg)
		job.Entry = append(job.Entry, "./"+pkg)
		job.Probes[pkg] = c.probe(pkg)
		if c.hasFar() {
			// a second module, required and replaced by a directory: the structs some types are defined over live there
			job.Files["go.mod"] = "module " + genMod + "\n\ngo 1.24\n\nrequire farmod v0.0.0\n\nreplace farmod => ./farmod\n"
			job.Files["farmod/go.mod"] = "module farmod\n\ngo 1.24\n"
			job.Files["farmod/"+pkg+"/s.go"] = c.farSource(pkg)
		}
	}
	return job
}

func (c *rdocCase) fill(out *genRunOut, i int) {
	pkg := fmt.Sprintf("p%d", i)
	r := &rdocRes{}
	if len(out.ExecErr) > 0 {
		for _, e := range out.ExecErr {
			if e != "" && r.execErr == "" {
				r.execErr = e
			}
		}
	} else {
		r.execErr = "not run " + out.Harness
	}
	if n := len(out.BuildFail); n > 0 {
		r.build = out.BuildFail[n-1][pkg]
		if r.build == "" && n > 1 {
			r.build = out.BuildFail[0][pkg]
		}
	}
	if n := len(out.Generated); n > 1 && r.execErr == "" {
		// the second run writes what the first wrote
		for rel, txt := range out.Generated[0] {
			if strings.HasPrefix(rel, pkg+"/") && out.Generated[n-1][rel] != txt {
				r.rerun = "the second run changed " + rel + " (or removed it)"
			}
		}
	}
	qs := c.queries()
	r.answers = make([]string, len(qs))
	for _, l := range strings.Split(out.ProbeOut, "\n") {
		sp := strings.SplitN(l, " ", 2)
		if len(sp) == 2 && strings.HasPrefix(sp[0], pkg+"#") {
			var k int
			tag, pass, _ := strings.Cut(strings.TrimPrefix(sp[0], pkg+"#"), "@")
			fmt.Sscan(tag, &k)
			if k < len(qs) && pass == "" {
				r.answers[k] = sp[1]
				r.ran = true
			}
		}
	}
	for _, l := range strings.Split(out.ProbeOut, "\n") {
		sp := strings.SplitN(l, " ", 2)
		if len(sp) == 2 && strings.HasPrefix(sp[0], pkg+"#") {
			var k int
			tag, pass, _ := strings.Cut(strings.TrimPrefix(sp[0], pkg+"#"), "@")
			fmt.Sscan(tag, &k)
			if k < len(qs) && pass != "" && r.again == "" && r.answers[k] != "" && sp[1] != r.answers[k] {
				how := map[string]string{"2": "after every question had been asked once", "3": "in a third round in reverse order"}[pass]
				r.again = fmt.Sprintf("(*%s).RuntimeDoc(%s) returned %s the first time and %s when asked again %s", c.Types[qs[k].typ].Name, qs[k].name, decodeAnswer(r.answers[k]), decodeAnswer(sp[1]), how)
			}
		}
	}
	if out.ProbeErr != "" && !r.ran {
		r.build += " " + out.ProbeErr
	}
	c.res = r
}

func (c *rdocCase) canon() string {
	r := c.res
	if r.execErr != "" {
		if strings.HasPrefix(r.execErr, "panic") {
			return "panic"
		}
		return "err " + r.execErr
	}
	if r.build != "" {
		return "build-fail"
	}
	return strings.Join(r.answers, ";")
}

func (c *rdocCase) Run() string {
	if c.res == nil {
		c.fill(runGenJob(rdocJob([]*rdocCase{c})), 0)
	}
	return c.canon()
}

// ground truth, written from the statement: doc lines with the leading type/field name removed when it
// is the first word of the first line
func stripName(name string, doc []string) []string {
	d := append([]string{}, doc...)
	if len(d) > 0 {
		if rest, ok := strings.CutPrefix(d[0], name); ok && (rest == "" || rest[0] == ' ') {
			d[0] = strings.TrimSpace(rest)
		}
		if d[0] == "" {
			d = d[1:]
		}
	}
	return d
}

func showDoc(d []string) string {
	o := make([]string, len(d))
	for i, l := range d {
		o[i] = hx(l)
	}
	return "some " + strings.Join(o, "|")
}

func (c *rdocCase) Oracle(out string) string {
	r := c.res
	switch {
	case out == "panic":
		return "the runtimedoc generator panicked"
	case strings.HasPrefix(out, "err "):
		return "the runtimedoc generator failed: " + out
	case out == "build-fail":
		return "the generated code does not compile with the package: " + clip(r.build, 400)
	}
	if r.again != "" {
		return r.again
	}
	if r.rerun != "" {
		return r.rerun
	}
	for k, q := range c.queries() {
		t := c.Types[q.typ]
		got := r.answers[k]
		if got == "" {
			continue // the probe did not run for this package
		}
		if got == "panic" {
			return fmt.Sprintf("RuntimeDoc(%s) of %s panicked", q.name, t.Name)
		}
		covered := t.Kind == "c" || (t.Kind == "s" && t.hasExp())
		embedsAny := false
		for _, f := range t.Fields {
			if f.Emb != "" {
				embedsAny = true
			}
		}
		switch {
		case q.name == "-" && covered:
			if want := showDoc(stripName(t.Name, docLines(t.Doc))); got != want {
				return fmt.Sprintf("(*%s).RuntimeDoc() returned %s; the type's doc lines are %s", t.Name, decodeAnswer(got), decodeAnswer(want))
			}
		case t.Kind == "s" && covered:
			var field *RField
			for i := range t.Fields {
				f := &t.Fields[i]
				if f.Name == q.name && f.Exported && f.Emb == "" && (f.Cls == "" || f.Cls == "o") {
					field = f
				}
			}
			if field != nil {
				if want := showDoc(stripName(field.Name, docLines(field.Doc))); got != want {
					return fmt.Sprintf("(*%s).RuntimeDoc(%q) returned %s; the field's doc lines are %s", t.Name, q.name, decodeAnswer(got), decodeAnswer(want))
				}
			} else if !embedsAny && got != "none" {
				return fmt.Sprintf("(*%s).RuntimeDoc(%q) returned %s for a name that is not a listed field", t.Name, q.name, decodeAnswer(got))
			}
		case t.Kind == "c" && q.name != "-":
			if got != "none" {
				return fmt.Sprintf("(*%s).RuntimeDoc(%q) of a non-struct type returned %s, not (nil, false)", t.Name, q.name, decodeAnswer(got))
			}
		case !covered && !embedsAny:
			if got != "none" {
				return fmt.Sprintf("%s is not covered (no exported field) but RuntimeDoc(%s) answered %s", t.Name, q.name, decodeAnswer(got))
			}
		}
	}
	return ""
}

func decodeAnswer(a string) string {
	if !strings.HasPrefix(a, "some ") {
		return a
	}
	var ls []string
	for _, h := range strings.Split(strings.TrimPrefix(a, "some "), "|") {
		if h != "" {
			ls = append(ls, fmt.Sprintf("%q", unhx(h)))
		}
	}
	return "[" + strings.Join(ls, " ") + "]"
}

func (c *rdocCase) Shrinks() []Case {
	var out []Case
	cp := func() []RType {
		n := make([]RType, len(c.Types))
		for i, t := range c.Types {
			n[i] = t
			n[i].Fields = append([]RField{}, t.Fields...)
		}
		return n
	}
	if n := len(c.Types); n > 1 {
		used := false
		for _, t := range c.Types {
			for _, f := range t.Fields {
				if f.Target == n-1 {
					used = true
				}
			}
		}
		if !used {
			out = append(out, &rdocCase{Types: cp()[:n-1]})
		}
	}
	for i, t := range c.Types {
		for j := range t.Fields {
			n := cp()
			n[i].Fields = append(n[i].Fields[:j:j], n[i].Fields[j+1:]...)
			out = append(out, &rdocCase{Types: n})
		}
		if len(t.Doc) > 1 {
			n := cp()
			n[i].Doc = t.Doc[:1]
			out = append(out, &rdocCase{Types: n})
		}
		if len(t.Doc) > 0 {
			n := cp()
			n[i].Doc = nil
			out = append(out, &rdocCase{Types: n})
		}
		for j, f := range t.Fields {
			if len(f.Doc) > 0 {
				n := cp()
				n[i].Fields[j].Doc = nil
				out = append(out, &rdocCase{Types: n})
			}
		}
	}
	return out
}

func (c *rdocCase) Key() string { return c.modelTypes() }
func (c *rdocCase) Classes() []string {
	m := map[string]bool{}
	for _, t := range c.Types {
		m["kind:"+t.Kind] = true
		if t.Generic {
			m["generic"] = true
		}
		if !t.Exported {
			m["unexported-type"] = true
		}
		for _, f := range t.Fields {
			if f.Emb != "" {
				m["embedded:"+f.Emb] = true
			}
			if f.Cls == "i" || f.Cls == "e" {
				m["field-class:"+f.Cls] = true
			}
		}
		for _, l := range t.Doc {
			if strings.HasPrefix(l, t.Name) && len(l) > len(t.Name) && l[len(t.Name)] != ' ' {
				m["name-is-prefix-of-first-word"] = true
			}
			if strings.ContainsAny(l, "\"\\`%@") {
				m["doc-with-special-characters"] = true
			}
		}
	}
	if c.res != nil && c.res.ran {
		m["executed"] = true
	}
	var cl []string
	for k := range m {
		cl = append(cl, k)
	}
	sort.Strings(cl)
	return cl
}
func (c *rdocCase) Nontrivial() bool { return len(c.queries()) > 0 }

func rdocDocFor(r *Rng, name string) []string {
	switch r.Intn(15) {
	case 11:
		return []string{name + " " + name + " of detail"} // the name twice: only the first one is the leading name
	case 12:
		return []string{name + " " + name}
	case 13:
		return []string{name + " " + name + " " + name, name + " again on the second line"}
	case 14:
		return []string{name + " - " + name + ": punctuation after the name"}
	case 0:
		return nil
	case 1:
		return []string{name + " does x"}
	case 2:
		return []string{name + "s plural thing"}
	case 3:
		return []string{"plain text", "second line"}
	case 4:
		return []string{name}
	case 5:
		return []string{name, "only name first"}
	case 6:
		return []string{"has \"quotes\" back\\slash %d @x `tick` é", "", "after blank"}
	case 7:
		return []string{name + " tagged", "+gengo:x=1", "after the tag"}
	case 8:
		return []string{"%v and %T and 100%", "'apostrophe' @name"}
	case 9:
		return []string{name + "_suffix is another word"}
	default:
		return []string{name + "   spaced"}
	}
}

func genRdoc(r *Rng) *rdocCase {
	k := 2 + r.Intn(5)
	ts := make([]RType, k)
	for i := range ts {
		t := &ts[i]
		t.Name, t.Exported = fmt.Sprintf("T%d", i), true
		if r.Chance(16) {
			t.Name, t.Exported = fmt.Sprintf("t%d", i), false
		}
		t.Kind = Pick(r, []string{"s", "s", "s", "c", "i"})
		t.Doc = rdocDocFor(r, t.Name)
		if r.Chance(25) {
			t.Hdr = Pick(r, []string{"persisted as YAML", "+gengo:x", "opens"})
		}
		if r.Chance(25) {
			t.Above = Pick(r, []string{"host only", "stray remark"})
		}
		switch t.Kind {
		case "c":
			t.Under = Pick(r, []string{"int", "map[string]int", "[]string", "func()", "string"})
		case "s":
			t.Generic = r.Chance(15)
			n := r.Intn(5)
			usedEmb := map[int]bool{}
			for j := 0; j < n; j++ {
				f := RField{Name: fmt.Sprintf("F%d", j), Exported: true, Cls: "o", Target: -1}
				switch r.Intn(7) {
				case 0:
					f.Name, f.Exported = fmt.Sprintf("f%d", j), false
				case 1:
					f.Cls = "i"
				case 2:
					f.Cls = "e"
				case 3, 4:
					var cands []int
					for q := 0; q < i; q++ {
						if ts[q].Kind == "s" && !usedEmb[q] && !ts[q].Generic {
							cands = append(cands, q)
						}
					}
					if len(cands) > 0 {
						q := Pick(r, cands)
						usedEmb[q] = true
						f.Target, f.Name, f.Exported = q, ts[q].Name, ts[q].Exported
						f.Emb = Pick(r, []string{"v", "p"})
						if !ts[q].Exported {
							// reflect cannot allocate an unexported embedded pointer, and the generated methods
							// dereference embedded pointers when they delegate (observation O9): by value
							f.Emb = "v"
						}
					}
				}
				f.Doc = rdocDocFor(r, f.Name)
				t.Fields = append(t.Fields, f)
			}
			t.Far = r.Chance(22)
			if t.Hdr != "" && len(t.Fields) > 0 && r.Chance(60) {
				t.Fields[0].Doc = nil // the stray comment stands directly above a field that has no doc of its own
			}
		}
		if t.Above != "" && r.Chance(60) {
			t.Doc = nil
		}
	}
	return &rdocCase{Types: ts}
}

func rdocBatch(cases []Case) []string {
	res := make([]string, len(cases))
	const chunk = 120
	type shard struct{ s, e int }
	var shards []shard
	var jobs []*genJob
	for s := 0; s < len(cases); s += chunk {
		e := min(s+chunk, len(cases))
		shards = append(shards, shard{s, e})
		var cs []*rdocCase
		for _, c := range cases[s:e] {
			cs = append(cs, c.(*rdocCase))
		}
		jobs = append(jobs, rdocJob(cs))
	}
	outs := runGenJobs(jobs, 6)
	for k, sh := range shards {
		out := outs[k]
		if out.Harness != "" || (len(out.ExecErr) > 0 && out.ExecErr[0] != "") {
			var single []*genJob
			for _, c := range cases[sh.s:sh.e] {
				single = append(single, rdocJob([]*rdocCase{c.(*rdocCase)}))
			}
			so := runGenJobs(single, 12)
			for i, c := range cases[sh.s:sh.e] {
				c.(*rdocCase).fill(so[i], 0)
			}
		} else {
			for i, c := range cases[sh.s:sh.e] {
				c.(*rdocCase).fill(out, i)
			}
		}
		for i, c := range cases[sh.s:sh.e] {
			res[sh.s+i] = c.(*rdocCase).canon()
		}
	}
	return res
}

// ---- a documented struct of another package of the same run, embedded

// rdocEmbedCase: package Outer declares a struct that embeds — by value or by pointer — the documented struct Meta of
// package Inner; both packages are generated in one Execute (neither has generated code yet when the sources are
// loaded), once or twice.  The promoted fields answer with the docs written in Inner.
type rdocEmbedCase struct {
	Outer string `json:"outer"`
	Inner string `json:"inner"`
	Ptr   bool   `json:"ptr,omitempty"`
	Runs  int    `json:"runs"`
	out   string
	have  bool
}

func (c *rdocEmbedCase) Line() string { return "" }
func (c *rdocEmbedCase) Run() string {
	if c.have {
		return c.out
	}
	c.have = true
	star := ""
	if c.Ptr {
		star = "*"
	}
	job := &genJob{Files: map[string]string{}, Gens: []string{"runtimedoc"}, Runs: c.Runs, ProbeCommon: rdocProbeCommon, Probes: map[string]string{}}
	job.Files[c.Inner+"/m.go"] = fmt.Sprintf("// +gengo:runtimedoc\npackage %s\n\n// Meta is what objects share.\ntype Meta struct {\n\t// identifies the object\n\tID string\n\t// attached to the object\n\tLabels map[string]string\n}\n", c.Inner)
	job.Files[c.Outer+"/o.go"] = fmt.Sprintf("// +gengo:runtimedoc\npackage %s\n\nimport %q\n\n// App is an object.\ntype App struct {\n\t%s%s.Meta\n\t// what the app is called\n\tName string\n}\n", c.Outer, genMod+"/"+c.Inner, star, c.Inner)
	job.Entry = []string{"./" + c.Outer, "./" + c.Inner}
	job.Probes[c.Outer] = fmt.Sprintf("package main\n\nimport o %q\n\nfunc init() {\n\tprobes = append(probes, func() {\n\t\tq(\"o#0\", new(o.App), \"ID\")\n\t\tq(\"o#1\", new(o.App), \"Labels\")\n\t\tq(\"o#2\", new(o.App), \"Name\")\n\t\tq(\"o#3\", new(o.App), \"Missing\")\n\t})\n}\n", genMod+"/"+c.Outer)
	out := runGenJobs([]*genJob{job}, 1)[0]
	switch {
	case out.Harness != "":
		c.out = "harness " + out.Harness
		return c.out
	case len(out.ExecErr) == 0:
		c.out = "harness not run"
		return c.out
	}
	for _, e := range out.ExecErr {
		if e != "" {
			c.out = "err " + e
			return c.out
		}
	}
	if n := len(out.BuildFail); n > 0 {
		for pkg, msg := range out.BuildFail[n-1] {
			if msg != "" {
				c.out = "build-fail " + pkg + " " + clip(msg, 300)
				return c.out
			}
		}
	}
	ans := map[string]string{}
	for _, l := range strings.Split(out.ProbeOut, "\n") {
		if sp := strings.SplitN(l, " ", 2); len(sp) == 2 && strings.HasPrefix(sp[0], "o#") && !strings.Contains(sp[0], "@") {
			ans[sp[0]] = sp[1]
		}
	}
	c.out = fmt.Sprintf("ID=%s Labels=%s Name=%s Missing=%s", ans["o#0"], ans["o#1"], ans["o#2"], ans["o#3"])
	if out.ProbeErr != "" && len(ans) == 0 {
		c.out = "build-fail probe " + clip(out.ProbeErr, 300)
	}
	return c.out
}
func (c *rdocEmbedCase) Oracle(out string) string {
	if strings.HasPrefix(out, "harness") {
		return ""
	}
	want := fmt.Sprintf("ID=some %s Labels=some %s Name=some %s Missing=none", hx("identifies the object"), hx("attached to the object"), hx("what the app is called"))
	if out != want {
		return fmt.Sprintf("App embeds %s.Meta of a package generated in the same run (%d run(s)): RuntimeDoc answered %s; the docs written in the sources give %s", c.Inner, c.Runs, out, want)
	}
	return ""
}
func (c *rdocEmbedCase) Shrinks() []Case { return nil }
func (c *rdocEmbedCase) Key() string {
	return fmt.Sprintf("%s embeds %s.Meta ptr=%v runs=%d", c.Outer, c.Inner, c.Ptr, c.Runs)
}
func (c *rdocEmbedCase) Classes() []string {
	return []string{fmt.Sprintf("runs:%d", c.Runs), fmt.Sprintf("by-pointer:%v", c.Ptr), fmt.Sprintf("outer-first:%v", c.Outer < c.Inner)}
}
func (c *rdocEmbedCase) Nontrivial() bool { return true }

func init() {
	register(&Property{ID: "C16", Streams: []*Stream{
		{
			Name: "embedded-across-packages", New: func() Case { return &rdocEmbedCase{} },
			Enum: func(tier string, yield func(Case)) {
				for _, names := range [][2]string{{"app", "meta"}, {"zapp", "meta"}} {
					for _, ptr := range []bool{false, true} {
						for _, runs := range []int{1, 2} {
							yield(&rdocEmbedCase{Outer: names[0], Inner: names[1], Ptr: ptr, Runs: runs})
						}
					}
				}
			},
			EnumExhaustive: false,
			Rule:           "a struct that embeds, by value or by pointer, the documented struct of another package generated in the same Execute (the embedding package before or after the embedded one in path order; one run over sources without any generated code, or two); go build of what the last run left and a probe asking the embedding type for the promoted fields, its own field and an unknown name; oracle: the docs written in the sources",
		},
		{
			Name: "packages", Quick: 480, Thorough: 3600, New: func() Case { return &rdocCase{} },
			Gen:      func(r *Rng, i int) Case { return genRdoc(r) },
			BatchRun: rdocBatch, ShrinkBudget: 25, MaxShrinks: 6,
			Rule: "packages of 2–6 types: exported and unexported structs (plain, generic; one plain struct in five is a defined type over a struct declared, with its documented fields, in a package of another module reached through a replace directive) with exported / unexported / inline-struct / empty-struct fields and fields embedded by value and by pointer, defined int / map / slice / func / string types, interfaces; comments that belong to no declaration on lines of code directly above undocumented fields and types (after a struct's opening brace, behind a one-line function); doc comments from a menu with the name as first word, as a prefix of a longer word, alone, quotes, backslashes, %d, %v, @name, backquotes, non-ASCII, blank lines and tag lines; the real generator (120 packages per Execute) run twice under the output base name zz_docs — the second run over packages that hold the first run's output, and it must write the same files —, go build of what the second run left, and one probe program per batch calling RuntimeDoc on every exported non-interface type for (), F0…F2, f0, T0, T1 and an unknown name, every question asked three times in one process (in order, in order again, in reverse order: an answer may not depend on what was asked before); compared with the model query by query; oracle: the doc text the harness wrote, and the same answer each time",
		},
	}})
}
