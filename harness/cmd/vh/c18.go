package main

// C18 — partialstruct output mirrors the origin struct minus omitted fields.

import (
	"fmt"
	"go/ast"
	"go/parser"
	"go/token"
	"sort"
	"slices"
	"strings"
)

// field types of the origin struct: a menu (text as written in the origin package `o<i>`, and the
// shape for the type-literal model; `{o}` stands for the origin package's own path / name)
type pfType struct {
	text  string // Go text inside the origin package
	shape TShape // for the model ({o} as path marker)
	kind  string
}

var pfTypes = []pfType{
	{"int", TShape{K: "basic", Name: "int"}, "scalar"},
	{"string", TShape{K: "basic", Name: "string"}, "scalar"},
	{"float64", TShape{K: "basic", Name: "float64"}, "scalar"},
	{"[]string", TShape{K: "slice", Args: []TShape{{K: "basic", Name: "string"}}}, "slice"},
	{"map[string]int", TShape{K: "map", Args: []TShape{{K: "basic", Name: "string"}, {K: "basic", Name: "int"}}}, "map"},
	{"*int", TShape{K: "ptr", Args: []TShape{{K: "basic", Name: "int"}}}, "pointer"},
	{"*Item", TShape{K: "ptr", Args: []TShape{{K: "named", Path: "{o}", Name: "Item"}}}, "pointer"},
	{"Item", TShape{K: "named", Path: "{o}", Name: "Item"}, "foreign-named"},
	{"Kind", TShape{K: "named", Path: "{o}", Name: "Kind"}, "foreign-named"},
	{"time.Duration", TShape{K: "named", Path: "time", Name: "Duration"}, "foreign-named"},
	{"time.Time", TShape{K: "named", Path: "time", Name: "Time"}, "foreign-named"},
	{"lib.Thing", TShape{K: "named", Path: genMod + "/lib", Name: "Thing"}, "foreign-named"},
	{"error", TShape{K: "error"}, "error"},
	{"any", TShape{K: "any"}, "interface"},
	{"Doer", TShape{K: "named", Path: "{o}", Name: "Doer"}, "interface"},
	{"[]Item", TShape{K: "slice", Args: []TShape{{K: "named", Path: "{o}", Name: "Item"}}}, "slice"},
	{"map[Kind]*Item", TShape{K: "map", Args: []TShape{{K: "named", Path: "{o}", Name: "Kind"}, {K: "ptr", Args: []TShape{{K: "named", Path: "{o}", Name: "Item"}}}}}, "map"},
	{"[2]int", TShape{K: "array", N: 2, Args: []TShape{{K: "basic", Name: "int"}}}, "array"},
	// exported aliases declared in the origin's package: of a type the partial's package could name itself, of an
	// unexported type and of a type of an internal package (neither of which it may name), and of a predeclared type
	{"ItemAlias", TShape{K: "named", Path: "{o}", Name: "ItemAlias"}, "alias"},
	{"Settings", TShape{K: "named", Path: "{o}", Name: "Settings"}, "alias"},
	{"Conf", TShape{K: "named", Path: "{o}", Name: "Conf"}, "alias"},
	{"Text", TShape{K: "named", Path: "{o}", Name: "Text"}, "alias"},
	// outside the main menu (pfMainTypes): an unnamed interface type with a method.  TypeLit prints every unnamed
	// interface as `any` (known finding F30); the shape is that pinned behaviour, so that the rest of the field list is
	// still compared with the model, and the oracle reports the field itself
	{"interface{ Do() }", TShape{K: "any"}, "unnamed-interface"},
	// instantiated generic types (of the library package and of the origin's own package), at the top of a field type
	// and below a pointer in a map: the type arguments are part of the type
	{"lib.Box[lib.ID]", TShape{K: "named", Path: genMod + "/lib", Name: "Box", Args: []TShape{{K: "named", Path: genMod + "/lib", Name: "ID"}}}, "generic-instance"},
	{"lib.Box[Item]", TShape{K: "named", Path: genMod + "/lib", Name: "Box", Args: []TShape{{K: "named", Path: "{o}", Name: "Item"}}}, "generic-instance"},
	{"Gen[Kind]", TShape{K: "named", Path: "{o}", Name: "Gen", Args: []TShape{{K: "named", Path: "{o}", Name: "Kind"}}}, "generic-instance"},
	{"map[string]*lib.Pair[lib.ID,int]", TShape{K: "map", Args: []TShape{{K: "basic", Name: "string"}, {K: "ptr", Args: []TShape{{K: "named", Path: genMod + "/lib", Name: "Pair", Args: []TShape{{K: "named", Path: genMod + "/lib", Name: "ID"}, {K: "basic", Name: "int"}}}}}}}, "map"},
}

// the main menu: everything but the unnamed interface (index pfUnnamedIface, which has a stream of its own)
const pfMainTypes = 26
const pfUnnamedIface = 22

func pfPickMain(r *Rng) int {
	n := r.Intn(pfMainTypes)
	if n >= pfUnnamedIface {
		n++
	}
	return n
}

const partialConf = "package conf\n\ntype Conf struct {\n\tN int\n\tL []string\n}\n"

var pfTags = []string{"", `json:"a"`, `json:"a.b"`, `doc:"v1.2" json:"x,omitempty"`, `validate:"@int[0,10]"`, `k:"x y z"`, `name:"é %v @x"`, `path:"a/b.c"`}

type PField struct {
	Name string `json:"name"`
	Ty   int    `json:"ty"`
	Tag  string `json:"tag,omitempty"`
	Doc  string `json:"doc,omitempty"`
}

type partialCase struct {
	Fields  []PField `json:"fields"`
	Omit    []string `json:"omit,omitempty"`
	Replace string   `json:"replace,omitempty"`       // "Field:NewType tag" for one field, or ""
	Kind    string   `json:"kind,omitempty"`          // "" ok · nonstruct · noorigin
	After   bool     `json:"after,omitempty"`         // rejection kinds: a well-formed declaration `type a origin.T` stands before the ill-formed one
	Repoint bool     `json:"repoint,omitempty"`       // the declaration names another struct of the origin package (Decoy) in a first run and is pointed at T before the second run, over the tree the first run left
	WithDC  bool     `json:"with_deepcopy,omitempty"` // the package also holds a struct enabled for the deepcopy generator (which runs first, in the same Execute) with fields of the foreign named types
	res     *partialRes
}

type partialRes struct {
	execErr string
	build   string
	gen     string
	probe   []string
	ran     bool
}

func (c *partialCase) originSrc(pkg string) string {
	var b strings.Builder
	fmt.Fprintf(&b, "package %s\n\nimport (\n\t\"time\"\n\n\t\"%s/lib\"\n\t\"%s/%s/internal/conf\"\n)\n\nvar _ time.Duration\nvar _ lib.Thing\n\ntype Item struct {\n\tA int\n\tB []string\n}\n\ntype Kind string\n\ntype Decoy struct{ Z int }\n\ntype Gen[T any] struct{ V T }\n\ntype Doer interface{ Do() }\n\ntype settings struct {\n\tN int\n\tM map[string]int\n}\n\ntype (\n\tItemAlias = Item\n\tSettings  = settings\n\tConf      = conf.Conf\n\tText      = string\n)\n\n", pkg, genMod, genMod, pkg)
	b.WriteString("type T struct {\n")
	for _, f := range c.Fields {
		if f.Doc != "" {
			b.WriteString("\t// " + f.Doc + "\n")
		}
		tag := ""
		if f.Tag != "" {
			tag = " `" + f.Tag + "`"
		}
		fmt.Fprintf(&b, "\t%s %s%s\n", f.Name, pfTypes[f.Ty].text, tag)
	}
	b.WriteString("}\n")
	return b.String()
}

func (c *partialCase) partialSrc(pkg, origin string) string {
	var b strings.Builder
	fmt.Fprintf(&b, "package %s\n\nimport %q\n\n", pkg, genMod+"/"+origin)
	b.WriteString("// +gengo:partialstruct\n")
	for _, o := range c.Omit {
		b.WriteString("// +gengo:partialstruct:omit=" + o + "\n")
	}
	if c.Replace != "" {
		b.WriteString("// +gengo:partialstruct:replace=" + c.Replace + "\n")
	}
	if c.After && c.Kind != "" {
		// `a` sorts before `x`: the generator has already handled a well-formed declaration when it meets the other
		fmt.Fprintf(&b, "type a %s.T\n\n// +gengo:partialstruct\n", origin)
	}
	switch c.Kind {
	case "nonstruct":
		fmt.Fprintf(&b, "type x %s.Kind\n", origin)
	case "noorigin":
		fmt.Fprintf(&b, "type x struct {\n\tA int\n\tB %s.Kind\n}\n", origin)
	default:
		fmt.Fprintf(&b, "type x %s.T\n", origin)
	}
	if c.Replace != "" {
		// the replacement type: a partial struct of the origin package's Item, generated in this package as `Item`
		fmt.Fprintf(&b, "\n// +gengo:partialstruct\ntype item %s.Item\n", origin)
	}
	if c.WithDC {
		fmt.Fprintf(&b, "\n// +gengo:deepcopy\ntype Holder struct {\n\tThing lib.Thing\n\tItem  %s.Item\n\tWhen  time.Time\n\tNames []string\n}\n", origin)
		return strings.Replace(b.String(), "import "+fmt.Sprintf("%q", genMod+"/"+origin), fmt.Sprintf("import (\n\t\"time\"\n\n\t%q\n\t%q\n)", genMod+"/lib", genMod+"/"+origin), 1)
	}
	return b.String()
}

// lib.Thing is a type as API packages declare them: it brings its own DeepCopy / DeepCopyInto (declared last).  The partial
// struct generator looks for DeepCopyAs / DeepCopyIntoAs, which it does not have.
const partialLib = "package lib\n\ntype Thing struct {\n\tN int\n\tS []int\n}\n\ntype ID string\n\ntype Box[T any] struct{ V T }\n\ntype Pair[K comparable, V any] struct {\n\tKey K\n\tVal V\n}\n\nfunc (in *Thing) Len() int { return len(in.S) }\n\nfunc (in *Thing) DeepCopy() *Thing {\n\tif in == nil {\n\t\treturn nil\n\t}\n\tout := new(Thing)\n\tin.DeepCopyInto(out)\n\treturn out\n}\n\nfunc (in *Thing) DeepCopyInto(out *Thing) {\n\t*out = *in\n\tif in.S != nil {\n\t\tout.S = append([]int(nil), in.S...)\n\t}\n}\n"

func (c *partialCase) replacedField() string {
	if c.Replace == "" {
		return ""
	}
	return strings.SplitN(c.Replace, ":", 2)[0]
}

func (c *partialCase) omitted(name string) bool {
	for _, o := range c.Omit {
		if o == name {
			return true
		}
	}
	return false
}

const partialProbeCommon = `package main

import (
	"errors"
	"fmt"
	"reflect"
	"time"
)

var theErr = errors.New("e")

type doer struct{}

func (doer) Do() {}

// sparse: containers are allocated but hold nothing (an empty slice or map is not a nil one)
var sparse bool

func fill(v reflect.Value, c *int) {
	*c++
	switch v.Kind() {
	case reflect.Struct:
		if v.Type() == reflect.TypeOf(time.Time{}) {
			v.Set(reflect.ValueOf(time.Unix(int64(*c), 0).UTC()))
			return
		}
		for i := 0; i < v.NumField(); i++ {
			if v.Field(i).CanSet() {
				fill(v.Field(i), c)
			}
		}
	case reflect.Slice:
		if sparse {
			v.Set(reflect.MakeSlice(v.Type(), 0, 0))
			return
		}
		s := reflect.MakeSlice(v.Type(), 2, 2)
		fill(s.Index(0), c)
		fill(s.Index(1), c)
		v.Set(s)
	case reflect.Array:
		for i := 0; i < v.Len(); i++ {
			fill(v.Index(i), c)
		}
	case reflect.Map:
		m := reflect.MakeMap(v.Type())
		if sparse {
			v.Set(m)
			return
		}
		k := reflect.New(v.Type().Key()).Elem()
		fill(k, c)
		e := reflect.New(v.Type().Elem()).Elem()
		fill(e, c)
		m.SetMapIndex(k, e)
		v.Set(m)
	case reflect.Ptr:
		p := reflect.New(v.Type().Elem())
		fill(p.Elem(), c)
		v.Set(p)
	case reflect.Int, reflect.Int64:
		v.SetInt(int64(*c))
	case reflect.Float64:
		v.SetFloat(float64(*c) + 0.5)
	case reflect.String:
		v.SetString(fmt.Sprint("s", *c))
	case reflect.Interface:
		switch {
		case reflect.TypeOf(theErr).Implements(v.Type()):
			v.Set(reflect.ValueOf(theErr))
		case reflect.TypeOf(doer{}).Implements(v.Type()):
			v.Set(reflect.ValueOf(doer{}))
		default:
			v.Set(reflect.ValueOf(*c))
		}
	}
}

// check: the generated struct against its origin, and DeepCopyAs
func check(tag string, partialPtr any, origin any, omitted map[string]bool, replaced string) {
	defer func() {
		if e := recover(); e != nil {
			fmt.Println(tag, "V PANIC", e)
		}
	}()
	pt := reflect.TypeOf(partialPtr).Elem()
	ot := reflect.TypeOf(origin)
	var want []reflect.StructField
	for i := 0; i < ot.NumField(); i++ {
		if !omitted[ot.Field(i).Name] {
			want = append(want, ot.Field(i))
		}
	}
	if pt.NumField() != len(want) {
		fmt.Println(tag, "V FIELD-COUNT", pt.NumField(), len(want))
		return
	}
	for i, w := range want {
		g := pt.Field(i)
		if g.Name != w.Name {
			fmt.Println(tag, "V FIELD-ORDER", g.Name, w.Name)
			return
		}
		if g.Name == replaced {
			continue
		}
		if g.Type != w.Type {
			fmt.Println(tag, "V FIELD-TYPE", g.Name, g.Type, w.Type)
		}
		if g.Tag != w.Tag {
			fmt.Printf("%s V FIELD-TAG %s %q %q\n", tag, g.Name, g.Tag, w.Tag)
		}
	}
	// DeepCopyAs: on a value whose containers are allocated but empty, then on a filled one
	for _, sp := range []bool{true, false} {
	sparse = sp
	src := reflect.New(pt)
	n := 0
	fill(src.Elem(), &n)
	sparse = false
	out := src.MethodByName("DeepCopyAs").Call(nil)[0]
	if out.IsNil() {
		fmt.Println(tag, "V COPY-NIL")
		return
	}
	for i := 0; i < ot.NumField(); i++ {
		name := ot.Field(i).Name
		of := out.Elem().Field(i)
		if omitted[name] {
			if !of.IsZero() {
				fmt.Println(tag, "V OMITTED-NOT-ZERO", name)
			}
			continue
		}
		if name == replaced || name == "_" {
			continue // a blank field cannot be read through reflection (nor set by anyone)
		}
		if !reflect.DeepEqual(of.Interface(), src.Elem().FieldByName(name).Interface()) {
			fmt.Println(tag, "V RETAINED-NOT-EQUAL", name, map[bool]string{true: "(containers allocated but empty)", false: ""}[sp])
		}
	}
	}
	if r := reflect.Zero(reflect.PointerTo(pt)).MethodByName("DeepCopyAs").Call(nil)[0]; !r.IsNil() {
		fmt.Println(tag, "V NIL-NOT-NIL")
	}
	fmt.Println(tag, "OK")
}

var probes []func()

func main() {
	for _, p := range probes {
		p()
	}
}
`

func (c *partialCase) probe(pkg, origin string) string {
	var om []string
	for _, o := range c.Omit {
		om = append(om, fmt.Sprintf("%q: true", o))
	}
	return fmt.Sprintf("package main\n\nimport (\n\t%s %q\n\t%s %q\n)\n\nfunc init() {\n\tprobes = append(probes, func() {\n\t\tcheck(%q, new(%s.X), %s.T{}, map[string]bool{%s}, %q)\n\t})\n}\n",
		pkg, genMod+"/"+pkg, origin, genMod+"/"+origin, pkg, pkg, origin, strings.Join(om, ", "), c.replacedField())
}

func partialJob(cases []*partialCase) *genJob {
	// both shipped generators in one Execute, deepcopy first: what one of them learnt about a type must not leak into the other
	// two runs over one tree; for the cases with Repoint the declaration names another origin struct (Decoy) in the
	// first run and is pointed at T before the second: what the second run writes is what is judged
	job := &genJob{Files: map[string]string{"lib/lib.go": partialLib}, Gens: []string{"deepcopy", "partialstruct"}, Runs: 2, ProbeCommon: partialProbeCommon, Probes: map[string]string{}}
	job.Edits = []map[string]string{{}}
	for i, c := range cases {
		pkg, origin := fmt.Sprintf("p%d", i), fmt.Sprintf("o%d", i)
		job.Files[origin+"/o.go"] = c.originSrc(origin)
		job.Files[origin+"/internal/conf/conf.go"] = partialConf
		job.Files[pkg+"/p.go"] = c.partialSrc(pkg, origin)
		if c.Repoint && c.Kind == "" {
			job.Edits[0][pkg+"/p.go"] = job.Files[pkg+"/p.go"]
			job.Files[pkg+"/p.go"] = strings.Replace(job.Files[pkg+"/p.go"], fmt.Sprintf("type x %s.T\n", origin), fmt.Sprintf("type x %s.Decoy\n", origin), 1)
		}
		job.Entry = append(job.Entry, "./"+pkg)
		if c.Kind == "" {
			job.Probes[pkg] = c.probe(pkg, origin)
		}
	}
	return job
}

func (c *partialCase) fill(out *genRunOut, i int) {
	pkg := fmt.Sprintf("p%d", i)
	r := &partialRes{}
	if n := len(out.ExecErr); n > 0 {
		r.execErr = out.ExecErr[n-1]
		if r.execErr == "" && !c.Repoint {
			r.execErr = out.ExecErr[0]
		}
	} else {
		r.execErr = "not run " + out.Harness
	}
	if n := len(out.BuildFail); n > 0 {
		r.build = out.BuildFail[n-1][pkg]
	}
	if n := len(out.Generated); n > 0 {
		r.gen = out.Generated[n-1][pkg+"/"+pipeBase+".partialstruct.go"]
	}
	for _, l := range strings.Split(out.ProbeOut, "\n") {
		f := strings.SplitN(l, " ", 2)
		if len(f) == 2 && f[0] == pkg {
			r.ran = true
			if strings.HasPrefix(f[1], "V ") {
				r.probe = append(r.probe, strings.TrimPrefix(f[1], "V "))
			}
		}
	}
	c.res = r
}

// observe: the generated struct's field list as name|type|tag
func (c *partialCase) observe() string {
	if c.res.gen == "" {
		return "no-file"
	}
	fset := token.NewFileSet()
	f, err := parser.ParseFile(fset, "x.go", c.res.gen, 0)
	if err != nil {
		return "unparseable"
	}
	src := []byte(c.res.gen)
	str := func(n ast.Node) string {
		return string(src[fset.Position(n.Pos()).Offset:fset.Position(n.End()).Offset])
	}
	imports := map[string]string{}
	for _, is := range f.Imports {
		if is.Name != nil {
			imports[strings.Trim(is.Path.Value, `"`)] = is.Name.Name
		}
	}
	var fields []string
	ast.Inspect(f, func(n ast.Node) bool {
		ts, ok := n.(*ast.TypeSpec)
		if !ok || ts.Name.Name != "X" {
			return true
		}
		if st, ok := ts.Type.(*ast.StructType); ok {
			for _, fl := range st.Fields.List {
				tag := ""
				if fl.Tag != nil {
					tag = strings.Trim(fl.Tag.Value, "`")
				}
				for _, nm := range fl.Names {
					// (the file is formatted: gofmt puts a space after the commas of a type argument list, the type printer
					// does not — white space after a comma is not part of the type)
					fields = append(fields, hx(nm.Name)+"|"+hx(strings.ReplaceAll(str(fl.Type), ", ", ","))+"|"+hx(tag))
				}
			}
		}
		return false
	})
	return "fields " + strings.Join(fields, ";") + " imports " + showImports(imports)
}

func (c *partialCase) canon() string {
	r := c.res
	if r.execErr != "" {
		if strings.HasPrefix(r.execErr, "panic") {
			return "panic"
		}
		if strings.Contains(r.execErr, "must be struct type") {
			return "err:non-struct"
		}
		if strings.Contains(r.execErr, "need to define type like") {
			return "err:no-origin"
		}
		return "err " + r.execErr
	}
	if c.Kind != "" {
		return "generated-without-error"
	}
	return c.observe()
}

func (c *partialCase) Line() string {
	if c.Kind != "" || c.Replace != "" || c.res == nil || c.res.execErr != "" || c.res.gen == "" {
		return ""
	}
	// import names as the generated file binds them
	obs := c.observe()
	i := strings.Index(obs, " imports ")
	if i < 0 {
		return ""
	}
	imps := obs[i+9:]
	if imps == "" {
		imps = "-"
	}
	var toks []string
	for _, f := range c.Fields {
		var t []string
		sh := pfTypes[f.Ty].shape
		subst(&sh, c.originPath())
		sh.tokens(&t)
		toks = append(toks, hx(f.Name), hx(f.Tag), fmt.Sprint(len(t)))
		toks = append(toks, t...)
	}
	om := "-"
	if len(c.Omit) > 0 {
		om = hxs(c.Omit, ",")
	}
	return fmt.Sprintf("partial %s %s %s %s", hx(c.selfPath()), imps, om, strings.Join(toks, " "))
}

var curPartialIdx = map[*partialCase]int{}

func (c *partialCase) originPath() string { return fmt.Sprintf("%s/o%d", genMod, curPartialIdx[c]) }
func (c *partialCase) selfPath() string   { return fmt.Sprintf("%s/p%d", genMod, curPartialIdx[c]) }

func subst(t *TShape, origin string) {
	if t.Path == "{o}" {
		t.Path = origin
	}
	t.Args = append([]TShape{}, t.Args...)
	for i := range t.Args {
		subst(&t.Args[i], origin)
	}
}

func (c *partialCase) CanonModel(m string) string {
	// the model prints the field list; the import table is the generated file's own
	obs := c.observe()
	if i := strings.Index(obs, " imports "); i >= 0 && strings.HasPrefix(m, "fields ") {
		return m + obs[i:]
	}
	return m
}

func (c *partialCase) Run() string {
	if c.res == nil {
		curPartialIdx[c] = 0
		c.fill(runGenJob(partialJob([]*partialCase{c})), 0)
	}
	return c.canon()
}

func (c *partialCase) Oracle(out string) string {
	r := c.res
	switch c.Kind {
	case "nonstruct":
		if out != "err:non-struct" {
			return "a declaration that is not a struct was not reported as an error: " + out
		}
		return ""
	case "noorigin":
		if out != "err:no-origin" {
			return "a struct that is not defined from another named type was not reported as an error: " + out
		}
		return ""
	}
	switch {
	case out == "panic":
		return "the partialstruct generator panicked"
	case strings.HasPrefix(out, "err"):
		return "the partialstruct generator failed: " + out
	case out == "no-file" || out == "unparseable":
		return "no parseable output: " + out
	case c.unnamedIfaceClass():
		return "the generated code does not compile: " + clip(r.build, 300) + " — " + partialIfaceClass
	case r.build != "":
		return "the generated code does not compile: " + clip(r.build, 500)
	case len(r.probe) > 0:
		return "reflection over the generated struct and DeepCopyAs: " + strings.Join(r.probe, "; ")
	}
	return ""
}

func (c *partialCase) Shrinks() []Case {
	var out []Case
	if c.WithDC {
		n := *c
		n.WithDC, n.res = false, nil
		out = append(out, &n)
	}
	for i := range c.Fields {
		if len(c.Fields) > 1 {
			n := &partialCase{Fields: append(append([]PField{}, c.Fields[:i]...), c.Fields[i+1:]...), Replace: c.Replace, Kind: c.Kind, After: c.After, WithDC: c.WithDC, Repoint: c.Repoint}
			for _, o := range c.Omit {
				if o != c.Fields[i].Name {
					n.Omit = append(n.Omit, o)
				}
			}
			if c.replacedField() == c.Fields[i].Name {
				n.Replace = ""
			}
			out = append(out, n)
		}
	}
	for i := range c.Omit {
		out = append(out, &partialCase{Fields: c.Fields, Omit: append(append([]string{}, c.Omit[:i]...), c.Omit[i+1:]...), Replace: c.Replace, Kind: c.Kind, After: c.After, WithDC: c.WithDC, Repoint: c.Repoint})
	}
	if c.Replace != "" {
		out = append(out, &partialCase{Fields: c.Fields, Omit: c.Omit, Kind: c.Kind, After: c.After, WithDC: c.WithDC, Repoint: c.Repoint})
	}
	for i, f := range c.Fields {
		if f.Tag != "" {
			n := &partialCase{Fields: append([]PField{}, c.Fields...), Omit: c.Omit, Replace: c.Replace, Kind: c.Kind, After: c.After, WithDC: c.WithDC, Repoint: c.Repoint}
			n.Fields[i].Tag = ""
			out = append(out, n)
		}
		if f.Ty != 0 {
			n := &partialCase{Fields: append([]PField{}, c.Fields...), Omit: c.Omit, Replace: c.Replace, Kind: c.Kind, After: c.After, WithDC: c.WithDC, Repoint: c.Repoint}
			n.Fields[i].Ty = 0
			out = append(out, n)
		}
	}
	return out
}

func (c *partialCase) Key() string {
	if c.unnamedIfaceClass() {
		return "class: " + partialIfaceClass
	}
	if c.WithDC {
		n := *c
		n.WithDC = false
		return n.Key() + " with-deepcopy"
	}
	var fs []string
	for _, f := range c.Fields {
		fs = append(fs, fmt.Sprintf("%s %s `%s`", f.Name, pfTypes[f.Ty].text, f.Tag))
	}
	return fmt.Sprintf("%s{%s} omit=%v replace=%q after=%v", c.Kind, strings.Join(fs, "; "), c.Omit, c.Replace, c.After)
}

func (c *partialCase) Classes() []string {
	m := map[string]bool{}
	for _, f := range c.Fields {
		m["field:"+pfTypes[f.Ty].kind] = true
		if strings.Contains(f.Tag, ".") {
			m["tag-with-dot"] = true
		}
	}
	if len(c.Omit) > 0 {
		m["omit"] = true
	}
	if c.Replace != "" {
		m["replace"] = true
	}
	if c.Kind != "" {
		m["kind:"+c.Kind] = true
	}
	if c.res != nil && c.res.ran {
		m["executed"] = true
	}
	var cl []string
	for k := range m {
		cl = append(cl, k)
	}
	sort.Strings(cl)
	return cl
}
func (c *partialCase) Nontrivial() bool { return len(c.Fields) > 1 }

func genPartial(r *Rng) *partialCase {
	c := &partialCase{}
	n := 1 + r.Intn(6)
	for i := 0; i < n; i++ {
		f := PField{Name: fmt.Sprintf("F%d", i), Ty: pfPickMain(r), Tag: Pick(r, pfTags)}
		if r.Chance(30) {
			f.Doc = Pick(r, []string{"F documented", "with \"quotes\" and %v", fmt.Sprintf("F%d is a field", i)})
		}
		c.Fields = append(c.Fields, f)
	}
	if r.Chance(12) {
		// a blank field (padding, a marker): it is a field of the origin like any other, but nothing can refer to it
		k := r.Intn(len(c.Fields))
		c.Fields[k].Name, c.Fields[k].Ty = "_", r.Intn(2)
	}
	if len(c.Fields) >= 2 && r.Chance(15) {
		// two fields whose names differ in letter case only (ID / Id, as json-derived structs have them)
		c.Fields[0].Name, c.Fields[1].Name = "ID", "Id"
	}
	for _, f := range c.Fields {
		if r.Chance(25) && f.Name != "_" {
			c.Omit = append(c.Omit, f.Name)
		}
	}
	if r.Chance(12) {
		// an omit name in another spelling than the field's (the json spelling, say): it names no field of the origin
		if k := r.Intn(len(c.Fields)); c.Fields[k].Name != "_" && !c.omitted(c.Fields[k].Name) && !c.omitted(strings.ToLower(c.Fields[k].Name)) {
			c.Omit = append(c.Omit, strings.ToLower(c.Fields[k].Name))
		}
	}
	c.WithDC = r.Chance(30)
	c.Repoint = r.Chance(25)
	if r.Chance(25) {
		// replace a field of the origin's named struct type by the partial struct generated for that type
		overlap := r.Chance(35) // the replace tag may name a field the omit tag excludes: omitted stays omitted
		for _, f := range c.Fields {
			if pfTypes[f.Ty].text == "Item" && (overlap || !c.omitted(f.Name)) {
				c.Replace = f.Name + ":Item" + Pick(r, []string{"", ` json:"replaced"`, ` json:"re.placed" x:"1"`})
				if overlap && !c.omitted(f.Name) {
					c.Omit = append(c.Omit, f.Name)
				}
				break
			}
		}
	}
	return c
}

// genPartialIface: an origin with a field of an unnamed interface type that has a method, among fields of the main menu
func genPartialIface(r *Rng) *partialCase {
	c := &partialCase{}
	n := 1 + r.Intn(4)
	k := r.Intn(n)
	for i := 0; i < n; i++ {
		f := PField{Name: fmt.Sprintf("F%d", i), Ty: pfPickMain(r), Tag: Pick(r, pfTags)}
		if i == k {
			f.Ty = pfUnnamedIface
		}
		c.Fields = append(c.Fields, f)
	}
	for _, f := range c.Fields {
		if r.Chance(20) {
			c.Omit = append(c.Omit, f.Name)
		}
	}
	return c
}

const partialIfaceClass = "a retained origin field of an unnamed interface type with methods is declared `any` in the generated struct (TypeLit prints every unnamed interface as any), so the types differ and the copy back does not compile"

// unnamedIfaceClass: the case has retained fields of the unnamed interface type, the generated struct declares every one
// of them `any`, and the package does not compile
func (c *partialCase) unnamedIfaceClass() bool {
	if c.res == nil || c.res.build == "" || c.Kind != "" {
		return false
	}
	obs := c.observe()
	if !strings.HasPrefix(obs, "fields ") {
		return false
	}
	got := map[string]string{}
	for _, f := range strings.Split(strings.TrimPrefix(strings.SplitN(obs, " imports ", 2)[0], "fields "), ";") {
		if p := strings.Split(f, "|"); len(p) == 3 {
			got[unhx(p[0])] = unhx(p[1])
		}
	}
	n := 0
	for _, f := range c.Fields {
		if f.Ty == pfUnnamedIface && !c.omitted(f.Name) && f.Name != c.replacedField() {
			if got[f.Name] != "any" {
				return false
			}
			n++
		}
	}
	return n > 0
}

func partialBatch(cases []Case) []string {
	res := make([]string, len(cases))
	// error kinds make Execute fail: each on its own; the others 100 per Execute
	var okIdx, errIdx []int
	for i, c := range cases {
		if c.(*partialCase).Kind == "" {
			okIdx = append(okIdx, i)
		} else {
			errIdx = append(errIdx, i)
		}
	}
	const chunk = 100
	var jobs []*genJob
	var groups [][]int
	for s := 0; s < len(okIdx); s += chunk {
		g := okIdx[s:min(s+chunk, len(okIdx))]
		var cs []*partialCase
		for k, i := range g {
			pc := cases[i].(*partialCase)
			curPartialIdx[pc] = k
			cs = append(cs, pc)
		}
		jobs = append(jobs, partialJob(cs))
		groups = append(groups, g)
	}
	for _, i := range errIdx {
		pc := cases[i].(*partialCase)
		curPartialIdx[pc] = 0
		jobs = append(jobs, partialJob([]*partialCase{pc}))
		groups = append(groups, []int{i})
	}
	outs := runGenJobs(jobs, 8)
	for k, g := range groups {
		out := outs[k]
		if len(g) > 1 && (out.Harness != "" || (len(out.ExecErr) > 0 && out.ExecErr[0] != "")) {
			var single []*genJob
			for _, i := range g {
				pc := cases[i].(*partialCase)
				curPartialIdx[pc] = 0
				single = append(single, partialJob([]*partialCase{pc}))
			}
			so := runGenJobs(single, 12)
			for j, i := range g {
				cases[i].(*partialCase).fill(so[j], 0)
			}
		} else {
			for j, i := range g {
				cases[i].(*partialCase).fill(out, j)
			}
		}
		for _, i := range g {
			res[i] = cases[i].(*partialCase).canon()
		}
	}
	return res
}

// ---- an origin of the declaration's own package, with unexported fields

// localOriginCase: `type accountView account` where account is a struct of the same package with exported and
// unexported fields (strings, a pointer, slices); the generated AccountView mirrors it minus the omitted fields, and
// DeepCopyAs gives the retained fields — unexported ones included — the values of the source.
type localOriginCase struct {
	Omit []string `json:"omit,omitempty"`
	Runs int      `json:"runs"`
	out  string
	have bool
}

const localOriginProbe = `package main

import (
	"fmt"
	"reflect"
	"unsafe"

	app "` + genMod + `/app"
)

func open(f reflect.Value) reflect.Value {
	return reflect.NewAt(f.Type(), unsafe.Pointer(f.UnsafeAddr())).Elem()
}

func main() {
	defer func() {
		if e := recover(); e != nil {
			fmt.Println("V PANIC", e)
		}
	}()
	src := reflect.ValueOf(new(app.AccountView))
	var names []string
	for i := 0; i < src.Elem().NumField(); i++ {
		f := open(src.Elem().Field(i))
		names = append(names, src.Elem().Type().Field(i).Name)
		switch f.Kind() {
		case reflect.String:
			f.SetString(fmt.Sprint("s", i))
		case reflect.Ptr:
			n := 7 + i
			f.Set(reflect.ValueOf(&n))
		case reflect.Slice:
			f.Set(reflect.ValueOf([]string{fmt.Sprint("x", i)}))
		}
	}
	fmt.Println("FIELDS", names)
	out := src.MethodByName("DeepCopyAs").Call(nil)[0]
	if out.IsNil() {
		fmt.Println("V COPY-NIL")
		return
	}
	ot := out.Elem().Type()
	for i := 0; i < ot.NumField(); i++ {
		name := ot.Field(i).Name
		of := open(out.Elem().Field(i))
		sf := src.Elem().FieldByName(name)
		if !sf.IsValid() {
			if !of.IsZero() {
				fmt.Println("V OMITTED-NOT-ZERO", name)
			}
			continue
		}
		if !reflect.DeepEqual(of.Interface(), open(sf).Interface()) {
			fmt.Println("V RETAINED-NOT-EQUAL", name)
		}
		if of.Kind() == reflect.Slice && of.Len() > 0 && of.Index(0).Addr().Pointer() == open(sf).Index(0).Addr().Pointer() {
			fmt.Println("V SHARED", name)
		}
	}
	if r := reflect.Zero(src.Type()).MethodByName("DeepCopyAs").Call(nil)[0]; !r.IsNil() {
		fmt.Println("V NIL-NOT-NIL")
	}
	fmt.Println("OK")
}
`

func (c *localOriginCase) Line() string { return "" }
func (c *localOriginCase) Run() string {
	if c.have {
		return c.out
	}
	c.have = true
	var b strings.Builder
	b.WriteString("package app\n\ntype account struct {\n\tID     string `json:\"id\"`\n\tName   string `json:\"name\"`\n\tsecret string `json:\"-\"`\n\tquota  *int\n\tTags   []string `json:\"tags,omitempty\"`\n\tnotes  []string\n}\n\n// +gengo:partialstruct\n")
	for _, o := range c.Omit {
		b.WriteString("// +gengo:partialstruct:omit=" + o + "\n")
	}
	b.WriteString("type accountView account\n")
	job := &genJob{Files: map[string]string{"app/account.go": b.String()}, Entry: []string{"./app"}, Gens: []string{"partialstruct"}, Runs: c.Runs,
		ProbeCommon: "package main\n", Probes: map[string]string{"app": localOriginProbe}}
	out := runGenJobs([]*genJob{job}, 1)[0]
	switch {
	case out.Harness != "":
		c.out = "harness " + out.Harness
		return c.out
	case len(out.ExecErr) == 0:
		c.out = "harness not run"
		return c.out
	}
	for _, e := range out.ExecErr {
		if e != "" {
			c.out = "err " + e
			return c.out
		}
	}
	if n := len(out.BuildFail); n > 0 {
		for pkg, msg := range out.BuildFail[n-1] {
			if msg != "" {
				c.out = "build-fail " + pkg + " " + clip(msg, 300)
				return c.out
			}
		}
	}
	var ls []string
	for _, l := range strings.Split(strings.TrimSpace(out.ProbeOut), "\n") {
		if l != "" {
			ls = append(ls, l)
		}
	}
	c.out = strings.Join(ls, "; ")
	if len(ls) == 0 {
		c.out = "build-fail probe " + clip(out.ProbeErr, 300)
	}
	return c.out
}
func (c *localOriginCase) Oracle(out string) string {
	if strings.HasPrefix(out, "harness") {
		return ""
	}
	var want []string
	for _, f := range []string{"ID", "Name", "secret", "quota", "Tags", "notes"} {
		if !slices.Contains(c.Omit, f) {
			want = append(want, f)
		}
	}
	if w := fmt.Sprintf("FIELDS %v; OK", want); out != w {
		return fmt.Sprintf("`type accountView account` over a struct of the same package (omit %v, %d run(s)): %s; the origin minus the omitted fields, copied field by field, gives %s", c.Omit, c.Runs, out, w)
	}
	return ""
}
func (c *localOriginCase) Shrinks() []Case   { return nil }
func (c *localOriginCase) Key() string       { return fmt.Sprintf("omit=%v runs=%d", c.Omit, c.Runs) }
func (c *localOriginCase) Classes() []string { return []string{fmt.Sprintf("omitted:%d", len(c.Omit))} }
func (c *localOriginCase) Nontrivial() bool  { return true }

func init() {
	register(&Property{ID: "C18", Streams: []*Stream{
		{
			Name: "local-origin", New: func() Case { return &localOriginCase{} },
			Enum: func(tier string, yield func(Case)) {
				for _, om := range [][]string{nil, {"Tags"}, {"secret"}, {"Name", "notes"}} {
					yield(&localOriginCase{Omit: om, Runs: 1})
				}
				yield(&localOriginCase{Omit: []string{"quota"}, Runs: 2})
			},
			EnumExhaustive: false,
			Rule:           "`type accountView account` over a struct of the declaration's own package with exported and unexported fields (strings, a pointer, slices), with several omit sets, one run or two; go build, and a probe that fills every field of the generated struct (unexported ones through their addresses), calls DeepCopyAs and compares field by field with the result, also on nil; oracle: the fields are the origin's minus the omitted ones, in order, every retained field equal to the source's and no slice shared",
		},
		{
			Name: "origins", Quick: 500, Thorough: 4000, New: func() Case { return &partialCase{} },
			Gen:      func(r *Rng, i int) Case { return genPartial(r) },
			BatchRun: partialBatch, ShrinkBudget: 25, MaxShrinks: 6,
			Rule: "origin structs in a second package (two runs over one tree; in a quarter of the cases the declaration names another struct of the origin package in the first run and is pointed at the origin before the second, whose output is what is judged) with 1–6 fields over a menu of 26 types (instantiated generic types of the library package and of the origin's own package among them, at the top of a field type and below a pointer in a map; scalars, slices, maps, arrays, pointers, named types of the origin's package, of another module package and of time, error, any, a defined interface, exported aliases of the origin's package for a struct of that package, for an unexported struct, for a struct of an internal package and for string) and 8 tags (dots, commas, brackets, non-ASCII, %v, @x), every combination of omit tags and sometimes a replace tag; the deepcopy generator runs first in the same Execute, and in a third of the packages it has a struct to generate for whose fields have the same foreign named types (lib.Thing brings its own DeepCopy methods) (a third of them naming a field that is also omitted); `type x origin.T` generated with the real generator (100 per Execute), compiled, and a probe reflecting over the generated struct vs the origin (names, order, types, tags) and running DeepCopyAs on a value whose containers are allocated but empty, on a filled value and on nil; compared with the model: field list as name / printed type / tag",
		},
		{
			Name: "unnamed-interfaces", Quick: 40, Thorough: 300, New: func() Case { return &partialCase{} },
			Gen:      func(r *Rng, i int) Case { return genPartialIface(r) },
			BatchRun: partialBatch, ShrinkBudget: 10, MaxShrinks: 3,
			Rule: "origin structs with 1–4 fields one of which has the unnamed interface type `interface{ Do() }` (sometimes omitted), the others from the main menu: generated with the real generator and compiled; compared with the model on the pinned behaviour of the type printer (every unnamed interface is printed `any`) so that names, order, the other types and the tags are still compared; oracle: the generated code compiles — where the field is retained it does not (known finding F30), where it is omitted everything must hold as in the origins stream",
		},
		{
			Name: "rejections", New: func() Case { return &partialCase{} },
			Enum: func(tier string, yield func(Case)) {
				for _, k := range []string{"nonstruct", "noorigin"} {
					for _, om := range [][]string{nil, {"A"}} {
						yield(&partialCase{Fields: []PField{{Name: "A", Ty: 0}, {Name: "B", Ty: 8}}, Omit: om, Kind: k})
						yield(&partialCase{Fields: []PField{{Name: "A", Ty: 0}, {Name: "B", Ty: 8}}, Omit: om, Kind: k, After: true})
					}
				}
			},
			EnumExhaustive: false, BatchRun: partialBatch, ShrinkBudget: 5, MaxShrinks: 2,
			Rule: "declarations that are not a struct (`type x origin.Kind`) or a struct not defined from another named type (`type x struct{…}`), with and without an omit tag, alone in the package and after a well-formed declaration of the same package: Execute must return the generator's error",
		},
	}})
}
