package main

// C14 — ResultsOf terminates and reports only possible results, one set per result.

import (
	"bufio"
	"encoding/json"
	"fmt"
	"go/constant"
	"go/types"
	"io"
	"os"
	"os/exec"
	"runtime/debug"
	"sort"
	"strings"
	"time"

	gengotypes "github.com/octohelm/gengo/pkg/types"
	"golang.org/x/tools/go/packages"
)

// ---------------------------------------------------------------- supervised evaluation

type rQuery struct {
	Pkg  int    `json:"pkg"`           // index into Sources
	Func string `json:"func"`          // function name, or Type.Method
	Sub  string `json:"sub,omitempty"` // a package below that one (c<i>/<sub>) instead
}

type rJob struct {
	Sources []map[string]string `json:"sources,omitempty"` // synthetic packages (file → content)
	Repo    bool                `json:"repo,omitempty"`    // instead: the closure of /repo, every function and method
	Shard   int                 `json:"shard,omitempty"`
	Shards  int                 `json:"shards,omitempty"`
	Queries []rQuery            `json:"queries,omitempty"`
	Skip    int                 `json:"skip,omitempty"` // resume after a crash: skip this many queries
}

type rAnswer struct {
	I      int    `json:"i"`
	Name   string `json:"name,omitempty"`
	Start  bool   `json:"start,omitempty"`
	Out    string `json:"out,omitempty"`    // FuncResults.String() or "panic"
	N      int    `json:"n"`                // declared number of results
	Lens   []int  `json:"lens,omitempty"`   // alternatives per result
	Oracle string `json:"oracle,omitempty"` // verdict of the in-child checks (shape, assignability, second call)
	Total  int    `json:"total,omitempty"`
}

func lookupFunc(p gengotypes.Package, name string) *types.Func {
	if i := strings.Index(name, "."); i >= 0 {
		tn, _ := p.Pkg().Scope().Lookup(name[:i]).(*types.TypeName)
		if tn == nil {
			return nil
		}
		named, _ := tn.Type().(*types.Named)
		if named == nil {
			return nil
		}
		for j := 0; j < named.NumMethods(); j++ {
			if named.Method(j).Name() == name[i+1:] {
				return named.Method(j)
			}
		}
		return nil
	}
	f, _ := p.Pkg().Scope().Lookup(name).(*types.Func)
	return f
}

// mentionsTypeParam: the type is written with a type parameter somewhere (a method of a generic type has its own copy
// of the receiver's parameters, so such types are not compared)
func mentionsTypeParam(t types.Type, depth int) bool {
	if depth > 8 {
		return false
	}
	switch x := t.(type) {
	case *types.TypeParam:
		return true
	case *types.Named:
		for i := 0; i < x.TypeArgs().Len(); i++ {
			if mentionsTypeParam(x.TypeArgs().At(i), depth+1) {
				return true
			}
		}
		return x.TypeParams().Len() > 0 && x.TypeArgs().Len() == 0
	case *types.Alias:
		return mentionsTypeParam(types.Unalias(x), depth+1)
	case *types.Pointer:
		return mentionsTypeParam(x.Elem(), depth+1)
	case *types.Slice:
		return mentionsTypeParam(x.Elem(), depth+1)
	case *types.Array:
		return mentionsTypeParam(x.Elem(), depth+1)
	case *types.Chan:
		return mentionsTypeParam(x.Elem(), depth+1)
	case *types.Map:
		return mentionsTypeParam(x.Key(), depth+1) || mentionsTypeParam(x.Elem(), depth+1)
	case *types.Signature:
		for _, tu := range []*types.Tuple{x.Params(), x.Results()} {
			for i := 0; i < tu.Len(); i++ {
				if mentionsTypeParam(tu.At(i).Type(), depth+1) {
					return true
				}
			}
		}
	case *types.Struct:
		for i := 0; i < x.NumFields(); i++ {
			if mentionsTypeParam(x.Field(i).Type(), depth+1) {
				return true
			}
		}
	case *types.Interface:
		for i := 0; i < x.NumMethods(); i++ {
			if mentionsTypeParam(x.Method(i).Type(), depth+1) {
				return true
			}
		}
		for i := 0; i < x.NumEmbeddeds(); i++ {
			if mentionsTypeParam(x.EmbeddedType(i), depth+1) {
				return true
			}
		}
	case *types.Union:
		for i := 0; i < x.Len(); i++ {
			if mentionsTypeParam(x.Term(i).Type(), depth+1) {
				return true
			}
		}
	}
	return false
}

// constMisfit: why a constant cannot be the value of a result declared with type t ("" if it can).  Go only lets a
// function return a constant expression that is representable in the result type, so a reported constant of another
// kind is not a possible result.  Interfaces hold any constant (in its default type); type parameters are not judged.
func constMisfit(v constant.Value, t types.Type) string {
	if _, ok := t.(*types.TypeParam); ok || mentionsTypeParam(t, 0) {
		return ""
	}
	switch u := t.Underlying().(type) {
	case *types.Interface:
		return ""
	case *types.Basic:
		info := u.Info()
		switch v.Kind() {
		case constant.Bool:
			if info&types.IsBoolean != 0 {
				return ""
			}
		case constant.String:
			if info&types.IsString != 0 {
				return ""
			}
		case constant.Int:
			if info&types.IsNumeric != 0 {
				return ""
			}
		case constant.Float:
			if info&(types.IsFloat|types.IsComplex) != 0 {
				return ""
			}
			if info&types.IsInteger != 0 && constant.ToInt(v).Kind() == constant.Int {
				return ""
			}
		case constant.Complex:
			if info&types.IsComplex != 0 {
				return ""
			}
			if info&types.IsNumeric != 0 && constant.Sign(constant.Imag(v)) == 0 {
				return ""
			}
		default:
			return ""
		}
		return "a " + strings.ToLower(v.Kind().String()) + " constant"
	}
	return "constants are values of basic types"
}

// inGenericScope: the function has type parameters of its own or is a method of a generic type
func inGenericScope(f *types.Func) bool {
	sig := f.Type().(*types.Signature)
	if sig.TypeParams().Len() > 0 || sig.RecvTypeParams().Len() > 0 {
		return true
	}
	return false
}

// judgeResults: the clauses of C14 that need no model — shape, assignability, stability.
func judgeResults(p gengotypes.Package, f *types.Func) (out string, n int, lens []int, verdict string) {
	defer func() {
		if e := recover(); e != nil {
			out, verdict = "panic", fmt.Sprintf("ResultsOf panicked: %v", e)
		}
	}()
	res, n := p.ResultsOf(f)
	out = res.String()
	sig := f.Type().(*types.Signature)
	if n != sig.Results().Len() {
		return out, n, nil, fmt.Sprintf("ResultsOf reports %d results, the function declares %d", n, sig.Results().Len())
	}
	if n > 0 && len(res) != n {
		return out, n, nil, fmt.Sprintf("%d lists of alternatives for %d declared results", len(res), n)
	}
	for i, alts := range res {
		lens = append(lens, len(alts))
		if len(alts) == 0 {
			return out, n, lens, fmt.Sprintf("result %d has no alternative", i)
		}
		want := sig.Results().At(i).Type()
		for _, a := range alts {
			if a.Value != nil {
				// a constant is a possible result only if a value of the declared type can hold it
				if why := constMisfit(a.Value, want); why != "" {
					return out, n, lens, fmt.Sprintf("result %d: the constant %s is not a possible value of the declared %s (%s)", i, a.Value.ExactString(), want, why)
				}
				continue
			}
			if a.Type == nil {
				return out, n, lens, fmt.Sprintf("result %d has an alternative that is neither a constant nor a type", i)
			}
			if tp, ok := want.(*types.TypeParam); ok {
				_ = tp
				continue
			}
			if !types.AssignableTo(a.Type, want) && !types.Identical(a.Type, want) {
				// a type parameter instantiated differently or an untyped constant type is not judged
				if b, ok := a.Type.(*types.Basic); ok && b.Info()&types.IsUntyped != 0 {
					continue
				}
				if mentionsTypeParam(want, 0) {
					continue
				}
				if mentionsTypeParam(a.Type, 0) && inGenericScope(f) {
					continue // inside a generic function or a method of a generic type, type parameters are types like any other
				}
				return out, n, lens, fmt.Sprintf("result %d: alternative of type %s is not assignable to the declared %s", i, a.Type, want)
			}
		}
	}
	res2, _ := p.ResultsOf(f)
	if res2.String() != out {
		return out, n, lens, "a second call returned " + res2.String() + ", the first " + out
	}
	return out, n, lens, ""
}

func init() {
	childHandlers["c14"] = func(args []string) int {
		outF := os.NewFile(3, "out")
		devnull, _ := os.OpenFile(os.DevNull, os.O_WRONLY, 0)
		os.Stdout = devnull
		debug.SetMaxStack(48 << 20) // an unbounded recursion dies quickly instead of eating a gigabyte
		var job rJob
		if err := json.NewDecoder(os.Stdin).Decode(&job); err != nil {
			return 2
		}
		w := bufio.NewWriter(outF)
		emit := func(a rAnswer) {
			b, _ := json.Marshal(a)
			w.Write(b)
			w.WriteByte('\n')
			w.Flush()
		}
		if job.Repo {
			fixLoadEnv()
			repo := os.Getenv("VERIF_REPO")
			if repo == "" {
				repo = "/repo"
			}
			cfg := &packages.Config{Mode: packages.NeedName | packages.NeedImports | packages.NeedDeps, Dir: repo}
			roots, err := packages.Load(cfg, "./pkg/...", "./devpkg/...")
			if err != nil {
				return 2
			}
			var paths []string
			packages.Visit(roots, func(p *packages.Package) bool { paths = append(paths, p.PkgPath); return true }, nil)
			sort.Strings(paths)
			u, err := gengotypes.Load([]string{"./pkg/...", "./devpkg/..."}, func(cfg *packages.Config) { cfg.Dir = repo })
			if err != nil {
				return 2
			}
			i := 0
			for _, path := range paths {
				p := u.Package(path)
				if p == nil || len(p.Files()) == 0 {
					continue
				}
				var fs []*types.Func
				sc := p.Pkg().Scope()
				for _, n := range sc.Names() {
					switch o := sc.Lookup(n).(type) {
					case *types.Func:
						fs = append(fs, o)
					case *types.TypeName:
						if named, ok := o.Type().(*types.Named); ok && !o.IsAlias() {
							for j := 0; j < named.NumMethods(); j++ {
								fs = append(fs, named.Method(j))
							}
						}
					}
				}
				for _, f := range fs {
					i++
					if job.Shards > 0 && i%job.Shards != job.Shard {
						continue
					}
					if i <= job.Skip {
						continue
					}
					name := path + "." + f.Name()
					if r := f.Type().(*types.Signature).Recv(); r != nil {
						name = path + "." + strings.TrimPrefix(types.TypeString(r.Type(), func(*types.Package) string { return "" }), "*") + "." + f.Name()
					}
					emit(rAnswer{I: i, Name: name, Start: true})
					out, n, lens, v := judgeResults(p, f)
					emit(rAnswer{I: i, Name: name, Out: out, N: n, Lens: lens, Oracle: v})
				}
			}
			emit(rAnswer{I: -1, Total: i})
			return 0
		}
		b := loadBatch(job.Sources)
		defer b.Close()
		for i, q := range job.Queries {
			if i < job.Skip {
				continue
			}
			emit(rAnswer{I: i, Start: true})
			p := b.Pkg(q.Pkg)
			if p != nil && q.Sub != "" {
				p = b.U.Package(fmt.Sprintf("%s/c%d/%s", batchMod, q.Pkg, q.Sub))
			}
			if p == nil || fmt.Sprintf("%v", p) == "<nil>" {
				emit(rAnswer{I: i, Out: "loaderr"})
				continue
			}
			f := lookupFunc(p, q.Func)
			if f == nil {
				emit(rAnswer{I: i, Out: "nofunc"})
				continue
			}
			out, n, lens, v := judgeResults(p, f)
			emit(rAnswer{I: i, Out: out, N: n, Lens: lens, Oracle: v})
		}
		return 0
	}
}

// superviseJob runs the job in children; a child that dies or stalls on a query yields "diverge" for it
// and a fresh child carries on behind it.
func superviseJob(job rJob, nq int, perQuery time.Duration) []rAnswer {
	answers := make([]rAnswer, nq)
	for i := range answers {
		answers[i] = rAnswer{I: i, Out: "not-run"}
	}
	skip := 0
	restarts := 0
	for skip < nq && restarts < 60 {
		job.Skip = skip
		self, _ := os.Executable()
		cmd := exec.Command(self, "child", "c14")
		cmd.Env = childEnv()
		in, _ := json.Marshal(job)
		cmd.Stdin = strings.NewReader(string(in))
		pr, pw, _ := os.Pipe()
		cmd.ExtraFiles = []*os.File{pw}
		cmd.Stderr = io.Discard
		if err := cmd.Start(); err != nil {
			break
		}
		pw.Close()
		lines := make(chan rAnswer)
		go func() {
			rd := bufio.NewReaderSize(pr, 1<<20)
			for {
				l, err := rd.ReadBytes('\n')
				if len(l) > 1 {
					var a rAnswer
					if json.Unmarshal(l, &a) == nil {
						lines <- a
					}
				}
				if err != nil {
					close(lines)
					return
				}
			}
		}()
		current := -1
		dead := false
		stalled := false
		timer := time.NewTimer(perQuery + 60*time.Second) // the first answer waits for the load
	loop:
		for {
			select {
			case a, ok := <-lines:
				if !ok {
					dead = true
					break loop
				}
				if !timer.Stop() {
					select {
					case <-timer.C:
					default:
					}
				}
				timer.Reset(perQuery)
				if a.Start {
					current = a.I
				} else if a.I >= 0 && a.I < nq {
					answers[a.I] = a
					current = -1
					skip = a.I + 1
				}
			case <-timer.C:
				dead = true
				stalled = true
				break loop
			}
		}
		cmd.Process.Kill()
		cmd.Wait()
		pr.Close()
		if current >= 0 {
			answers[current] = rAnswer{I: current, Out: "diverge", Oracle: "ResultsOf did not return (unbounded recursion or no progress within the time limit)"}
			if stalled && perQuery < 90*time.Second {
				// a stall (not a crash) may be a loaded machine: ask again, alone, with a generous limit
				alone := superviseJob(rJob{Sources: job.Sources, Queries: []rQuery{job.Queries[current]}}, 1, 90*time.Second)
				if alone[0].Out != "diverge" && alone[0].Out != "not-run" {
					alone[0].I = current
					answers[current] = alone[0]
				}
			}
			skip = current + 1
			restarts++
			continue
		}
		if dead && skip < nq {
			// died between queries (load failure): give up on this job
			restarts++
			if restarts > 3 {
				break
			}
			continue
		}
		break
	}
	return answers
}

// ---------------------------------------------------------------- programs of the core language

type RExpr struct {
	K string `json:"k"`           // lit | opaque | nil | call
	V string `json:"v,omitempty"` // literal text
	F int    `json:"f,omitempty"` // callee
}

type RFunc struct {
	Tys  string    `json:"tys"`  // one letter per result: i s e
	Rets [][]RExpr `json:"rets"` // return statements; a single call may forward several results
}

type progCase struct {
	Fs   []RFunc `json:"funcs"`
	Q    int     `json:"query"`
	out  string
	orc  string
	have bool
}

var goTy = map[byte]string{'i': "int", 's': "string", 'e': "error"}

// nestStmt prints a statement that is not the last one of its body somewhere below the function's top level: in an if, a
// for, a labelled for or switch, a bare block, a switch case, a range loop or a select — for the resolver (and the model)
// every return of the function counts wherever it stands; the kind of nesting is chosen by k
func nestStmt(k int, label, stmt, in string) string {
	switch k % 8 {
	case 1:
		return fmt.Sprintf("%sfor cond {\n%s\t%s\n%s}\n", in, in, stmt, in)
	case 2:
		return fmt.Sprintf("%s%s:\n%sfor {\n%s\tif cond {\n%s\t\t%s\n%s\t}\n%s\tbreak %s\n%s}\n", in, label, in, in, in, stmt, in, in, label, in)
	case 3:
		return fmt.Sprintf("%s%s:\n%sswitch {\n%scase cond:\n%s\t%s\n%sdefault:\n%s\tbreak %s\n%s}\n", in, label, in, in, in, stmt, in, in, label, in)
	case 4:
		return fmt.Sprintf("%s{\n%s\tif cond {\n%s\t\t%s\n%s\t}\n%s}\n", in, in, in, stmt, in, in)
	case 5:
		return fmt.Sprintf("%sswitch vi {\n%scase 1:\n%s\tif cond {\n%s\t\t%s\n%s\t}\n%s}\n", in, in, in, in, stmt, in, in)
	case 6:
		return fmt.Sprintf("%sfor range 2 {\n%s\tif cond {\n%s\t\t%s\n%s\t}\n%s}\n", in, in, in, stmt, in, in)
	case 7:
		return fmt.Sprintf("%sselect {\n%sdefault:\n%s\tif cond {\n%s\t\t%s\n%s\t}\n%s}\n", in, in, in, in, stmt, in, in)
	}
	return fmt.Sprintf("%sif cond {\n%s\t%s\n%s}\n", in, in, stmt, in)
}

func (c *progCase) source() string {
	var b strings.Builder
	b.WriteString("package p\n\nvar vi int\nvar vs string\nvar va any\nvar cond bool\n\n")
	for f, fn := range c.Fs {
		var ts []string
		for i := range fn.Tys {
			ts = append(ts, goTy[fn.Tys[i]])
		}
		fmt.Fprintf(&b, "func F%d() (%s) {\n", f, strings.Join(ts, ", "))
		for q, ret := range fn.Rets {
			var srcs []string
			for pos, e := range ret {
				switch e.K {
				case "lit":
					srcs = append(srcs, e.V)
				case "nil":
					srcs = append(srcs, "nil")
				case "call":
					srcs = append(srcs, fmt.Sprintf("F%d()", e.F))
				case "opaque":
					t := fn.Tys[min(pos, len(fn.Tys)-1)]
					srcs = append(srcs, map[byte]string{'i': "vi + 0", 's': `vs + ""`, 'e': "va.(error)"}[t])
				}
			}
			if q < len(fn.Rets)-1 {
				b.WriteString(nestStmt(f*7+q*3, fmt.Sprintf("L%d_%d", f, q), "return "+strings.Join(srcs, ", "), "\t"))
			} else {
				fmt.Fprintf(&b, "\treturn %s\n", strings.Join(srcs, ", "))
			}
		}
		b.WriteString("}\n\n")
	}
	return b.String()
}

func (c *progCase) Line() string {
	var enc []string
	for _, fn := range c.Fs {
		parts := []string{fn.Tys}
		for _, ret := range fn.Rets {
			var toks []string
			for pos, e := range ret {
				switch e.K {
				case "lit":
					toks = append(toks, "L"+hx(e.V))
				case "nil":
					toks = append(toks, "O"+hx("untyped nil"))
				case "call":
					toks = append(toks, fmt.Sprintf("C%d", e.F))
				case "opaque":
					toks = append(toks, "O"+hx(goTy[fn.Tys[min(pos, len(fn.Tys)-1)]]))
				}
			}
			parts = append(parts, strings.Join(toks, ","))
		}
		enc = append(enc, strings.Join(parts, "|"))
	}
	return fmt.Sprintf("resolve %d %s", c.Q, strings.Join(enc, ";"))
}

func (c *progCase) literalOnly() bool {
	for _, ret := range c.Fs[c.Q].Rets {
		for _, e := range ret {
			if e.K != "lit" {
				return false
			}
		}
	}
	return true
}

func (c *progCase) Run() string {
	if !c.have {
		ans := superviseJob(rJob{Sources: []map[string]string{{"p.go": c.source()}}, Queries: []rQuery{{Pkg: 0, Func: fmt.Sprintf("F%d", c.Q)}}}, 1, 8*time.Second)
		c.out, c.orc, c.have = ans[0].Out, ans[0].Oracle, true
	}
	return c.out
}

func (c *progCase) Oracle(out string) string {
	if c.orc != "" {
		return c.orc
	}
	if c.literalOnly() && len(c.Fs[c.Q].Rets) > 0 {
		// exactly the literal values per position in source order
		var cols []string
		for pos := range c.Fs[c.Q].Tys {
			var alts []string
			for _, ret := range c.Fs[c.Q].Rets {
				alts = append(alts, ret[pos].V)
			}
			cols = append(cols, strings.Join(alts, " | "))
		}
		if want := "(" + strings.Join(cols, ", ") + ")"; out != want {
			return "a function returning only literals reports " + out + "; its literals in source order are " + want
		}
	}
	return ""
}

func (c *progCase) Shrinks() []Case {
	var out []Case
	cp := func() []RFunc {
		b, _ := json.Marshal(c.Fs)
		var n []RFunc
		json.Unmarshal(b, &n)
		return n
	}
	// drop a return statement
	for f := range c.Fs {
		if len(c.Fs[f].Rets) > 1 {
			for q := range c.Fs[f].Rets {
				n := cp()
				n[f].Rets = append(n[f].Rets[:q:q], n[f].Rets[q+1:]...)
				out = append(out, &progCase{Fs: n, Q: c.Q})
			}
		}
	}
	// replace a call by an opaque expression
	for f := range c.Fs {
		for q := range c.Fs[f].Rets {
			for e := range c.Fs[f].Rets[q] {
				if c.Fs[f].Rets[q][e].K == "call" && len(c.Fs[f].Rets[q]) == len(c.Fs[f].Tys) {
					n := cp()
					n[f].Rets[q][e] = RExpr{K: "opaque"}
					out = append(out, &progCase{Fs: n, Q: c.Q})
				}
			}
		}
	}
	// drop the last function when nothing refers to it
	if last := len(c.Fs) - 1; last > 0 && c.Q != last {
		used := false
		for _, fn := range c.Fs {
			for _, ret := range fn.Rets {
				for _, e := range ret {
					if e.K == "call" && e.F == last {
						used = true
					}
				}
			}
		}
		if !used {
			out = append(out, &progCase{Fs: cp()[:last], Q: c.Q})
		}
	}
	return out
}

func (c *progCase) Key() string { return strings.TrimPrefix(c.Line(), "resolve ") }
func (c *progCase) Classes() []string {
	m := map[string]bool{}
	for f, fn := range c.Fs {
		for _, ret := range fn.Rets {
			if len(ret) < len(fn.Tys) {
				m["forwarding"] = true
			}
			for _, e := range ret {
				m["expr:"+e.K] = true
				if e.K == "call" && e.F == f {
					m["self-recursion"] = true
				}
				if e.K == "call" && e.F > f {
					m["forward-reference"] = true
				}
			}
		}
	}
	if c.literalOnly() {
		m["literal-only"] = true
	}
	var cl []string
	for k := range m {
		cl = append(cl, k)
	}
	sort.Strings(cl)
	return cl
}
func (c *progCase) Nontrivial() bool { return len(c.Classes()) > 1 }

func genProg(r *Rng) []RFunc {
	k := 2 + r.Intn(5)
	fs := make([]RFunc, k)
	for f := range fs {
		n := 1 + r.Intn(3)
		b := make([]byte, n)
		for i := range b {
			b[i] = "isee"[r.Intn(4)]
		}
		fs[f].Tys = string(b)
	}
	for f := range fs {
		cur := &fs[f]
		n := len(cur.Tys)
		nr := 1 + r.Intn(3)
		litOnly := r.Chance(20)
		for q := 0; q < nr; q++ {
			if !litOnly && n > 1 && r.Chance(30) {
				var cands []int
				for j := range fs {
					if fs[j].Tys == cur.Tys {
						cands = append(cands, j) // self and mutual recursion through any result index
					}
				}
				if len(cands) > 0 {
					cur.Rets = append(cur.Rets, []RExpr{{K: "call", F: Pick(r, cands)}})
					continue
				}
			}
			var ret []RExpr
			for i := 0; i < n; i++ {
				t := cur.Tys[i]
				choice := r.Intn(4)
				if litOnly {
					choice = 3
				}
				if choice == 0 {
					var cands []int
					for j := range fs {
						if fs[j].Tys == string(t) {
							cands = append(cands, j)
						}
					}
					if len(cands) > 0 {
						ret = append(ret, RExpr{K: "call", F: Pick(r, cands)})
						continue
					}
				}
				if choice == 1 {
					ret = append(ret, RExpr{K: "opaque"})
					continue
				}
				switch t {
				case 'i':
					ret = append(ret, RExpr{K: "lit", V: fmt.Sprint(1 + r.Intn(3))})
				case 's':
					ret = append(ret, RExpr{K: "lit", V: Pick(r, []string{`"a"`, `"b"`})})
				case 'e':
					if litOnly {
						// nil is not a constant.Value: keep literal-only functions to int/string positions
						ret = append(ret, RExpr{K: "nil"})
					} else {
						ret = append(ret, RExpr{K: "nil"})
					}
				}
			}
			cur.Rets = append(cur.Rets, ret)
		}
	}
	return fs
}

func progBatch(cases []Case) []string {
	res := make([]string, len(cases))
	const chunk = 120
	type shard struct{ start, end int }
	var shards []shard
	for s := 0; s < len(cases); s += chunk {
		shards = append(shards, shard{s, min(s+chunk, len(cases))})
	}
	sem := make(chan struct{}, 8)
	done := make(chan struct{})
	for _, sh := range shards {
		go func(sh shard) {
			sem <- struct{}{}
			defer func() { <-sem; done <- struct{}{} }()
			job := rJob{}
			for i, c := range cases[sh.start:sh.end] {
				pc := c.(*progCase)
				job.Sources = append(job.Sources, map[string]string{"p.go": pc.source()})
				job.Queries = append(job.Queries, rQuery{Pkg: i, Func: fmt.Sprintf("F%d", pc.Q)})
			}
			ans := superviseJob(job, len(job.Queries), 8*time.Second)
			for i, c := range cases[sh.start:sh.end] {
				pc := c.(*progCase)
				pc.out, pc.orc, pc.have = ans[i].Out, ans[i].Oracle, true
				res[sh.start+i] = pc.out
			}
		}(sh)
	}
	for range shards {
		<-done
	}
	return res
}

// ---------------------------------------------------------------- hand-written shapes outside the core language (oracle only)

var c14Extended = []struct{ name, src string }{
	{"generic-type-instantiated-with-error", `package p

type Box[T any] struct {
	v     T
	items []T
}

func (b Box[T]) Get() T { return b.v }

func (b Box[T]) First() (T, bool) { return b.items[0], len(b.items) > 0 }

func Last() (error, bool) {
	var b Box[error]
	return b.First()
}

func F() error {
	var b Box[error]
	return b.Get()
}
`},
	{"closure-more-results-than-callee", `package p

import "errors"

func g(fn func() (int, error)) error {
	_, err := fn()
	return err
}

func F() error {
	return g(func() (int, error) { return 1, errors.New("x") })
}
`},
	{"closure-fewer-results", `package p

import "errors"

func g2(fn func() error) (int, error) {
	return 1, fn()
}

func F() (int, error) {
	return g2(func() error { return errors.New("y") })
}
`},
	{"named-results", `package p

import "errors"

func F() (n int, err error) {
	n = 3
	if n > 2 {
		err = errors.New("big")
		return
	}
	n, err = 4, nil
	return
}
`},
	{"mutual-recursion-error-index-1", `package p

func A(n int) (int, error) {
	if n == 0 {
		return 0, nil
	}
	return B(n - 1)
}

func B(n int) (int, error) {
	if n == 0 {
		return 1, nil
	}
	return A(n - 1)
}

func F() (int, error) { return A(3) }
`},
	{"self-recursion-error-index-1", `package p

func F(n int) (int, error) {
	if n == 0 {
		return 0, nil
	}
	return F(n - 1)
}
`},
	{"interface-method-and-wrap", `package p

import "fmt"

type Doer interface{ Do() error }

type impl struct{}

func (impl) Do() error { return fmt.Errorf("impl") }

func wrap(err error) error { return fmt.Errorf("w: %w", err) }

func F(d Doer) error {
	if err := d.Do(); err != nil {
		return wrap(err)
	}
	return nil
}
`},
	{"identifier-assignments", `package p

import "errors"

var ErrA = errors.New("a")

func F(c bool) (string, error) {
	s := "x"
	var err error
	if c {
		s = "y"
		err = ErrA
	}
	return s, err
}
`},
	{"recursion-through-any", `package p

func F(n int) (any, any) {
	if n == 0 {
		return 1, "s"
	}
	a, b := F(n - 1)
	return b, a
}
`},
	{"generic-function", `package p

func G[T any](v T) (T, error) { return v, nil }

func F() (int, error) { return G(1) }
`},
	{"switch-and-operators", `package p

func F(n int) (int, string, bool) {
	switch n {
	case 0:
		return 1 + 2, "a" + "b", true
	case 1:
		return -1, "c", !true
	}
	return 1 << 3, "", false
}
`},
}

// ---- asked-before: two packages, the questions in several orders

// c14Pairs: a package p whose functions hand on results of functions of p/lib, which in turn get them from calls that have
// no declaration in lib (functions of other packages, methods through a selector or a method value, an interface method,
// an instantiated generic function)
var c14Pairs = []struct{ name, p, lib string }{
	{"foreign-function", `package p

import "` + batchMod + `/c0/lib"

func Open() error { return lib.Open() }

func Wrap() (int, error) { return 1, lib.Wrapped() }
`, `package lib

import (
	"errors"
	"fmt"
)

func Open() error { return errors.New("cannot open") }

func Wrapped() error { return fmt.Errorf("w: %w", errors.ErrUnsupported) }
`},
	{"method-through-selector", `package p

import "` + batchMod + `/c0/lib"

func Load() (any, error) { return lib.Load("k") }

func Check() (err error) {
	err = lib.Check()
	return
}
`, `package lib

type NotFound struct{ Key string }

func (e *NotFound) Error() string { return "not found: " + e.Key }

type store struct{}

func (store) lookup(key string) (any, error) { return nil, &NotFound{Key: key} }

func (store) verify() error { return &NotFound{} }

func Load(key string) (any, error) { return store{}.lookup(key) }

func Check() error {
	s := store{}
	return s.verify()
}
`},
	{"method-value-and-interface", `package p

import "` + batchMod + `/c0/lib"

func Run() error { return lib.Run() }

func Via(d lib.Doer) error { return lib.Via(d) }
`, `package lib

type Failed struct{}

func (*Failed) Error() string { return "failed" }

type job struct{}

func (job) do() error { return &Failed{} }

type Doer interface{ Do() error }

func Run() error {
	f := job{}.do
	return f()
}

func Via(d Doer) error { return d.Do() }
`},
	{"generic-instance", `package p

import "` + batchMod + `/c0/lib"

func First() (int, error) { return lib.First() }
`, `package lib

type Empty struct{}

func (*Empty) Error() string { return "empty" }

func pick[T any](xs []T) (T, error) {
	var zero T
	if len(xs) == 0 {
		return zero, &Empty{}
	}
	return xs[0], nil
}

func First() (int, error) { return pick([]int{1, 2}) }
`},
}

type pairCase struct {
	Idx    int  `json:"idx"`
	Lib1st bool `json:"lib_first"` // ask about lib's functions before p's instead of between two rounds over p's
	out    string
	orc    string
	have   bool
}

func pairFuncNames(src string) []string {
	var out []string
	for _, l := range strings.Split(src, "\n") {
		if strings.HasPrefix(l, "func ") && !strings.HasPrefix(l, "func (") {
			name := strings.TrimPrefix(l, "func ")
			name = name[:strings.IndexAny(name, "([")]
			if name != "" && name[0] >= 'A' && name[0] <= 'Z' {
				out = append(out, name)
			}
		}
	}
	return out
}

func (c *pairCase) Line() string { return "" }
func (c *pairCase) Run() string {
	if !c.have {
		pr := c14Pairs[c.Idx]
		var ps, ls []rQuery
		for _, n := range pairFuncNames(pr.p) {
			ps = append(ps, rQuery{Pkg: 0, Func: n})
		}
		for _, n := range pairFuncNames(pr.lib) {
			ls = append(ls, rQuery{Pkg: 0, Func: n, Sub: "lib"})
		}
		var qs []rQuery
		if c.Lib1st {
			qs = append(append(qs, ls...), ps...)
		} else {
			qs = append(append(append(qs, ps...), ls...), ps...)
		}
		ans := superviseJob(rJob{Sources: []map[string]string{{"p.go": pr.p, "lib/lib.go": pr.lib}}, Queries: qs}, len(qs), 8*time.Second)
		var outs []string
		byFunc := map[string]string{}
		for i, a := range ans {
			if a.Oracle != "" && c.orc == "" {
				c.orc = qs[i].Sub + "." + qs[i].Func + ": " + a.Oracle
			}
			key := qs[i].Sub + "." + qs[i].Func
			if prev, ok := byFunc[key]; ok && prev != a.Out && c.orc == "" {
				c.orc = fmt.Sprintf("ResultsOf(%s) answered %s, and %s once the functions of the package it calls into had been asked about", qs[i].Func, prev, a.Out)
			}
			byFunc[key] = a.Out
		}
		var keys []string
		for k := range byFunc {
			keys = append(keys, k)
		}
		sort.Strings(keys)
		for _, k := range keys {
			outs = append(outs, k+"="+byFunc[k])
		}
		c.out, c.have = strings.Join(outs, ";"), true
	}
	return c.out
}
func (c *pairCase) Oracle(out string) string {
	if c.orc != "" {
		return c14Pairs[c.Idx].name + ": " + c.orc
	}
	// the same universe asked in the other order (a fresh process) says the same about every function
	other := &pairCase{Idx: c.Idx, Lib1st: !c.Lib1st}
	if o := other.Run(); o != out && other.orc == "" {
		return c14Pairs[c.Idx].name + ": the answers depend on the order of the questions — " + out + " against " + o
	}
	return ""
}
func (c *pairCase) Shrinks() []Case { return nil }
func (c *pairCase) Key() string {
	return fmt.Sprintf("%s lib-first=%v", c14Pairs[c.Idx].name, c.Lib1st)
}
func (c *pairCase) Classes() []string { return []string{c14Pairs[c.Idx].name} }
func (c *pairCase) Nontrivial() bool  { return true }

type extCase struct {
	Idx  int `json:"idx"`
	out  string
	orc  string
	have bool
}

func (c *extCase) Line() string { return "" }
func (c *extCase) Run() string {
	if !c.have {
		ans := superviseJob(rJob{Sources: []map[string]string{{"p.go": c14Extended[c.Idx].src}}, Queries: []rQuery{{Pkg: 0, Func: "F"}}}, 1, 8*time.Second)
		c.out, c.orc, c.have = ans[0].Out, ans[0].Oracle, true
	}
	return c.out
}
func (c *extCase) Oracle(out string) string {
	if c.orc != "" {
		return c14Extended[c.Idx].name + ": " + c.orc
	}
	if c14Extended[c.Idx].name == "switch-and-operators" {
		if want := `(3 | -1 | 8, "ab" | "c" | "", true | false | false)`; out != want {
			return "operators on literals: reported " + out + ", the values in source order are " + want
		}
	}
	return ""
}
func (c *extCase) Shrinks() []Case   { return nil }
func (c *extCase) Key() string       { return c14Extended[c.Idx].name }
func (c *extCase) Classes() []string { return []string{c14Extended[c.Idx].name} }
func (c *extCase) Nontrivial() bool  { return true }

// ---------------------------------------------------------------- the sweep over /repo's closure

type sweepCase struct {
	Shards int `json:"shards"`
	Shard  int `json:"shard"`
	stats  string
}

func (c *sweepCase) Line() string { return "" }
func (c *sweepCase) Run() string {
	// the job enumerates the functions itself; answers are collected until the terminator
	answers := superviseRepo(c.Shard, c.Shards)
	bad := ""
	n, div := 0, 0
	for _, a := range answers {
		n++
		if a.Out == "diverge" {
			div++
		}
		if a.Oracle != "" && bad == "" {
			bad = a.Name + ": " + a.Oracle
		}
	}
	c.stats = fmt.Sprintf("functions=%d", n)
	if bad != "" {
		return "ORACLE:" + bad
	}
	return fmt.Sprintf("ok functions=%d diverged=%d", n, div)
}
func (c *sweepCase) Oracle(out string) string {
	if strings.HasPrefix(out, "ORACLE:") {
		return out[7:]
	}
	if strings.HasPrefix(out, "ok functions=0") {
		return ""
	}
	return ""
}
func (c *sweepCase) Shrinks() []Case   { return nil }
func (c *sweepCase) Key() string       { return fmt.Sprintf("sweep %d/%d", c.Shard, c.Shards) }
func (c *sweepCase) Classes() []string { return []string{c.stats} }
func (c *sweepCase) Nontrivial() bool  { return true }

func superviseRepo(shard, shards int) []rAnswer {
	var all []rAnswer
	skip := 0
	stalls := map[int]int{} // function index → how often a child stalled (did not crash) on it
	for restarts := 0; restarts < 40; restarts++ {
		self, _ := os.Executable()
		cmd := exec.Command(self, "child", "c14")
		cmd.Env = childEnv()
		in, _ := json.Marshal(rJob{Repo: true, Shard: shard, Shards: shards, Skip: skip})
		cmd.Stdin = strings.NewReader(string(in))
		pr, pw, _ := os.Pipe()
		cmd.ExtraFiles = []*os.File{pw}
		cmd.Stderr = io.Discard
		if err := cmd.Start(); err != nil {
			break
		}
		pw.Close()
		lines := make(chan rAnswer)
		go func() {
			rd := bufio.NewReaderSize(pr, 1<<20)
			for {
				l, err := rd.ReadBytes('\n')
				if len(l) > 1 {
					var a rAnswer
					if json.Unmarshal(l, &a) == nil {
						lines <- a
					}
				}
				if err != nil {
					close(lines)
					return
				}
			}
		}()
		var current *rAnswer
		finished := false
		stalled := false
		timer := time.NewTimer(120 * time.Second)
	loop:
		for {
			select {
			case a, ok := <-lines:
				if !ok {
					break loop
				}
				if a.Start && stalls[a.I] > 0 {
					timer.Reset(120 * time.Second) // second attempt at a function a child stalled on: generous limit
				} else {
					timer.Reset(10 * time.Second)
				}
				switch {
				case a.I == -1:
					finished = true
				case a.Start:
					cp := a
					current = &cp
				default:
					all = append(all, a)
					current = nil
					skip = a.I
				}
			case <-timer.C:
				stalled = true
				break loop
			}
		}
		cmd.Process.Kill()
		cmd.Wait()
		pr.Close()
		if finished {
			break
		}
		if current != nil && stalled && stalls[current.I] == 0 {
			// a stall may be a loaded machine rather than a resolver that does not return: ask once more
			stalls[current.I]++
			skip = current.I - 1
			continue
		}
		if current != nil {
			all = append(all, rAnswer{I: current.I, Name: current.Name, Out: "diverge", Oracle: "ResultsOf did not return"})
			skip = current.I
			continue
		}
		break
	}
	return all
}

func init() {
	register(&Property{ID: "C14", Streams: []*Stream{
		{
			Name: "programs", Quick: 1200, Thorough: 12000, New: func() Case { return &progCase{} },
			Gen: func(r *Rng, i int) Case {
				fs := genProg(r)
				return &progCase{Fs: fs, Q: r.Intn(len(fs))}
			},
			BatchRun: progBatch, ShrinkBudget: 30, MaxShrinks: 5,
			Rule: "programs of 2–6 functions over the core language (1–3 results of int/string/error, 1–3 return statements (all but the last nested in an if, a for, a labelled for or switch, a bare block, a switch case, a range loop or a select), literals, opaque expressions, nil, single-result calls, multi-value forwarding, self and mutual recursion through any result index, literal-only functions) printed to Go, loaded with the real loader (120 per load) and asked in supervised child processes (small maximum stack, time limit, the query that kills a child is reported as not returning and a fresh child carries on); compared: FuncResults.String() with the model; oracle in the child: n lists, each non-empty, alternatives constants or assignable types, same answer twice; literal-only functions against their literals",
		},
		xprogStream,
		{
			Name: "asked-before", New: func() Case { return &pairCase{} },
			Enum: func(tier string, yield func(Case)) {
				for i := range c14Pairs {
					yield(&pairCase{Idx: i})
					yield(&pairCase{Idx: i, Lib1st: true})
				}
			},
			EnumExhaustive: false,
			Rule:           "hand-written pairs of packages: functions of p hand on results of functions of p/lib, which get them from calls without a declaration in lib (errors.New, fmt.Errorf, a method through a selector, a method value, an interface method, an instantiated generic function); one universe asked about p's functions, then lib's, then p's again — and, in a fresh process, about lib's first; oracle: every function gets one answer, whatever was asked before it and in whichever order, plus the in-child checks (shape, assignability, same answer twice)",
		},
		{
			Name: "extended", New: func() Case { return &extCase{} },
			Enum: func(tier string, yield func(Case)) {
				for i := range c14Extended {
					yield(&extCase{Idx: i})
				}
			},
			EnumExhaustive: false,
			Rule:           "hand-written shapes outside the core language (function-literal arguments with more and fewer results than the callee, named results, identifiers with assignments, interface methods, recursion through any, generic functions, switch with operators on literals); oracle only",
		},
		{
			Name: "sweep", New: func() Case { return &sweepCase{} },
			Enum: func(tier string, yield func(Case)) {
				if tier == "thorough" {
					for s := 0; s < 8; s++ {
						yield(&sweepCase{Shards: 8, Shard: s})
					}
				} else {
					yield(&sweepCase{Shards: 8, Shard: 3}) // one eighth of the functions
				}
			},
			EnumExhaustive: false,
			Rule:           "every function and method of the dependency closure of /repo (≈ 11 700; quick: one eighth) asked in supervised children: returns, n non-empty lists, assignable alternatives, identical on a second call",
		},
	}})
}
