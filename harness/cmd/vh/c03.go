package main

// C03 — the import block is exactly the set of referenced packages under unique valid names.

import (
	"bytes"
	"fmt"
	"go/ast"
	"go/parser"
	"go/token"
	"go/types"
	"os"
	"sort"
	"strings"
	"sync"
	futil2 "verif/harness/fixtures/other/util"
	futil "verif/harness/fixtures/util"

	"github.com/octohelm/gengo/pkg/gengo"
	"github.com/octohelm/gengo/pkg/gengo/snippet"
	"github.com/octohelm/gengo/pkg/namer"
	gengotypes "github.com/octohelm/gengo/pkg/types"
)

const c03Self = "example.com/self"

func refOf(path, name string) gengotypes.TypeName { return gengotypes.Ref(path, name) }

type trackCase struct {
	Paths []string `json:"paths"` // referenced in this order; may contain the target package and repeats
}

func (c trackCase) Line() string {
	var b strings.Builder
	b.WriteString("tname " + hx(c03Self))
	for _, p := range c.Paths {
		b.WriteString(" " + hx(p) + " " + hx("T"))
	}
	return b.String()
}

func (c trackCase) Run() string {
	return guard(func() string {
		tr := namer.NewDefaultImportTracker()
		nm := namer.NewRawNamer(c03Self, tr)
		names := make([]string, len(c.Paths))
		for i, p := range c.Paths {
			names[i] = hx(nm.Name(gengotypes.Ref(p, "T")))
		}
		return "ok " + strings.Join(names, ",") + " imports " + showImports(tr.Imports())
	})
}

// stdOwner maps a std short name to the std package that owns it: the name a fresh tracker gives
// that package when it is the only one referenced (metamorphic reference, read from std.list).
var stdOwner = sync.OnceValue(func() map[string]string {
	m := map[string]string{}
	repo := os.Getenv("VERIF_REPO")
	if repo == "" {
		repo = "/repo"
	}
	data, _ := os.ReadFile(repo + "/pkg/namer/std.list")
	for _, p := range strings.Split(string(data), "\n") {
		if p == "" {
			continue
		}
		func() {
			defer func() { recover() }()
			tr := namer.NewDefaultImportTracker()
			tr.AddType(gengotypes.Ref(p, "T"))
			if n := tr.LocalNameOf(p); n != "" {
				m[n] = p
			}
		}()
	}
	return m
})

func (c trackCase) Oracle(out string) string {
	if out == "panic" {
		return "the import tracker panicked"
	}
	parts := strings.SplitN(strings.TrimPrefix(out, "ok "), " imports ", 2)
	if len(parts) != 2 {
		return "unparsable output"
	}
	names := strings.Split(parts[0], ",")
	imports := parseImports(parts[1])
	want := map[string]bool{}
	for _, p := range c.Paths {
		if p != c03Self {
			want[p] = true
		}
	}
	for p := range want {
		if _, ok := imports[p]; !ok {
			return "referenced package " + p + " is missing from the import table"
		}
	}
	seen := map[string]string{}
	for p, n := range imports {
		if !want[p] {
			return "package " + p + " is in the import table but was never referenced"
		}
		if !token.IsIdentifier(n) {
			return fmt.Sprintf("package %s is bound to %q, which is not a valid non-keyword identifier", p, n)
		}
		if q, dup := seen[n]; dup {
			return fmt.Sprintf("packages %s and %s are both bound to %q", q, p, n)
		}
		seen[n] = p
		if sp, ok := stdOwner()[n]; ok && sp != p {
			return fmt.Sprintf("std short name %q is bound to %s, not to %s", n, p, sp)
		}
	}
	first := map[string]string{}
	for i, p := range c.Paths {
		got := unhx(names[i])
		exp := "T"
		if p != c03Self {
			exp = imports[p] + ".T"
		}
		if got != exp {
			return fmt.Sprintf("reference to %s rendered as %q, the table binds it so that it must be %q", p, got, exp)
		}
		if f, ok := first[p]; ok && f != got {
			return "asking twice for " + p + " gave two names"
		}
		first[p] = got
	}
	// the assembled file must parse and use exactly what it imports
	var src bytes.Buffer
	src.WriteString("package self\n")
	if len(imports) > 0 {
		src.WriteString("import (\n")
		ks := make([]string, 0, len(imports))
		for p := range imports {
			ks = append(ks, p)
		}
		sort.Strings(ks)
		for _, p := range ks {
			fmt.Fprintf(&src, "\t%s %q\n", imports[p], p)
		}
		src.WriteString(")\n")
	}
	for i := range c.Paths {
		fmt.Fprintf(&src, "var _ %s\n", unhx(names[i]))
	}
	fset := token.NewFileSet()
	f, err := parser.ParseFile(fset, "x.go", src.Bytes(), 0)
	if err != nil {
		return "the file assembled from the import table and the rendered references does not parse: " + err.Error()
	}
	used := map[string]bool{}
	ast.Inspect(f, func(n ast.Node) bool {
		if se, ok := n.(*ast.SelectorExpr); ok {
			if id, ok := se.X.(*ast.Ident); ok {
				used[id.Name] = true
			}
		}
		return true
	})
	for _, is := range f.Imports {
		if is.Name == nil || !used[is.Name.Name] {
			return "import " + is.Path.Value + " is unused in the assembled file"
		}
		delete(used, is.Name.Name)
	}
	for q := range used {
		return "qualifier " + q + " is used but not imported"
	}
	return ""
}

func isStdPath(p string) bool { return !strings.Contains(strings.SplitN(p, "/", 2)[0], ".") }

func (c trackCase) Shrinks() []Case {
	var out []Case
	for i := range c.Paths {
		if len(c.Paths) > 1 {
			out = append(out, trackCase{append(append([]string{}, c.Paths[:i]...), c.Paths[i+1:]...)})
		}
	}
	for i, p := range c.Paths {
		segs := strings.Split(p, "/")
		for j := range segs {
			if len(segs) > 1 {
				n := append(append([]string{}, segs[:j]...), segs[j+1:]...)
				np := append([]string{}, c.Paths...)
				np[i] = strings.Join(n, "/")
				out = append(out, trackCase{np})
			}
		}
		for j, s := range segs {
			for _, v := range dropRuneVariants(s) {
				if v == "" {
					continue
				}
				n := append([]string{}, segs...)
				n[j] = v
				np := append([]string{}, c.Paths...)
				np[i] = strings.Join(n, "/")
				out = append(out, trackCase{np})
			}
		}
	}
	return out
}

func (c trackCase) Key() string { return strings.Join(c.Paths, " ; ") }

func (c trackCase) Classes() []string {
	var cl []string
	flags := map[string]bool{}
	last := map[string]int{}
	for _, p := range c.Paths {
		segs := strings.Split(p, "/")
		l := segs[len(segs)-1]
		last[l]++
		if isStdPath(p) {
			flags["std"] = true
		}
		if token.IsKeyword(l) {
			flags["keyword-segment"] = true
		}
		if l[0] >= '0' && l[0] <= '9' {
			flags["digit-leading"] = true
		}
		if strings.ContainsAny(l, "-.~+") {
			flags["punctuation"] = true
		}
		for _, s := range segs {
			if s == "apis" || s == "domain" {
				flags["apis/domain"] = true
			}
			if len(s) > 1 && s[0] == 'v' && strings.Trim(s[1:], "0123456789") == "" {
				flags["vN"] = true
			}
		}
		if p == c03Self {
			flags["own-package"] = true
		}
	}
	for _, n := range last {
		if n > 1 {
			flags["clashing-last-segment"] = true
		}
	}
	for f := range flags {
		cl = append(cl, f)
	}
	sort.Strings(cl)
	cl = append(cl, fmt.Sprintf("paths:%d", len(c.Paths)))
	return cl
}

func (c trackCase) Nontrivial() bool { return len(c.Classes()) > 1 }

var c03Hosts = []string{"github.com", "k8s.io", "gopkg.in", "example.com", "x", "go.uber.org"}
var c03Segs = []string{"rand", "go", "v1", "v2", "v10", "apis", "domain", "api", "core", "meta", "foo-bar", "foobar", "foo.bar", "type", "func", "3d", "http", "template", "json", "yaml.v3", "a", "b", "c", "ab", "bc", "abc", "pkg", "_x", "-y", "x_y", "ID", "HTTPServer", "v+1", "v", "vx", "net", "text", "html", "b--c", "~t", "util", "--", "_", "range", "9", "V2"}
var c03Stds = []string{"math/rand", "crypto/rand", "math/rand/v2", "net/http", "text/template", "html/template", "encoding/json", "bytes", "fmt", "go/ast", "go/types", "time", "net/url"}

func genPath(r *Rng) string {
	switch r.Intn(8) {
	case 0:
		return Pick(r, c03Stds)
	case 1:
		return Pick(r, c03Segs)
	case 2:
		return c03Self
	default:
		n := 1 + r.Intn(4)
		ps := []string{Pick(r, c03Hosts)}
		for q := 0; q < n; q++ {
			ps = append(ps, Pick(r, c03Segs))
		}
		return strings.Join(ps, "/")
	}
}

// ---- references of every kind through a real SnippetWriter (oracle only)

type writerCase struct {
	Items []writerItem `json:"items"`
}

type writerItem struct {
	Kind string   `json:"kind"` // idstr | expose | named | generic | lit
	Path string   `json:"path"`
	Args []string `json:"args,omitempty"` // paths of generic arguments / element types
}

func mkNamed(path, name string) *types.Named {
	segs := strings.Split(path, "/")
	pkg := types.NewPackage(path, segs[len(segs)-1])
	return types.NewNamed(types.NewTypeName(token.NoPos, pkg, name, nil), types.NewStruct(nil, nil), nil)
}

func mkGeneric(path, name string, n int) *types.Named {
	segs := strings.Split(path, "/")
	pkg := types.NewPackage(path, segs[len(segs)-1])
	tn := types.NewTypeName(token.NoPos, pkg, name, nil)
	named := types.NewNamed(tn, nil, nil)
	tps := make([]*types.TypeParam, n)
	for i := range tps {
		tps[i] = types.NewTypeParam(types.NewTypeName(token.NoPos, pkg, fmt.Sprintf("P%d", i), nil), types.Universe.Lookup("any").Type())
	}
	named.SetTypeParams(tps)
	named.SetUnderlying(types.NewStruct(nil, nil))
	return named
}

func (it writerItem) snippet() snippet.Snippet {
	switch it.Kind {
	case "idstr":
		return snippet.ID(it.Path + ".T")
	case "expose":
		return snippet.PkgExpose(it.Path, "Func")
	case "named":
		return snippet.ID(mkNamed(it.Path, "N"))
	case "sharedargs":
		// one set of named arguments handed to a template that mentions only one of them: an argument nothing mentions is
		// never rendered, so its package is not referenced and must not be imported
		return snippet.T("@T", snippet.Args{
			"T":      snippet.ID(it.Path + ".T"),
			"Unused": snippet.ID("example.com/unused/widgets.U"),
			"AAA":    snippet.PkgExpose("example.com/never/first", "F"),
		})
	case "valuepair":
		// value literals of two types that share package name and type name (util.Item of two import paths): each names
		// its own package
		return snippet.Snippets(func(yield func(snippet.Snippet) bool) {
			_ = yield(snippet.Sprintf("= []any{%v, %v}", futil.Item{A: 1}, futil2.Item{X: 2}))
		})
	case "generic":
		if len(it.Args) == 0 {
			return snippet.ID(mkNamed(it.Path, "N"))
		}
		g := mkGeneric(it.Path, "G", len(it.Args))
		targs := make([]types.Type, len(it.Args))
		for i, a := range it.Args {
			targs[i] = mkNamed(a, "A")
		}
		inst, err := types.Instantiate(nil, g, targs, false)
		if err != nil {
			panic(err)
		}
		return snippet.ID(inst)
	case "ifacelit":
		// an unnamed interface with a method whose signature names a type of another package, below a slice: however the
		// printer writes it (it writes `any` for every unnamed interface — F30), a package its text mentions is imported
		res := types.NewTuple(types.NewVar(token.NoPos, nil, "", mkNamed(it.Path, "N")))
		m := types.NewFunc(token.NoPos, nil, "Now", types.NewSignatureType(nil, nil, nil, nil, res, false))
		return snippet.ID(types.NewSlice(types.NewInterfaceType([]*types.Func{m}, nil).Complete()))
	case "lit":
		var t types.Type = mkNamed(it.Path, "E")
		for _, a := range it.Args {
			t = types.NewMap(mkNamed(a, "K"), types.NewSlice(types.NewPointer(t)))
		}
		return snippet.ID(t)
	}
	panic("kind")
}

func (c writerCase) Line() string { return "" }

// second: the package of the second file the same snippet values are rendered into — the package of the first item where
// that is another one than the first file's, so that one reference changes sides (qualified there, bare here)
func (c writerCase) second() string {
	if len(c.Items) > 0 && c.Items[0].Path != c03Self && c.Items[0].Kind != "valuepair" {
		return c.Items[0].Path
	}
	return "example.com/other/self"
}

func (c writerCase) Run() string {
	return guard(func() string {
		// the snippet values are built once and rendered into two files of two packages, each with a tracker and a
		// namer of its own: a snippet is a description of text, what it renders to is decided by the file it goes into
		snips := make([]snippet.Snippet, len(c.Items))
		for i, it := range c.Items {
			snips[i] = it.snippet()
		}
		var outs []string
		for _, self := range []string{c03Self, c.second()} {
			tr := namer.NewDefaultImportTracker()
			ns := namer.NameSystems{"raw": namer.NewRawNamer(self, tr)}
			b := bytes.NewBuffer(nil)
			w := gengo.NewSnippetWriter(b, ns)
			for i := range c.Items {
				fmt.Fprintf(b, "var _%d ", i)
				w.Render(snips[i])
				b.WriteString("\n")
			}
			outs = append(outs, hx(b.String())+" imports "+showImports(tr.Imports()))
		}
		return "ok " + strings.Join(outs, " ;; ")
	})
}

func (c writerCase) Oracle(out string) string {
	if out == "panic" {
		return "rendering references through a SnippetWriter panicked"
	}
	files := strings.Split(strings.TrimPrefix(out, "ok "), " ;; ")
	for i, self := range []string{c03Self, c.second()} {
		if i >= len(files) {
			return "no second file"
		}
		if msg := c.judgeFile(self, files[i]); msg != "" {
			if i == 1 {
				msg = "the same snippet values rendered into a second file, of package " + self + ": " + msg
			}
			return msg
		}
	}
	return ""
}

func (c writerCase) judgeFile(self, file string) string {
	parts := strings.SplitN(file, " imports ", 2)
	body := unhx(parts[0])
	imports := parseImports(parts[1])
	want := map[string]bool{}
	for _, it := range c.Items {
		if it.Kind == "valuepair" {
			want[fixturesMod+"/util"], want[fixturesMod+"/other/util"] = true, true
			continue
		}
		if it.Kind == "ifacelit" {
			// whether the text mentions the package is the printer's business; if it does, the checks below on qualifiers
			// and imports apply
			if _, imported := imports[it.Path]; imported && it.Path != self {
				want[it.Path] = true
			}
			continue
		}
		for _, p := range append([]string{it.Path}, it.Args...) {
			if p != self {
				want[p] = true
			}
		}
	}
	for p := range want {
		if _, ok := imports[p]; !ok {
			return "referenced package " + p + " is missing from the import table"
		}
	}
	var src bytes.Buffer
	src.WriteString("package self\nimport (\n")
	names := map[string]string{}
	for p, n := range imports {
		if !want[p] {
			return "package " + p + " is in the import table but was never referenced"
		}
		if !token.IsIdentifier(n) {
			return fmt.Sprintf("package %s is bound to %q, which is not a valid non-keyword identifier", p, n)
		}
		if q, dup := names[n]; dup {
			return fmt.Sprintf("packages %s and %s are both bound to %q", q, p, n)
		}
		names[n] = p
		fmt.Fprintf(&src, "\t%s %q\n", n, p)
	}
	src.WriteString(")\n")
	src.WriteString(body)
	fset := token.NewFileSet()
	f, err := parser.ParseFile(fset, "x.go", src.Bytes(), 0)
	if err != nil {
		return "the assembled file does not parse: " + err.Error()
	}
	used := map[string]bool{}
	ast.Inspect(f, func(n ast.Node) bool {
		if se, ok := n.(*ast.SelectorExpr); ok {
			if id, ok := se.X.(*ast.Ident); ok {
				used[id.Name] = true
			}
		}
		return true
	})
	for n, p := range names {
		if !used[n] {
			return "import " + p + " (" + n + ") is unused in the body"
		}
		delete(used, n)
	}
	for q := range used {
		return "qualifier " + q + " is used in the body but not imported"
	}
	return ""
}

func (c writerCase) Shrinks() []Case {
	var out []Case
	for i := range c.Items {
		if len(c.Items) > 1 {
			out = append(out, writerCase{append(append([]writerItem{}, c.Items[:i]...), c.Items[i+1:]...)})
		}
	}
	for i, it := range c.Items {
		for j := range it.Args {
			n := it
			n.Args = append(append([]string{}, it.Args[:j]...), it.Args[j+1:]...)
			items := append([]writerItem{}, c.Items...)
			items[i] = n
			out = append(out, writerCase{items})
		}
		if it.Kind != "idstr" {
			n := it
			n.Kind, n.Args = "idstr", nil
			items := append([]writerItem{}, c.Items...)
			items[i] = n
			out = append(out, writerCase{items})
		}
	}
	return out
}
func (c writerCase) Key() string {
	var s []string
	for _, it := range c.Items {
		s = append(s, it.Kind+":"+it.Path+"["+strings.Join(it.Args, ",")+"]")
	}
	return strings.Join(s, " ; ")
}
func (c writerCase) Classes() []string {
	m := map[string]bool{}
	for _, it := range c.Items {
		m["kind:"+it.Kind] = true
	}
	var cl []string
	for k := range m {
		cl = append(cl, k)
	}
	sort.Strings(cl)
	return cl
}
func (c writerCase) Nontrivial() bool { return len(c.Items) > 1 }

func genModPath(r *Rng) string {
	// valid module-style paths only (go/types packages need a usable name)
	for {
		p := genPath(r)
		ok := true
		for _, s := range strings.Split(p, "/") {
			if s == "" {
				ok = false
			}
		}
		if ok {
			return p
		}
	}
}

func init() {
	register(&Property{ID: "C03", Streams: []*Stream{
		{
			Name: "generated-files", Quick: 300, Thorough: 3000, New: func() Case { return &importsCase{} },
			Gen:      func(r *Rng, i int) Case { return &importsCase{fmtCase: *genSkipFmtCase(r)} },
			BatchRun: importsBatch, ShrinkBudget: 40, MaxShrinks: 6,
			Rule: "whole files written by the real Execute: one package, 1–3 types each rendering 1–6 snippets (references through PkgExpose to 12 std and module-local packages and to the package's own type among them), about half of the types returning ErrSkip after they rendered; oracle on the written file: the import block lists exactly the packages the body references, under the names the body uses, the package's own type unqualified; the file is also compared with the model's assembled source run through the same formatting pipeline",
		},
		{
			Name: "paths", Quick: 30000, Thorough: 300000,
			New: func() Case { return &trackCase{} },
			Gen: func(r *Rng, i int) Case {
				k := 1 + r.Intn(8)
				if r.Chance(10) {
					k = 9 + r.Intn(4)
				}
				c := trackCase{}
				for j := 0; j < k; j++ {
					if j > 0 && r.Chance(10) {
						c.Paths = append(c.Paths, Pick(r, c.Paths)) // asked twice
					} else {
						c.Paths = append(c.Paths, genPath(r))
					}
				}
				return c
			},
			Rule: "sequences of 1–12 import paths from a vocabulary of hosts × segments with clashing last segments, vN, apis/domain, keywords, digit-leading, std short names, punctuation twins, the target package and repeats, named through a RawNamer over a fresh default tracker; non-trivial = hits at least one of those classes; oracle: Go's own token.IsIdentifier, uniqueness, exactness, assembled file parses with imports = used qualifiers",
		},
		{
			Name: "writer", Quick: 3000, Thorough: 30000,
			New: func() Case { return &writerCase{} },
			Gen: func(r *Rng, i int) Case {
				k := 1 + r.Intn(5)
				c := writerCase{}
				for j := 0; j < k; j++ {
					it := writerItem{Kind: Pick(r, []string{"idstr", "expose", "named", "generic", "lit", "sharedargs", "idstr", "named", "valuepair", "ifacelit"}), Path: genModPath(r)}
					if it.Kind == "generic" {
						for q := 0; q < 1+r.Intn(2); q++ {
							it.Args = append(it.Args, genModPath(r))
						}
					}
					if it.Kind == "lit" {
						for q := 0; q < r.Intn(3); q++ {
							it.Args = append(it.Args, genModPath(r))
						}
					}
					c.Items = append(c.Items, it)
				}
				return c
			},
			Rule: "1–5 references of every kind (ID(string), PkgExpose, go/types named type, generic instantiation, type literal over named types, a template handed more named arguments than its format mentions, value literals of two types that share package name and type name) rendered through one real SnippetWriter; oracle only: the body with the registered import block parses, imports = used qualifiers, names valid and distinct",
		},
	}})
}
