package main

// C20 — inflection is total, pure and only rewrites the last word.

import (
	"fmt"
	"go/ast"
	"go/parser"
	"go/token"
	"os"
	"regexp"
	"strconv"
	"strings"
	"sync"
	"unicode/utf8"

	"github.com/octohelm/gengo/pkg/inflector"
)

type inflTables struct {
	irregular   [2][][2]string // plural, singular
	rules       [2][][2]string
	uninflected [2][]string
	compiled    [2][]*regexp.Regexp
	unRe        [2]*regexp.Regexp
}

func strLitOf(e ast.Expr) (string, bool) {
	if kv, ok := e.(*ast.KeyValueExpr); ok {
		e = kv.Value
	}
	bl, ok := e.(*ast.BasicLit)
	if !ok || bl.Kind != token.STRING {
		return "", false
	}
	s, err := strconv.Unquote(bl.Value)
	return s, err == nil
}

// loadInflTables reads the rule tables from the source (the package is internal): the rules
// part of `inflected` — uninflected words, then the first matching ordered regexp rule — is
// re-stated here and used where the Lean model (which covers the irregular step) says "no
// irregular match".
var loadInflTables = sync.OnceValue(func() *inflTables {
	repo := os.Getenv("VERIF_REPO")
	if repo == "" {
		repo = "/repo"
	}
	t := &inflTables{}
	fset := token.NewFileSet()
	f, err := parser.ParseFile(fset, repo+"/pkg/inflector/internal/rules.go", nil, 0)
	if err != nil {
		panic(err)
	}
	ast.Inspect(f, func(n ast.Node) bool {
		cl, ok := n.(*ast.CompositeLit)
		if !ok {
			return true
		}
		if id, ok := cl.Type.(*ast.Ident); !ok || id.Name != "Rule" {
			return true
		}
		idx := -1
		for _, el := range cl.Elts {
			kv := el.(*ast.KeyValueExpr)
			if kv.Key.(*ast.Ident).Name == "Type" {
				if kv.Value.(*ast.Ident).Name == "Plural" {
					idx = 0
				} else {
					idx = 1
				}
			}
		}
		for _, el := range cl.Elts {
			kv := el.(*ast.KeyValueExpr)
			k := kv.Key.(*ast.Ident).Name
			if k != "Rules" && k != "Irregular" {
				continue
			}
			for _, it := range kv.Value.(*ast.CompositeLit).Elts {
				icl := it.(*ast.CompositeLit)
				a, _ := strLitOf(icl.Elts[0])
				b, _ := strLitOf(icl.Elts[1])
				if k == "Rules" {
					t.rules[idx] = append(t.rules[idx], [2]string{a, b})
				} else {
					t.irregular[idx] = append(t.irregular[idx], [2]string{a, b})
				}
			}
		}
		return false
	})
	g, err := parser.ParseFile(fset, repo+"/pkg/inflector/internal/rule.go", nil, 0)
	if err != nil {
		panic(err)
	}
	lists := map[string][]string{}
	ast.Inspect(g, func(n ast.Node) bool {
		vs, ok := n.(*ast.ValueSpec)
		if !ok || len(vs.Names) != 1 || len(vs.Values) != 1 {
			return true
		}
		if cl, ok := vs.Values[0].(*ast.CompositeLit); ok {
			for _, e := range cl.Elts {
				if s, ok := strLitOf(e); ok {
					lists[vs.Names[0].Name] = append(lists[vs.Names[0].Name], s)
				}
			}
		}
		return true
	})
	t.uninflected[0] = append(append([]string{}, lists["uninflected"]...), lists["uninflectedPlurals"]...)
	t.uninflected[1] = append(append([]string{}, lists["uninflected"]...), lists["uninflectedSingulars"]...)
	for i := 0; i < 2; i++ {
		t.unRe[i] = regexp.MustCompile(fmt.Sprintf(`(?i)(^(?:%s))$`, strings.Join(t.uninflected[i], `|`)))
		for _, r := range t.rules[i] {
			t.compiled[i] = append(t.compiled[i], regexp.MustCompile(r[0]))
		}
	}
	return t
})

func (t *inflTables) rulesOnly(which int, s string) string {
	if t.unRe[which].MatchString(s) {
		return s
	}
	for i, re := range t.compiled[which] {
		if re.MatchString(s) {
			return re.ReplaceAllString(s, t.rules[which][i][1])
		}
	}
	return s
}

func inflect(which int, s string) string {
	if which == 0 {
		return inflector.Pluralize(s)
	}
	return inflector.Singularize(s)
}

type inflCase struct {
	Which  int    `json:"which"`  // 0 plural, 1 singular
	Prefix string `json:"prefix"` // everything before the last word, separator included
	Word   string `json:"word"`
}

func (c inflCase) s() string { return c.Prefix + c.Word }
func (c inflCase) Line() string {
	if !utf8.ValidString(c.s()) {
		return "" // the model works on runes: inputs that are not UTF-8 get the oracle's verdict only (no panic, same answer twice)
	}
	return "infl " + []string{"plural", "singular"}[c.Which] + " " + hx(scannerView(c.s()))
}
func (c inflCase) Run() string {
	return guard(func() string { return "ok " + hx(inflect(c.Which, c.s())) })
}

// the model covers the irregular step; where it finds no irregular match the answer is what the
// re-stated rules part gives
func (c inflCase) CanonModel(m string) string {
	if m == "nomatch" {
		return guard(func() string { return "ok " + hx(loadInflTables().rulesOnly(c.Which, c.s())) })
	}
	return m
}

func (c inflCase) InDomain() bool { return true }

var c20Seps = " -./:\t\n"

func (c inflCase) isIrregularWord() bool {
	lw := strings.ToLower(c.Word)
	for _, e := range loadInflTables().irregular[c.Which] {
		if e[0] == lw {
			return true
		}
	}
	return false
}

func (c inflCase) Oracle(out string) string {
	if out == "panic" {
		return "inflection panicked"
	}
	if again := c.Run(); again != out {
		return "a second call returned a different result"
	}
	if !utf8.ValidString(c.s()) {
		return ""
	}
	// prefix clause: irregular word after a separator
	if c.Prefix != "" && strings.ContainsRune(c20Seps, rune(c.Prefix[len(c.Prefix)-1])) && c.isIrregularWord() {
		alone := guard(func() string { return inflect(c.Which, c.Word) })
		if alone == "panic" {
			return "inflecting the word on its own panicked"
		}
		if want := "ok " + hx(c.Prefix+alone); out != want {
			return fmt.Sprintf("%q became %q; the prefix has to be preserved and the word inflected as on its own (%q)", c.s(), unhx(strings.TrimPrefix(out, "ok ")), c.Prefix+alone)
		}
	}
	return ""
}

func (c inflCase) Shrinks() []Case {
	var out []Case
	for _, p := range dropRuneVariants(c.Prefix) {
		out = append(out, inflCase{c.Which, p, c.Word})
	}
	if strings.ToLower(c.Word) != c.Word {
		out = append(out, inflCase{c.Which, c.Prefix, strings.ToLower(c.Word)})
	}
	if !c.isIrregularWord() {
		for _, w := range dropRuneVariants(c.Word) {
			out = append(out, inflCase{c.Which, c.Prefix, w})
		}
	}
	return out
}
func (c inflCase) Key() string { return fmt.Sprintf("%d:%q+%q", c.Which, c.Prefix, c.Word) }
func (c inflCase) Classes() []string {
	cl := []string{[]string{"plural", "singular"}[c.Which]}
	if c.isIrregularWord() {
		cl = append(cl, "irregular-word")
	}
	if c.Prefix != "" {
		last, _ := utf8.DecodeLastRuneInString(c.Prefix)
		switch {
		case strings.ContainsRune(c20Seps, last):
			cl = append(cl, "prefix:separator")
		case last >= 0x80:
			cl = append(cl, "prefix:non-ascii")
		default:
			cl = append(cl, "prefix:word-char")
		}
	}
	if strings.ContainsAny(c.Word, "ſK") {
		cl = append(cl, "fold-exceptional")
	}
	return cl
}
func (c inflCase) Nontrivial() bool { return c.isIrregularWord() || c.Prefix != "" }

var c20Prefixes = []string{"", "", "old-", "the ", "x", "x_", "a.b.", "9", "Big ", "é-", "é", "foo-bar ", "-", "un", "sea ", "wo", "a\n", "two\nlines ", "first line\nold ", "path/to/", "Ünï ", "k:", "tab\t", "中", "über-",
	// runes whose lower-case form has another UTF-8 length, and bytes that are not UTF-8, in front of a separator
	"İstanbul ", "20 K ", "Ω-", "ẞ ", "Ⱥ ", "ȺȾȺȾ ", "İİİİ-", "\xff ", "\xff\xfe\xfd-", "a\xc3 ", "\xe2\x82 "}

func genInfl(r *Rng) inflCase {
	t := loadInflTables()
	which := r.Intn(2)
	var w string
	switch r.Intn(10) {
	case 0:
		w = Pick(r, t.uninflected[which])
		if strings.ContainsAny(w, ".*[") {
			w = Pick(r, []string{"sheep", "fish", "deer", "Chinese", "media", "sea-bass", "chickenpox"})
		}
	case 1:
		w = Pick(r, []string{"", "status", "quiz", "ox", "mouse", "matrix", "box", "query", "hive", "wife", "analysis", "datum", "buffalo", "virus", "alias", "axis", "s", "category", "Name", "ID", "é", "日本"})
	case 2: // the other table's words
		w = Pick(r, t.irregular[1-which])[0]
	default:
		w = Pick(r, t.irregular[which])[0]
	}
	switch r.Intn(8) {
	case 0:
		w = strings.ToUpper(w)
	case 1:
		if w != "" {
			w = strings.ToUpper(w[:1]) + w[1:]
		}
	case 2:
		w = strings.Replace(w, "s", "ſ", 1)
	case 3:
		w = strings.Replace(w, "k", "K", 1)
	case 4:
		if len(w) > 1 && r.Chance(50) {
			w = w[:len(w)-1]
		} else {
			w += "x"
		}
	}
	pre := Pick(r, c20Prefixes)
	if r.Chance(12) && w != "" {
		// a prefix that holds the word itself — repeated, or inside a longer word: only the last occurrence is the last word
		pre = Pick(r, []string{w + "-to-", w + " and ", "foot" + w + " ", w + w + "-", "x" + w + "y ", w + " " + w + " "})
	}
	return inflCase{which, pre, w}
}

// ---- concurrent callers on a cold cache (sampling of schedules; with the -race build of the
// harness in the thorough tier the race detector watches the same runs)

type inflConcCase struct {
	Tag   string   `json:"tag"` // makes every key fresh, so the memo cache is cold
	Words []string `json:"words"`
	G     int      `json:"goroutines"`
}

func (c inflConcCase) Line() string { return "" }
func (c inflConcCase) Run() string {
	return guard(func() string {
		keys := make([]string, len(c.Words))
		for i, w := range c.Words {
			keys[i] = c.Tag + " " + w
		}
		type res struct{ k, p, s string }
		out := make([][]res, c.G)
		var wg sync.WaitGroup
		start := make(chan struct{})
		for g := 0; g < c.G; g++ {
			wg.Add(1)
			go func(g int) {
				defer wg.Done()
				defer func() {
					if e := recover(); e != nil {
						out[g] = append(out[g], res{"panic", fmt.Sprint(e), ""})
					}
				}()
				<-start
				for i := range keys {
					k := keys[(i*7+g*3)%len(keys)]
					out[g] = append(out[g], res{k, inflector.Pluralize(k), inflector.Singularize(k)})
				}
			}(g)
		}
		close(start)
		wg.Wait()
		bad := 0
		for _, rs := range out {
			for _, r := range rs {
				if r.k == "panic" {
					return "panic"
				}
				// reference: a sequential call afterwards, and the uncached inflection of the bare word behind the same prefix
				if r.p != inflector.Pluralize(r.k) || r.s != inflector.Singularize(r.k) {
					bad++
				}
			}
		}
		return fmt.Sprintf("ok mismatches=%d", bad)
	})
}
func (c inflConcCase) Oracle(out string) string {
	if out != "ok mismatches=0" {
		return "concurrent callers saw " + out
	}
	// and the cached answers equal what a differently-tagged (fresh) key gives: purity across cache states
	for _, w := range c.Words {
		a := inflector.Pluralize(c.Tag + " " + w)
		b := inflector.Pluralize(c.Tag + "'" + " " + w)
		if strings.TrimPrefix(a, c.Tag) != strings.TrimPrefix(b, c.Tag+"'") {
			return "result depends on the cache state for " + w
		}
	}
	return ""
}
func (c inflConcCase) Shrinks() []Case {
	var out []Case
	if c.G > 2 {
		out = append(out, inflConcCase{c.Tag + "s", c.Words, c.G / 2})
	}
	if len(c.Words) > 1 {
		out = append(out, inflConcCase{c.Tag + "s", c.Words[:len(c.Words)/2], c.G})
	}
	return out
}
func (c inflConcCase) Key() string {
	return fmt.Sprintf("%d goroutines × %d words", c.G, len(c.Words))
}
func (c inflConcCase) Classes() []string { return []string{fmt.Sprintf("goroutines:%d", c.G)} }
func (c inflConcCase) Nontrivial() bool  { return c.G > 1 && len(c.Words) > 1 }

func init() {
	childHandlers["c20race"] = func(args []string) int {
		// run under the -race build: a burst of concurrent cases; the race detector aborts the process on a report
		r := NewRng(uint64(len(args)) + 77)
		for i := 0; i < 40; i++ {
			c := inflConcCase{Tag: fmt.Sprintf("race%d", i), G: 64}
			for j := 0; j < 24; j++ {
				c.Words = append(c.Words, genInfl(r).Word)
			}
			if out := c.Run(); out != "ok mismatches=0" {
				fmt.Println("FAIL", out)
				return 1
			}
		}
		fmt.Println("ok")
		return 0
	}
	register(&Property{ID: "C20", Streams: []*Stream{
		{
			Name: "concurrent", Quick: 60, Thorough: 600,
			New: func() Case { return &inflConcCase{} },
			Gen: func(r *Rng, i int) Case {
				c := inflConcCase{Tag: fmt.Sprintf("t%x", r.U64()), G: Pick(r, []int{2, 8, 64})}
				n := 4 + r.Intn(28)
				for j := 0; j < n; j++ {
					c.Words = append(c.Words, genInfl(r).Word)
				}
				return c
			},
			Rule: "2/8/64 goroutines released together on overlapping fresh keys (cold memo cache), every result compared with a later sequential call and with a differently tagged fresh key; a sample of schedules, not an enumeration",
		},
		{
			Name: "inflect", Quick: 30000, Thorough: 300000,
			New:  func() Case { return &inflCase{} },
			Gen:  func(r *Rng, i int) Case { return genInfl(r) },
			Rule: "Pluralize/Singularize on prefix+word: every irregular and uninflected word and rule examples in lower/Title/UPPER case, with ſ/K substitutions, truncated or suffixed, behind 36 prefixes (separators, word characters, non-ASCII, newlines, runes whose case mapping changes their UTF-8 length, bytes that are not UTF-8); model = irregular step (Lean) with the rules part re-stated from the source where it finds no irregular match; oracle: no panic, same answer twice, prefix preserved and word inflected as on its own",
		},
		{
			Name: "all-irregular", New: func() Case { return &inflCase{} },
			Enum: func(tier string, yield func(Case)) {
				t := loadInflTables()
				for which := 0; which < 2; which++ {
					for _, e := range t.irregular[which] {
						for _, w := range []string{e[0], strings.ToUpper(e[0]), strings.ToUpper(e[0][:1]) + e[0][1:]} {
							for _, p := range c20Prefixes {
								yield(inflCase{which, p, w})
							}
						}
					}
				}
			},
			EnumExhaustive: true,
			Rule:           "every irregular word of both tables × {lower, UPPER, Title} × every prefix of the menu",
		},
	}})
}
