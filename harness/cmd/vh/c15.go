package main

// C15 — type references survive parsing, printing and import rewriting.

import (
	"bytes"
	"fmt"
	"sort"
	"strings"

	"github.com/octohelm/gengo/pkg/gengo"
	"github.com/octohelm/gengo/pkg/gengo/snippet"
	"github.com/octohelm/gengo/pkg/namer"
	gengotypes "github.com/octohelm/gengo/pkg/types"
)

type RefT struct {
	Path string `json:"path,omitempty"`
	Name string `json:"name"`
	Args []RefT `json:"args,omitempty"`
}

func (t RefT) String() string {
	var b strings.Builder
	if t.Path != "" {
		b.WriteString(t.Path + ".")
	}
	b.WriteString(t.Name)
	if len(t.Args) > 0 {
		b.WriteByte('[')
		for i, a := range t.Args {
			if i > 0 {
				b.WriteByte(',')
			}
			b.WriteString(a.String())
		}
		b.WriteByte(']')
	}
	return b.String()
}

func (t RefT) depth() int {
	d := 0
	for _, a := range t.Args {
		if x := a.depth(); x > d {
			d = x
		}
	}
	return d + 1
}

func (t RefT) walk(f func(RefT)) {
	f(t)
	for _, a := range t.Args {
		a.walk(f)
	}
}

func (t RefT) relabel(self string, imports map[string]string) RefT {
	n := RefT{Name: t.Name}
	if t.Path != "" && t.Path != self {
		n.Path = imports[t.Path]
	}
	for _, a := range t.Args {
		n.Args = append(n.Args, a.relabel(self, imports))
	}
	return n
}

func (t RefT) shrinks() []RefT {
	var out []RefT
	out = append(out, t.Args...)
	for i := range t.Args {
		n := t
		n.Args = append(append([]RefT{}, t.Args[:i]...), t.Args[i+1:]...)
		out = append(out, n)
	}
	for i, a := range t.Args {
		for _, s := range a.shrinks() {
			n := t
			n.Args = append([]RefT{}, t.Args...)
			n.Args[i] = s
			out = append(out, n)
		}
	}
	if t.Path != "" && t.Path != "a" {
		n := t
		n.Path = "a"
		out = append(out, n)
	}
	if t.Path != "" {
		n := t
		n.Path = ""
		out = append(out, n)
	}
	if t.Name != "T" {
		n := t
		n.Name = "T"
		out = append(out, n)
	}
	return out
}

// ---- stream 1: parse ∘ print = id

type trefCase struct {
	T RefT `json:"ref"`
}

func (c trefCase) Line() string { return "tref " + hx(c.T.String()) }
func (c trefCase) Run() string {
	return guard(func() string {
		t, err := gengotypes.ParseTypeRef(c.T.String())
		if err != nil {
			return "err"
		}
		return "ok " + hx(t.String())
	})
}
func (c trefCase) Oracle(out string) string {
	if out != "ok "+hx(c.T.String()) {
		return "ParseTypeRef(" + c.T.String() + ").String() is " + showOut(out) + ", not the reference itself"
	}
	// structure as well, not only the printed form
	t, err := gengotypes.ParseTypeRef(c.T.String())
	if err != nil {
		return "second parse failed"
	}
	if !sameTree(c.T, t) {
		return "parsed tree differs from the reference's structure"
	}
	return ""
}

func sameTree(a RefT, b *gengotypes.TypeRef) bool {
	if a.Path != b.PkgPath || a.Name != b.Name || len(a.Args) != len(b.TypeList) {
		return false
	}
	for i := range a.Args {
		if !sameTree(a.Args[i], b.TypeList[i]) {
			return false
		}
	}
	return true
}

func (c trefCase) Shrinks() []Case {
	var out []Case
	for _, s := range c.T.shrinks() {
		out = append(out, trefCase{s})
	}
	return out
}
func (c trefCase) Key() string { return c.T.String() }
func (c trefCase) Classes() []string {
	return []string{fmt.Sprintf("depth:%d", c.T.depth())}
}
func (c trefCase) Nontrivial() bool { return len(c.T.Args) > 0 }

// ---- stream 2: malformed strings (agreement only)

type trefStrCase struct {
	S string `json:"s"`
}

func (c trefStrCase) Line() string { return "tref " + hx(c.S) }
func (c trefStrCase) Run() string {
	return guard(func() string {
		t, err := gengotypes.ParseTypeRef(c.S)
		if err != nil {
			return "err"
		}
		return "ok " + hx(t.String())
	})
}
func (c trefStrCase) InDomain() bool       { return false }
func (c trefStrCase) Oracle(string) string { return "" }
func (c trefStrCase) Shrinks() []Case {
	var out []Case
	for _, s := range dropRuneVariants(c.S) {
		out = append(out, trefStrCase{s})
	}
	return out
}
func (c trefStrCase) Key() string       { return c.S }
func (c trefStrCase) Classes() []string { return nil }
func (c trefStrCase) Nontrivial() bool  { return strings.ContainsAny(c.S, "[],") }

// ---- stream 3: ParseRef vs PkgImportPathAndExpose

type tsplitCase struct {
	T RefT `json:"ref"`
}

func (c tsplitCase) Line() string { return "tsplit " + hx(c.T.String()) }
func (c tsplitCase) Run() string {
	return guard(func() string {
		s := c.T.String()
		a := "err"
		if r, err := gengotypes.ParseRef(s); err == nil {
			a = hx(r.Pkg().Path()) + "," + hx(r.Name())
		}
		p, n := gengo.PkgImportPathAndExpose(s)
		return "ref=" + a + " pie=" + hx(p) + "," + hx(n)
	})
}
func (c tsplitCase) Oracle(out string) string {
	// ground truth from the tree the string was printed from
	rest := strings.TrimPrefix(c.T.String(), c.T.Path+".")
	wantRef := "err"
	if c.T.Path != "" {
		wantRef = hx(c.T.Path) + "," + hx(rest)
	}
	wantPie := hx(gengo.ImportGoPath(c.T.Path)) + "," + hx(c.T.Name)
	if c.T.Path == "" {
		wantPie = "-," + hx(c.T.Name)
	}
	want := "ref=" + wantRef + " pie=" + wantPie
	if out != want {
		return "ParseRef / PkgImportPathAndExpose do not cut " + c.T.String() + " at the end of its package path: " + out + " vs " + want
	}
	return ""
}
func (c tsplitCase) Shrinks() []Case {
	var out []Case
	for _, s := range c.T.shrinks() {
		out = append(out, tsplitCase{s})
	}
	return out
}
func (c tsplitCase) Key() string       { return c.T.String() }
func (c tsplitCase) Classes() []string { return []string{fmt.Sprintf("depth:%d", c.T.depth())} }
func (c tsplitCase) Nontrivial() bool  { return c.T.Path != "" }

// ---- stream 4: rendering through the naming system

type tnameCase struct {
	Self string `json:"self"`
	Refs []RefT `json:"refs"` // every head has a package path (a TypeName always has a package)
}

func (c tnameCase) Line() string {
	var b strings.Builder
	b.WriteString("tname " + hx(c.Self))
	for _, r := range c.Refs {
		rest := strings.TrimPrefix(r.String(), r.Path+".")
		b.WriteString(" " + hx(r.Path) + " " + hx(rest))
	}
	return b.String()
}

func showImports(m map[string]string) string {
	ks := make([]string, 0, len(m))
	for k := range m {
		ks = append(ks, k)
	}
	sort.Strings(ks)
	o := make([]string, len(ks))
	for i, k := range ks {
		o[i] = hx(k) + "=" + hx(m[k])
	}
	return strings.Join(o, ",")
}

func (c tnameCase) Run() string {
	return guard(func() string {
		tr := namer.NewDefaultImportTracker()
		ns := namer.NameSystems{"raw": namer.NewRawNamer(c.Self, tr)}
		names := make([]string, len(c.Refs))
		sn := make([]snippet.Snippet, len(c.Refs))
		for i, r := range c.Refs {
			b := bytes.NewBuffer(nil)
			sn[i] = snippet.ID(r.String())
			gengo.NewSnippetWriter(b, ns).Render(sn[i])
			names[i] = hx(b.String())
		}
		first := "ok " + strings.Join(names, ",") + " imports " + showImports(tr.Imports())
		// the very same snippet objects rendered into a second file of the same package (a writer, a namer and an import
		// table of its own): a snippet a generator keeps renders there as it did here, and registers there what it names
		tr2 := namer.NewDefaultImportTracker()
		ns2 := namer.NameSystems{"raw": namer.NewRawNamer(c.Self, tr2)}
		names2 := make([]string, len(c.Refs))
		for i := range c.Refs {
			b := bytes.NewBuffer(nil)
			gengo.NewSnippetWriter(b, ns2).Render(sn[i])
			names2[i] = hx(b.String())
		}
		if second := "ok " + strings.Join(names2, ",") + " imports " + showImports(tr2.Imports()); second != first {
			return second + " SECOND-FILE-DIFFERS"
		}
		return first
	})
}

func parseImports(s string) map[string]string {
	m := map[string]string{}
	if s == "" {
		return m
	}
	for _, kv := range strings.Split(s, ",") {
		p := strings.SplitN(kv, "=", 2)
		if len(p) == 2 {
			m[unhx(p[0])] = unhx(p[1])
		}
	}
	return m
}

func (c tnameCase) Oracle(out string) string {
	if out == "panic" {
		return "rendering a well-formed reference through the naming system panicked"
	}
	if strings.HasSuffix(out, " SECOND-FILE-DIFFERS") {
		return "the same ID snippets rendered into a second file (fresh writer, namer and import table) came out differently, or registered other imports, than in the first: " + clip(strings.TrimSuffix(out, " SECOND-FILE-DIFFERS"), 300)
	}
	body := strings.TrimPrefix(out, "ok ")
	parts := strings.SplitN(body, " imports ", 2)
	if len(parts) != 2 {
		return "unparsable output"
	}
	imports := parseImports(parts[1])
	names := strings.Split(parts[0], ",")
	want := map[string]bool{}
	for i, r := range c.Refs {
		r.walk(func(x RefT) {
			if x.Path != "" && x.Path != c.Self {
				want[x.Path] = true
			}
		})
		exp := r.relabel(c.Self, imports).String()
		if i >= len(names) || unhx(names[i]) != exp {
			return fmt.Sprintf("reference %s rendered as %q; with the registered imports it has to be %q", r.String(), unhx(names[i]), exp)
		}
	}
	for p := range want {
		if _, ok := imports[p]; !ok {
			return "package " + p + " is referenced but not registered"
		}
	}
	for p := range imports {
		if !want[p] {
			return "package " + p + " is registered but not referenced"
		}
	}
	return ""
}

func (c tnameCase) Shrinks() []Case {
	var out []Case
	for i := range c.Refs {
		n := tnameCase{c.Self, append(append([]RefT{}, c.Refs[:i]...), c.Refs[i+1:]...)}
		if len(n.Refs) > 0 {
			out = append(out, n)
		}
	}
	for i, r := range c.Refs {
		for _, s := range r.shrinks() {
			if s.Path == "" {
				continue
			}
			n := tnameCase{c.Self, append([]RefT{}, c.Refs...)}
			n.Refs[i] = s
			out = append(out, n)
		}
	}
	return out
}
func (c tnameCase) Key() string {
	rs := make([]string, len(c.Refs))
	for i, r := range c.Refs {
		rs[i] = r.String()
	}
	return c.Self + " <- " + strings.Join(rs, " ; ")
}
func (c tnameCase) Classes() []string {
	d := 0
	self := false
	for _, r := range c.Refs {
		if x := r.depth(); x > d {
			d = x
		}
		r.walk(func(x RefT) {
			if x.Path == c.Self {
				self = true
			}
		})
	}
	cl := []string{fmt.Sprintf("depth:%d", d)}
	if self {
		cl = append(cl, "mentions-target-package")
	}
	return cl
}
func (c tnameCase) Nontrivial() bool {
	for _, r := range c.Refs {
		if len(r.Args) > 0 {
			return true
		}
	}
	return false
}

var c15Paths = []string{"github.com/x/a", "k8s.io/api/core/v1", "example.com/self", "gopkg.in/yaml.v3", "a/b", "other.io/a", "time", "encoding/json", "x/v2/a", "host.io/x.y/z-w",
	// packages whose whole import path is one word — the word other paths end in, and so the local name those paths get
	"a", "yaml", "self", "v1",
	// hosts that start with a digit
	"9fans.net/go/coll", "4d63.com/x"}
var c15Names = []string{"T", "List", "Map", "P", "int", "string", "error", "Option"}

func genRef(r *Rng, depth, width int, needPath bool) RefT {
	t := RefT{Name: Pick(r, c15Names)}
	if needPath || r.Chance(70) {
		t.Path = Pick(r, c15Paths)
	}
	if depth > 1 && r.Chance(70) {
		k := 1 + r.Intn(width)
		for i := 0; i < k; i++ {
			t.Args = append(t.Args, genRef(r, depth-1-r.Intn(2), width, false))
		}
	}
	return t
}

func enumRefs(depth, width int, paths, names []string, yield func(RefT)) {
	var heads []RefT
	for _, n := range names {
		heads = append(heads, RefT{Name: n})
		for _, p := range paths {
			heads = append(heads, RefT{Path: p, Name: n})
		}
	}
	var build func(d int) []RefT
	build = func(d int) []RefT {
		if d == 1 {
			return heads
		}
		sub := build(d - 1)
		// keep the enumeration finite and small: sub-trees sampled by stride at the deeper levels
		var subs []RefT
		stride := 1
		if len(sub) > 12 {
			stride = len(sub)/12 + 1
		}
		for i := 0; i < len(sub); i += stride {
			subs = append(subs, sub[i])
		}
		out := append([]RefT{}, heads...)
		for _, h := range heads {
			var rec func(args []RefT)
			rec = func(args []RefT) {
				if len(args) > 0 {
					n := h
					n.Args = append([]RefT{}, args...)
					out = append(out, n)
				}
				if len(args) == width {
					return
				}
				for _, s := range subs {
					rec(append(args, s))
				}
			}
			rec(nil)
		}
		return out
	}
	for _, t := range build(depth) {
		yield(t)
	}
}

func init() {
	register(&Property{ID: "C15", Streams: []*Stream{
		{
			Name: "roundtrip", Quick: 20000, Thorough: 200000,
			New:  func() Case { return &trefCase{} },
			Gen:  func(r *Rng, i int) Case { return trefCase{genRef(r, 1+r.Intn(5), 1+r.Intn(3), false)} },
			Rule: "random well-formed references (depth ≤ 5, width ≤ 3, dotted hosts, vN paths) printed and parsed back; non-trivial = has type arguments",
		},
		{
			Name: "roundtrip-enum", New: func() Case { return &trefCase{} },
			Enum: func(tier string, yield func(Case)) {
				d, w := 4, 2
				if tier == "thorough" {
					w = 3
				}
				enumRefs(d, w, []string{"a/b", "x.io/c"}, []string{"T", "L"}, func(t RefT) { yield(trefCase{t}) })
			},
			EnumExhaustive: true,
			Rule:           "grammar enumeration to depth 4, width 2 (quick) / 3 (thorough) over 2 paths × 2 names (sub-trees of the deeper levels taken by stride)",
		},
		{
			Name: "malformed", Quick: 20000, Thorough: 200000,
			New:  func() Case { return &trefStrCase{} },
			Gen:  func(r *Rng, i int) Case { return trefStrCase{r.Str([]rune("ab.[],/é"), 12)} },
			Rule: "random strings over {a,b,.,[,],comma,/,é}: model/implementation agreement on accept/reject and on the reprinted form; no property verdict",
		},
		{
			Name: "split", Quick: 10000, Thorough: 100000,
			New: func() Case { return &tsplitCase{} },
			Gen: func(r *Rng, i int) Case {
				t := genRef(r, 1+r.Intn(3), 2, false)
				if r.Chance(20) {
					t.Path = Pick(r, []string{"a/vendor/b/c", "/vendor/x", "x/vendor/y/vendor/z", "vendor/q"})
				}
				return tsplitCase{t}
			},
			Rule: "ParseRef and PkgImportPathAndExpose on printed references, incl. /vendor/ paths; ground truth = the tree the string was printed from",
		},
		{
			Name: "names", Quick: 10000, Thorough: 100000,
			New: func() Case { return &tnameCase{} },
			Gen: func(r *Rng, i int) Case {
				k := 1 + r.Intn(4)
				c := tnameCase{Self: "example.com/self"}
				for j := 0; j < k; j++ {
					c.Refs = append(c.Refs, genRef(r, 1+r.Intn(4), 1+r.Intn(3), true))
				}
				return c
			},
			Rule: "sequences of 1–4 references rendered with snippet.ID(string) through a real SnippetWriter over one import tracker — and the same snippet objects once more into a second file (fresh writer, namer and tracker), which must come out the same; compared: every rendered name and the final import table; oracle: relabelled tree under the final table, registered set = foreign paths of the trees",
		},
	}})
}
