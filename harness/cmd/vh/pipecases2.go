package main

// C02 (fault enumeration), C04 (determinism), C05 (alone = together), C08 (sum cache) on the
// scenario engine of pipe.go.

import (
	"crypto/sha256"
	"encoding/hex"
	"encoding/json"
	"fmt"
	"os"
	"path/filepath"
	"sort"
	"strings"

	"github.com/octohelm/gengo/pkg/sumfile"
)

// ---------------------------------------------------------------- C02: inject a fault at every call index

type faultCase struct {
	pipeCase
	Fault string `json:"fault"` // error | defer | syntax | panic | kill | defer-panic | defer-kill
	At    string `json:"at"`    // gen@pkgpath@type
	next  *POut
}

func (c *faultCase) kills() bool  { return c.Fault == "kill" || c.Fault == "defer-kill" }
func (c *faultCase) panics() bool { return c.Fault == "panic" || c.Fault == "defer-panic" }

func (c *faultCase) outcome() *POut {
	if c.out == nil {
		if c.kills() {
			c.out, c.next = runKillScenario(&c.S)
		} else {
			c.out = runScenarios([]*PScn{&c.S}, 1)[0]
		}
	}
	return c.out
}

func (c *faultCase) Run() string {
	o := c.outcome()
	if c.kills() {
		return "result=" + o.Result + " sum=" + o.Sum
	}
	return c.S.canonImpl(o)
}

func (c *faultCase) Line() string {
	if c.kills() || c.panics() {
		return ""
	}
	if c.Fault == "cancel" && c.outcome().Result != "ok" {
		return "" // a run that gives up is outside the model (which, like the unchanged code, goes on); the oracle judges it
	}
	c.pipeCase.out = c.outcome()
	return c.pipeCase.Line()
}

func (c *faultCase) CanonModel(m string) string { return c.S.canonModel(c.outcome(), m) }

func (c *faultCase) Oracle(out string) string {
	o := c.outcome()
	if c.kills() {
		if o.Result != "killed" {
			return "" // the kill point was not reached in this scenario (package cached or type not dispatched)
		}
		prev := "none"
		if o.HasPrev {
			prev = hx(o.PrevSum)
		}
		if o.Sum != prev {
			return "the process died inside " + map[bool]string{false: "GenerateType", true: "a deferred callback"}[c.Fault == "defer-kill"] + " and gengo.sum was rewritten"
		}
		if c.next != nil && c.S.All && c.next.Result == "ok" {
			// the next run must not trust the half-done work: the package in which the process died is generated again
			pkg := strings.Split(c.At, "@")[1]
			seen := false
			for _, call := range c.next.Calls {
				if strings.Contains(call, "@"+pkg+"@") {
					seen = true
				}
			}
			if !seen {
				return "after the process died in " + pkg + " the next run skipped that package as cached"
			}
		}
		return ""
	}
	if c.panics() {
		if !strings.HasPrefix(o.Result, "panic:") {
			if o.Result == "ok" {
				return "" // not reached
			}
			return "a generator panic surfaced as " + o.Result
		}
		// a run that dies unwinding a panic is a process death: gengo.sum untouched, the package's files as they were
		prev := "none"
		if o.HasPrev {
			prev = hx(o.PrevSum)
		}
		if o.Sum != prev {
			return "the run died with a panic inside GenerateType and gengo.sum was rewritten while unwinding"
		}
		pkgDir := ""
		for _, p := range c.S.Pkgs {
			if strings.Contains(c.At, "@"+p.path()+"@") {
				pkgDir = p.Dir
			}
		}
		for rel, b := range o.Before {
			if filepath.Dir(rel) == pkgDir && o.After[rel] != b {
				return "the run died with a panic in package " + pkgDir + " and " + rel + " was changed"
			}
		}
		return ""
	}
	if o.Result == "ok" {
		// the injected fault was not reached (type disabled, package cached, …): judged as an ordinary run
		return c.S.judge(o, "calls files other sum")
	}
	if c.Fault == "cancel" && !strings.HasPrefix(o.Result, "harness:") && o.Result != "loaderr" && !strings.HasPrefix(o.Result, "panic:") {
		// nothing failed but the caller gave up: whether Execute goes on (the unchanged code) or returns an error is
		// not the property's business — a run that returns an error has not executed every package and must leave
		// gengo.sum as it was
		prev := "none"
		if o.HasPrev {
			prev = hx(o.PrevSum)
		}
		if o.Sum != prev {
			return "the run gave up on a cancelled context, returned " + o.Result + " (" + o.ErrText + ") and rewrote gengo.sum"
		}
		return ""
	}
	return c.S.judge(o, "errors files other sum")
}

func (c *faultCase) Shrinks() []Case {
	var out []Case
	for _, s := range c.pipeCase.Shrinks() {
		pc := s.(*pipeCase)
		if _, ok := pc.S.Reacts[c.At]; !ok && c.Fault != "kill" && c.Fault != "cancel" {
			continue
		}
		out = append(out, &faultCase{pipeCase: pipeCase{S: pc.S, Clauses: c.Clauses}, Fault: c.Fault, At: c.At})
	}
	return out
}

func (c *faultCase) Classes() []string { return append(c.pipeCase.Classes(), "fault:"+c.Fault) }
func (c *faultCase) Nontrivial() bool  { return true }
func (c *faultCase) Key() string       { return c.Fault + "@" + c.At + " " + c.pipeCase.Key() }

func faultBatch(cases []Case) []string {
	var scns []*PScn
	var idx []int
	for i, c := range cases {
		fc := c.(*faultCase)
		if !fc.kills() {
			scns = append(scns, &fc.S)
			idx = append(idx, i)
		}
	}
	outs := runScenarios(scns, 16)
	for j, i := range idx {
		cases[i].(*faultCase).out = outs[j]
	}
	// kill cases: each owns a directory and two child processes
	sem := make(chan struct{}, 12)
	done := make(chan struct{})
	n := 0
	for _, c := range cases {
		fc := c.(*faultCase)
		if fc.kills() {
			n++
			go func() {
				sem <- struct{}{}
				fc.outcome()
				<-sem
				done <- struct{}{}
			}()
		}
	}
	for i := 0; i < n; i++ {
		<-done
	}
	res := make([]string, len(cases))
	for i, c := range cases {
		res[i] = c.Run()
	}
	return res
}

// faultVariants enumerates, for a fault-free base scenario, one variant per (call, fault kind).
func faultVariants(base PScn, yield func(*faultCase)) {
	// fault-free outcome needs hashes only for the cache decision: enumerate over every enabled call of
	// every loaded package regardless (a fault that is not reached is judged as an ordinary run)
	loaded := base.loaded()
	for pi := range base.Pkgs {
		if !loaded[pi] {
			continue
		}
		for _, g := range base.Gens {
			for _, call := range base.expectedCalls(pi, g) {
				key := strings.TrimSuffix(call, "!")
				for _, f := range []struct{ fault, code string }{{"error", "fv-"}, {"defer", "ove"}, {"syntax", "ox-"}, {"panic", "pv-"}, {"kill", ""}, {"defer-panic", "ovq"}, {"defer-kill", "ovk"}} {
					n := cloneScn(base)
					if f.fault == "kill" {
						n.Kill = key
					} else {
						n.Reacts[key] = f.code
					}
					yield(&faultCase{pipeCase: pipeCase{S: n, Clauses: "errors files other sum"}, Fault: f.fault, At: key})
				}
				// the caller gives up (its context is cancelled) inside this call: alone — the unchanged code goes on as if
				// nothing had happened, and whatever a run does about it, one that fails must fail like any other —, and
				// together with an error of the same call or a syntax error in what it rendered
				for _, f := range []struct{ fault, code string }{{"cancel", ""}, {"cancel-error", "fv-"}, {"cancel-syntax", "ox-"}} {
					n := cloneScn(base)
					n.Cancel = key
					if f.code != "" {
						n.Reacts[key] = f.code
					}
					yield(&faultCase{pipeCase: pipeCase{S: n, Clauses: "errors files other sum"}, Fault: f.fault, At: key})
				}
			}
		}
	}
}

// ---------------------------------------------------------------- C05: alone = together

// zooCase (C05): a run over packages of two modules — the main one and `zoo`, a module with a dot-less path reached
// through a replace directive — against a run on zoo/p alone.  What zoo/p's generator renders refers to a standard
// library package and to zoo/dep: how those imports are grouped depends on the module path and go version the
// formatter is told, which are those of zoo/p's own module whatever else the run generates.
type zooCase struct {
	S        PScn `json:"scenario"`
	together *POut
	alone    *POut
}

const zooFile = "zoo/p/" + pipeBase + ".rec.go"

func (c *zooCase) ensure() {
	if c.together != nil {
		return
	}
	a, b := cloneScn(c.S), cloneScn(c.S)
	a.Zoo, b.Zoo = 1, 2
	outs := runScenarios([]*PScn{&a, &b}, 2)
	c.together, c.alone = outs[0], outs[1]
}
func (c *zooCase) Line() string { return "" }
func (c *zooCase) Run() string {
	c.ensure()
	return "together=" + c.together.Result + " alone=" + c.alone.Result + " file=" + hx(c.together.Texts[zooFile])
}
func (c *zooCase) Oracle(out string) string {
	c.ensure()
	if c.together.Result != "ok" || c.alone.Result != "ok" {
		if c.together.Result != c.alone.Result && c.alone.Result == "ok" {
			return "zoo/p generates alone but the run together with the main module's packages ends with " + c.together.Result + " " + c.together.ErrText
		}
		return ""
	}
	if c.alone.Texts[zooFile] == "" {
		return "the run on zoo/p alone wrote no " + zooFile
	}
	if c.together.Texts[zooFile] != c.alone.Texts[zooFile] {
		return fmt.Sprintf("%s differs between the run on zoo/p alone and the run together with packages of the main module:\n--- alone\n%s\n--- together\n%s", zooFile, c.alone.Texts[zooFile], c.together.Texts[zooFile])
	}
	return ""
}
func (c *zooCase) Shrinks() []Case {
	var out []Case
	if len(c.S.Pkgs) > 1 {
		n := cloneScn(c.S)
		n.Pkgs = n.Pkgs[:1]
		n.Entry = []int{0}
		out = append(out, &zooCase{S: n})
	}
	key := "rec@zoo/p@P"
	for i := range c.S.Custom[key] {
		n := cloneScn(c.S)
		n.Custom = map[string][]PItem{key: append(append([]PItem{}, c.S.Custom[key][:i]...), c.S.Custom[key][i+1:]...)}
		out = append(out, &zooCase{S: n})
	}
	return out
}
func (c *zooCase) Key() string {
	var ks []string
	for _, it := range c.S.Custom["rec@zoo/p@P"] {
		ks = append(ks, it.Path)
	}
	return fmt.Sprintf("go %s/%s %d pkgs refs %s", c.S.GoVer, c.S.ZooGo, len(c.S.Pkgs), strings.Join(ks, ","))
}
func (c *zooCase) Classes() []string {
	return []string{"main-go:" + c.S.GoVer, "zoo-go:" + c.S.ZooGo, fmt.Sprintf("main-packages:%d", len(c.S.Pkgs)), fmt.Sprintf("results-of:%v", c.S.ZooFns)}
}
func (c *zooCase) Nontrivial() bool { return true }
func (c *zooCase) InDomain() bool   { return true }

func genZoo(r *Rng, i int) Case {
	s := PScn{Reacts: map[string]string{}, Custom: map[string][]PItem{}, Prev: "none", Gens: []PGen{{Name: "rec", CustomNew: r.Bool()}}}
	s.GoVer = Pick(r, []string{"1.24", "1.21", "1.12", "1.18"})
	s.ZooGo = Pick(r, []string{"1.24", "1.12", "1.22"})
	if s.ZooGo > s.GoVer { // a module cannot require one written for a newer go than its own
		s.GoVer = "1.24"
	}
	for k := 1 + r.Intn(2); k > 0; k-- {
		p := PPkg{Dir: fmt.Sprintf("a%d", k), PkgTags: []PTag{{"gengo:rec", []string{""}}}, Types: []PType{{Name: "A", Kind: "n"}}}
		s.Reacts["rec@"+pipeMod+"/"+p.Dir+"@A"] = "ov-"
		s.Entry = append(s.Entry, len(s.Pkgs))
		s.Pkgs = append(s.Pkgs, p)
	}
	key := "rec@zoo/p@P"
	s.Reacts[key] = "ob-"
	items := []PItem{{K: "ref", S: "var _ = @ref\n", Path: Pick(r, []string{"fmt", "strings", "os"}), Name: map[string]string{"fmt": "Sprint", "strings": "ToLower", "os": "Exit"}["fmt"]}}
	items[0].Name = map[string]string{"fmt": "Sprint", "strings": "ToLower", "os": "Exit"}[items[0].Path]
	items = append(items, PItem{K: "ref", S: "var _ = @ref\n", Path: "zoo/dep", Name: "F"})
	if r.Bool() {
		items = append(items, PItem{K: "block", S: "var Octal = 0644\n"}) // rewritten to 0o644 from go 1.13 on
	}
	for a := len(items) - 1; a > 0; a-- {
		b := r.Intn(a + 1)
		items[a], items[b] = items[b], items[a]
	}
	s.Custom[key] = items
	if r.Bool() {
		// the generator also renders what ResultsOf says: about Q in the first package of the main module (which draws
		// on zoo/p's B and A) and about A in zoo/p
		s.ZooFns = true
		s.Custom[key] = append(s.Custom[key], PItem{K: "results", Name: "A"}, PItem{K: "results", Name: "B"})
		k0 := "rec@" + s.Pkgs[0].path() + "@A"
		s.Reacts[k0] = "ob-"
		s.Custom[k0] = []PItem{{K: "results", Name: "Q"}}
	}
	return &zooCase{S: s}
}

// zooFaultCase (C02): an All run over packages of two modules in which the generator fails (or renders something that
// does not parse) for zoo/p — the package of the other module, which comes last in import-path order.  A failed run
// marks no work as done: no gengo.sum of any module may be created or rewritten.
type zooFaultCase struct {
	S   PScn `json:"scenario"`
	out *POut
}

func (c *zooFaultCase) ensure() {
	if c.out == nil {
		c.out = runScenarios([]*PScn{&c.S}, 1)[0]
	}
}
func (c *zooFaultCase) Line() string { return "" }
func (c *zooFaultCase) Run() string {
	c.ensure()
	var sums []string
	for rel := range c.out.After {
		if filepath.Base(rel) == "gengo.sum" {
			sums = append(sums, rel)
		}
	}
	sort.Strings(sums)
	return "result=" + strings.SplitN(c.out.Result, ":", 2)[0] + " sums=" + strings.Join(sums, ",")
}
func (c *zooFaultCase) Oracle(out string) string {
	c.ensure()
	o := c.out
	if o.Result == "ok" {
		return "the generator failed for zoo/p and Execute returned no error"
	}
	if o.Result == "loaderr" || strings.HasPrefix(o.Result, "harness") {
		return ""
	}
	for rel, h := range o.After {
		if filepath.Base(rel) == "gengo.sum" && o.Before[rel] != h {
			return fmt.Sprintf("the run failed (%s) and %s was written", o.Result, rel)
		}
	}
	return ""
}
func (c *zooFaultCase) Shrinks() []Case {
	var out []Case
	if len(c.S.Pkgs) > 1 {
		n := cloneScn(c.S)
		n.Pkgs, n.Entry = n.Pkgs[:1], []int{0}
		out = append(out, &zooFaultCase{S: n})
	}
	return out
}
func (c *zooFaultCase) Key() string {
	return fmt.Sprintf("%d main packages, zoo/p reacts %s, prev %s", len(c.S.Pkgs), c.S.Reacts["rec@zoo/p@P"], c.S.Prev)
}
func (c *zooFaultCase) Classes() []string {
	return []string{"fault:" + c.S.Reacts["rec@zoo/p@P"], "prev:" + c.S.Prev, fmt.Sprintf("main-packages:%d", len(c.S.Pkgs))}
}
func (c *zooFaultCase) Nontrivial() bool { return true }
func (c *zooFaultCase) InDomain() bool   { return true }

func genZooFault(r *Rng, i int) Case {
	s := PScn{Reacts: map[string]string{}, Custom: map[string][]PItem{}, Prev: "none", All: true, Zoo: 1, Gens: []PGen{{Name: "rec", CustomNew: r.Bool()}}}
	for k := 1 + r.Intn(3); k > 0; k-- {
		p := PPkg{Dir: fmt.Sprintf("a%d", k), PkgTags: []PTag{{"gengo:rec", []string{""}}}, Types: []PType{{Name: "A", Kind: "n"}}}
		s.Reacts["rec@"+pipeMod+"/"+p.Dir+"@A"] = "ov-"
		s.Entry = append(s.Entry, len(s.Pkgs))
		s.Pkgs = append(s.Pkgs, p)
	}
	s.Reacts["rec@zoo/p@P"] = Pick(r, []string{"fv-", "fn-", "ox-", "ove"}) // error / error / unparseable rendering / failing deferred callback
	if r.Bool() {
		s.Prev = strings.Repeat("c", len(s.Pkgs)) // a sum file of an earlier run is there
	}
	return &zooFaultCase{S: s}
}

// interruptedCase (C04): a run that fails half way (a generator error for one type), then — the cause gone, the sources
// unchanged — two more runs, against three runs on a tree nothing ever disturbed: the generated files and gengo.sum are
// the same bytes in the end.  (What a run produces is a function of the sources, not of how earlier runs ended.)
type interruptedCase struct {
	S               PScn   `json:"scenario"`
	Fail            string `json:"fail"` // gen@pkgpath@type: the call that fails in the first run
	disturbed, calm *POut
}

func (c *interruptedCase) ensure() {
	if c.calm != nil {
		return
	}
	ref := cloneScn(c.S)
	ref.Runs = 3
	c.calm = runScenarios([]*PScn{&ref}, 1)[0]
	root, err := os.MkdirTemp("", "vhint")
	if err != nil {
		c.disturbed = &POut{Result: "harness:" + err.Error()}
		return
	}
	defer os.RemoveAll(root)
	first := cloneScn(c.S)
	first.Root = root
	first.Reacts[c.Fail] = "fv-"
	runScenarios([]*PScn{&first}, 1)
	second := cloneScn(c.S)
	second.Root, second.Reuse, second.Runs = root, true, 2
	c.disturbed = runScenarios([]*PScn{&second}, 1)[0]
}

func lastTree(o *POut) map[string]string {
	if n := len(o.Runs); n > 0 {
		return o.Runs[n-1].After
	}
	return o.After
}
func (c *interruptedCase) Line() string { return "" }
func (c *interruptedCase) Run() string {
	c.ensure()
	return "calm=" + c.calm.Result + " disturbed=" + c.disturbed.Result
}
func (c *interruptedCase) Oracle(out string) string {
	c.ensure()
	if c.calm.Result != "ok" || c.disturbed.Result != "ok" {
		return ""
	}
	a, b := lastTree(c.calm), lastTree(c.disturbed)
	var rels []string
	for rel := range a {
		rels = append(rels, rel)
	}
	for rel := range b {
		if _, ok := a[rel]; !ok {
			rels = append(rels, rel)
		}
	}
	sort.Strings(rels)
	for _, rel := range rels {
		base := filepath.Base(rel)
		if !(strings.HasPrefix(base, pipeBase+".") || base == "gengo.sum") {
			continue
		}
		if a[rel] != b[rel] {
			return fmt.Sprintf("after a failed run (%s failing) and two more runs on the unchanged sources, %s is not what three runs on an undisturbed tree leave (undisturbed %q, disturbed %q)", c.Fail, rel, a[rel], b[rel])
		}
	}
	return ""
}
func (c *interruptedCase) Shrinks() []Case {
	var out []Case
	for i := range c.S.Pkgs {
		if len(c.S.Pkgs) < 2 || strings.Contains(c.Fail, "@"+c.S.Pkgs[i].path()+"@") {
			continue
		}
		n := cloneScn(c.S)
		n.Pkgs = append(append([]PPkg{}, n.Pkgs[:i]...), n.Pkgs[i+1:]...)
		n.Entry = nil
		for j := range n.Pkgs {
			n.Pkgs[j].Imports = nil
			n.Entry = append(n.Entry, j)
		}
		out = append(out, &interruptedCase{S: n, Fail: c.Fail})
	}
	return out
}
func (c *interruptedCase) Key() string {
	return fmt.Sprintf("%d packages, %s fails first", len(c.S.Pkgs), c.Fail)
}
func (c *interruptedCase) Classes() []string {
	return []string{fmt.Sprintf("packages:%d", len(c.S.Pkgs)), fmt.Sprintf("all:%v", c.S.All)}
}
func (c *interruptedCase) Nontrivial() bool { return true }
func (c *interruptedCase) InDomain() bool   { return true }

func genInterrupted(r *Rng, i int) Case {
	for {
		s := genScenario(r, pipeProfile{maxPkgs: 4, allChance: 100})
		s.All, s.Force, s.Prev = true, false, "none"
		// no scripted failures of its own, every package an entrypoint
		s.Entry = nil
		for j := range s.Pkgs {
			s.Entry = append(s.Entry, j)
		}
		var keys []string
		for k, v := range s.Reacts {
			if v[0] == 'f' || (len(v) > 2 && v[2] == 'e') || v[1] == 'x' {
				s.Reacts[k] = "ov-"
			}
			keys = append(keys, k)
		}
		sort.Strings(keys)
		sim := s.simulate(&POut{Hashes: map[string]string{}})
		// the failing call must be one that is really made
		var made []string
		for _, call := range sim.calls {
			made = append(made, strings.TrimSuffix(call, "!"))
		}
		if len(made) == 0 || len(s.Pkgs) < 2 {
			continue
		}
		return &interruptedCase{S: s, Fail: made[r.Intn(len(made))]}
	}
}

type aloneCase struct {
	pipeCase
	alone map[int]*POut
}

func (c *aloneCase) ensure() {
	if c.out == nil {
		c.out = runScenarios([]*PScn{&c.S}, 1)[0]
	}
	if c.alone == nil {
		c.alone = map[int]*POut{}
		var scns []*PScn
		var idx []int
		for i := range c.S.Pkgs {
			n := cloneScn(c.S)
			n.Alone = i + 1
			scns = append(scns, &n)
			idx = append(idx, i)
		}
		outs := runScenarios(scns, 4)
		for j, i := range idx {
			c.alone[i] = outs[j]
		}
	}
}

func (c *aloneCase) Run() string { c.ensure(); return c.S.canonImpl(c.out) }
func (c *aloneCase) Line() string {
	c.ensure()
	return c.pipeCase.Line()
}
func (c *aloneCase) CanonModel(m string) string { c.ensure(); return c.S.canonModel(c.out, m) }

func (c *aloneCase) Oracle(out string) string {
	c.ensure()
	if c.out.Result != "ok" {
		return ""
	}
	sim := c.S.simulate(c.out)
	for _, pi := range sim.processed {
		a := c.alone[pi]
		if a == nil || a.Result != "ok" {
			if a != nil && a.Result != "ok" {
				return fmt.Sprintf("package %s generates together with the others but fails alone: %s", c.S.Pkgs[pi].Dir, a.Result)
			}
			continue
		}
		dir := c.S.Pkgs[pi].Dir + "/"
		for rel, txt := range c.out.Texts {
			if strings.HasPrefix(rel, dir) && a.Texts[rel] != txt {
				return fmt.Sprintf("%s differs between the run on this package alone and the run together with the others:\n--- alone\n%s\n--- together\n%s", rel, a.Texts[rel], txt)
			}
		}
		for rel := range a.Texts {
			if strings.HasPrefix(rel, dir) {
				if _, ok := c.out.Texts[rel]; !ok {
					return rel + " exists after the run alone but not after the run together"
				}
			}
		}
	}
	return ""
}

func (c *aloneCase) Shrinks() []Case {
	var out []Case
	for _, s := range c.pipeCase.Shrinks() {
		out = append(out, &aloneCase{pipeCase: *s.(*pipeCase)})
	}
	return out
}

func aloneBatch(cases []Case) []string {
	var scns []*PScn
	type ref struct{ c, pkg int }
	var refs []ref
	for i, c := range cases {
		ac := c.(*aloneCase)
		scns = append(scns, &ac.S)
		refs = append(refs, ref{i, -1})
		for j := range ac.S.Pkgs {
			n := cloneScn(ac.S)
			n.Alone = j + 1
			scns = append(scns, &n)
			refs = append(refs, ref{i, j})
		}
	}
	outs := runScenarios(scns, 16)
	for k, r := range refs {
		ac := cases[r.c].(*aloneCase)
		if r.pkg < 0 {
			ac.out = outs[k]
			ac.alone = map[int]*POut{}
		} else {
			ac.alone[r.pkg] = outs[k]
		}
	}
	res := make([]string, len(cases))
	for i, c := range cases {
		res[i] = c.Run()
	}
	return res
}

// genAloneImports: scenarios in which every generator renders references into packages whose last path segments clash
func genAloneImports(r *Rng, i int) Case {
	s := genScenario(r, pipeProfile{extras: false, prev: false, maxPkgs: 4, allChance: 70})
	s.Globals = append(s.Globals, PTag{"gengo:rec", []string{""}})
	s.Custom = map[string][]PItem{}
	id := 0
	var keys []string
	for k := range s.Reacts {
		keys = append(keys, k)
	}
	sort.Strings(keys)
	for _, k := range keys {
		v := s.Reacts[k]
		if v[0] != 'o' && v[0] != 's' {
			continue
		}
		// references into packages whose last path segments clash: which local name a path gets depends on
		// what else the same file imports — and must depend on nothing else
		var items []PItem
		for n := 1 + r.Intn(3); n > 0; n-- {
			id++
			ref := Pick(r, c05Refs)
			items = append(items, PItem{K: "ref", S: fmt.Sprintf("var I%d *@ref\n", id), Path: ref.path, Name: ref.name})
		}
		s.Reacts[k] = string(v[0]) + "b" + v[2:]
		s.Custom[k] = items
	}
	return &aloneCase{pipeCase: pipeCase{S: s, Clauses: "calls"}}
}

var c05Refs = []struct{ path, name string }{
	{"example.com/x/codec", "Options"}, {"example.com/y/codec", "Options"}, {"example.org/a/v2", "T"}, {"example.org/b/v2", "T"},
	{"k8s.io/api/core/v1", "Pod"}, {"k8s.io/api/apps/v1", "Deployment"}, {"text/template", "Template"}, {"html/template", "Template"},
	{"math/rand", "Rand"}, {"crypto/rand", "Reader"},
}

// ---------------------------------------------------------------- C04: determinism

type detCase struct {
	pipeCase
	variants []*POut
}

func (c *detCase) variantScns() []*PScn {
	var scns []*PScn
	n := len(c.S.entries())
	perms := [][]int{nil}
	if n > 1 {
		rev := make([]int, n)
		rot := make([]int, n)
		for i := range rev {
			rev[i] = n - 1 - i
			rot[i] = (i + 1) % n
		}
		perms = append(perms, rev, rot)
	} else {
		perms = append(perms, nil, nil)
	}
	for _, p := range perms {
		v := cloneScn(c.S)
		v.Order = p
		v.Runs = 3
		scns = append(scns, &v)
	}
	if len(c.S.Gens) > 1 {
		// the same set of generators handed over in the opposite order (last variant)
		v := cloneScn(c.S)
		v.GenRev = true
		scns = append(scns, &v)
	}
	return scns
}

func (c *detCase) ensure() {
	if c.variants == nil {
		scns := c.variantScns()
		c.variants = runScenarios(scns, len(scns))
		c.out = c.variants[0]
	}
}
func (c *detCase) Run() string { c.ensure(); return c.S.canonImpl(c.out) }
func (c *detCase) Line() string {
	c.ensure()
	s := c.S
	s.Runs = 0
	pc := pipeCase{S: s, out: c.out}
	return pc.Line()
}
func (c *detCase) CanonModel(m string) string { c.ensure(); return c.S.canonModel(c.out, m) }

func genNames(gs []PGen) string {
	var ns []string
	for _, g := range gs {
		ns = append(ns, g.Name)
	}
	return strings.Join(ns, ",")
}

func genFilesOf(after map[string]string) map[string]string {
	m := map[string]string{}
	for rel, h := range after {
		if strings.HasPrefix(filepath.Base(rel), pipeBase+".") {
			m[rel] = h
		}
	}
	return m
}

func sameMap(a, b map[string]string) string {
	for k, v := range a {
		if b[k] != v {
			return k
		}
	}
	for k := range b {
		if _, ok := a[k]; !ok {
			return k
		}
	}
	return ""
}

func (c *detCase) Oracle(out string) string {
	c.ensure()
	base := c.variants[0]
	if last := c.variants[len(c.variants)-1]; len(c.S.Gens) > 1 && len(c.variants) > 3 && base.Result == "ok" && last.Result == "ok" {
		// generators in the opposite order: every generator has a file of its own, so the files are the same (the calls
		// come in another order, and a failing run may fail in another generator first: neither is compared)
		if k := sameMap(base.Texts, last.Texts); k != "" {
			return fmt.Sprintf("%s differs between two runs on identical module contents that were handed the same generators in opposite orders:\n--- %s\n%s\n--- reversed\n%s", k, genNames(c.S.Gens), base.Texts[k], last.Texts[k])
		}
		if last.Sum != base.Sum {
			return "gengo.sum differs between two runs that were handed the same generators in opposite orders"
		}
	}
	for i, v := range c.variants[1:] {
		if len(c.S.Gens) > 1 && len(c.variants) > 3 && i == len(c.variants)-2 {
			break // the generator-order variant, judged above
		}
		if v.Result != base.Result && !(strings.HasPrefix(v.Result, "syntax:") && strings.HasPrefix(base.Result, "syntax:")) {
			return fmt.Sprintf("run %d (entrypoints permuted, fresh process) returned %s, run 0 returned %s", i+1, v.Result, base.Result)
		}
		if base.Result != "ok" {
			continue
		}
		if k := sameMap(base.Texts, v.Texts); k != "" {
			return fmt.Sprintf("%s differs between two runs on identical module contents (entrypoints permuted, fresh process):\n--- run 0\n%s\n--- run %d\n%s", k, base.Texts[k], i+1, v.Texts[k])
		}
		if v.Sum != base.Sum {
			return "gengo.sum differs between two runs on identical module contents"
		}
		if strings.Join(v.Calls, ",") != strings.Join(base.Calls, ",") {
			return "the order of GenerateType calls differs between two runs on identical module contents"
		}
	}
	if base.Result == "ok" {
		// running again on the result of a run changes no generated file
		prev := genFilesOf(base.After)
		for r, run := range base.Runs {
			if run.Result != "ok" {
				return fmt.Sprintf("run %d on the result of the previous run returned %s", r+2, run.Result)
			}
			cur := genFilesOf(run.After)
			if k := sameMap(prev, cur); k != "" {
				return fmt.Sprintf("generated file %s changed when gengo ran again (run %d) on the result of the previous run", k, r+2)
			}
			prev = cur
		}
		// convergence: the third run regenerates nothing when All is set and nothing forces it
		if c.S.All && !c.S.Force && len(base.Runs) >= 2 && len(base.Runs[1].Calls) > 0 {
			return "the third run on unchanged inputs still regenerated: " + strings.Join(base.Runs[1].Calls, " ")
		}
	}
	return ""
}

func (c *detCase) Shrinks() []Case {
	var out []Case
	for _, s := range c.pipeCase.Shrinks() {
		out = append(out, &detCase{pipeCase: *s.(*pipeCase)})
	}
	return out
}

func detBatch(cases []Case) []string {
	var scns []*PScn
	var owner []int
	for i, c := range cases {
		for _, v := range c.(*detCase).variantScns() {
			scns = append(scns, v)
			owner = append(owner, i)
		}
	}
	outs := runScenarios(scns, 16)
	for k, i := range owner {
		dc := cases[i].(*detCase)
		dc.variants = append(dc.variants, outs[k])
	}
	res := make([]string, len(cases))
	for i, c := range cases {
		dc := c.(*detCase)
		dc.out = dc.variants[0]
		res[i] = dc.S.canonImpl(dc.out)
	}
	return res
}

// ---------------------------------------------------------------- C08: sum file round trip (direct, no go list)

type sumCase struct {
	Keys []string `json:"keys"`
	Vals []string `json:"vals"`
}

func (c sumCase) data() map[string]string {
	m := map[string]string{}
	for i, k := range c.Keys {
		m[k] = c.Vals[i]
	}
	return m
}
func (c sumCase) Line() string {
	var b strings.Builder
	b.WriteString("sumrt")
	m := c.data()
	ks := make([]string, 0, len(m))
	for k := range m {
		ks = append(ks, k)
	}
	// deliberately NOT in ascending order: the model sorts itself
	sort.Sort(sort.Reverse(sort.StringSlice(ks)))
	for i := 0; i < len(ks); i++ {
		b.WriteString(" " + hx(ks[i]) + " " + hx(m[ks[i]]))
	}
	return b.String()
}
func (c sumCase) Run() string {
	return guard(func() string {
		dir, err := os.MkdirTemp("", "vhsum")
		if err != nil {
			return "harness"
		}
		defer os.RemoveAll(dir)
		f := &sumfile.File{Dir: dir, Data: c.data()}
		if err := f.Save(); err != nil {
			return "err:save"
		}
		raw, _ := os.ReadFile(filepath.Join(dir, "gengo.sum"))
		g, err := sumfile.Load(dir)
		if err != nil {
			return "err:load"
		}
		ks := make([]string, 0, len(g.Data))
		for k := range g.Data {
			ks = append(ks, k)
		}
		sort.Strings(ks)
		var o []string
		for _, k := range ks {
			o = append(o, hx(k)+"="+hx(g.Data[k]))
		}
		return "bytes=" + hx(string(raw)) + " load=" + strings.Join(o, ",")
	})
}
func (c sumCase) InDomain() bool {
	// import paths and h1: hashes: non-empty, no white space
	for i, k := range c.Keys {
		if k == "" || c.Vals[i] == "" || strings.ContainsAny(k+c.Vals[i], " \t\n\r\v\f\u0085 ") {
			return false
		}
	}
	return true
}
func (c sumCase) Oracle(out string) string {
	m := c.data()
	ks := make([]string, 0, len(m))
	for k := range m {
		ks = append(ks, k)
	}
	sort.Strings(ks)
	var want, lo []string
	for _, k := range ks {
		want = append(want, k+" "+m[k]+"\n")
		lo = append(lo, hx(k)+"="+hx(m[k]))
	}
	exp := "bytes=" + hx(strings.Join(want, "")) + " load=" + strings.Join(lo, ",")
	if out != exp {
		return "Save/Load do not round-trip the mapping as sorted `path hash` lines: " + out + " vs " + exp
	}
	return ""
}
func (c sumCase) Shrinks() []Case {
	var out []Case
	for i := range c.Keys {
		out = append(out, sumCase{append(append([]string{}, c.Keys[:i]...), c.Keys[i+1:]...), append(append([]string{}, c.Vals[:i]...), c.Vals[i+1:]...)})
	}
	return out
}
func (c sumCase) Key() string       { b, _ := json.Marshal(c); return string(b) }
func (c sumCase) Classes() []string { return []string{fmt.Sprintf("entries:%d", len(c.Keys))} }
func (c sumCase) Nontrivial() bool  { return len(c.Keys) > 1 }

// ---------------------------------------------------------------- C08: histories on a real module

// histCase: Ops is a list of steps applied to one persistent tree, each followed by its effect:
//
//	edit:<p>  add:<p>  del:<p>      change / add / delete a source file of package p
//	typeerr:<p>                      change a source file of p so that p has a type error of its own (it still loads)
//	rmsum  corrupt                   delete / corrupt gengo.sum
//	run  force  fail:<p>  sub:<p>    Execute with All / with All+Force / with a generator error in p / on entrypoint p only (no All)
//	cancel:<p>                       Execute with All, the caller's context being cancelled while p is generated
type histCase struct {
	S   PScn     `json:"scenario"`
	Ops []string `json:"ops"`
	res *histOut
}

type histRun struct {
	Op        string            `json:"op"`
	Result    string            `json:"result"`
	Generated []string          `json:"generated"` // package paths that were generated
	Content   map[string]string `json:"content"`   // harness's own content id of every package dir at load time
	SumBefore string            `json:"sum_before"`
	SumAfter  string            `json:"sum_after"`
	Hashes    map[string]string `json:"hashes"`
}

type histOut struct {
	Runs []histRun `json:"runs"`
	Err  string    `json:"err,omitempty"`
}

func dirContentID(dir string) string {
	es, err := os.ReadDir(dir)
	if err != nil {
		return "unreadable"
	}
	h := sha256.New()
	for _, e := range es {
		b, _ := os.ReadFile(filepath.Join(dir, e.Name()))
		fmt.Fprintf(h, "%s\x00%d\x00", e.Name(), len(b))
		h.Write(b)
	}
	return hex.EncodeToString(h.Sum(nil)[:8])
}

func init() {
	childHandlers["hist"] = func(args []string) int {
		outF := os.NewFile(3, "out")
		devnull, _ := os.OpenFile(os.DevNull, os.O_WRONLY, 0)
		os.Stdout = devnull
		var c histCase
		if err := json.NewDecoder(os.Stdin).Decode(&c); err != nil {
			return 2
		}
		b, _ := json.Marshal(runHistoryHere(&c))
		outF.Write(b)
		outF.Write([]byte("\n"))
		return 0
	}
}

func runHistoryHere(c *histCase) *histOut {
	out := &histOut{}
	root, err := os.MkdirTemp("", "vhhist")
	if err != nil {
		out.Err = err.Error()
		return out
	}
	defer os.RemoveAll(root)
	dir := filepath.Join(root, "m")
	os.MkdirAll(dir, 0o755)
	s := c.S
	if err := s.materialise(dir); err != nil {
		out.Err = err.Error()
		return out
	}
	os.Chdir(dir)
	defer os.Chdir("/")
	counter := 0
	for _, op := range c.Ops {
		f := strings.SplitN(op, ":", 2)
		pd := ""
		pi := -1
		if len(f) == 2 {
			fmt.Sscanf(f[1], "%d", &pi)
			if pi >= 0 && pi < len(s.Pkgs) {
				pd = filepath.Join(dir, s.Pkgs[pi].Dir)
			}
		}
		counter++
		switch f[0] {
		case "edit":
			os.WriteFile(filepath.Join(pd, "edit.go"), []byte(fmt.Sprintf("package %s\n\nconst edited = %d\n", s.Pkgs[pi].Dir, counter)), 0o644)
		case "inplace":
			// an edit that keeps the file's name, length and modification time (cp -p, rsync -t --inplace, tar -x, a file
			// system with coarse timestamps): one digit of edit.go changes; the directory has changed like after any edit
			name := filepath.Join(pd, "edit.go")
			st, err := os.Stat(name)
			b, _ := os.ReadFile(name)
			done := false
			if err == nil {
				for q := len(b) - 1; q >= 0; q-- {
					if b[q] >= '0' && b[q] <= '9' {
						b[q] = '0' + (b[q]-'0'+1)%10
						os.WriteFile(name, b, 0o644)
						os.Chtimes(name, st.ModTime(), st.ModTime())
						done = true
						break
					}
				}
			}
			if !done {
				os.WriteFile(name, []byte(fmt.Sprintf("package %s\n\nconst edited = %d\n", s.Pkgs[pi].Dir, counter)), 0o644)
			}
		case "typeerr":
			// an edit that leaves the package with a type error of its own (an undefined name): it still loads, its
			// declarations are still there, its directory has changed
			os.WriteFile(filepath.Join(pd, "edit.go"), []byte(fmt.Sprintf("package %s\n\nconst edited = %d\n\nvar _ = notDeclaredAnywhere%d\n", s.Pkgs[pi].Dir, counter, counter)), 0o644)
		case "link":
			// a source file that is a symbolic link to a file outside the package directory; every `link` points it elsewhere
			shared := filepath.Join(dir, "_shared")
			os.MkdirAll(shared, 0o755)
			name := fmt.Sprintf("%s_v%d.go", s.Pkgs[pi].Dir, counter)
			os.WriteFile(filepath.Join(shared, name), []byte(fmt.Sprintf("package %s\n\nconst linked = %d\n", s.Pkgs[pi].Dir, counter)), 0o644)
			os.Remove(filepath.Join(pd, "linked.go"))
			os.Symlink(filepath.Join("..", "_shared", name), filepath.Join(pd, "linked.go"))
		case "linkedit":
			// the file behind the link changes, the link itself does not
			if t, err := os.Readlink(filepath.Join(pd, "linked.go")); err == nil {
				os.WriteFile(filepath.Join(pd, t), []byte(fmt.Sprintf("package %s\n\nconst linked = %d\n", s.Pkgs[pi].Dir, 1000+counter)), 0o644)
			}
		case "add":
			os.WriteFile(filepath.Join(pd, fmt.Sprintf("added%d.txt", counter%3)), []byte(fmt.Sprint(counter)), 0o644)
		case "del":
			os.Remove(filepath.Join(pd, "edit.go"))
			os.Remove(filepath.Join(pd, "linked.go"))
			for i := 0; i < 3; i++ {
				os.Remove(filepath.Join(pd, fmt.Sprintf("added%d.txt", i)))
			}
		case "delgen":
			es, _ := os.ReadDir(pd)
			for _, e := range es {
				if strings.HasPrefix(e.Name(), pipeBase+".") {
					os.Remove(filepath.Join(pd, e.Name()))
					break
				}
			}
		case "rmsum":
			os.Remove(filepath.Join(dir, "gengo.sum"))
		case "corrupt":
			os.WriteFile(filepath.Join(dir, "gengo.sum"), []byte("\x00garbage\n\n"), 0o644)
		case "run", "force", "fail", "sub", "cancel":
			r := cloneScn(s)
			r.All, r.Force = true, f[0] == "force"
			if f[0] == "cancel" && pi >= 0 {
				// the caller's context is cancelled while package pi is being generated
				for _, t := range s.Pkgs[pi].Types {
					if t.defined() {
						r.Cancel = "rec@" + s.Pkgs[pi].path() + "@" + t.Name
					}
				}
			}
			if f[0] == "fail" && pi >= 0 {
				for _, t := range s.Pkgs[pi].Types {
					if t.defined() {
						r.Reacts["rec@"+s.Pkgs[pi].path()+"@"+t.Name] = "fv-"
					}
				}
			}
			if f[0] == "sub" && pi >= 0 {
				r.All = false
				r.Entry = []int{pi}
			}
			hr := histRun{Op: op, Content: map[string]string{}, Hashes: map[string]string{}, SumBefore: "none", SumAfter: "none"}
			for _, p := range s.Pkgs {
				hr.Content[p.path()] = dirContentID(filepath.Join(dir, p.Dir))
			}
			if b, err := os.ReadFile(filepath.Join(dir, "gengo.sum")); err == nil {
				hr.SumBefore = string(b)
			}
			sc := &script{reacts: r.Reacts, bodies: map[string]*strings.Builder{}}
			hr.Result, _ = r.executeOnce(dir, sc)
			gen := map[string]bool{}
			for _, call := range sc.calls {
				gen[strings.Split(call, "@")[1]] = true
			}
			for g := range gen {
				hr.Generated = append(hr.Generated, g)
			}
			sort.Strings(hr.Generated)
			if b, err := os.ReadFile(filepath.Join(dir, "gengo.sum")); err == nil {
				hr.SumAfter = string(b)
			}
			out.Runs = append(out.Runs, hr)
		}
	}
	return out
}

func (c *histCase) outcome() *histOut {
	if c.res == nil {
		c.res = runHistories([]*histCase{c}, 1)[0]
	}
	return c.res
}

func runHistories(cs []*histCase, workers int) []*histOut {
	outs := make([]*histOut, len(cs))
	sem := make(chan struct{}, workers)
	done := make(chan struct{})
	for i := range cs {
		go func(i int) {
			sem <- struct{}{}
			defer func() { <-sem; done <- struct{}{} }()
			outs[i] = runHistoryChild(cs[i])
		}(i)
	}
	for range cs {
		<-done
	}
	return outs
}

func runHistoryChild(c *histCase) *histOut {
	b, _ := json.Marshal(c)
	o := &histOut{}
	raw := runChildJSON("hist", b)
	if json.Unmarshal(raw, o) != nil {
		o.Err = "child failed"
	}
	return o
}

func (c *histCase) Line() string { return "" }
func (c *histCase) Run() string {
	o := c.outcome()
	var parts []string
	for _, r := range o.Runs {
		parts = append(parts, r.Op+"→"+r.Result+"["+strings.Join(r.Generated, ",")+"]")
	}
	return strings.Join(parts, " ") + o.Err
}

// every enabled defined type renders, so "package generated" = "GenerateType called in it"
func (c *histCase) Oracle(out string) string {
	o := c.outcome()
	if o.Err != "" {
		return ""
	}
	recorded := map[string]string{} // content at load time of the last successful All run that wrote the sum, per package
	sumValid := false
	hasTypes := map[string]bool{}
	for _, p := range c.S.Pkgs {
		for _, t := range p.Types {
			if t.defined() {
				hasTypes[p.path()] = true
			}
		}
	}
	ri := 0
	for opIdx, op := range c.Ops {
		f := strings.SplitN(op, ":", 2)
		switch f[0] {
		case "rmsum", "corrupt":
			sumValid = false
			recorded = map[string]string{}
			continue
		case "run", "force", "fail", "sub", "cancel":
		default:
			continue
		}
		if ri >= len(o.Runs) {
			break
		}
		r := o.Runs[ri]
		ri++
		gen := map[string]bool{}
		for _, g := range r.Generated {
			gen[g] = true
		}
		if f[0] == "sub" {
			// no All: the cache plays no part, the sum file is not touched
			if r.SumAfter != r.SumBefore {
				return fmt.Sprintf("step %q (no All) rewrote gengo.sum", op)
			}
			continue
		}
		failedPkg := ""
		if f[0] == "fail" {
			var pi int
			fmt.Sscanf(f[1], "%d", &pi)
			failedPkg = c.S.Pkgs[pi].path()
		}
		for _, p := range c.S.Pkgs {
			pp := p.path()
			if !hasTypes[pp] {
				continue
			}
			mustRegen := f[0] == "force" || !sumValid || recorded[pp] == "" || recorded[pp] != r.Content[pp]
			if strings.HasPrefix(r.Result, "generate:") && pp > failedPkg {
				continue // the run stopped at the failing package
			}
			if r.Result != "ok" && !strings.HasPrefix(r.Result, "generate:") {
				continue // the run gave up for another reason (a cancelled context, say): where it stopped is its own business — what it must not do is record work as done (judged below)
			}
			if mustRegen && !gen[pp] {
				return fmt.Sprintf("step %q: package %s was skipped as cached although its directory changed since the sum was recorded (or the sum was missing / Force was set)", op, p.Dir)
			}
			tail := opIdx >= 2 && c.Ops[opIdx-1] == "run" && c.Ops[opIdx-2] == "run" && op == "run"
			if tail && !mustRegen && gen[pp] {
				return fmt.Sprintf("step %q: package %s was regenerated although its directory is unchanged and its hash is recorded (no convergence)", op, p.Dir)
			}
		}
		if r.Result == "ok" {
			// the sum now holds the load-time hashes of every local package
			want := []string{}
			for _, p := range c.S.Pkgs {
				recorded[p.path()] = r.Content[p.path()]
			}
			sumValid = true
			_ = want
			lines := strings.Split(strings.TrimSuffix(r.SumAfter, "\n"), "\n")
			if !sort.StringsAreSorted(lines) || len(lines) != len(c.S.Pkgs) {
				return fmt.Sprintf("after step %q gengo.sum is not one sorted line per local package: %q", op, r.SumAfter)
			}
		} else if r.SumAfter != r.SumBefore {
			return fmt.Sprintf("step %q failed (%s) and gengo.sum was rewritten", op, r.Result)
		}
	}
	return ""
}

func (c *histCase) Shrinks() []Case {
	var out []Case
	for i := range c.Ops {
		out = append(out, &histCase{S: c.S, Ops: append(append([]string{}, c.Ops[:i]...), c.Ops[i+1:]...)})
	}
	return out
}
func (c *histCase) Key() string {
	return strings.Join(c.Ops, " ") + fmt.Sprintf(" (%d pkgs)", len(c.S.Pkgs))
}
func (c *histCase) Classes() []string {
	m := map[string]bool{}
	for _, op := range c.Ops {
		m["op:"+strings.SplitN(op, ":", 2)[0]] = true
	}
	var cl []string
	for k := range m {
		cl = append(cl, k)
	}
	sort.Strings(cl)
	return cl
}
func (c *histCase) Nontrivial() bool { return len(c.Ops) > 2 }

func histBatch(cases []Case) []string {
	cs := make([]*histCase, len(cases))
	for i, c := range cases {
		cs[i] = c.(*histCase)
	}
	outs := runHistories(cs, 16)
	res := make([]string, len(cases))
	for i := range cs {
		cs[i].res = outs[i]
		res[i] = cs[i].Run()
	}
	return res
}

func genHistory(r *Rng) *histCase {
	k := 2 + r.Intn(2)
	s := PScn{Reacts: map[string]string{}, Prev: "none", All: true, Gens: []PGen{{Name: "rec", CustomNew: r.Bool()}}}
	for i := 0; i < k; i++ {
		p := PPkg{Dir: fmt.Sprintf("p%d", i), PkgTags: []PTag{{"gengo:rec", []string{""}}}}
		p.Types = []PType{{Name: "B", Kind: "s"}, {Name: "A", Kind: "n"}}
		if i > 0 && r.Chance(40) {
			s.Pkgs[i-1].Imports = append(s.Pkgs[i-1].Imports, i)
		}
		for _, t := range p.Types {
			s.Reacts["rec@"+p.path()+"@"+t.Name] = "ov-"
		}
		s.Pkgs = append(s.Pkgs, p)
		s.Entry = append(s.Entry, i)
	}
	c := &histCase{S: s}
	n := 4 + r.Intn(7)
	for i := 0; i < n; i++ {
		p := r.Intn(k)
		switch r.Intn(21) {
		case 19, 20:
			c.Ops = append(c.Ops, fmt.Sprintf("inplace:%d", p))
		case 14, 15:
			c.Ops = append(c.Ops, fmt.Sprintf("link:%d", p))
		case 16:
			c.Ops = append(c.Ops, fmt.Sprintf("linkedit:%d", p))
		case 0, 1, 2, 3:
			c.Ops = append(c.Ops, "run")
		case 4:
			c.Ops = append(c.Ops, "force")
		case 5:
			c.Ops = append(c.Ops, fmt.Sprintf("fail:%d", p))
		case 6:
			c.Ops = append(c.Ops, fmt.Sprintf("sub:%d", p))
		case 7, 8:
			c.Ops = append(c.Ops, fmt.Sprintf("edit:%d", p))
		case 9:
			c.Ops = append(c.Ops, fmt.Sprintf("add:%d", p))
		case 10:
			c.Ops = append(c.Ops, fmt.Sprintf("del:%d", p))
		case 11:
			c.Ops = append(c.Ops, "rmsum")
		case 12:
			c.Ops = append(c.Ops, "corrupt")
		case 13:
			c.Ops = append(c.Ops, fmt.Sprintf("delgen:%d", p))
		case 17:
			c.Ops = append(c.Ops, fmt.Sprintf("cancel:%d", p))
		case 18:
			c.Ops = append(c.Ops, fmt.Sprintf("typeerr:%d", p))
		}
	}
	c.Ops = append(c.Ops, "run", "run", "run") // convergence tail
	return c
}

// ---------------------------------------------------------------- registration

func init() {
	register(&Property{ID: "C02", Streams: []*Stream{
		{
			Name: "two-modules", Quick: 24, Thorough: 200, New: func() Case { return &zooFaultCase{} },
			Gen:          genZooFault,
			ShrinkBudget: 6, MaxShrinks: 2,
			Rule: "All runs whose entrypoints cover two modules — 1–3 packages of the main module and zoo/p of a module reached through a replace directive, which comes last — with the generator failing for zoo/p (an error, an unparseable rendering or a failing deferred callback), with and without a sum file of an earlier run; oracle only: Execute returns the error and no gengo.sum of any module is created or rewritten",
		},
		{
			Name: "faults", New: func() Case { return &faultCase{} },
			Quick: 30, Thorough: 300,
			Gen: nil,
			Enum: func(tier string, yield func(Case)) {
				n := 30
				if tier == "thorough" {
					n = 300
				}
				seed := uint64(1)
				fmt.Sscanf(os.Getenv("VERIF_SEED"), "%d", &seed)
				rng := NewRng(seed ^ hashStr("C02/faults"))
				for i := 0; i < n; i++ {
					rr := rng.Fork(uint64(i))
					base := genScenario(rr, pipeProfile{extras: true, prev: true, maxPkgs: 3, allChance: 75})
					if rr.Chance(70) { // make most faults reachable: everything enabled globally, nothing cached
						base.Globals = []PTag{{"gengo:rec", []string{""}}, {"gengo:recx", []string{""}}, {"gengo:rec2", []string{""}}}
						if rr.Chance(60) {
							base.Prev = "none"
						}
					}
					faultVariants(base, func(fc *faultCase) { yield(fc) })
				}
			},
			BatchRun: faultBatch, ShrinkBudget: 60, MaxShrinks: 4,
			Rule: "fault enumeration: for each of 30 (quick) / 300 (thorough) fault-free base scenarios (≤ 3 packages, pre-existing outputs, previous gengo.sum variants, All mostly on) one variant per enabled GenerateType/GenerateAliasType call and per fault kind {generator error, failing deferred callback, unparseable rendering, run-time panic in the generator, os.Exit inside the call, run-time panic inside a deferred callback, os.Exit inside a deferred callback}; compared with the model: result, files, sum; oracle: error names generator+package or the syntax position, the failing generator's previous file byte-identical, gengo.sum byte-identical, and after a process death the next run regenerates the package",
		},
	}})
	register(&Property{ID: "C05", Streams: []*Stream{
		shippedStream,
		{
			Name: "alone-together", Quick: 150, Thorough: 900, New: func() Case { return &aloneCase{} },
			Gen: func(r *Rng, i int) Case {
				s := genScenario(r, pipeProfile{extras: true, prev: false, maxPkgs: 4, allChance: 60})
				for k, v := range s.Reacts { // stateful rendering everywhere: counters and helper flags must restart per package
					if v[1] == 'n' && r.Chance(70) {
						s.Reacts[k] = string(v[0]) + "v" + v[2:]
					}
				}
				return &aloneCase{pipeCase: pipeCase{S: s, Clauses: "calls"}}
			},
			BatchRun: aloneBatch, ShrinkBudget: 40, MaxShrinks: 4,
			Rule: pipeRuleCommon + "each scenario is run once as given and once per package with that package as the only entrypoint; oracle: the package's generated files are byte-identical in both; the model's bodies (fresh state per package) are compared as well",
		},
		{
			Name: "alone-imports", Quick: 120, Thorough: 800, New: func() Case { return &aloneCase{} },
			Gen:      genAloneImports,
			BatchRun: aloneBatch, ShrinkBudget: 40, MaxShrinks: 4,
			Rule: pipeRuleCommon + "as alone-together, with every generator rendering 1–3 references into a menu of 10 packages whose last path segments clash pairwise (x/codec·y/codec, a/v2·b/v2, core/v1·apps/v1, text/template·html/template, math/rand·crypto/rand): the local import names chosen for a package's file must be the same alone and together",
		},
		{
			Name: "two-modules", Quick: 40, Thorough: 300, New: func() Case { return &zooCase{} },
			Gen:          genZoo,
			ShrinkBudget: 10, MaxShrinks: 3,
			Rule: "one run over packages of two modules: 1–2 packages of the main module (example.com/m, go 1.12 / 1.18 / 1.21 / 1.24) and zoo/p of a module with the dot-less path `zoo` (its own go directive 1.12 / 1.22 / 1.24, a nested directory required and replaced by the main module), whose generator renders references to a standard library package and to zoo/dep, sometimes an old-style octal literal; against a run on zoo/p alone; oracle: zoo/p's generated file is the same bytes — import grouping and literal rewriting go by the module the package belongs to, whatever else the run generates",
		},
	}})
	register(&Property{ID: "C04", Streams: []*Stream{
		rerunStream,
		{
			Name: "interrupted-rerun", Quick: 40, Thorough: 300, New: func() Case { return &interruptedCase{} },
			Gen:          genInterrupted,
			ShrinkBudget: 8, MaxShrinks: 2,
			Rule: pipeRuleCommon + "All runs over 2–4 packages: one run in which one generator call fails, then two runs on the unchanged sources with the failure gone, against three runs on a tree that was never disturbed; oracle only: the generated files and gengo.sum are the same bytes in the end",
		},
		{
			Name: "regenerate-alone", Quick: 60, Thorough: 500, New: func() Case { return &aloneCase{} },
			Gen:      genAloneImports,
			BatchRun: aloneBatch, ShrinkBudget: 40, MaxShrinks: 4,
			Rule: pipeRuleCommon + "every generator renders 1–3 references into packages whose last path segments clash pairwise; each scenario is run once as given and, in other processes, once per package with that package as the only entrypoint: regenerating one package later, alone, must reproduce its files byte for byte (what a process generated before must not leak into the local import names)",
		},
		{
			Name: "determinism", Quick: 160, Thorough: 1000, New: func() Case { return &detCase{} },
			Gen: func(r *Rng, i int) Case {
				s := genScenario(r, pipeProfile{extras: true, prev: false, locals: true, maxPkgs: 4, allChance: 70})
				for k, v := range s.Reacts { // some generators dump maps with non-string keys
					if v[1] == 'n' && r.Chance(35) {
						s.Reacts[k] = string(v[0]) + "m" + v[2:]
					}
				}
				return &detCase{pipeCase: pipeCase{S: s, Clauses: "calls"}}
			},
			BatchRun: detBatch, ShrinkBudget: 40, MaxShrinks: 4,
			Rule: pipeRuleCommon + "every scenario is materialised three times and run in separate processes with the entrypoints in given, reversed and rotated order, three consecutive runs each; oracle: generated files, gengo.sum and call order byte-identical across the three, later runs change no generated file, the third run regenerates nothing; keys of every map whose order matters are inserted in descending order so that a missing sort shows in every run; a third of the rendering generators also dump value literals of maps with int, array, bool, uint8 and float keys (snippet.Value), whose text must not depend on map iteration order",
		},
	}})
	register(&Property{ID: "C08", Streams: []*Stream{
		pipeStream("decision", 500, 4000, "calls sum", pipeProfile{extras: true, prev: true, maxPkgs: 4, allChance: 85},
			pipeRuleCommon+"previous gengo.sum none / corrupt / per package correct, stale or missing, Force on/off, directories that cannot be hashed (dangling symlink); oracle: a package is skipped only if Force is off and its recorded hash equals its current one, the sum afterwards is one sorted line per local package",
			func(r *Rng, s *PScn) {
				if r.Chance(12) {
					i := r.Intn(len(s.Pkgs))
					s.Pkgs[i].Extra = append(s.Pkgs[i].Extra, "dangling")
				}
				if r.Chance(10) {
					// a go.work workspace of two modules; the first package of the main module imports a package of the other
					// one, which is no entrypoint: a dependency — not local, not generated, not in gengo.sum
					s.Zoo, s.ZooFns, s.Work, s.All, s.GoVer = 3, true, true, true, "1.24"
				}
			}),
		{
			Name: "roundtrip", Quick: 400, Thorough: 4000, New: func() Case { return &sumCase{} },
			Gen: func(r *Rng, i int) Case {
				c := sumCase{}
				n := r.Intn(6)
				for j := 0; j < n; j++ {
					k := Pick(r, []string{"example.com/m/p0", "example.com/m/p1", "a", "b/c", "z", "é/x", "k8s.io/api"})
					v := "h1:" + r.Str([]rune("abcXYZ012+/="), 8)
					if r.Chance(8) {
						k = Pick(r, []string{"", "a b", "x\ty", " lead", "nl\n"})
					}
					if r.Chance(5) {
						v = Pick(r, []string{"", "h1:a b"})
					}
					c.Keys, c.Vals = append(c.Keys, k), append(c.Vals, v)
				}
				return c
			},
			Rule: "random path → hash maps written with Save and read back with Load (real files); compared with the model's Bytes/Load; keys or values that are empty or contain white space are outside the domain (agreement only)",
		},
		{
			Name: "history", Quick: 80, Thorough: 600, New: func() Case { return &histCase{} },
			Gen:      func(r *Rng, i int) Case { return genHistory(r) },
			BatchRun: histBatch, ShrinkBudget: 40, MaxShrinks: 4,
			Rule: "histories of 4–10 steps over 2–3 packages from {edit, edit leaving a type error behind, add, delete a file, create / retarget a symbolic link to a source file kept outside the package directory, edit the file behind the link, delete a generated file, delete / corrupt gengo.sum, run, run with Force, run failing in p, run on entrypoint p without All, run whose context the caller cancels while p is being generated} followed by three plain runs, on one persistent real module; oracle: ground truth from the harness's own content ids of the directories at load time (not from hashes): skipped ⇔ unchanged since the sum was recorded, failed runs keep the sum, three runs converge",
		},
	}})
}
