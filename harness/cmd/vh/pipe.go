package main

// Shared scenario engine for the pipeline properties (C02, C04, C05, C06, C07, C08): a scenario is
// plain data describing a synthetic module, the generator set with scripted reactions, the
// arguments and the previous gengo.sum; it is materialised under a temp dir and the real
// NewContext/Execute is run on it in a child process (Execute needs the working directory, and
// fresh processes sample Go's map iteration orders).

import (
	"bufio"
	"context"
	"crypto/sha256"
	"encoding/hex"
	"encoding/json"
	"errors"
	"fmt"
	"go/scanner"
	"go/types"
	"io"
	"iter"
	"os"
	"os/exec"
	"path/filepath"
	"slices"
	"sort"
	"strings"
	"sync"

	"github.com/octohelm/gengo/pkg/gengo"
	"github.com/octohelm/gengo/pkg/gengo/snippet"
	"golang.org/x/mod/sumdb/dirhash"
)

// module path of the synthetic modules; C01 varies it per scenario (PScn.Mod) — scenario evaluation is
// sequential within a process, so a package-level variable is enough
var pipeMod = "example.com/m"

func withMod(s *PScn, f func()) {
	old := pipeMod
	if s.Mod != "" {
		pipeMod = s.Mod
	}
	defer func() { pipeMod = old }()
	f()
}

const pipeBase = "zz_generated"

type PTag struct {
	K string   `json:"k"`
	V []string `json:"v"`
}

type PType struct {
	Name string `json:"name"`
	Kind string `json:"kind"` // n s g i (defined)  a (alias)  l (function-local)  p (type parameter of a generic func)
	Tags []PTag `json:"tags,omitempty"`
	In   string `json:"in,omitempty"` // declared in this extra file of the package instead of a.go (e.g. the earlier output of a generator)
}

type PPkg struct {
	Dir      string   `json:"dir"`
	Imports  []int    `json:"imports,omitempty"`
	PkgTags  []PTag   `json:"pkg_tags,omitempty"`
	Types    []PType  `json:"types"`
	Extra    []string `json:"extra,omitempty"`    // pre-existing extra files
	Edit     int      `json:"edit,omitempty"`     // content variant of an extra source file (history steps change it)
	At       bool     `json:"at,omitempty"`       // the package writes its tags with the marker `@` instead of `+`
	Conflict bool     `json:"conflict,omitempty"` // with zdoc.go: a.go's package comment carries the key of the tag that stands in zdoc.go as well, with the value false — zdoc.go is the later file and wins
	LineDir  bool     `json:"linedir,omitempty"`  // the extra .go files open with a //line directive ahead of the package clause (earlier outputs name a template, extra.go names the output of a generator in a neighbouring package)
}

type PGen struct {
	Name      string `json:"name"`
	Alias     bool   `json:"alias,omitempty"`
	CustomNew bool   `json:"custom_new,omitempty"`
}

type PScn struct {
	Pkgs    []PPkg             `json:"pkgs"`
	Globals []PTag             `json:"globals,omitempty"`
	Gens    []PGen             `json:"gens"`
	Reacts  map[string]string  `json:"reacts,omitempty"` // gen@pkgpath@type → verdict(o s i f) render(n v x) defer(- d e)
	Entry   []int              `json:"entry"`
	All     bool               `json:"all"`
	Force   bool               `json:"force"`
	Prev    string             `json:"prev"`             // "none" | "corrupt" | one letter per package: c(orrect) s(tale) m(issing)
	GoVer   string             `json:"go,omitempty"`     // go directive, default 1.24
	Kill    string             `json:"kill,omitempty"`   // gen@pkgpath@type: os.Exit inside that GenerateType call
	Cancel  string             `json:"cancel,omitempty"` // gen@pkgpath@type: the context handed to Execute is cancelled inside that GenerateType call (which then returns normally)
	Order   []int              `json:"order,omitempty"`  // permutation of Entry positions (entrypoint order)
	Runs    int                `json:"runs,omitempty"`   // >1: run Execute several times in a row (fresh context each)
	Alone   int                `json:"alone,omitempty"`  // >0: run only package index Alone-1 as entrypoint, without All (C05 reference)
	Root    string             `json:"root,omitempty"`   // harness-internal: use this directory instead of a fresh temp dir and keep it
	Reuse   bool               `json:"reuse,omitempty"`  // harness-internal: the tree under Root already exists
	Ops     []string           `json:"ops,omitempty"`    // history (C08): operations applied before each run, see histCase
	Mod     string             `json:"mod,omitempty"`    // module path (default example.com/m)
	Custom  map[string][]PItem `json:"custom,omitempty"` // gen@pkgpath@type → what a reaction with render code 'b' renders
	Lib     bool               `json:"lib,omitempty"`    // add a module-local package <mod>/lib (type Thing) for references
	Zoo     int                `json:"zoo,omitempty"`    // a second module `zoo` (dot-less path, own go directive ZooGo) in directory zoo, required and replaced by the main module, with packages zoo/p (type P, tagged for rec) and zoo/dep: 1 = zoo/p is an entrypoint beside the others, 2 = zoo/p is the only entrypoint
	ZooGo   string             `json:"zoo_go,omitempty"`
	Work    bool               `json:"work,omitempty"`    // with Zoo: the two modules are joined by a go.work file at the top (use . and ./zoo) instead of a require + replace pair; Zoo 3 = zoo is there and imported (ZooFns) but no entrypoint
	GenRev  bool               `json:"gen_rev,omitempty"` // the generators are handed to Execute in reverse order (a set has no order: GetRegisteredGenerators returns them in map order)
	Peek    bool               `json:"peek,omitempty"`    // every GenerateType call first asks the Context for the doc of every type of every package the processed package imports (as a generator does for the types a type refers to) and renders nothing from it
	ZooFns  bool               `json:"zoo_fns,omitempty"` // zoo/p declares functions A and B with error results (A returns B's among others) and the first package of the main module a function Q whose result comes from zoo/p's B and then from its A: what a generator renders from ResultsOf about zoo/p's A is a fact about zoo/p, whoever asked about Q before
	Nested  bool               `json:"nested,omitempty"`  // a second module <mod>/sub nested in the tree (own go.mod, replaced by ./sub), whose package <mod>/sub/p the first package imports: not a package of this module, whatever its path looks like
}

// PItem: one rendered snippet of a custom body
type PItem struct {
	K    string `json:"k"`              // block | ref | nest
	S    string `json:"s"`              // block: the text; ref: a template with one @ref placeholder; nest: three texts separated by \x1e — the first and the third come out of one lazy snippet.Snippets sequence, the second is rendered through the Context while that sequence is being iterated (a helper emitted on demand)
	Path string `json:"path,omitempty"` // ref: package path and exposed name
	Name string `json:"name,omitempty"`
}

func (p PPkg) path() string { return pipeMod + "/" + p.Dir }

func tagMap(ts []PTag) map[string][]string {
	if len(ts) == 0 {
		return nil
	}
	m := map[string][]string{}
	for _, t := range ts {
		m[t.K] = append(m[t.K], t.V...)
	}
	return m
}

// tagMarker: `+` or `@` — both mark a tag line; a package writes all its tags with one of them (set per package while
// its files are written)
var tagMarker = "+"

func tagLines(ts []PTag, indent string) string {
	var b strings.Builder
	for _, t := range ts {
		for _, v := range t.V {
			if v == "" {
				b.WriteString(indent + "// " + tagMarker + t.K + "\n")
			} else {
				b.WriteString(indent + "// " + tagMarker + t.K + "=" + v + "\n")
			}
		}
	}
	return b.String()
}

func tagEnc(ts []PTag) string {
	m := tagMap(ts)
	if len(m) == 0 {
		return "-"
	}
	ks := []string{}
	for k := range m {
		ks = append(ks, k)
	}
	sort.Strings(ks)
	parts := []string{}
	for _, k := range ks {
		vs := []string{}
		for _, v := range m[k] {
			if v == "" {
				v = "_"
			}
			vs = append(vs, v)
		}
		parts = append(parts, k+"="+strings.Join(vs, "|"))
	}
	return strings.Join(parts, "&")
}

// docSplit: with the extra file zdoc.go the package-level tags do not all stand in a.go — the last tag (the only one,
// if there is one) stands in zdoc.go's package comment
func (p PPkg) docSplit() (inA, inDoc []PTag) {
	for _, e := range p.Extra {
		if e == "zdoc.go" && len(p.PkgTags) > 0 {
			last := p.PkgTags[len(p.PkgTags)-1]
			inA := append([]PTag{}, p.PkgTags[:len(p.PkgTags)-1]...)
			if p.Conflict {
				// two files say different things about one key: files are merged in the order of their names, the later one
				// (zdoc.go) wins — the effective tags are PkgTags either way
				inA = append(inA, PTag{K: last.K, V: []string{"false"}})
			}
			return inA, p.PkgTags[len(p.PkgTags)-1:]
		}
	}
	return p.PkgTags, nil
}

func (p PPkg) source() string {
	var b strings.Builder
	inA, _ := p.docSplit()
	b.WriteString(tagLines(inA, ""))
	fmt.Fprintf(&b, "package %s\n\n", p.Dir)
	b.WriteString(p.decls(""))
	return b.String()
}

// decls: the declarations of the package's types that stand in file `in` ("" = a.go)
func (p PPkg) decls(in string) string {
	var b strings.Builder
	for _, t := range p.Types {
		if t.In != in {
			continue
		}
		switch t.Kind {
		case "n":
			b.WriteString(tagLines(t.Tags, ""))
			fmt.Fprintf(&b, "type %s int\n\n", t.Name)
		case "s":
			b.WriteString(tagLines(t.Tags, ""))
			fmt.Fprintf(&b, "type %s struct{ X int }\n\n", t.Name)
		case "g":
			b.WriteString(tagLines(t.Tags, ""))
			fmt.Fprintf(&b, "type %s[T any] struct{ V T }\n\n", t.Name)
		case "i":
			b.WriteString(tagLines(t.Tags, ""))
			fmt.Fprintf(&b, "type %s interface{ M() }\n\n", t.Name)
		case "a":
			b.WriteString(tagLines(t.Tags, ""))
			fmt.Fprintf(&b, "type %s = int\n\n", t.Name)
		case "b": // blank declarations: go/types gives them no scope; they are nobody's package-level type or constant
			b.WriteString(tagLines(t.Tags, ""))
			b.WriteString("type _ struct{ X, Y int }\n\n")
			b.WriteString(tagLines(t.Tags, ""))
			b.WriteString("type _ int\n\nconst _ = \"guard\"\n\nconst _ = 8\n\n")
		case "l":
			fmt.Fprintf(&b, "func local%s() {\n%s\ttype %s int\n\tvar _ %s\n}\n\n", t.Name, tagLines(t.Tags, "\t"), t.Name, t.Name)
		case "p":
			fmt.Fprintf(&b, "%sfunc generic%s[%s any](x %s) {}\n\n", tagLines(t.Tags, ""), t.Name, t.Name, t.Name)
		}
	}
	return b.String()
}

func (s *PScn) materialise(dir string) error {
	gv := s.GoVer
	if gv == "" {
		gv = "1.24"
	}
	gomod := "module " + pipeMod + "\n\ngo " + gv + "\n"
	if s.Nested {
		gomod += "\nrequire " + pipeMod + "/sub v0.0.0\n\nreplace " + pipeMod + "/sub => ./sub\n"
		os.MkdirAll(filepath.Join(dir, "sub", "p"), 0o755)
		os.WriteFile(filepath.Join(dir, "sub", "go.mod"), []byte("module "+pipeMod+"/sub\n\ngo "+gv+"\n"), 0o644)
		os.WriteFile(filepath.Join(dir, "sub", "p", "p.go"), []byte("// +gengo:rec\n// +gengo:recx\n// +gengo:rec2\npackage p\n\ntype N int\n"), 0o644)
		os.WriteFile(filepath.Join(dir, "sub", "p", pipeBase+".other.go"), []byte("package p\n\nvar _ = 0\n"), 0o644)
	}
	if s.Zoo > 0 {
		zg := s.ZooGo
		if zg == "" {
			zg = gv
		}
		if s.Work {
			os.WriteFile(filepath.Join(dir, "go.work"), []byte("go 1.24\n\nuse (\n\t.\n\t./zoo\n)\n"), 0o644)
		} else {
			gomod += "\nrequire zoo v0.0.0\n\nreplace zoo => ./zoo\n"
		}
		os.MkdirAll(filepath.Join(dir, "zoo", "p"), 0o755)
		os.MkdirAll(filepath.Join(dir, "zoo", "dep"), 0o755)
		os.WriteFile(filepath.Join(dir, "zoo", "go.mod"), []byte("module zoo\n\ngo "+zg+"\n"), 0o644)
		zsrc := "// +gengo:rec\npackage p\n\ntype P int\n"
		if s.ZooFns {
			zsrc += "\ntype Invalid struct{}\n\nfunc (*Invalid) Error() string { return \"invalid\" }\n\ntype NotFound struct{}\n\nfunc (*NotFound) Error() string { return \"not found\" }\n\n" +
				"func B(i int) error {\n\tif i > 0 {\n\t\treturn &NotFound{}\n\t}\n\tif i < 0 {\n\t\treturn &Invalid{}\n\t}\n\treturn nil\n}\n\n" +
				"func A(i int) error {\n\tif i == 7 {\n\t\treturn &Invalid{}\n\t}\n\treturn B(i)\n}\n"
		}
		os.WriteFile(filepath.Join(dir, "zoo", "p", "p.go"), []byte(zsrc), 0o644)
		os.WriteFile(filepath.Join(dir, "zoo", "dep", "dep.go"), []byte("package dep\n\ntype D int\n\nfunc F() {}\n"), 0o644)
		// the main module has to use the other one for the go tool to keep the requirement
		os.MkdirAll(filepath.Join(dir, "usezoo"), 0o755)
		os.WriteFile(filepath.Join(dir, "usezoo", "u.go"), []byte("package usezoo\n\nimport _ \"zoo/p\"\n"), 0o644)
	}
	if err := os.WriteFile(filepath.Join(dir, "go.mod"), []byte(gomod), 0o644); err != nil {
		return err
	}
	if s.Lib {
		os.MkdirAll(filepath.Join(dir, "lib"), 0o755)
		if err := os.WriteFile(filepath.Join(dir, "lib", "lib.go"), []byte("package lib\n\ntype Thing struct{ N int }\n"), 0o644); err != nil {
			return err
		}
	}
	defer func() { tagMarker = "+" }()
	for i, p := range s.Pkgs {
		pd := filepath.Join(dir, p.Dir)
		if err := os.MkdirAll(pd, 0o755); err != nil {
			return err
		}
		tagMarker = "+"
		if p.At {
			tagMarker = "@"
		}
		src := p.source()
		if len(p.Imports) > 0 || (s.Nested && i == 0) {
			var imp strings.Builder
			if s.Nested && i == 0 {
				fmt.Fprintf(&imp, "import _ %q\n", pipeMod+"/sub/p")
			}
			for _, j := range p.Imports {
				if j != i && j < len(s.Pkgs) {
					fmt.Fprintf(&imp, "import _ %q\n", s.Pkgs[j].path())
				}
			}
			src = strings.Replace(src, "package "+p.Dir+"\n\n", "package "+p.Dir+"\n\n"+imp.String()+"\n", 1)
		}
		if err := os.WriteFile(filepath.Join(pd, "a.go"), []byte(src), 0o644); err != nil {
			return err
		}
		if s.ZooFns && s.Zoo > 0 && i == 0 {
			os.WriteFile(filepath.Join(pd, "q.go"), []byte("package "+p.Dir+"\n\nimport zp \"zoo/p\"\n\nfunc Q(i int) error {\n\tif i > 1 {\n\t\treturn zp.B(i)\n\t}\n\treturn zp.A(i)\n}\n"), 0o644)
		}
		for _, e := range p.Extra {
			if e == "dangling" {
				os.Symlink("does-not-exist", filepath.Join(pd, e)) // makes dirhash fail for this directory
				continue
			}
			if strings.HasSuffix(e, "/") {
				// a sub-directory of the package directory (assets kept beside the code), whatever its name looks like: its files
				// are the user's
				sub := filepath.Join(pd, strings.TrimSuffix(e, "/"))
				os.MkdirAll(filepath.Join(sub, "nested"), 0o755)
				os.WriteFile(filepath.Join(sub, "README.md"), []byte("assets\n"), 0o644)
				os.WriteFile(filepath.Join(sub, "nested", "data.json"), []byte("{}\n"), 0o644)
				continue
			}
			if e == "linked.go" {
				// a source file that is a symbolic link to a file kept outside the package directory: part of the package and of
				// its directory hash like any other file
				shared := filepath.Join(dir, "_shared")
				os.MkdirAll(shared, 0o755)
				target := filepath.Join(shared, fmt.Sprintf("%s_v%d.go", p.Dir, p.Edit))
				os.WriteFile(target, []byte(fmt.Sprintf("package %s\n\nconst linkedEdit = %d\n", p.Dir, p.Edit)), 0o644)
				os.Remove(filepath.Join(pd, e))
				os.Symlink(filepath.Join("..", "_shared", filepath.Base(target)), filepath.Join(pd, e))
				continue
			}
			content := fmt.Sprintf("package %s\n", p.Dir)
			if e == "zdoc.go" {
				_, inDoc := p.docSplit()
				content = tagLines(inDoc, "") + content
			}
			if strings.HasPrefix(e, pipeBase+".") && strings.HasSuffix(e, ".go") {
				// an output of an earlier generation, longer than anything this run writes; it may declare types of the package
				content += "\n" + p.decls(e) + strings.Repeat("// line of an earlier generation\nvar _ = 0\n\n", 30)
			}
			switch {
			case strings.HasSuffix(e, "_test.go"):
			case strings.HasSuffix(e, ".go"):
				if e == "extra.go" {
					content += fmt.Sprintf("\nconst edit = %d\n", p.Edit)
				}
			default:
				content = fmt.Sprintf("not go %d\n", p.Edit)
			}
			if p.LineDir && strings.HasSuffix(e, ".go") {
				// positions in this file are reported under another name; the file is still this file
				other := "ghost"
				if len(s.Pkgs) > 1 {
					other = s.Pkgs[(i+1)%len(s.Pkgs)].Dir
				}
				if e == "extra.go" {
					content = "//line ../" + other + "/" + pipeBase + ".rec.go:1\n" + content
				} else if strings.HasPrefix(e, pipeBase+".") {
					content = "//line templates/" + strings.TrimSuffix(e, ".go") + ".tmpl:1\n" + content
				}
			}
			if err := os.WriteFile(filepath.Join(pd, e), []byte(content), 0o644); err != nil {
				return err
			}
		}
	}
	return nil
}

// loaded: the local packages the loader will see (direct ones and what they import, transitively)
func (s *PScn) loaded() map[int]bool {
	m := map[int]bool{}
	var visit func(i int)
	visit = func(i int) {
		if i < 0 || i >= len(s.Pkgs) || m[i] {
			return
		}
		m[i] = true
		for _, j := range s.Pkgs[i].Imports {
			visit(j)
		}
	}
	for _, e := range s.entries() {
		visit(e)
	}
	return m
}

func (s *PScn) entries() []int {
	if s.Alone > 0 {
		return []int{s.Alone - 1}
	}
	return s.Entry
}

func (s *PScn) isDirect(i int) bool {
	for _, e := range s.entries() {
		if e == i {
			return true
		}
	}
	return false
}

func (s *PScn) prevSumText(hashes map[string]string) (string, bool) {
	switch s.Prev {
	case "", "none":
		return "", false
	case "corrupt":
		return "\x00\x01garbage without a second field\n\n", true
	}
	var b strings.Builder
	for i, p := range s.Pkgs {
		c := byte('m')
		if i < len(s.Prev) {
			c = s.Prev[i]
		}
		switch c {
		case 'c':
			if h, ok := hashes[p.path()]; ok {
				b.WriteString(p.path() + " " + h + "\n")
			}
		case 's':
			b.WriteString(p.path() + " h1:stale\n")
		}
	}
	return b.String(), true
}

// ---------------------------------------------------------------- recording generators

type script struct {
	custom   map[string][]PItem
	reacts   map[string]string
	kill     string
	cancelAt string
	cancel   func()
	peek     bool
	calls    []string
	bodies   map[string]*strings.Builder // pkgpath/gen → what was handed to Render, in order
}

var curScript *script

// keptExpose: the generator keeps its reference snippets (a package-level variable per name, as hand-written
// generators have them) and renders the same values into every file of every package of every run of the process
var keptExposeMu sync.Mutex
var keptExposes = map[string]snippet.Snippet{}

func keptExpose(path, name string) snippet.Snippet {
	keptExposeMu.Lock()
	defer keptExposeMu.Unlock()
	k := path + "\x00" + name
	if s, ok := keptExposes[k]; ok {
		return s
	}
	s := snippet.PkgExpose(path, name)
	keptExposes[k] = s
	return s
}

type recState struct {
	name  string
	count int             // per-instance state: number of calls so far (rendered into the output)
	seen  map[string]bool // per-instance state: "helper" once the helper comment has been emitted; allocated lazily — the
	// registered prototypes come with an allocated map, a fresh instance (reflect.New or New) has none
}

func (g *recState) do(c gengo.Context, pkg, typ string, isAlias bool) error {
	sc := curScript
	suffix := ""
	if isAlias {
		suffix = "!"
	}
	sc.calls = append(sc.calls, g.name+"@"+pkg+"@"+typ+suffix)
	key := g.name + "@" + pkg + "@" + typ
	if sc.kill == key {
		os.Exit(97)
	}
	if sc.cancelAt == key && sc.cancel != nil {
		sc.cancel() // the caller gives up while the run is under way; this call goes on as scripted
	}
	if sc.peek {
		for _, ip := range c.Package("").Pkg().Imports() {
			if fp := c.Package(ip.Path()); fp != nil {
				ts := fp.Types()
				names := make([]string, 0, len(ts))
				for name := range ts {
					names = append(names, name)
				}
				sort.Strings(names)
				for _, name := range names {
					_, _ = c.Doc(ts[name])
				}
			}
		}
		// … and for the tags of every type of the processed package itself, which it then scribbles over (a generator that
		// strips its own marker, or narrows the set to its own keys): what Doc hands out is the caller's
		own := c.Package("").Types()
		names := make([]string, 0, len(own))
		for name := range own {
			names = append(names, name)
		}
		sort.Strings(names)
		for _, name := range names {
			tags, _ := c.Doc(own[name])
			for k := range tags {
				delete(tags, k)
			}
			if tags != nil {
				tags["gengo:"+g.name] = []string{"false"}
			}
		}
	}
	n := g.count
	g.count++
	code, ok := sc.reacts[key]
	if !ok {
		return nil
	}
	render := func(c gengo.Context, text string) {
		bk := pkg + "/" + g.name
		if sc.bodies[bk] == nil {
			sc.bodies[bk] = &strings.Builder{}
		}
		sc.bodies[bk].WriteString(text)
		c.Render(snippet.Block(text))
	}
	switch code[1] {
	case 'v':
		if g.seen == nil {
			g.seen = map[string]bool{}
		}
		if !g.seen["helper"] {
			g.seen["helper"] = true // "emitted once" flag
			render(c, fmt.Sprintf("// helper of %s\n", g.name))
		}
		render(c, fmt.Sprintf("var _%s_%s_%d = 1\n", g.name, typ, n))
	case 'x':
		render(c, "func {\n")
	case 'r':
		// resolves the name of a foreign type through the file's namer (which registers an import) and renders nothing
		c.Render(snippet.Func(func(ctx context.Context) iter.Seq[string] {
			return func(yield func(string) bool) {
				for range snippet.PkgExpose("encoding/json", "Marshal").Frag(ctx) {
				}
				for range snippet.PkgExpose(pipeMod+"/resolved/only", "T").Frag(ctx) {
				}
			}
		}))
	case 'm':
		// value literals of maps with non-string keys: the text must not depend on map iteration order
		bk := pkg + "/" + g.name
		if sc.bodies[bk] == nil {
			sc.bodies[bk] = &strings.Builder{}
		}
		sc.bodies[bk].WriteString("// map body\n")
		mi := map[int]string{}
		for i := 0; i < 12; i++ {
			mi[(i*37+5)%101-20] = fmt.Sprint(i)
		}
		c.Render(snippet.T("var _"+g.name+"_"+typ+"_mi = @v\n", snippet.ValueArg("v", mi)))
		c.Render(snippet.T("var _"+g.name+"_"+typ+"_ma = @v\n", snippet.ValueArg("v", map[[2]int]bool{{1, 2}: true, {2, 1}: false, {0, 9}: true, {9, 0}: true, {3, 3}: false, {-1, 4}: true})))
		c.Render(snippet.T("var _"+g.name+"_"+typ+"_mb = @v\n", snippet.ValueArg("v", map[bool]map[uint8]string{true: {1: "a", 200: "b", 7: "c", 9: "d"}, false: {3: "x", 2: "y", 1: "z"}})))
		c.Render(snippet.T("var _"+g.name+"_"+typ+"_mf = @v\n", snippet.ValueArg("v", map[float64]int{0.5: 1, -2: 2, 10: 3, 3.25: 4, 100: 5, 1e-3: 6})))
	case 'b':
		if len(sc.custom[key]) > 0 { // recorded as a marker: the model does not look inside custom bodies
			bk := pkg + "/" + g.name
			if sc.bodies[bk] == nil {
				sc.bodies[bk] = &strings.Builder{}
			}
			sc.bodies[bk].WriteString("// custom body\n")
		}
		for _, it := range sc.custom[key] {
			switch it.K {
			case "block":
				c.Render(snippet.Block(it.S))
			case "ref":
				c.Render(snippet.T(it.S, snippet.Arg("ref", keptExpose(it.Path, it.Name))))
			case "results":
				// what the resolver says about a function of the package, as a comment
				if fn := c.Package("").Function(it.Name); fn != nil {
					res, n := c.Package("").ResultsOf(fn)
					c.Render(snippet.Block(fmt.Sprintf("// results of %s (%d): %s\n", it.Name, n, strings.ReplaceAll(res.String(), "\n", " "))))
				} else {
					c.Render(snippet.Block("// no function " + it.Name + "\n"))
				}
			case "nest":
				parts := strings.SplitN(it.S, "\x1e", 3)
				c.Render(snippet.Snippets(func(yield func(snippet.Snippet) bool) {
					if !yield(snippet.Block(parts[0])) {
						return
					}
					c.Render(snippet.Block(parts[1]))
					if !yield(snippet.Block(parts[2])) {
						return
					}
				}))
			}
		}
	}
	if len(code) > 2 {
		switch code[2] {
		case 'd':
			c.Defer(func(c gengo.Context) error { render(c, fmt.Sprintf("// deferred %s %s\n", g.name, typ)); return nil })
		case 'e':
			// a callback that registers another one (which does nothing), then the one that fails
			c.Defer(func(c gengo.Context) error {
				c.Defer(func(gengo.Context) error { return nil })
				return nil
			})
			c.Defer(func(c gengo.Context) error { return errors.New("boom") })
		case 'q':
			c.Defer(func(c gengo.Context) error {
				var m map[string]int
				m[typ] = 1 // the deferred callback dies with a run-time panic
				return nil
			})
		case 'k':
			c.Defer(func(c gengo.Context) error { os.Exit(97); return nil })
		}
	}
	switch code[0] {
	case 's':
		return gengo.ErrSkip
	case 'i':
		return gengo.ErrIgnore
	case 'f':
		return errors.New("failed")
	case 'p':
		var m map[string]int
		m[typ] = 1 // the generator dies with a run-time panic
	}
	return nil
}

// three names × {reflect.New, custom New} × {with, without alias hook}: distinct Go types, because
// reflect.New of the prototype's type yields a zero value that must still know its name.
type genRec struct{ recState }
type genRecx struct{ recState }
type genRec2 struct{ recState }

func (g *genRec) Name() string  { return "rec" }
func (g *genRecx) Name() string { return "recx" }
func (g *genRec2) Name() string { return "rec2" }
func (g *genRec) GenerateType(c gengo.Context, n *types.Named) error {
	g.name = "rec"
	return g.do(c, n.Obj().Pkg().Path(), recTypeName(n), false)
}
func (g *genRecx) GenerateType(c gengo.Context, n *types.Named) error {
	g.name = "recx"
	return g.do(c, n.Obj().Pkg().Path(), recTypeName(n), false)
}
func (g *genRec2) GenerateType(c gengo.Context, n *types.Named) error {
	g.name = "rec2"
	return g.do(c, n.Obj().Pkg().Path(), recTypeName(n), false)
}

// recTypeName: a blank-named type is told apart by its shape, so that a table that lets map order pick one of
// several `_` declarations shows in the call log
func recTypeName(n *types.Named) string {
	if n.Obj().Name() == "_" {
		return "_" + strings.ReplaceAll(n.Underlying().String(), " ", "")
	}
	return n.Obj().Name()
}

type genRecA struct{ genRec }
type genRecxA struct{ genRecx }
type genRec2A struct{ genRec2 }

func (g *genRecA) GenerateAliasType(c gengo.Context, n *types.Alias) error {
	g.name = "rec"
	return g.do(c, n.Obj().Pkg().Path(), n.Obj().Name(), true)
}
func (g *genRecxA) GenerateAliasType(c gengo.Context, n *types.Alias) error {
	g.name = "recx"
	return g.do(c, n.Obj().Pkg().Path(), n.Obj().Name(), true)
}
func (g *genRec2A) GenerateAliasType(c gengo.Context, n *types.Alias) error {
	g.name = "rec2"
	return g.do(c, n.Obj().Pkg().Path(), n.Obj().Name(), true)
}

// custom New flavours
type genRecN struct{ genRec }
type genRecxN struct{ genRecx }
type genRec2N struct{ genRec2 }
type genRecAN struct{ genRecA }
type genRecxAN struct{ genRecxA }
type genRec2AN struct{ genRec2A }

func (g *genRecN) New(c gengo.Context) gengo.Generator   { return &genRecN{} }
func (g *genRecxN) New(c gengo.Context) gengo.Generator  { return &genRecxN{} }
func (g *genRec2N) New(c gengo.Context) gengo.Generator  { return &genRec2N{} }
func (g *genRecAN) New(c gengo.Context) gengo.Generator  { return &genRecAN{} }
func (g *genRecxAN) New(c gengo.Context) gengo.Generator { return &genRecxAN{} }
func (g *genRec2AN) New(c gengo.Context) gengo.Generator { return &genRec2AN{} }

// a fourth name, ending in the letters of the output files' extension ("proto" … ".go")
type genProto struct{ recState }

func (g *genProto) Name() string { return "proto" }
func (g *genProto) GenerateType(c gengo.Context, n *types.Named) error {
	g.name = "proto"
	return g.do(c, n.Obj().Pkg().Path(), recTypeName(n), false)
}

type genProtoA struct{ genProto }

func (g *genProtoA) GenerateAliasType(c gengo.Context, n *types.Alias) error {
	g.name = "proto"
	return g.do(c, n.Obj().Pkg().Path(), n.Obj().Name(), true)
}

type genProtoN struct{ genProto }
type genProtoAN struct{ genProtoA }

func (g *genProtoN) New(c gengo.Context) gengo.Generator  { return &genProtoN{} }
func (g *genProtoAN) New(c gengo.Context) gengo.Generator { return &genProtoAN{} }

// mkGenerator: the prototype handed to Execute.  It carries allocated state (as a generator built by a constructor
// does); per-package instances must not inherit it.
func mkGenerator(g PGen) gengo.Generator {
	p := mkGenerator0(g)
	p.(interface{ state() *recState }).state().seen = map[string]bool{"prototype": true}
	return p
}

func (g *recState) state() *recState { return g }

func mkGenerator0(g PGen) gengo.Generator {
	switch fmt.Sprintf("%s/%v/%v", g.Name, g.Alias, g.CustomNew) {
	case "proto/false/false":
		return &genProto{}
	case "proto/true/false":
		return &genProtoA{}
	case "proto/false/true":
		return &genProtoN{}
	case "proto/true/true":
		return &genProtoAN{}
	case "rec/false/false":
		return &genRec{}
	case "rec/true/false":
		return &genRecA{}
	case "rec/false/true":
		return &genRecN{}
	case "rec/true/true":
		return &genRecAN{}
	case "recx/false/false":
		return &genRecx{}
	case "recx/true/false":
		return &genRecxA{}
	case "recx/false/true":
		return &genRecxN{}
	case "recx/true/true":
		return &genRecxAN{}
	case "rec2/false/false":
		return &genRec2{}
	case "rec2/true/false":
		return &genRec2A{}
	case "rec2/false/true":
		return &genRec2N{}
	case "rec2/true/true":
		return &genRec2AN{}
	}
	panic("unknown generator " + g.Name)
}

// ---------------------------------------------------------------- running a scenario (child side)

type POut struct {
	Result  string            `json:"result"` // ok | generate:g:p | deferred:g:p | syntax:rel | loaderr | other:… | panic:… | killed
	ErrText string            `json:"err,omitempty"`
	Before  map[string]string `json:"before"` // rel path → sha of every file of the module tree before the run
	After   map[string]string `json:"after"`  // … and after
	Calls   []string          `json:"calls"`
	Bodies  map[string]string `json:"bodies,omitempty"` // pkgpath/gen → rendered text
	Hashes  map[string]string `json:"hashes"`           // pkg path → dirhash before the run (loaded local packages)
	PrevSum string            `json:"prev_sum"`         // text of gengo.sum before the run ("" with HasPrev=false: none)
	HasPrev bool              `json:"has_prev"`
	Sum     string            `json:"sum"`             // hex of gengo.sum after the run, "none" if absent
	Runs    []PRun            `json:"runs,omitempty"`  // per additional run (Runs > 1)
	Texts   map[string]string `json:"texts,omitempty"` // rel path → content of every <base>.* file after the run
}

type PRun struct {
	Result string            `json:"result"`
	Calls  []string          `json:"calls"`
	After  map[string]string `json:"after"`
}

func snapshotTree(dir string) map[string]string {
	m := map[string]string{}
	filepath.Walk(dir, func(p string, info os.FileInfo, err error) error {
		if err != nil || info.IsDir() {
			return nil
		}
		rel, _ := filepath.Rel(dir, p)
		b, err := os.ReadFile(p)
		if err != nil {
			m[rel] = "unreadable"
			return nil
		}
		h := sha256.Sum256(b)
		m[rel] = hex.EncodeToString(h[:6])
		return nil
	})
	return m
}

func classifyErr(s *PScn, dir string, err error) string {
	if err == nil {
		return "ok"
	}
	var sl scanner.ErrorList
	if errors.As(err, &sl) && len(sl) > 0 {
		rel, _ := filepath.Rel(dir, sl[0].Pos.Filename)
		return "syntax:" + rel
	}
	msg := err.Error()
	for _, g := range s.Gens {
		for _, p := range s.Pkgs {
			if strings.HasPrefix(msg, "`"+g.Name+"` generate failed for "+p.path()+":") {
				return "generate:" + g.Name + ":" + p.path()
			}
			if strings.HasPrefix(msg, "`"+g.Name+"` defer generate failed for "+p.path()+":") {
				return "deferred:" + g.Name + ":" + p.path()
			}
		}
	}
	return "other:" + msg
}

func (s *PScn) executeOnce(dir string, sc *script) (res string, errText string) {
	defer func() {
		if rv := recover(); rv != nil {
			res = fmt.Sprintf("panic:%v", rv)
		}
	}()
	if s.Work {
		// workspace mode: the go tool finds go.work by itself
		os.Setenv("GOWORK", "")
		defer os.Setenv("GOWORK", "off")
	}
	pats := []string{}
	ents := s.entries()
	if len(s.Order) == len(ents) && s.Alone == 0 {
		perm := make([]int, len(ents))
		for i, o := range s.Order {
			perm[i] = ents[o%len(ents)]
		}
		ents = perm
	}
	for _, e := range ents {
		pats = append(pats, "./"+s.Pkgs[e].Dir)
	}
	switch s.Zoo {
	case 1:
		pats = append(pats, "zoo/p")
	case 2:
		pats = []string{"zoo/p"}
	}
	var gs []gengo.Generator
	for _, g := range s.Gens {
		gs = append(gs, mkGenerator(g))
	}
	if s.GenRev {
		slices.Reverse(gs)
	}
	sc.peek = s.Peek
	curScript = sc
	all := s.All
	if s.Alone > 0 {
		all = false
	}
	ctx, err := gengo.NewContext(&gengo.GeneratorArgs{Globals: tagMap(s.Globals), Entrypoint: pats, OutputFileBaseName: pipeBase, All: all, Force: s.Force})
	if err != nil {
		return "loaderr", err.Error()
	}
	cctx, cancel := context.WithCancel(context.Background())
	defer cancel()
	sc.cancelAt, sc.cancel = s.Cancel, cancel
	err = ctx.Execute(cctx, gs...)
	if err != nil {
		errText = err.Error()
	}
	return classifyErr(s, dir, err), errText
}

// runScenarioHere materialises and runs the scenario in this process (the process's stdout must
// already be silenced: gengo prints while it executes).
func runScenarioHere(s *PScn) (out *POut) {
	withMod(s, func() { out = runScenarioHere1(s) })
	return out
}

func runScenarioHere1(s *PScn) *POut {
	out := &POut{Hashes: map[string]string{}}
	root := s.Root
	if root == "" {
		var err error
		root, err = os.MkdirTemp("", "vhpipe")
		if err != nil {
			out.Result = "harness:" + err.Error()
			return out
		}
		defer os.RemoveAll(root)
	}
	dir := filepath.Join(root, "m")
	if !s.Reuse {
		os.MkdirAll(dir, 0o755)
		if err := s.materialise(dir); err != nil {
			out.Result = "harness:" + err.Error()
			return out
		}
	}
	for i := range s.loaded() {
		p := s.Pkgs[i]
		h, _ := dirhash.HashDir(filepath.Join(dir, p.Dir), "", dirhash.Hash1)
		out.Hashes[p.path()] = h
	}
	if s.Reuse {
		if b, err := os.ReadFile(filepath.Join(dir, "gengo.sum")); err == nil {
			out.PrevSum, out.HasPrev = string(b), true
		}
	} else if txt, ok := s.prevSumText(out.Hashes); ok {
		os.WriteFile(filepath.Join(dir, "gengo.sum"), []byte(txt), 0o644)
		out.PrevSum, out.HasPrev = txt, true
	}
	out.Before = snapshotTree(dir)
	if s.Root != "" {
		// a scenario that kills the process: leave what the parent needs to judge the tree afterwards
		b, _ := json.Marshal(out)
		os.WriteFile(filepath.Join(root, "before.json"), b, 0o644)
	}
	if err := os.Chdir(dir); err != nil {
		out.Result = "harness:" + err.Error()
		return out
	}
	defer os.Chdir("/")
	sc := &script{reacts: s.Reacts, custom: s.Custom, kill: s.Kill, bodies: map[string]*strings.Builder{}}
	out.Result, out.ErrText = s.executeOnce(dir, sc)
	out.Calls = sc.calls
	out.Bodies = map[string]string{}
	for k, b := range sc.bodies {
		out.Bodies[k] = b.String()
	}
	out.After = snapshotTree(dir)
	out.Sum = "none"
	if b, err := os.ReadFile(filepath.Join(dir, "gengo.sum")); err == nil {
		out.Sum = hx(string(b))
	}
	out.Texts = map[string]string{}
	for rel := range out.After {
		if strings.HasPrefix(filepath.Base(rel), pipeBase+".") {
			b, _ := os.ReadFile(filepath.Join(dir, rel))
			out.Texts[rel] = string(b)
		}
	}
	for r := 1; r < s.Runs; r++ {
		sc2 := &script{reacts: s.Reacts, custom: s.Custom, bodies: map[string]*strings.Builder{}}
		res, _ := s.executeOnce(dir, sc2)
		out.Runs = append(out.Runs, PRun{Result: res, Calls: sc2.calls, After: snapshotTree(dir)})
	}
	return out
}

// child: JSON scenarios on stdin, one per line; JSON outcomes on fd 3 (stdout is silenced).
func init() {
	childHandlers["pipe"] = func(args []string) int {
		outF := os.NewFile(3, "out")
		if outF == nil {
			return 2
		}
		devnull, _ := os.OpenFile(os.DevNull, os.O_WRONLY, 0)
		os.Stdout = devnull
		w := bufio.NewWriter(outF)
		rd := bufio.NewReaderSize(os.Stdin, 1<<20)
		for {
			line, err := rd.ReadBytes('\n')
			if len(line) > 1 {
				var s PScn
				if json.Unmarshal(line, &s) != nil {
					fmt.Fprintln(w, `{"result":"harness:bad scenario"}`)
				} else {
					b, _ := json.Marshal(runScenarioHere(&s))
					w.Write(b)
					w.WriteByte('\n')
				}
				w.Flush()
			}
			if err != nil {
				break
			}
		}
		return 0
	}
}

// ---------------------------------------------------------------- parent side: worker pool

func childEnv() []string {
	env := []string{}
	for _, e := range os.Environ() {
		if strings.HasPrefix(e, "GOFLAGS=") {
			continue // -mod=mod is for building the harness only; go list would rewrite synthetic go.mod files
		}
		env = append(env, e)
	}
	return append(env, "GOFLAGS=", "GOWORK=off")
}

// runScenarios executes the scenarios in `workers` fresh child processes (round robin) and returns
// the outcomes in order.  A child that dies (os.Exit injected by a scenario, a crash) yields
// Result "killed" for the scenario it was running; the tree it left behind is not observable then,
// so kill scenarios are run through runKillScenario instead.
func runScenarios(scns []*PScn, workers int) []*POut {
	outs := make([]*POut, len(scns))
	if workers > len(scns) {
		workers = len(scns)
	}
	if workers < 1 {
		workers = 1
	}
	var wg sync.WaitGroup
	for w := 0; w < workers; w++ {
		wg.Add(1)
		go func(w int) {
			defer wg.Done()
			var idx []int
			for i := w; i < len(scns); i += workers {
				idx = append(idx, i)
			}
			for len(idx) > 0 {
				done := runChildBatch(scns, idx, outs)
				if done < len(idx) {
					outs[idx[done]] = &POut{Result: "killed"}
					done++
				}
				idx = idx[done:]
			}
		}(w)
	}
	wg.Wait()
	return outs
}

func runChildBatch(scns []*PScn, idx []int, outs []*POut) int {
	self, _ := os.Executable()
	cmd := exec.Command(self, "child", "pipe")
	cmd.Env = childEnv()
	stdin, _ := cmd.StdinPipe()
	pr, pw, _ := os.Pipe()
	cmd.ExtraFiles = []*os.File{pw}
	cmd.Stderr = io.Discard
	if err := cmd.Start(); err != nil {
		return 0
	}
	pw.Close()
	go func() {
		w := bufio.NewWriter(stdin)
		for _, i := range idx {
			b, _ := json.Marshal(scns[i])
			w.Write(b)
			w.WriteByte('\n')
		}
		w.Flush()
		stdin.Close()
	}()
	rd := bufio.NewReaderSize(pr, 1<<20)
	done := 0
	for done < len(idx) {
		line, err := rd.ReadBytes('\n')
		if len(line) > 1 {
			var o POut
			if json.Unmarshal(line, &o) == nil {
				outs[idx[done]] = &o
				done++
			}
		}
		if err != nil {
			break
		}
	}
	pr.Close()
	cmd.Process.Kill()
	cmd.Wait()
	return done
}

// ---------------------------------------------------------------- ground truth (independent of the Lean model)

func (t PType) defined() bool { return strings.Contains("nsgi", t.Kind) }

// enabledFor restates the rule of C06 on the merged tags.
func enabledFor(gen string, globals, pkgTags, declTags []PTag) bool {
	merged := map[string][]string{}
	for _, m := range []map[string][]string{tagMap(globals), tagMap(pkgTags), tagMap(declTags)} {
		for k, v := range m {
			merged[k] = v
		}
	}
	if vs, ok := merged["gengo:"+gen]; ok {
		return strings.Join(vs, "") != "false"
	}
	for k := range merged {
		if strings.HasPrefix(k, "gengo:"+gen+":") {
			return true
		}
	}
	return false
}

// expectedCalls: for one package and generator, the calls the statement of C06 prescribes.
func (s *PScn) expectedCalls(pi int, g PGen) []string {
	p := s.Pkgs[pi]
	var names []string
	byName := map[string]PType{}
	for _, t := range p.Types {
		if t.defined() || t.Kind == "a" {
			names = append(names, t.Name)
			byName[t.Name] = t
		}
	}
	sort.Strings(names)
	var out []string
	for _, n := range names {
		t := byName[n]
		if !enabledFor(g.Name, s.Globals, p.PkgTags, t.Tags) {
			continue
		}
		if t.Kind == "a" {
			if g.Alias {
				out = append(out, g.Name+"@"+p.path()+"@"+n+"!")
			}
		} else {
			out = append(out, g.Name+"@"+p.path()+"@"+n)
		}
	}
	return out
}

// ---------------------------------------------------------------- the model request

func (s *PScn) modelLine(o *POut) string {
	loaded := s.loaded()
	genEnc := []string{}
	for _, g := range s.Gens {
		if g.Alias {
			genEnc = append(genEnc, g.Name+"+a")
		} else {
			genEnc = append(genEnc, g.Name)
		}
	}
	rEnc := []string{}
	for k, v := range s.Reacts {
		if len(v) > 1 && v[1] == 'b' && len(s.Custom[k]) == 0 {
			v = v[:1] + "n" + v[2:] // an empty custom body renders nothing
		}
		if len(v) > 1 && v[1] == 'r' {
			v = v[:1] + "n" + v[2:] // resolving a name without rendering anything renders nothing
		}
		rEnc = append(rEnc, k+":"+strings.TrimSuffix(v, "-"))
	}
	sort.Strings(rEnc)
	re := strings.Join(rEnc, ",")
	if re == "" {
		re = "-"
	}
	pEnc := []string{}
	for i, p := range s.Pkgs {
		if !loaded[i] {
			continue
		}
		d := "0"
		if s.isDirect(i) {
			d = "1"
		}
		files := []string{"a.go"}
		for _, e := range p.Extra {
			if strings.HasSuffix(e, ".go") && !strings.HasSuffix(e, "_test.go") {
				files = append(files, e)
			}
		}
		sort.Strings(files)
		types := []string{}
		for _, t := range p.Types {
			switch {
			case t.defined():
				types = append(types, t.Name+"~n~"+tagEnc(t.Tags))
			case t.Kind == "a":
				types = append(types, t.Name+"~a~"+tagEnc(t.Tags))
			}
		}
		tenc := strings.Join(types, "/")
		if tenc == "" {
			tenc = "-"
		}
		h := o.Hashes[p.path()]
		if h == "" {
			h = "-"
		}
		pEnc = append(pEnc, strings.Join([]string{p.path(), d, p.Dir, h, strings.Join(files, ","), tagEnc(p.PkgTags), tenc}, "^"))
	}
	prevEnc := "none"
	if o.HasPrev {
		var enc []string
		for _, l := range strings.Split(o.PrevSum, "\n") {
			f := strings.Fields(l)
			if len(f) >= 2 {
				enc = append(enc, f[0]+"="+f[1])
			}
		}
		prevEnc = strings.Join(enc, ",")
		if len(enc) == 0 {
			prevEnc = "-"
		}
	}
	all := s.All && s.Alone == 0
	return strings.Join([]string{"exec", b01(all) + b01(s.Force), prevEnc, tagEnc(s.Globals), strings.Join(genEnc, ","), re, strings.Join(pEnc, ";")}, " ")
}

// canonImpl: what is compared with the model — result, the final set of <base>* files of the package
// directories, every other change of the tree, gengo.sum, and for successful runs the call log and
// the rendered bodies.
func (s *PScn) canonImpl(o *POut) string {
	var files, other []string
	for rel := range o.After {
		if strings.HasPrefix(filepath.Base(rel), pipeBase) {
			files = append(files, rel)
		}
	}
	for rel, h := range o.After {
		if strings.HasPrefix(filepath.Base(rel), pipeBase+".") || rel == "gengo.sum" {
			continue
		}
		if o.Before[rel] != h {
			other = append(other, rel)
		}
	}
	for rel := range o.Before {
		if _, ok := o.After[rel]; !ok && !strings.HasPrefix(filepath.Base(rel), pipeBase+".") && rel != "gengo.sum" {
			other = append(other, rel)
		}
	}
	sort.Strings(files)
	sort.Strings(other)
	c := "result=" + o.Result + " files=" + strings.Join(files, ",") + " other=" + strings.Join(other, ",") + " sum=" + o.Sum
	if o.Result == "ok" {
		var bs []string
		for k, v := range o.Bodies {
			if v != "" {
				bs = append(bs, k+"="+hx(v))
			}
		}
		sort.Strings(bs)
		c += " calls=" + strings.Join(o.Calls, ",") + " bodies=" + strings.Join(bs, ",")
	}
	return c
}

// canonModel turns the model's effect trace into the same form.
func (s *PScn) canonModel(o *POut, m string) string {
	var res, eff, calls, bodies string
	for _, f := range strings.Split(m, " ") {
		switch {
		case strings.HasPrefix(f, "result="):
			res = strings.TrimPrefix(f, "result=")
		case strings.HasPrefix(f, "effects="):
			eff = strings.TrimPrefix(f, "effects=")
		case strings.HasPrefix(f, "calls="):
			calls = strings.TrimPrefix(f, "calls=")
		case strings.HasPrefix(f, "bodies="):
			bodies = strings.TrimPrefix(f, "bodies=")
		}
	}
	if res == "" {
		return m
	}
	files := map[string]bool{}
	for rel := range o.Before {
		if strings.HasPrefix(filepath.Base(rel), pipeBase) {
			files[rel] = true
		}
	}
	sum := "none"
	if o.HasPrev {
		sum = hx(o.PrevSum)
	}
	if eff != "" {
		for _, e := range strings.Split(eff, ",") {
			switch e[0] {
			case 'w':
				files[e[2:]] = true
			case 'r':
				delete(files, e[2:])
			case 's':
				sum = e[2:]
			}
		}
	}
	var fl []string
	for k := range files {
		fl = append(fl, k)
	}
	sort.Strings(fl)
	if strings.HasPrefix(res, "syntax:") {
		res = "syntax:" + strings.TrimPrefix(res, "syntax:")
	}
	c := "result=" + res + " files=" + strings.Join(fl, ",") + " other= sum=" + sum
	if res == "ok" {
		c += " calls=" + calls + " bodies=" + bodies
	}
	return c
}

// runKillScenario runs a scenario that exits the process inside a GenerateType call, in a child of
// its own on a directory the parent owns, and reports the tree the dead process left behind;
// then runs once more on that tree (no kill) to see what the next run does.
func runKillScenario(s *PScn) (*POut, *POut) {
	root, err := os.MkdirTemp("", "vhkill")
	if err != nil {
		return &POut{Result: "harness:" + err.Error()}, nil
	}
	defer os.RemoveAll(root)
	k := cloneScn(*s)
	k.Root = root
	first := runScenarios([]*PScn{&k}, 1)[0]
	if first.Result != "killed" {
		return first, nil // the kill point was not reached
	}
	out := &POut{Result: "killed"}
	if b, err := os.ReadFile(filepath.Join(root, "before.json")); err == nil {
		json.Unmarshal(b, out)
		out.Result = "killed"
	}
	dir := filepath.Join(root, "m")
	out.After = snapshotTree(dir)
	out.Sum = "none"
	if b, err := os.ReadFile(filepath.Join(dir, "gengo.sum")); err == nil {
		out.Sum = hx(string(b))
	}
	n := cloneScn(*s)
	n.Kill, n.Root, n.Reuse = "", root, true
	for key, v := range n.Reacts {
		if len(v) > 2 && v[2] == 'k' {
			n.Reacts[key] = v[:2] + "-" // the next run has no kill point any more
		}
	}
	next := runScenarios([]*PScn{&n}, 1)[0]
	return out, next
}

// runChildJSON runs `vh child <kind>` with the input on stdin and returns what it wrote to fd 3.
func runChildJSON(kind string, input []byte) []byte {
	self, _ := os.Executable()
	cmd := exec.Command(self, "child", kind)
	cmd.Env = childEnv()
	cmd.Stdin = strings.NewReader(string(input))
	pr, pw, _ := os.Pipe()
	cmd.ExtraFiles = []*os.File{pw}
	cmd.Stderr = io.Discard
	if err := cmd.Start(); err != nil {
		return nil
	}
	pw.Close()
	b, _ := io.ReadAll(pr)
	pr.Close()
	cmd.Wait()
	return b
}
