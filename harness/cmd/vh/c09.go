package main

// C09 — snippet templating is faithful substitution (T, Sprintf, Comment, GoDirective,
// Snippets/Fragments, SnippetWriter.Render).

import (
	"bytes"
	"fmt"
	"strings"
	"sync"
	"unicode"
	"unicode/utf8"

	"github.com/octohelm/gengo/pkg/gengo"
	"github.com/octohelm/gengo/pkg/gengo/snippet"
	"github.com/octohelm/gengo/pkg/namer"
)

func renderSnippet(s snippet.Snippet) string {
	b := bytes.NewBuffer(nil)
	w := gengo.NewSnippetWriter(b, namer.NameSystems{"raw": namer.NewRawNamer("example.com/self", namer.NewDefaultImportTracker())})
	w.Render(s)
	return b.String()
}

// raw (non-snippet) Sprintf arguments: rendered by Value(x) under %v and ID(x) under %T
var rawArgs = []struct {
	name string
	v    any
}{
	{"int 42", 42},
	{"string fmt.Stringer", "fmt.Stringer"},
	{"bool true", true},
	{"string with percent", "100%v@a'"},
	{"[]string", []string{"a", "%T"}},
	{"string Name", "Name"},
}

// SnipT is the snippet tree as plain data.
//
//	K: block | tmpl | sprintf | seq | comment | directive | raw
type SnipT struct {
	K     string   `json:"k"`
	S     string   `json:"s,omitempty"`     // text / format / directive
	Names []string `json:"names,omitempty"` // tmpl binding names, aligned with Args
	Args  []SnipT  `json:"args,omitempty"`
	Strs  []string `json:"strs,omitempty"` // directive arguments
	Raw   int      `json:"raw,omitempty"`  // index into rawArgs
}

func (t SnipT) build() any { return t.buildM(nil) }

// buildM: sc == nil builds with TArg values; otherwise the way generators call T and Sprintf, recording in sc what the
// caller does afterwards to the arguments it still holds
func (t SnipT) buildM(sc *[]func()) any {
	switch t.K {
	case "block":
		return snippet.Block(t.S)
	case "comment":
		return snippet.Comment(t.S)
	case "directive":
		// the way a generator with a slice of arguments calls it — and it has just built another directive from the very
		// same slice: the arguments are the caller's, before and after
		args := append([]string(nil), t.Strs...)
		_ = snippet.GoDirective(t.S, args...)
		return snippet.GoDirective(t.S, args...)
	case "raw":
		return rawArgs[t.Raw].v
	case "seq":
		parts := make([]snippet.Snippet, len(t.Args))
		for i, a := range t.Args {
			parts[i] = a.buildM(sc).(snippet.Snippet)
		}
		return snippet.Snippets(func(yield func(snippet.Snippet) bool) {
			for _, p := range parts {
				if !yield(p) {
					return
				}
			}
		})
	case "tmpl":
		if sc != nil {
			// the way generators call T: one snippet.Args map — which stays the caller's, and is scribbled over once the
			// whole tree is built: every name rebound, every name the format mentions but the map does not added, one more
			// name added
			m := snippet.Args{}
			for i, a := range t.Args {
				m[t.Names[i]] = a.buildM(sc).(snippet.Snippet)
			}
			out := snippet.T(t.S, m)
			format := t.S
			*sc = append(*sc, func() {
				for k := range m {
					m[k] = scribbleDecoy
				}
				for _, nm := range placeholderNames(format) {
					m[nm] = scribbleDecoy
				}
				m["zz"] = scribbleDecoy
			})
			return out
		}
		args := make([]snippet.TArg, len(t.Args))
		for i, a := range t.Args {
			args[i] = snippet.Arg(t.Names[i], a.buildM(sc).(snippet.Snippet))
		}
		return snippet.T(t.S, args...)
	case "sprintf":
		args := make([]any, len(t.Args))
		for i, a := range t.Args {
			args[i] = a.buildM(sc)
		}
		// (the slice spread into Sprintf stays untouched: Go hands a variadic callee the caller's backing array, the code
		// keeps it, and the statement does not say whose it is afterwards — reading rule in DESIGN 5; T copies its bindings)
		return snippet.Sprintf(t.S, args...)
	}
	panic("bad kind " + t.K)
}

var scribbleDecoy = snippet.Block("<scribbled>")

// placeholderNames: every @name the format could be read to contain (any run of letters, digits and _ after an @)
func placeholderNames(format string) []string {
	var out []string
	rs := []rune(format)
	for i := 0; i < len(rs); i++ {
		if rs[i] != '@' {
			continue
		}
		j := i + 1
		for j < len(rs) && (rs[j] == '_' || unicode.IsLetter(rs[j]) || unicode.IsDigit(rs[j])) {
			j++
			out = append(out, string(rs[i+1:j]))
		}
	}
	return out
}

// buildScribbled builds the tree the way generators do (T with one Args map the caller keeps) and then overwrites what
// the caller still holds: a binding is what was handed over when T was called
func (t SnipT) buildScribbled() snippet.Snippet {
	var sc []func()
	out := t.buildM(&sc).(snippet.Snippet)
	for _, f := range sc {
		f()
	}
	return out
}

func (t SnipT) isNil() bool {
	switch t.K {
	case "block", "tmpl", "sprintf":
		return t.S == ""
	}
	return false
}

// scannerView is how text/scanner delivers a byte string: invalid bytes become U+FFFD.
func scannerView(s string) string { return string([]rune(s)) }

func rawText(i int, asT bool) string {
	return guard(func() string {
		if asT {
			return "ok" + renderSnippet(snippet.ID(rawArgs[i].v))
		}
		return "ok" + renderSnippet(snippet.Value(rawArgs[i].v))
	})
}

func leafTok(text string) string {
	if text == "panic" {
		return "!"
	}
	return hx(strings.TrimPrefix(text, "ok"))
}

// enc writes the prefix encoding understood by the driver; `asT` selects the %T rendering of a raw argument.
func (t SnipT) enc(b *strings.Builder, asT bool) {
	switch t.K {
	case "block":
		fmt.Fprintf(b, " L %s %s", b01(t.S == ""), hx(t.S))
	case "comment":
		fmt.Fprintf(b, " C %s", hx(t.S))
	case "directive":
		fmt.Fprintf(b, " D %s %d", hx(t.S), len(t.Strs))
		for _, a := range t.Strs {
			b.WriteString(" " + hx(a))
		}
	case "raw":
		fmt.Fprintf(b, " L 0 %s", leafTok(rawText(t.Raw, asT)))
	case "seq":
		fmt.Fprintf(b, " Q %d", len(t.Args))
		for _, a := range t.Args {
			a.enc(b, false)
		}
	case "tmpl":
		fmt.Fprintf(b, " T %s %d", hx(scannerView(t.S)), len(t.Args))
		for i, a := range t.Args {
			b.WriteString(" " + hx(t.Names[i]))
			a.enc(b, false)
		}
	case "sprintf":
		fmt.Fprintf(b, " P %s %d", hx(scannerView(t.S)), len(t.Args))
		for _, a := range t.Args {
			a.enc(b, false)
			a.enc(b, true)
		}
	}
}

func b01(b bool) string {
	if b {
		return "1"
	}
	return "0"
}

// ---- the independent oracle: a renderer written from the statement of C09 (DESIGN.md section 5
// for the bare-@ reading), sharing nothing with the Lean model or the code under test.

type refPanic struct{ why string }

func isNameRune(r rune) bool {
	return r == '_' || (r >= '0' && r <= '9') || (r >= 'a' && r <= 'z') || (r >= 'A' && r <= 'Z')
}

func (t SnipT) ref(asT bool) string {
	switch t.K {
	case "block":
		return t.S
	case "comment":
		if t.S == "" {
			return ""
		}
		ls := strings.Split(t.S, "\n")
		for i := range ls {
			ls[i] = "// " + ls[i]
		}
		return strings.Join(ls, "\n")
	case "directive":
		if t.S == "" {
			return ""
		}
		o := "//go:" + t.S
		for _, a := range t.Strs {
			if a != "" {
				o += " " + a
			}
		}
		return o
	case "raw":
		x := rawText(t.Raw, asT)
		if x == "panic" {
			panic(refPanic{"argument rendering panics"})
		}
		return strings.TrimPrefix(x, "ok")
	case "seq":
		var b strings.Builder
		for _, a := range t.Args {
			if !a.isNil() {
				b.WriteString(a.ref(false))
			}
		}
		return b.String()
	case "tmpl":
		rs := []rune(strings.TrimLeft(t.S, "\n"))
		var b strings.Builder
		for i := 0; i < len(rs); {
			if rs[i] != '@' {
				b.WriteRune(rs[i])
				i++
				continue
			}
			j := i + 1
			for j < len(rs) && isNameRune(rs[j]) {
				j++
			}
			name := string(rs[i+1 : j])
			if j < len(rs) && rs[j] == '\'' {
				j++ // one apostrophe directly after a placeholder is a delimiter
			}
			i = j
			if name == "" {
				continue
			}
			bound := -1
			for k, n := range t.Names {
				if n == name {
					bound = k // a later binding of the same name replaces an earlier one
				}
			}
			if bound < 0 {
				panic(refPanic{"unbound placeholder " + name})
			}
			if !t.Args[bound].isNil() {
				b.WriteString(t.Args[bound].ref(false))
			}
		}
		return b.String()
	case "sprintf":
		rs := []rune(t.S)
		var b strings.Builder
		next := 0
		for i := 0; i < len(rs); i++ {
			if rs[i] != '%' {
				b.WriteRune(rs[i])
				continue
			}
			if i+1 >= len(rs) {
				panic(refPanic{"% at end of format"})
			}
			i++
			switch rs[i] {
			case '%':
				b.WriteByte('%')
			case 'v', 'T':
				if next >= len(t.Args) {
					panic(refPanic{"missing argument"})
				}
				b.WriteString(t.Args[next].ref(rs[i] == 'T'))
				next++
			default:
				panic(refPanic{"unsupported verb"})
			}
		}
		return b.String()
	}
	panic("bad kind")
}

func (t SnipT) refTop() (out string) {
	defer func() {
		if e := recover(); e != nil {
			if _, ok := e.(refPanic); ok {
				out = "panic"
				return
			}
			panic(e)
		}
	}()
	if t.isNil() {
		return "ok -"
	}
	return "ok " + hx(t.ref(false))
}

func (t SnipT) walk(f func(SnipT)) {
	f(t)
	for _, a := range t.Args {
		a.walk(f)
	}
}

type snipCase struct {
	T SnipT `json:"tree"`
}

func (c snipCase) Line() string {
	var b strings.Builder
	b.WriteString("snip")
	c.T.enc(&b, false)
	return b.String()
}

// a writer that lives as long as the process: every case is also rendered through it, after whatever the cases
// before it did to it (renderings that panicked half way included), followed by a marker snippet
var (
	usedWriterMu  sync.Mutex
	usedWriterBuf = bytes.NewBuffer(nil)
	usedWriter    = gengo.NewSnippetWriter(usedWriterBuf, namer.NameSystems{"raw": namer.NewRawNamer("example.com/self", namer.NewDefaultImportTracker())})
)

func renderThroughUsedWriter(s snippet.Snippet) string {
	usedWriterMu.Lock()
	defer usedWriterMu.Unlock()
	usedWriterBuf.Reset()
	out := guard(func() string { usedWriter.Render(s); return "ok " + hx(usedWriterBuf.String()) })
	usedWriterBuf.Reset()
	marker := guard(func() string { usedWriter.Render(snippet.Block("<marker>")); return usedWriterBuf.String() })
	if marker != "<marker>" {
		return out + " then-marker=" + hx(marker)
	}
	return out
}

func (c snipCase) Run() string {
	fresh := guard(func() string { return "ok " + hx(renderSnippet(c.T.build().(snippet.Snippet))) })
	if used := renderThroughUsedWriter(c.T.build().(snippet.Snippet)); used != fresh {
		return "used-writer-differs fresh=" + fresh + " used=" + used
	}
	// one snippet value rendered twice: first into a file of package fmt (where `fmt.Stringer` is written `Stringer`),
	// then into the usual one — what a value renders to is decided by the file it goes into, each time
	if again := guard(func() string {
		s := c.T.build().(snippet.Snippet)
		b := bytes.NewBuffer(nil)
		gengo.NewSnippetWriter(b, namer.NameSystems{"raw": namer.NewRawNamer("fmt", namer.NewDefaultImportTracker())}).Render(s)
		return "ok " + hx(renderSnippet(s))
	}); again != fresh {
		return "second-rendering-of-the-same-value-differs fresh=" + fresh + " second=" + again
	}
	if kept := guard(func() string { return "ok " + hx(renderSnippet(c.T.buildScribbled())) }); kept != fresh {
		return "arguments-changed-after-the-call-show fresh=" + fresh + " after=" + kept
	}
	return fresh
}

func (c snipCase) InDomain() bool {
	ok := true
	c.T.walk(func(t SnipT) {
		if !utf8.ValidString(t.S) {
			ok = false
		}
	})
	return ok
}

func (c snipCase) Oracle(out string) string {
	want := c.T.refTop()
	if out != want {
		return fmt.Sprintf("rendering differs from faithful substitution: got %s, the statement gives %s", showOut(out), showOut(want))
	}
	return ""
}

func showOut(o string) string {
	if strings.HasPrefix(o, "ok ") {
		return fmt.Sprintf("%q", unhx(o[3:]))
	}
	return o
}

func dropRuneVariants(s string) []string {
	var out []string
	rs := []rune(s)
	if len(rs) >= 2 {
		out = append(out, string(rs[:len(rs)/2]), string(rs[len(rs)/2:]))
	}
	for i := range rs {
		out = append(out, string(rs[:i])+string(rs[i+1:]))
	}
	return out
}

func (t SnipT) shrinks() []SnipT {
	var out []SnipT
	// hoist a child
	for _, a := range t.Args {
		if a.K != "raw" {
			out = append(out, a)
		}
	}
	// drop an argument
	for i := range t.Args {
		n := t
		n.Args = append(append([]SnipT{}, t.Args[:i]...), t.Args[i+1:]...)
		if t.K == "tmpl" {
			n.Names = append(append([]string{}, t.Names[:i]...), t.Names[i+1:]...)
		}
		out = append(out, n)
	}
	// simplify an argument
	for i, a := range t.Args {
		if a.K != "block" || (a.S != "X" && a.S != "") {
			n := t
			n.Args = append([]SnipT{}, t.Args...)
			n.Args[i] = SnipT{K: "block", S: "X"}
			out = append(out, n)
		}
		for _, s := range a.shrinks() {
			n := t
			n.Args = append([]SnipT{}, t.Args...)
			n.Args[i] = s
			out = append(out, n)
		}
	}
	// canonical names
	if t.K == "tmpl" {
		for i, nm := range t.Names {
			if nm != "a" {
				n := t
				n.Names = append([]string{}, t.Names...)
				n.Names[i] = "a"
				n.S = strings.ReplaceAll(t.S, "@"+nm, "@a")
				out = append(out, n)
			}
		}
	}
	for i, a := range t.Args {
		if a.isNil() && !(a.K == "block") {
			n := t
			n.Args = append([]SnipT{}, t.Args...)
			n.Args[i] = SnipT{K: "block"}
			out = append(out, n)
		}
	}
	// shorten text
	for _, s := range dropRuneVariants(t.S) {
		n := t
		n.S = s
		out = append(out, n)
	}
	// … by two runes at once (`%%`, `@a`: dropping one of them changes what the format means), and down to its first rune
	if rs := []rune(t.S); (t.K == "tmpl" || t.K == "sprintf") && len(rs) > 1 {
		for i := 0; i+1 < len(rs); i++ {
			n := t
			n.S = string(rs[:i]) + string(rs[i+2:])
			out = append(out, n)
		}
		n := t
		n.S = string(rs[:1])
		out = append(out, n)
	}
	for i := range t.Strs {
		n := t
		n.Strs = append(append([]string{}, t.Strs[:i]...), t.Strs[i+1:]...)
		out = append(out, n)
	}
	return out
}

func (c snipCase) Shrinks() []Case {
	var out []Case
	for _, s := range c.T.shrinks() {
		out = append(out, snipCase{s})
	}
	return out
}

func (c snipCase) Key() string { return strings.TrimPrefix(c.Line(), "snip ") }

func (c snipCase) Classes() []string {
	var cl []string
	seen := map[string]bool{}
	holes := 0
	c.T.walk(func(t SnipT) {
		if !seen[t.K] {
			seen[t.K] = true
			cl = append(cl, "kind:"+t.K)
		}
		if t.K == "tmpl" {
			holes += strings.Count(t.S, "@")
		}
		if t.K == "sprintf" {
			holes += strings.Count(t.S, "%")
		}
	})
	switch {
	case holes == 0:
		cl = append(cl, "placeholders:0")
	case holes == 1:
		cl = append(cl, "placeholders:1")
	default:
		cl = append(cl, "placeholders:2+")
	}
	if !c.InDomain() {
		cl = append(cl, "invalid-utf8")
	}
	return cl
}

func (c snipCase) Nontrivial() bool {
	n := 0
	c.T.walk(func(t SnipT) {
		if t.K == "tmpl" {
			n += strings.Count(t.S, "@")
		}
		if t.K == "sprintf" {
			n += strings.Count(t.S, "%")
		}
		if t.K == "seq" || t.K == "comment" || t.K == "directive" {
			n++
		}
	})
	return n > 0
}

var c09Names = []string{"a", "b", "x1", "_y", "Name", "a1"}

func genTmplFormat(r *Rng, names []string) string {
	var b strings.Builder
	if r.Chance(25) {
		b.WriteString(strings.Repeat("\n", 1+r.Intn(2)))
	}
	n := r.Intn(7)
	for i := 0; i < n; i++ {
		switch r.Intn(10) {
		case 0, 1, 2, 3:
			b.WriteString("@" + Pick(r, names))
			switch r.Intn(6) {
			case 0:
				b.WriteString("'")
			case 1:
				b.WriteString("''")
			case 2:
				b.WriteString("@")
			}
		case 4:
			b.WriteString(Pick(r, []string{"@", "@'", "@@", "@ ", "'", "%v", "%%", "@é"}))
		case 5:
			b.WriteString(Pick(r, []string{"\n", "\t", " ", "\n\n"}))
		case 6:
			b.WriteString(Pick(r, []string{"é", "中", "😀", "ǅ", "\x00", "ſ"}))
		default:
			b.WriteString(r.Str([]rune("abXY01_(){}.,:=*&[]\"` "), 5))
		}
	}
	return b.String()
}

func genSprintfFormat(r *Rng) string {
	var b strings.Builder
	n := r.Intn(6)
	for i := 0; i < n; i++ {
		switch r.Intn(9) {
		case 0, 1, 2:
			b.WriteString(Pick(r, []string{"%v", "%T"}))
		case 3:
			b.WriteString("%%")
		case 4:
			b.WriteString(Pick(r, []string{"%d", "%s", "%", "% v", "%é", "%%%", "%%v", "%%%v"}))
		case 5:
			b.WriteString(Pick(r, []string{"\n", "@a", "'", "é", "😀"}))
		default:
			b.WriteString(r.Str([]rune("abT v01_(){}.,:="), 4))
		}
	}
	return b.String()
}

func genLeaf(r *Rng) SnipT {
	switch r.Intn(10) {
	case 0:
		return SnipT{K: "block", S: ""}
	case 1:
		return SnipT{K: "block", S: Pick(r, []string{"@a", "@a'", "%v", "'", "@", "%%", "@zz"})} // looks like template syntax
	case 2:
		return SnipT{K: "comment", S: Pick(r, []string{"", "one", "two\nlines", "a\n\nb", "@a %v", "tail\n"})}
	case 3:
		return SnipT{K: "directive", S: Pick(r, []string{"", "build", "generate"}), Strs: []string{Pick(r, []string{"", "go", "!windows"}), Pick(r, []string{"", "run ."})}[:r.Intn(3)]}
	default:
		return SnipT{K: "block", S: r.Str([]rune("XYZ01 ._"), 4)}
	}
}

func genSnip(r *Rng, depth int) SnipT {
	if depth <= 0 {
		return genLeaf(r)
	}
	switch r.Intn(10) {
	case 0, 1, 2, 3, 4:
		k := r.Intn(4)
		names := make([]string, k)
		args := make([]SnipT, k)
		for i := range names {
			names[i] = Pick(r, c09Names)
			args[i] = genSnip(r, depth-1-r.Intn(2))
		}
		vocab := append([]string{}, names...)
		if len(vocab) == 0 || r.Chance(6) {
			vocab = append(vocab, Pick(r, c09Names)) // may be unbound
		}
		t := SnipT{K: "tmpl", S: genTmplFormat(r, vocab), Names: names, Args: args}
		if r.Chance(2) {
			// a long format: the placeholders sit around a multiple of 4096 bytes (where a buffered reader hands over)
			t.S = strings.Repeat("x", 4096*(1+r.Intn(2))-r.Intn(1+len(t.S))-r.Intn(4)) + t.S
		}
		if k > 0 && r.Chance(18) {
			// a template nested in a template with the byte-identical format and other bindings (what a per-format cache of
			// compiled templates would confuse): one argument becomes such a twin, bound to fresh leaves
			twin := SnipT{K: "tmpl", S: t.S}
			for _, nm := range names {
				if r.Chance(75) {
					twin.Names = append(twin.Names, nm)
					twin.Args = append(twin.Args, genLeaf(r))
				}
			}
			t.Args[r.Intn(k)] = twin
		}
		return t
	case 5, 6, 7:
		f := genSprintfFormat(r)
		k := strings.Count(f, "%v") + strings.Count(f, "%T")
		if r.Chance(15) {
			k = r.Intn(4)
		}
		args := make([]SnipT, k)
		for i := range args {
			if r.Chance(40) {
				args[i] = SnipT{K: "raw", Raw: r.Intn(len(rawArgs))}
			} else {
				args[i] = genSnip(r, depth-1-r.Intn(2))
			}
		}
		t := SnipT{K: "sprintf", S: f, Args: args}
		if r.Chance(2) {
			t.S = strings.Repeat("x", 4096*(1+r.Intn(2))-r.Intn(1+len(f))-r.Intn(4)) + f
		}
		if k > 0 && r.Chance(18) {
			// the same for Sprintf: an argument that is a Sprintf snippet with the same format
			twin := SnipT{K: "sprintf", S: f}
			for range args {
				twin.Args = append(twin.Args, genLeaf(r))
			}
			t.Args[r.Intn(k)] = twin
		}
		return t
	case 8:
		k := r.Intn(4)
		args := make([]SnipT, k)
		for i := range args {
			args[i] = genSnip(r, depth-1)
		}
		return SnipT{K: "seq", Args: args}
	default:
		return genLeaf(r)
	}
}

func init() {
	register(&Property{ID: "C09", Streams: []*Stream{
		{
			Name: "tree", Quick: 40000, Thorough: 400000,
			New:  func() Case { return &snipCase{} },
			Gen:  func(r *Rng, i int) Case { return snipCase{genSnip(r, 1+r.Intn(3))} },
			Rule: "random snippet trees (T / Sprintf / Snippets / Comment / GoDirective / Block, depth ≤ 3, bindings among empty, literal, nested and placeholder-looking arguments, one format in fifty padded so that its placeholders sit around a multiple of 4096 bytes, raw Go values under %v/%T) rendered through a real SnippetWriter; non-trivial = contains a placeholder, verb, sequence, comment or directive; distinct by tree; every tree is rendered through a fresh writer and through one writer that lives as long as the process (so after renderings that panicked half way), each time followed by a marker snippet: both must write the same bytes and the marker must come out alone",
		},
		{
			Name: "malformed", Quick: 4000, Thorough: 40000,
			New: func() Case { return &snipCase{} },
			Gen: func(r *Rng, i int) Case {
				t := genSnip(r, 1+r.Intn(2))
				bad := Pick(r, []string{"\xff", "\xc3", "\xe2\x82", "\ufeff", "a\ufeff"})
				if t.K == "tmpl" || t.K == "sprintf" {
					k := r.Intn(len(t.S) + 1)
					for k > 0 && k < len(t.S) && !utf8.RuneStart(t.S[k]) {
						k--
					}
					t.S = t.S[:k] + bad + t.S[k:]
				}
				return snipCase{t}
			},
			Rule: "the same trees with invalid UTF-8 bytes or a byte-order mark spliced into a format (invalid UTF-8: model/implementation agreement only, no property verdict)",
		},
		{
			Name: "tmpl-exhaustive", New: func() Case { return &snipCase{} },
			Enum: func(tier string, yield func(Case)) {
				n := 4
				if tier == "thorough" {
					n = 6
				}
				binds := [][]SnipT{
					{},
					{{K: "block", S: ""}},
					{{K: "block", S: "X"}},
					{{K: "block", S: "@a"}},
					{{K: "block", S: "'"}},
				}
				enumStrings([]rune("a1_@' \n"), n, func(s string) {
					if !strings.Contains(s, "@") {
						return
					}
					for _, bd := range binds {
						t := SnipT{K: "tmpl", S: s}
						if len(bd) == 1 {
							t.Names, t.Args = []string{"a"}, bd
						}
						yield(snipCase{t})
					}
				})
			},
			EnumExhaustive: true,
			Rule:           "every template format of length ≤ 4 (quick) / ≤ 6 (thorough) over {a,1,_,@,',space,newline} containing an @, times the binding of `a` to {unbound, empty, \"X\", \"@a\", \"'\"}",
		},
		{
			Name: "sprintf-exhaustive", New: func() Case { return &snipCase{} },
			Enum: func(tier string, yield func(Case)) {
				n := 4
				if tier == "thorough" {
					n = 6
				}
				enumStrings([]rune("%vTa d"), n, func(s string) {
					if !strings.Contains(s, "%") {
						return
					}
					for k := 0; k <= 2; k++ {
						args := []SnipT{{K: "block", S: "%v"}, {K: "raw", Raw: 0}}[:k]
						yield(snipCase{SnipT{K: "sprintf", S: s, Args: args}})
					}
				})
			},
			EnumExhaustive: true,
			Rule:           "every Sprintf format of length ≤ 4 (quick) / ≤ 6 (thorough) over {%,v,T,a,space,d} containing a %, with 0, 1 or 2 arguments",
		},
	}})
}
