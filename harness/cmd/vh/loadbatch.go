package main

// Loader-level batches: many synthetic packages in one temp module, one real types.Load.

import (
	"fmt"
	"go/token"
	"os"
	"path/filepath"
	"sync"

	gengotypes "github.com/octohelm/gengo/pkg/types"
	"golang.org/x/tools/go/packages"
)

const batchMod = "example.com/b"

var loadEnvOnce sync.Once

// the harness is built with GOFLAGS=-mod=mod; go list on a synthetic module must not see it
func fixLoadEnv() {
	loadEnvOnce.Do(func() {
		os.Setenv("GOFLAGS", "")
		os.Setenv("GOWORK", "off")
	})
}

type loadedBatch struct {
	U    *gengotypes.Universe
	Dir  string
	Err  error
	done func()
}

func (b *loadedBatch) Close() {
	if b.done != nil {
		b.done()
	}
}

func (b *loadedBatch) Pkg(i int) gengotypes.Package {
	if b.U == nil {
		return nil
	}
	return b.U.Package(fmt.Sprintf("%s/c%d", batchMod, i))
}

// loadBatch writes package i (file name → content) to <tmp>/c<i>/ and loads them all.
func loadBatch(pkgs []map[string]string) *loadedBatch { return loadBatchFset(pkgs, false) }

// loadBatchFset: with own set, the way a caller with a file set of its own loads — packages.Config.Fset supplied
// through an option (the positions of the loaded syntax then live in that file set)
func loadBatchFset(pkgs []map[string]string, own bool) *loadedBatch {
	fixLoadEnv()
	root, err := os.MkdirTemp("", "vhload")
	if err != nil {
		return &loadedBatch{Err: err}
	}
	b := &loadedBatch{Dir: root, done: func() { os.RemoveAll(root) }}
	os.WriteFile(filepath.Join(root, "go.mod"), []byte("module "+batchMod+"\n\ngo 1.24\n"), 0o644)
	var pats []string
	for i, files := range pkgs {
		pd := filepath.Join(root, fmt.Sprintf("c%d", i))
		os.MkdirAll(pd, 0o755)
		for name, content := range files {
			os.MkdirAll(filepath.Dir(filepath.Join(pd, name)), 0o755)
			os.WriteFile(filepath.Join(pd, name), []byte(content), 0o644)
		}
		pats = append(pats, fmt.Sprintf("./c%d", i))
	}
	// stdout: the loader prints warnings
	old := os.Stdout
	devnull, _ := os.OpenFile(os.DevNull, os.O_WRONLY, 0)
	os.Stdout = devnull
	defer func() { os.Stdout = old; devnull.Close() }()
	b.U, b.Err = gengotypes.Load(pats, func(c *packages.Config) {
		c.Dir = root
		if own {
			c.Fset = token.NewFileSet()
		}
	})
	return b
}
