package main

// C11 — type literals denote the type they were rendered from.

import (
	"bytes"
	"fmt"
	"go/ast"
	"go/parser"
	"go/token"
	"go/types"
	"reflect"
	"sort"
	"strings"
	"time"

	"github.com/octohelm/gengo/pkg/gengo"
	"github.com/octohelm/gengo/pkg/gengo/snippet"
	"github.com/octohelm/gengo/pkg/namer"
	futil2 "verif/harness/fixtures/other/util"
	futil "verif/harness/fixtures/util"
	fv1 "verif/harness/fixtures/v1"
)

// TShape is a closed type expression of the grammar of C11 as plain data.
// tag texts: whatever a raw string can hold (no backquote) — dots, commas, brackets, percent signs and printf verbs, @names,
// escaped quotes and backslashes inside the value, non-ASCII
var c11Tags = []string{"", "", `json:"a"`, `json:"a.b" x:"1"`, `doc:"v1.2,omitempty"`, `validate:"@float[0,100%]"`, `layout:"%Y-%m-%d"`, `like:"100%%"`,
	`name:"é %v @x"`, `re:"\\d+\\.\\d+"`, `q:"a\"b"`, `k:"x y z"`, `path:"a/b.c" validate:"@string[1,]"`, `fmt:"%s%d%!"`}

type TShape struct {
	K      string   `json:"k"`                // basic error any named ptr slice array map chan struct
	Name   string   `json:"name,omitempty"`   // basic kind name / type name
	Path   string   `json:"path,omitempty"`   // package path of a named type
	N      int      `json:"n,omitempty"`      // array length
	Args   []TShape `json:"args,omitempty"`   // generic arguments / element types / field types
	Fields []TField `json:"fields,omitempty"` // struct fields (types in Args, aligned)
}

type TField struct {
	Name string `json:"name"`
	Emb  bool   `json:"emb,omitempty"`
	Tag  string `json:"tag,omitempty"`
}

type typeEnv struct {
	pkgs  map[string]*types.Package
	named map[string]*types.Named
}

func newTypeEnv() *typeEnv {
	return &typeEnv{pkgs: map[string]*types.Package{}, named: map[string]*types.Named{}}
}

func (e *typeEnv) pkg(path string) *types.Package {
	if p, ok := e.pkgs[path]; ok {
		return p
	}
	segs := strings.Split(path, "/")
	p := types.NewPackage(path, segs[len(segs)-1])
	e.pkgs[path] = p
	return p
}

func (e *typeEnv) mkNamed(path, name string, generic int) *types.Named {
	key := path + "." + name
	if n, ok := e.named[key]; ok {
		return n
	}
	obj := types.NewTypeName(token.NoPos, e.pkg(path), name, nil)
	// what a defined type is defined as must not matter to how it is printed: the name says it all
	var under types.Type = types.NewStruct(nil, nil)
	switch name {
	case "Ref":
		under = types.NewPointer(types.NewStruct(nil, nil))
	case "Handle":
		under = types.NewPointer(types.Typ[types.Int])
	case "Seq":
		under = types.NewSlice(types.Typ[types.String])
	case "Dict":
		under = types.NewMap(types.Typ[types.String], types.Typ[types.Int])
	case "Hook":
		under = types.NewSignatureType(nil, nil, nil, nil, nil, false)
	case "Pipe":
		under = types.NewChan(types.SendRecv, types.Typ[types.Int])
	case "Num":
		under = types.Typ[types.Int64]
	case "Quad":
		under = types.NewArray(types.Typ[types.Int], 4)
	}
	n := types.NewNamed(obj, under, nil)
	if generic > 0 {
		var tps []*types.TypeParam
		for i := 0; i < generic; i++ {
			tn := types.NewTypeName(token.NoPos, e.pkg(path), string(rune('T'+i)), nil)
			tps = append(tps, types.NewTypeParam(tn, types.Universe.Lookup("any").Type()))
		}
		n.SetTypeParams(tps)
	}
	e.pkg(path).Scope().Insert(obj)
	e.named[key] = n
	return n
}

func basicByName(n string) *types.Basic {
	for _, b := range types.Typ {
		if b.Name() == n && b.Info()&types.IsUntyped == 0 {
			return b
		}
	}
	return types.Typ[types.Int]
}

func (t TShape) toTypes(e *typeEnv) types.Type {
	switch t.K {
	case "basic":
		return basicByName(t.Name)
	case "error":
		return types.Universe.Lookup("error").Type()
	case "any":
		return types.Universe.Lookup("any").Type()
	case "named":
		n := e.mkNamed(t.Path, t.Name, len(t.Args))
		if len(t.Args) == 0 {
			return n
		}
		var args []types.Type
		for _, a := range t.Args {
			args = append(args, a.toTypes(e))
		}
		in, err := types.Instantiate(nil, n, args, false)
		if err != nil {
			panic(err)
		}
		return in
	case "ptr":
		return types.NewPointer(t.Args[0].toTypes(e))
	case "slice":
		return types.NewSlice(t.Args[0].toTypes(e))
	case "array":
		return types.NewArray(t.Args[0].toTypes(e), int64(t.N))
	case "map":
		return types.NewMap(t.Args[0].toTypes(e), t.Args[1].toTypes(e))
	case "chan":
		return types.NewChan(types.SendRecv, t.Args[0].toTypes(e))
	case "struct":
		var fs []*types.Var
		var tags []string
		for i, f := range t.Fields {
			fs = append(fs, types.NewField(token.NoPos, e.pkg("ex/self"), f.Name, t.Args[i].toTypes(e), f.Emb))
			tags = append(tags, f.Tag)
		}
		return types.NewStruct(fs, tags)
	}
	panic("shape " + t.K)
}

func (t TShape) tokens(out *[]string) {
	switch t.K {
	case "basic":
		*out = append(*out, "basic", t.Name)
	case "error", "any":
		*out = append(*out, t.K)
	case "named":
		*out = append(*out, "named", hx(t.Path), t.Name, fmt.Sprint(len(t.Args)))
		for _, a := range t.Args {
			a.tokens(out)
		}
	case "ptr", "slice", "chan":
		*out = append(*out, t.K)
		t.Args[0].tokens(out)
	case "array":
		*out = append(*out, "array", fmt.Sprint(t.N))
		t.Args[0].tokens(out)
	case "map":
		*out = append(*out, "map")
		t.Args[0].tokens(out)
		t.Args[1].tokens(out)
	case "struct":
		*out = append(*out, "struct", fmt.Sprint(len(t.Fields)))
		for i, f := range t.Fields {
			*out = append(*out, f.Name, b01(f.Emb), hx(f.Tag))
			t.Args[i].tokens(out)
		}
	}
}

func (t TShape) walk(f func(TShape)) {
	f(t)
	for _, a := range t.Args {
		a.walk(f)
	}
}

func (t TShape) depth() int {
	d := 0
	for _, a := range t.Args {
		if x := a.depth(); x > d {
			d = x
		}
	}
	return d + 1
}

type tlitCase struct {
	T    TShape   `json:"type"`
	Self string   `json:"self"`
	Pre  []string `json:"pre,omitempty"` // packages the target file imported before (clashing names already bound)
	// a type rendered through the same writer just before: what a file renders first must not leak into what it renders next
	Before *TShape `json:"before,omitempty"`
	out    string
	imps   string
	have   bool
}

func (c *tlitCase) render(t types.Type) (text string, imports map[string]string, panicked bool) {
	defer func() {
		if recover() != nil {
			panicked = true
		}
	}()
	b := bytes.NewBuffer(nil)
	tr := namer.NewDefaultImportTracker()
	nm := namer.NewRawNamer(c.Self, tr)
	for _, p := range c.Pre {
		nm.Name(refOf(p, "Pre"))
	}
	w := gengo.NewSnippetWriter(b, namer.NameSystems{"raw": nm})
	if c.Before != nil {
		w.Render(snippet.ID(c.Before.toTypes(newTypeEnv())))
		b.Reset()
	}
	w.Render(snippet.ID(t))
	return b.String(), tr.Imports(), false
}

// twinBelowPointer: the same type with one thing changed below a pointer (another basic type, another named type) —
// a different type that a lossy description of types (one that does not look below pointers) cannot tell from t
func twinBelowPointer(t TShape) (TShape, bool) {
	if t.K == "ptr" && len(t.Args) == 1 {
		c := t.Args[0]
		switch c.K {
		case "basic":
			n := t
			other := "int"
			if c.Name == "int" {
				other = "string"
			}
			n.Args = []TShape{{K: "basic", Name: other}}
			return n, true
		case "named":
			if len(c.Args) == 0 {
				n := t
				other := "Item"
				if c.Name == "Item" {
					other = "Obj"
				}
				n.Args = []TShape{{K: "named", Path: c.Path, Name: other}}
				return n, true
			}
		}
	}
	for i, a := range t.Args {
		if tw, ok := twinBelowPointer(a); ok {
			n := t
			n.Args = append([]TShape{}, t.Args...)
			n.Args[i] = tw
			return n, true
		}
	}
	return t, false
}

func (c *tlitCase) Run() string {
	if c.have {
		return c.out
	}
	c.have = true
	env := newTypeEnv()
	text, imps, panicked := c.render(c.T.toTypes(env))
	if panicked {
		c.out, c.imps = "panic", "-"
		return c.out
	}
	c.imps = showImports(imps)
	if c.imps == "" {
		c.imps = "-"
	}
	c.out = "ok " + hx(text)
	return c.out
}

func (c *tlitCase) Line() string {
	c.Run()
	var toks []string
	c.T.tokens(&toks)
	return fmt.Sprintf("tlit %s %s %s", hx(c.Self), c.imps, strings.Join(toks, " "))
}

func fullQual(p *types.Package) string { return p.Path() }

type mapImporter map[string]*types.Package

func (m mapImporter) Import(path string) (*types.Package, error) {
	if p, ok := m[path]; ok {
		p.MarkComplete()
		return p, nil
	}
	return nil, fmt.Errorf("no package %s", path)
}

// Oracle: the text, in a file of the target package with the registered imports, type-checks to the
// same type (compared as fully qualified type strings — tags, embedded fields and instantiations included).
func (c *tlitCase) Oracle(out string) string {
	if out == "panic" {
		return "rendering the type panicked"
	}
	text := unhx(strings.TrimPrefix(out, "ok "))
	env := newTypeEnv()
	orig := c.T.toTypes(env)
	_, imports, _ := c.render(orig)
	var src bytes.Buffer
	segs := strings.Split(c.Self, "/")
	fmt.Fprintf(&src, "package %s\n", segs[len(segs)-1])
	var paths []string
	for p := range imports {
		paths = append(paths, p)
	}
	sort.Strings(paths)
	used := map[string]bool{}
	c.T.walk(func(t TShape) {
		if t.K == "named" && t.Path != c.Self {
			used[t.Path] = true
		}
	})
	for _, p := range paths {
		if used[p] {
			fmt.Fprintf(&src, "import %s %q\n", imports[p], p)
		}
	}
	for p := range used {
		if _, ok := imports[p]; !ok {
			return "package " + p + " is referenced by the type but was not registered as an import"
		}
	}
	// the target package's own types
	decl := map[string]bool{}
	c.T.walk(func(t TShape) {
		if t.K == "named" && t.Path == c.Self && !decl[t.Name] {
			decl[t.Name] = true
			if n := len(t.Args); n > 0 {
				ps := []string{}
				for i := 0; i < n; i++ {
					ps = append(ps, string(rune('T'+i)))
				}
				fmt.Fprintf(&src, "type %s[%s any] struct{}\n", t.Name, strings.Join(ps, ", "))
			} else {
				fmt.Fprintf(&src, "type %s struct{}\n", t.Name)
			}
		}
	})
	fmt.Fprintf(&src, "var X %s\n", text)
	fset := token.NewFileSet()
	f, err := parser.ParseFile(fset, "x.go", src.Bytes(), 0)
	if err != nil {
		return fmt.Sprintf("the rendered type %q does not parse in the target file: %v", text, err)
	}
	imp := mapImporter{}
	for p, pk := range env.pkgs {
		if p != c.Self {
			imp[p] = pk
		}
	}
	conf := types.Config{Importer: imp}
	info := &types.Info{Defs: map[*ast.Ident]types.Object{}}
	pkg, err := conf.Check(c.Self, fset, []*ast.File{f}, info)
	if err != nil {
		return fmt.Sprintf("the rendered type %q does not type-check in the target package: %v", text, err)
	}
	got := types.TypeString(pkg.Scope().Lookup("X").Type(), fullQual)
	want := types.TypeString(orig, fullQual)
	if got != want {
		return fmt.Sprintf("rendered as %q, which denotes %s, not %s", text, got, want)
	}
	return ""
}

func (t TShape) shrinks() []TShape {
	var out []TShape
	if t.K != "named" {
		out = append(out, t.Args...)
	}
	for i, a := range t.Args {
		for _, s := range a.shrinks() {
			n := t
			n.Args = append([]TShape{}, t.Args...)
			n.Args[i] = s
			out = append(out, n)
		}
		if a.K != "basic" && !(t.K == "struct" && t.Fields[i].Emb) {
			n := t
			n.Args = append([]TShape{}, t.Args...)
			n.Args[i] = TShape{K: "basic", Name: "int"}
			out = append(out, n)
		}
	}
	if t.K == "struct" {
		for i := range t.Fields {
			n := t
			n.Fields = append(append([]TField{}, t.Fields[:i]...), t.Fields[i+1:]...)
			n.Args = append(append([]TShape{}, t.Args[:i]...), t.Args[i+1:]...)
			out = append(out, n)
			if t.Fields[i].Tag != "" {
				n := t
				n.Fields = append([]TField{}, t.Fields...)
				n.Fields[i].Tag = ""
				out = append(out, n)
			}
		}
	}
	return out
}

func (c *tlitCase) Shrinks() []Case {
	var out []Case
	for _, s := range c.T.shrinks() {
		out = append(out, &tlitCase{T: s, Self: c.Self, Pre: c.Pre})
	}
	if len(c.Pre) > 0 {
		out = append(out, &tlitCase{T: c.T, Self: c.Self})
	}
	return out
}

func (c *tlitCase) Key() string {
	var toks []string
	c.T.tokens(&toks)
	return c.Self + " <- " + strings.Join(toks, " ")
}

func (c *tlitCase) Classes() []string {
	m := map[string]bool{}
	c.T.walk(func(t TShape) {
		m["kind:"+t.K] = true
		if t.K == "named" && len(t.Args) > 0 {
			m["generic-instantiation"] = true
		}
		if t.K == "named" && t.Path == c.Self {
			m["own-package-type"] = true
		}
	})
	m[fmt.Sprintf("depth:%d", c.T.depth())] = true
	if len(c.Pre) > 0 {
		m["pre-bound-clashing-names"] = true
	}
	var cl []string
	for k := range m {
		cl = append(cl, k)
	}
	sort.Strings(cl)
	return cl
}
func (c *tlitCase) Nontrivial() bool { return c.T.depth() > 1 || c.T.K == "named" }

var c11Paths = []string{"ex/self", "ex/other", "time", "github.com/x/api/v1", "k8s.io/api/core/v1", "ex/a/util", "ex/b/util"}
var c11Basics = []string{"bool", "int", "int8", "int64", "uint8", "uint32", "float64", "string", "uintptr", "complex128", "float32"}

func genShape(r *Rng, depth int) TShape {
	c := r.Intn(12)
	if depth <= 0 && c > 4 {
		c = r.Intn(5)
	}
	switch c {
	case 0, 1:
		return TShape{K: "basic", Name: Pick(r, c11Basics)}
	case 2:
		return TShape{K: "error"}
	case 3:
		return TShape{K: "any"}
	case 4:
		return TShape{K: "named", Path: Pick(r, c11Paths), Name: Pick(r, []string{"Item", "List", "Obj", "Item", "Ref", "Handle", "Seq", "Dict", "Hook", "Pipe", "Num", "Quad"})}
	case 5:
		k := 1 + r.Intn(2)
		t := TShape{K: "named", Path: Pick(r, c11Paths), Name: fmt.Sprintf("Gen%d", k)}
		for i := 0; i < k; i++ {
			switch {
			case depth > 1 && r.Chance(35):
				in := TShape{K: "named", Path: Pick(r, c11Paths), Name: "Gen1"}
				if depth > 2 && r.Chance(40) {
					in.Args = []TShape{{K: "named", Path: Pick(r, c11Paths), Name: "Gen1", Args: []TShape{{K: "basic", Name: Pick(r, c11Basics)}}}}
				} else {
					in.Args = []TShape{{K: "basic", Name: Pick(r, c11Basics)}}
				}
				t.Args = append(t.Args, in)
			case r.Bool():
				t.Args = append(t.Args, TShape{K: "basic", Name: Pick(r, c11Basics)})
			default:
				t.Args = append(t.Args, TShape{K: "named", Path: Pick(r, c11Paths), Name: "Item"})
			}
		}
		return t
	case 6:
		return TShape{K: "ptr", Args: []TShape{genShape(r, depth-1)}}
	case 7:
		return TShape{K: "slice", Args: []TShape{genShape(r, depth-1)}}
	case 8:
		return TShape{K: "array", N: r.Intn(5), Args: []TShape{genShape(r, depth-1)}}
	case 9:
		key := genShape(r, 0)
		if key.K == "named" && (key.Name == "Seq" || key.Name == "Dict" || key.Name == "Hook") {
			key.Name = "Ref" // a map key must be comparable
		}
		return TShape{K: "map", Args: []TShape{key, genShape(r, depth-1)}}
	case 10:
		return TShape{K: "chan", Args: []TShape{genShape(r, depth-1)}}
	default:
		n := r.Intn(4)
		t := TShape{K: "struct"}
		usedEmb := map[string]bool{}
		for i := 0; i < n; i++ {
			f := TField{Name: fmt.Sprintf("F%d", i), Tag: Pick(r, c11Tags)}
			nm := Pick(r, []string{"Item", "Obj"})
			if r.Chance(20) && !usedEmb[nm] {
				usedEmb[nm] = true
				f.Name, f.Emb = nm, true
				t.Args = append(t.Args, TShape{K: "named", Path: Pick(r, c11Paths), Name: nm})
			} else if pre := Pick(r, []string{"any", "error"}); r.Chance(8) && !usedEmb[pre] {
				// an embedded predeclared type: the field is named after it (`any` is an alias without a package)
				usedEmb[pre] = true
				f.Name, f.Emb = pre, true
				t.Args = append(t.Args, TShape{K: pre})
			} else {
				t.Args = append(t.Args, genShape(r, depth-1))
			}
			t.Fields = append(t.Fields, f)
		}
		return t
	}
}

// ---------------------------------------------------------------- the reflect route

type rfixture struct {
	name string
	rt   reflect.Type
	path string
	tn   string
	args []TShape
}

var fixturesMod = "verif/harness/fixtures"

var rfixtures = []rfixture{
	{"util.Item", reflect.TypeFor[futil.Item](), fixturesMod + "/util", "Item", nil},
	{"util.Obj", reflect.TypeFor[futil.Obj](), fixturesMod + "/util", "Obj", nil},
	{"util.Dur", reflect.TypeFor[futil.Dur](), fixturesMod + "/util", "Dur", nil},
	{"util2.Item", reflect.TypeFor[futil2.Item](), fixturesMod + "/other/util", "Item", nil},
	{"util2.Dur", reflect.TypeFor[futil2.Dur](), fixturesMod + "/other/util", "Dur", nil},
	{"v1.Item", reflect.TypeFor[fv1.Item](), fixturesMod + "/v1", "Item", nil},
	{"v1.Kind", reflect.TypeFor[fv1.Kind](), fixturesMod + "/v1", "Kind", nil},
	{"time.Duration", reflect.TypeFor[time.Duration](), "time", "Duration", nil},
	{"util.ItemRef", reflect.TypeFor[futil.ItemRef](), fixturesMod + "/util", "ItemRef", nil},
	{"util.Handle", reflect.TypeFor[futil.Handle](), fixturesMod + "/util", "Handle", nil},
	{"util.Items", reflect.TypeFor[futil.Items](), fixturesMod + "/util", "Items", nil},
	{"util.Index", reflect.TypeFor[futil.Index](), fixturesMod + "/util", "Index", nil},
	{"util.Hook", reflect.TypeFor[futil.Hook](), fixturesMod + "/util", "Hook", nil},
	{"util.Pipe", reflect.TypeFor[futil.Pipe](), fixturesMod + "/util", "Pipe", nil},
	{"util.Quad", reflect.TypeFor[futil.Quad](), fixturesMod + "/util", "Quad", nil},
	{"time.Time", reflect.TypeFor[time.Time](), "time", "Time", nil},
	{"util.Gen1[int]", reflect.TypeFor[futil.Gen1[int]](), fixturesMod + "/util", "Gen1", []TShape{{K: "basic", Name: "int"}}},
	{"util.Gen1[util2.Item]", reflect.TypeFor[futil.Gen1[futil2.Item]](), fixturesMod + "/util", "Gen1", []TShape{{K: "named", Path: fixturesMod + "/other/util", Name: "Item"}}},
	{"util.Gen2[string,v1.Kind]", reflect.TypeFor[futil.Gen2[string, fv1.Kind]](), fixturesMod + "/util", "Gen2", []TShape{{K: "basic", Name: "string"}, {K: "named", Path: fixturesMod + "/v1", Name: "Kind"}}},
	{"util2.Gen1[util.Gen1[time.Duration]]", reflect.TypeFor[futil2.Gen1[futil.Gen1[time.Duration]]](), fixturesMod + "/other/util", "Gen1", []TShape{{K: "named", Path: fixturesMod + "/util", Name: "Gen1", Args: []TShape{{K: "named", Path: "time", Name: "Duration"}}}}},
}

var rbasics = map[string]reflect.Type{
	"bool": reflect.TypeFor[bool](), "int": reflect.TypeFor[int](), "int8": reflect.TypeFor[int8](), "int64": reflect.TypeFor[int64](),
	"uint8": reflect.TypeFor[uint8](), "uint32": reflect.TypeFor[uint32](), "float64": reflect.TypeFor[float64](), "float32": reflect.TypeFor[float32](),
	"string": reflect.TypeFor[string](), "uintptr": reflect.TypeFor[uintptr](), "complex128": reflect.TypeFor[complex128](),
}

// RShape: a type built with reflect over the fixture menu; Fix ≥ 0 selects a fixture leaf.
type RShape struct {
	K    string   `json:"k"` // fix basic error any ptr slice array map chan struct
	Fix  int      `json:"fix,omitempty"`
	Name string   `json:"name,omitempty"`
	N    int      `json:"n,omitempty"`
	Args []RShape `json:"args,omitempty"`
	Tags []string `json:"tags,omitempty"`
}

func (t RShape) rtype() reflect.Type {
	switch t.K {
	case "fix":
		return rfixtures[t.Fix].rt
	case "basic":
		return rbasics[t.Name]
	case "error":
		return reflect.TypeFor[error]()
	case "any":
		return reflect.TypeFor[any]()
	case "ptr":
		return reflect.PointerTo(t.Args[0].rtype())
	case "slice":
		return reflect.SliceOf(t.Args[0].rtype())
	case "array":
		return reflect.ArrayOf(t.N, t.Args[0].rtype())
	case "map":
		return reflect.MapOf(t.Args[0].rtype(), t.Args[1].rtype())
	case "chan":
		return reflect.ChanOf(reflect.BothDir, t.Args[0].rtype())
	case "struct":
		var fs []reflect.StructField
		for i, a := range t.Args {
			fs = append(fs, reflect.StructField{Name: fmt.Sprintf("F%d", i), Type: a.rtype(), Tag: reflect.StructTag(t.Tags[i])})
		}
		return reflect.StructOf(fs)
	}
	panic("rshape")
}

func (t RShape) shape() TShape {
	switch t.K {
	case "fix":
		f := rfixtures[t.Fix]
		return TShape{K: "named", Path: f.path, Name: f.tn, Args: f.args}
	case "basic":
		return TShape{K: "basic", Name: t.Name}
	case "error", "any":
		return TShape{K: t.K}
	case "struct":
		s := TShape{K: "struct"}
		for i, a := range t.Args {
			s.Args = append(s.Args, a.shape())
			s.Fields = append(s.Fields, TField{Name: fmt.Sprintf("F%d", i), Tag: t.Tags[i]})
		}
		return s
	default:
		s := TShape{K: t.K, N: t.N}
		for _, a := range t.Args {
			s.Args = append(s.Args, a.shape())
		}
		return s
	}
}

type rlitCase struct {
	T    RShape `json:"type"`
	Self string `json:"self"`
	out  string
	imps string
	have bool
}

func renderAny(self string, v any) (text string, imports map[string]string, panicked bool) {
	defer func() {
		if recover() != nil {
			panicked = true
		}
	}()
	b := bytes.NewBuffer(nil)
	tr := namer.NewDefaultImportTracker()
	w := gengo.NewSnippetWriter(b, namer.NameSystems{"raw": namer.NewRawNamer(self, tr)})
	w.Render(snippet.ID(v))
	return b.String(), tr.Imports(), false
}

func (c *rlitCase) Run() string {
	if c.have {
		return c.out
	}
	c.have = true
	text, imps, panicked := renderAny(c.Self, c.T.rtype())
	if panicked {
		c.out, c.imps = "panic", "-"
		return c.out
	}
	c.imps = showImports(imps)
	if c.imps == "" {
		c.imps = "-"
	}
	c.out = "ok " + hx(text)
	return c.out
}
func (c *rlitCase) Line() string {
	c.Run()
	var toks []string
	c.T.shape().tokens(&toks)
	return fmt.Sprintf("tlit %s %s %s", hx(c.Self), c.imps, strings.Join(toks, " "))
}

// Oracle: the reflect route and the go/types route print the same text and register the same imports
// for the same type; the go/types route is judged by type-checking in the stream above.
func (c *rlitCase) Oracle(out string) string {
	if out == "panic" {
		return "rendering the reflect type panicked"
	}
	env := newTypeEnv()
	sh := c.T.shape()
	// field package of reflect-built structs is irrelevant for exported names
	tc := &tlitCase{T: sh, Self: c.Self}
	text2, imps2, panicked := tc.render(sh.toTypes(env))
	if panicked {
		return "rendering the equivalent go/types type panicked"
	}
	if "ok "+hx(text2) != out {
		return fmt.Sprintf("reflect route printed %q, go/types route printed %q for the same type", unhx(strings.TrimPrefix(out, "ok ")), text2)
	}
	s2 := showImports(imps2)
	if s2 == "" {
		s2 = "-"
	}
	if s2 != c.imps {
		return "reflect route and go/types route registered different imports"
	}
	return tc.Oracle("ok " + hx(text2))
}

func (t RShape) shrinks() []RShape {
	var out []RShape
	out = append(out, t.Args...)
	for i, a := range t.Args {
		for _, s := range a.shrinks() {
			n := t
			n.Args = append([]RShape{}, t.Args...)
			n.Args[i] = s
			out = append(out, n)
		}
	}
	if t.K == "struct" {
		for i := range t.Args {
			n := t
			n.Args = append(append([]RShape{}, t.Args[:i]...), t.Args[i+1:]...)
			n.Tags = append(append([]string{}, t.Tags[:i]...), t.Tags[i+1:]...)
			out = append(out, n)
		}
	}
	return out
}
func (c *rlitCase) Shrinks() []Case {
	var out []Case
	for _, s := range c.T.shrinks() {
		// a map key must stay comparable: only leaves are generated as keys, hoisting keeps that
		out = append(out, &rlitCase{T: s, Self: c.Self})
	}
	return out
}
func (c *rlitCase) Key() string {
	var toks []string
	c.T.shape().tokens(&toks)
	return c.Self + " <- " + strings.Join(toks, " ")
}
func (c *rlitCase) Classes() []string { return (&tlitCase{T: c.T.shape(), Self: c.Self}).Classes() }
func (c *rlitCase) Nontrivial() bool  { return true }

func genRShape(r *Rng, depth int, key bool) RShape {
	c := r.Intn(12)
	if depth <= 0 || key {
		c = r.Intn(5)
	}
	switch c {
	case 0:
		return RShape{K: "basic", Name: Pick(r, c11Basics)}
	case 1:
		if key {
			return RShape{K: "basic", Name: "string"}
		}
		return RShape{K: "error"}
	case 2:
		if key {
			return RShape{K: "fix", Fix: 2}
		}
		return RShape{K: "any"}
	case 3, 4, 5:
		f := r.Intn(len(rfixtures))
		if key { // comparable fixtures only
			f = Pick(r, []int{0, 2, 4, 6, 7})
		}
		return RShape{K: "fix", Fix: f}
	case 6:
		return RShape{K: "ptr", Args: []RShape{genRShape(r, depth-1, false)}}
	case 7:
		return RShape{K: "slice", Args: []RShape{genRShape(r, depth-1, false)}}
	case 8:
		return RShape{K: "array", N: r.Intn(4), Args: []RShape{genRShape(r, depth-1, false)}}
	case 9:
		return RShape{K: "map", Args: []RShape{genRShape(r, 0, true), genRShape(r, depth-1, false)}}
	case 10:
		return RShape{K: "chan", Args: []RShape{genRShape(r, depth-1, false)}}
	default:
		n := r.Intn(4)
		t := RShape{K: "struct"}
		for i := 0; i < n; i++ {
			t.Args = append(t.Args, genRShape(r, depth-1, false))
			t.Tags = append(t.Tags, Pick(r, c11Tags))
		}
		return t
	}
}

func enumShapes(depth int, yield func(TShape)) {
	leaves := []TShape{
		{K: "basic", Name: "int"}, {K: "basic", Name: "string"}, {K: "error"}, {K: "any"},
		{K: "named", Path: "ex/self", Name: "Item"}, {K: "named", Path: "ex/a/util", Name: "Item"},
	}
	var build func(d int) []TShape
	build = func(d int) []TShape {
		if d == 1 {
			return leaves
		}
		sub := build(d - 1)
		out := append([]TShape{}, leaves...)
		for _, s := range sub {
			out = append(out, TShape{K: "ptr", Args: []TShape{s}}, TShape{K: "slice", Args: []TShape{s}}, TShape{K: "array", N: 2, Args: []TShape{s}},
				TShape{K: "chan", Args: []TShape{s}}, TShape{K: "map", Args: []TShape{{K: "basic", Name: "string"}, s}},
				TShape{K: "struct", Fields: []TField{{Name: "F0", Tag: `json:"f"`}}, Args: []TShape{s}},
				TShape{K: "named", Path: "ex/b/util", Name: "Gen1", Args: []TShape{s}})
		}
		return out
	}
	for _, s := range build(depth) {
		// generic arguments of the statement's grammar are named or basic types
		ok := true
		s.walk(func(t TShape) {
			if t.K == "named" {
				for _, a := range t.Args {
					if a.K != "basic" && a.K != "named" {
						ok = false
					}
				}
			}
		})
		if ok {
			yield(s)
		}
	}
}

func init() {
	register(&Property{ID: "C11", Streams: []*Stream{
		{
			Name: "types", Quick: 12000, Thorough: 120000, New: func() Case { return &tlitCase{} },
			Gen: func(r *Rng, i int) Case {
				c := &tlitCase{T: genShape(r, 1+r.Intn(3)), Self: Pick(r, []string{"ex/self", "ex/other", "ex/zzz"})}
				if r.Chance(25) {
					c.Pre = []string{Pick(r, []string{"ex/c/util", "other.io/v1", "my/time", "x/api/core/v1"})}
				}
				if r.Chance(30) {
					// the same writer has just rendered a type that differs from this one only below a pointer
					if tw, ok := twinBelowPointer(c.T); ok {
						c.Before = &tw
					}
				}
				return c
			},
			Rule: "random closed type expressions (depth ≤ 4) built with the go/types constructors over basics, error, any, named types of seven packages (two pairs with clashing last segments, time, versioned paths), generic instantiations with basic / named / nested-generic arguments, pointers, slices, arrays, maps, channels, structs with tags (dots, commas, brackets, percent signs and printf verbs, @names, escaped quotes and backslashes, non-ASCII) and embedded fields, rendered with snippet.ID through a real writer into three target packages, some of which already bound clashing names, and some of which have just rendered, through the same writer, a type that differs from this one only below a pointer; compared with the model byte for byte; oracle: the text type-checks in the target package with the registered imports to the same fully qualified type",
		},
		{
			Name: "types-enum", New: func() Case { return &tlitCase{} },
			Enum: func(tier string, yield func(Case)) {
				d := 3
				enumShapes(d, func(s TShape) { yield(&tlitCase{T: s, Self: "ex/self"}) })
			},
			EnumExhaustive: true,
			Rule:           "every type expression of depth ≤ 3 over the 6-leaf menu {int, string, error, any, own-package named, foreign named} and 7 constructors (generic arguments restricted to named/basic as in the statement)",
		},
		{
			Name: "reflect", Quick: 6000, Thorough: 60000, New: func() Case { return &rlitCase{} },
			Gen: func(r *Rng, i int) Case {
				return &rlitCase{T: genRShape(r, 1+r.Intn(3), false), Self: Pick(r, []string{fixturesMod + "/util", "ex/zzz", fixturesMod + "/v1"})}
			},
			Rule: "types built with reflect (PointerTo, SliceOf, ArrayOf, MapOf, ChanOf, StructOf) over fixture named types of three packages (clashing last segments, a versioned path), time.Duration, time.Time and instantiated generics, rendered with snippet.ID(reflect.Type); compared with the model; oracle: the go/types route prints the same text and registers the same imports, and that text type-checks to the same type",
		},
	}})
}
