package main

// C12 — doc comments, trailing comments and tags are attributed to the right declaration.

import (
	"fmt"
	"go/types"
	"regexp"
	"sort"
	"strings"
	"sync"

	gengotypes "github.com/octohelm/gengo/pkg/types"
)

// ---------------------------------------------------------------- tag extraction (direct)

type tagsCase struct {
	Lines   []string `json:"lines"`
	Markers string   `json:"markers,omitempty"` // "" = default
}

func (c tagsCase) Line() string {
	m := "-"
	if c.Markers != "" {
		m = hx(c.Markers)
	}
	if len(c.Lines) == 0 {
		return "tags " + m
	}
	return "tags " + m + " " + hxs(c.Lines, " ")
}

func showTagMap(tags map[string][]string, others []string) string {
	keys := []string{}
	for k := range tags {
		keys = append(keys, k)
	}
	sort.Strings(keys)
	parts := []string{}
	for _, k := range keys {
		parts = append(parts, hx(k)+"="+hxs(tags[k], "|"))
	}
	return "tags " + strings.Join(parts, ",") + " others " + hxs(others, ",")
}

func (c tagsCase) Run() string {
	return guard(func() string {
		tags, others := gengotypes.ExtractCommentTags(c.Lines, []byte(c.Markers)...)
		return showTagMap(tags, others)
	})
}

func (c tagsCase) InDomain() bool {
	for _, l := range c.Lines {
		if strings.ContainsAny(l, "\n") {
			return false
		}
	}
	return true
}

// independent re-statement: every line exactly once; tag iff, after trimming spaces, it starts with a marker
func (c tagsCase) Oracle(out string) string {
	markers := c.Markers
	if markers == "" {
		markers = "+@"
	}
	tags := map[string][]string{}
	var others []string
	for _, l := range c.Lines {
		t := strings.Trim(l, " ")
		if t != "" && strings.IndexByte(markers, t[0]) >= 0 {
			body := t[1:]
			k, v := body, ""
			if i := strings.IndexAny(body, "= "); i >= 0 {
				k, v = body[:i], body[i+1:]
			}
			tags[k] = append(tags[k], v)
		} else {
			others = append(others, t)
		}
	}
	if want := showTagMap(tags, others); out != want {
		return "tag extraction differs from the statement: " + out + " vs " + want
	}
	return ""
}

func (c tagsCase) Shrinks() []Case {
	var out []Case
	for i := range c.Lines {
		out = append(out, tagsCase{append(append([]string{}, c.Lines[:i]...), c.Lines[i+1:]...), c.Markers})
	}
	for i, l := range c.Lines {
		for _, v := range dropRuneVariants(l) {
			n := append([]string{}, c.Lines...)
			n[i] = v
			out = append(out, tagsCase{n, c.Markers})
		}
	}
	if c.Markers != "" {
		out = append(out, tagsCase{c.Lines, ""})
	}
	return out
}
func (c tagsCase) Key() string { return c.Markers + "|" + strings.Join(c.Lines, "⏎") }
func (c tagsCase) Classes() []string {
	cl := []string{fmt.Sprintf("lines:%d", len(c.Lines))}
	if c.Markers != "" {
		cl = append(cl, "custom-markers")
	}
	return cl
}
func (c tagsCase) Nontrivial() bool {
	for _, l := range c.Lines {
		if strings.ContainsAny(l, "+@") {
			return true
		}
	}
	return false
}

// ---------------------------------------------------------------- layouts (real loader)

type LRow struct {
	K     string   `json:"k"`               // b | c | d
	Lines []string `json:"lines,omitempty"` // comment lines (payload after "// ")
	Block bool     `json:"block,omitempty"` // comment rendered as one /* … */ block
	H     int      `json:"h,omitempty"`     // declaration height: 1 or 3
	Trail string   `json:"trail,omitempty"` // trailing comment payload ("" = none)
	Multi bool     `json:"multi,omitempty"` // two names on the line
}

type LSection struct {
	Kind string `json:"kind"` // top-var | top-type | top-const | struct | const | var | type
	Rows []LRow `json:"rows"`
	Hdr  string `json:"hdr,omitempty"` // struct and grouped kinds: a comment after the opening brace / parenthesis, on the header's line — it belongs to no declaration
}

type layoutCase struct {
	Sections []LSection `json:"sections"`
	CRLF     bool       `json:"crlf,omitempty"` // the source files are written with \r\n line ends
	out      string
	have     bool
}

type declRef struct {
	obj, field string // object name; field name when inside a struct
}

// render produces the source, the flat row list for the model (header/footer lines are blank rows)
// and the declared names per declaration row in order.
func (c *layoutCase) render() (src string, model []string, decls [][]declRef) {
	var b strings.Builder
	b.WriteString("package p\n\n")
	id := 0
	blank := func() { model = append(model, "b") }
	for si, s := range c.Sections {
		grouped := s.Kind == "struct" || s.Kind == "nested" || s.Kind == "const" || s.Kind == "var" || s.Kind == "type"
		indent := ""
		inner := ""
		sname := fmt.Sprintf("S%d", si)
		switch s.Kind {
		case "linedir":
			// a line directive (as goyacc, cgo and templating tools leave them): what follows belongs, for every
			// position-reporting function, to another file and other line numbers.  The directive is a comment of its own,
			// detached from what follows by the empty line that ends every section; each names a file of its own.
			// the target: by default a file of its own per directive; a row of kind "x" names file and line — a file shared
			// with other directives, the source file itself, or an absolute path in another directory — so that lines
			// behind the directive are numbered like lines elsewhere
			l := fmt.Sprintf("line gen%d.y:%d", si, max(len(s.Rows), 1)*7)
			if len(s.Rows) > 0 && s.Rows[0].K == "x" && len(s.Rows[0].Lines) == 1 {
				l = fmt.Sprintf("line %s:%d", s.Rows[0].Lines[0], max(s.Rows[0].H, 1))
			}
			b.WriteString("//" + l + "\n")
			model = append(model, "c", "1", hx(l))
			b.WriteString("\n")
			blank()
			continue
		case "struct":
			if s.Hdr != "" {
				fmt.Fprintf(&b, "type %s struct { // %s\n", sname, s.Hdr)
			} else {
				fmt.Fprintf(&b, "type %s struct {\n", sname)
			}
			// the header line declares the struct type itself
			model = append(model, "d", "1", "-")
			decls = append(decls, []declRef{{obj: sname}})
			indent = "\t"
		case "nested":
			// a struct one of whose fields has an unnamed struct, slice-of-struct or interface type written out in place: the
			// rows are the fields (methods) of that inner type — declarations two levels deep
			fmt.Fprintf(&b, "type %s struct {\n", sname)
			model = append(model, "d", "1", "-")
			decls = append(decls, []declRef{{obj: sname}})
			hdr := []string{"Spec struct {", "Items []struct {", "Hooks interface {"}[si%3]
			inner = strings.Fields(hdr)[0]
			b.WriteString("\t" + hdr + "\n")
			model = append(model, "d", "1", "-")
			decls = append(decls, []declRef{{obj: sname, field: inner}})
			indent = "\t\t"
		case "const", "var", "type":
			if s.Hdr != "" {
				fmt.Fprintf(&b, "%s ( // %s\n", s.Kind, s.Hdr)
			} else {
				fmt.Fprintf(&b, "%s (\n", s.Kind)
			}
			blank()
			indent = "\t"
		}
		for _, r := range s.Rows {
			id++
			switch r.K {
			case "f":
				// a one-line function with a comment behind it: the comment belongs to no declaration the index knows, and
				// the line is no declaration of interest — for the model an empty line
				fmt.Fprintf(&b, "func fn%d() {} // %s\n", id, strings.Join(r.Lines, " "))
				blank()
			case "b":
				b.WriteString("\n")
				blank()
			case "c":
				if r.Block && len(r.Lines) >= 2 && id%2 == 0 {
					// the tall style: the markers on lines of their own (the closing one at the margin)
					b.WriteString(indent + "/*\n" + strings.Join(r.Lines, "\n") + "\n*/\n")
				} else if r.Block {
					b.WriteString(indent + "/* " + strings.Join(r.Lines, "\n") + " */\n") // continuation lines unindented: Text() keeps leading tabs
				} else {
					for _, l := range r.Lines {
						b.WriteString(indent + "// " + l + "\n")
					}
				}
				model = append(model, "c", fmt.Sprint(len(r.Lines)))
				for _, l := range r.Lines {
					model = append(model, hx(l))
				}
			case "d":
				n1, n2 := fmt.Sprintf("N%d", id), fmt.Sprintf("M%d", id)
				var text string
				var refs []declRef
				kind := s.Kind
				switch kind {
				case "top-var", "var":
					kw := ""
					if !grouped {
						kw = "var "
					}
					switch {
					case r.H == 3:
						text = fmt.Sprintf("%s%s = []int{\n%s\t1,\n%s}", kw, n1, indent, indent)
						refs = []declRef{{obj: n1}}
					case r.Multi:
						text = fmt.Sprintf("%s%s, %s = 1, 2", kw, n1, n2)
						refs = []declRef{{obj: n1}, {obj: n2}}
					default:
						// (every fourth: a value with a field list of its own on the declaration's line)
						text = fmt.Sprintf("%s%s = %s", kw, n1, []string{"1", "func(n int) int { return n }", "1", "struct{ X, Y int }{1, 2}"}[id%4])
						refs = []declRef{{obj: n1}}
					}
				case "top-const", "const":
					kw := ""
					if !grouped {
						kw = "const "
					}
					switch {
					case r.H == 3:
						text = fmt.Sprintf("%s%s = 1 +\n%s\t2 +\n%s\t3", kw, n1, indent, indent)
						refs = []declRef{{obj: n1}}
					case r.Multi:
						text = fmt.Sprintf("%s%s, %s = 1, 2", kw, n1, n2)
						refs = []declRef{{obj: n1}, {obj: n2}}
					default:
						text = fmt.Sprintf("%s%s = 1", kw, n1)
						refs = []declRef{{obj: n1}}
					}
				case "top-type", "type":
					kw := ""
					if !grouped {
						kw = "type "
					}
					if r.H == 3 {
						text = fmt.Sprintf("%s%s func(\n%s\tint,\n%s) error", kw, n1, indent, indent)
					} else {
						// one-line types with nested field lists (parameters, results, inline struct fields) on the declaration's own line
						text = fmt.Sprintf("%s%s %s", kw, n1, []string{"int", "func(s string) error", "struct{ L, R int }", "int", "func(n int) (v int, err error)"}[id%5])
					}
					refs = []declRef{{obj: n1}}
				case "nested":
					switch {
					case inner == "Hooks" && r.H == 3:
						text = fmt.Sprintf("%s(\n%s\tint,\n%s) error", n1, indent, indent)
						refs = []declRef{{obj: sname, field: inner + "." + n1}}
					case inner == "Hooks":
						text = fmt.Sprintf("%s(a int) error", n1)
						refs = []declRef{{obj: sname, field: inner + "." + n1}}
					case r.H == 3:
						text = fmt.Sprintf("%s func(\n%s\tint,\n%s) error", n1, indent, indent)
						refs = []declRef{{obj: sname, field: inner + "." + n1}}
					case r.Multi:
						text = fmt.Sprintf("%s, %s int", n1, n2)
						refs = []declRef{{obj: sname, field: inner + "." + n1}, {obj: sname, field: inner + "." + n2}}
					default:
						text = fmt.Sprintf("%s %s", n1, []string{"int", "string `json:\"x\"`", "[]byte"}[id%3])
						refs = []declRef{{obj: sname, field: inner + "." + n1}}
					}
				case "struct":
					switch {
					case r.H == 3:
						text = fmt.Sprintf("%s func(\n%s\tint,\n%s) error", n1, indent, indent)
						refs = []declRef{{obj: sname, field: n1}}
					case r.Multi:
						text = fmt.Sprintf("%s, %s int", n1, n2)
						refs = []declRef{{obj: sname, field: n1}, {obj: sname, field: n2}}
					default:
						text = fmt.Sprintf("%s %s", n1, []string{"int", "func(err error)", "struct{ X int }", "int", "func(a, b int) (ok bool)"}[id%5])
						refs = []declRef{{obj: sname, field: n1}}
					}
				}
				b.WriteString(indent + text)
				t := "-"
				if r.Trail != "" {
					b.WriteString(" // " + r.Trail)
					t = hx(r.Trail)
				}
				b.WriteString("\n")
				h := 1
				if r.H == 3 {
					h = 3
				}
				model = append(model, "d", fmt.Sprint(h), t)
				decls = append(decls, refs)
			}
		}
		switch s.Kind {
		case "struct":
			b.WriteString("}\n")
			blank()
		case "nested":
			b.WriteString("\t}\n")
			blank()
			b.WriteString("}\n")
			blank()
		case "const", "var", "type":
			b.WriteString(")\n")
			blank()
		}
		// sections are separated by an empty line: a comment ending a section never touches the next one
		b.WriteString("\n")
		blank()
	}
	return b.String(), model, decls
}

func (c *layoutCase) Line() string {
	_, model, _ := c.render()
	return "layout " + strings.Join(model, " ")
}

func lookupDecl(p gengotypes.Package, d declRef) types.Object {
	o := p.Pkg().Scope().Lookup(d.obj)
	if o == nil || d.field == "" {
		return o
	}
	t := o.Type()
	var cur types.Object
	for _, name := range strings.Split(d.field, ".") {
		cur = nil
		u := t.Underlying()
		if sl, ok := u.(*types.Slice); ok {
			u = sl.Elem().Underlying()
		}
		switch x := u.(type) {
		case *types.Struct:
			for i := 0; i < x.NumFields(); i++ {
				if x.Field(i).Name() == name {
					cur = x.Field(i)
				}
			}
		case *types.Interface:
			for i := 0; i < x.NumExplicitMethods(); i++ {
				if x.ExplicitMethod(i).Name() == name {
					cur = x.ExplicitMethod(i)
				}
			}
		}
		if cur == nil {
			return nil
		}
		t = cur.Type()
	}
	return cur
}

var siblingIdent = regexp.MustCompile(`\b([SNM])(\d+)\b`)

// siblingFile: a second file of the same package with the same line structure — every declaration and every comment
// of p.go has a counterpart on the same line number, under another name and with another text.  An index that forgets
// which file a line belongs to answers p.go's questions from q.go.
func siblingFile(src string) string {
	s := siblingIdent.ReplaceAllString(src, "Q$1$2")
	s = strings.ReplaceAll(s, "// ", "// other-file ")
	s = strings.ReplaceAll(s, "/* ", "/* other-file ")
	s = strings.ReplaceAll(s, "//line gen", "//line qgen")
	s = strings.ReplaceAll(s, "//line /abs/elsewhere/gen", "//line /abs/elsewhere/qgen")
	s = strings.ReplaceAll(s, "//line p.go:", "//line q.go:")
	return s
}

// eval: the questions are put by four goroutines at once — the very first questions about a freshly loaded package
// arrive together — and every goroutine must be told the same
func (c *layoutCase) eval(p gengotypes.Package) string {
	const g = 4
	outs := make([]string, g)
	var wg sync.WaitGroup
	start := make(chan struct{})
	for i := 0; i < g; i++ {
		wg.Add(1)
		go func(i int) {
			defer wg.Done()
			<-start
			outs[i] = c.evalOnce(p)
		}(i)
	}
	close(start)
	wg.Wait()
	for i := 1; i < g; i++ {
		if outs[i] != outs[0] {
			return "askers-at-once-were-told-different-things:" + strings.ReplaceAll(outs[0], " ", "_") + "/" + strings.ReplaceAll(outs[i], " ", "_")
		}
	}
	return outs[0]
}

func (c *layoutCase) evalOnce(p gengotypes.Package) string {
	return guard(func() string {
		if p == nil {
			return "loaderr"
		}
		_, _, decls := c.render()
		var outs []string
		for _, refs := range decls {
			var per []string
			for _, d := range refs {
				o := lookupDecl(p, d)
				if o == nil {
					per = append(per, "missing:"+d.obj+"."+d.field)
					continue
				}
				tags, doc := p.Doc(o.Pos())
				cm := p.Comment(o.Pos())
				answer := "doc=" + showTagMap(tags, doc) + ";comment=" + hxs(cm, ",")
				// the answer belongs to the caller: scribbling over it must not change what the next caller is told
				for i := range doc {
					doc[i] = "scribbled"
				}
				for i := range cm {
					cm[i] = "scribbled"
				}
				for k := range tags {
					tags[k] = append(tags[k], "scribbled")
				}
				if tags != nil {
					tags["scribbled"] = []string{"x"}
				}
				tags2, doc2 := p.Doc(o.Pos())
				if again := "doc=" + showTagMap(tags2, doc2) + ";comment=" + hxs(p.Comment(o.Pos()), ","); again != answer {
					answer = "second-answer-differs-after-the-caller-edited-the-first:" + answer + " / " + again
				}
				per = append(per, answer)
			}
			// every name declared on one line must get the same answer; the row stands for all of them
			for _, x := range per[1:] {
				if x != per[0] {
					per[0] = "names-of-one-line-differ:" + strings.Join(per, " / ")
				}
			}
			outs = append(outs, strings.ReplaceAll(per[0], " ", "_"))
		}
		return strings.Join(outs, " ")
	})
}

func (c *layoutCase) Run() string {
	if c.have {
		return c.out
	}
	src, _, _ := c.render()
	sib := siblingFile(src)
	if c.CRLF {
		src, sib = strings.ReplaceAll(src, "\n", "\r\n"), strings.ReplaceAll(sib, "\n", "\r\n")
	}
	pkgs := []map[string]string{{"p.go": src, "q.go": sib}}
	b := loadBatch(pkgs)
	defer b.Close()
	c.out, c.have = c.eval(b.Pkg(0)), true
	// and once more, loaded by a caller that brings its own file set: the answers are the same
	b2 := loadBatchFset(pkgs, true)
	defer b2.Close()
	if o2 := c.eval(b2.Pkg(0)); o2 != c.out {
		c.out = o2
	}
	return c.out
}

func (c *layoutCase) CanonModel(m string) string {
	// the driver separates declarations by spaces and uses spaces inside showTags
	parts := strings.Split(m, " doc=")
	for i := range parts {
		parts[i] = strings.ReplaceAll(parts[i], " ", "_")
	}
	return strings.Join(parts, " doc=")
}

// ground truth from the layout itself: the generator knows which comment it placed where
func (c *layoutCase) Oracle(out string) string {
	if out == "loaderr" || out == "panic" {
		if out == "panic" {
			return "Doc/Comment panicked"
		}
		return ""
	}
	var want []string
	filter := func(ls []string) []string {
		var o []string
		for _, l := range ls {
			if !strings.HasPrefix(l, "go:") {
				o = append(o, l)
			}
		}
		return o
	}
	for _, s := range c.Sections {
		var above []string
		if s.Kind == "struct" {
			want = append(want, "doc="+showTagMap(map[string][]string{}, nil)+";comment=")
		}
		if s.Kind == "nested" { // the struct and its field with the written-out type: neither has a comment
			want = append(want, "doc="+showTagMap(map[string][]string{}, nil)+";comment=", "doc="+showTagMap(map[string][]string{}, nil)+";comment=")
		}
		for _, r := range s.Rows {
			switch r.K {
			case "b", "f": // an empty line, or a line of code with a comment behind it that is nobody's: nothing is "directly above" any more
				above = nil
			case "c":
				above = r.Lines
			case "d":
				tags := map[string][]string{}
				var others []string
				for _, l := range filter(above) {
					t := strings.Trim(l, " ")
					if t != "" && (t[0] == '+' || t[0] == '@') {
						k, v := t[1:], ""
						if i := strings.IndexAny(k, "= "); i >= 0 {
							k, v = k[:i], k[i+1:]
						}
						tags[k] = append(tags[k], v)
					} else {
						others = append(others, t)
					}
				}
				var tr []string
				if r.Trail != "" {
					tr = filter([]string{r.Trail})
				}
				want = append(want, "doc="+showTagMap(tags, others)+";comment="+hxs(tr, ","))
				above = nil
			}
		}
	}
	for i := range want {
		want[i] = strings.ReplaceAll(want[i], " ", "_")
	}
	got := strings.Split(out, " ")
	if out == "" {
		got = nil
	}
	if len(got) != len(want) {
		return fmt.Sprintf("%d declarations answered, %d declared", len(got), len(want))
	}
	for i := range want {
		if got[i] != want[i] {
			return fmt.Sprintf("declaration #%d: Doc/Comment gave %s; the comment group ending directly above it and its own trailing comment give %s", i, decodeLayoutAnswer(got[i]), decodeLayoutAnswer(want[i]))
		}
	}
	return ""
}

func decodeLayoutAnswer(s string) string {
	// hex pieces back to text for the message
	var b strings.Builder
	for _, tok := range strings.FieldsFunc(s, func(r rune) bool { return strings.ContainsRune("_=;,|", r) }) {
		if len(tok)%2 == 0 && strings.Trim(tok, "0123456789abcdef") == "" && len(tok) > 0 {
			b.WriteString("[" + unhx(tok) + "]")
		} else {
			b.WriteString(" " + tok + " ")
		}
	}
	return b.String()
}

func (c *layoutCase) Shrinks() []Case {
	var out []Case
	cp := func() []LSection {
		n := make([]LSection, len(c.Sections))
		for i, s := range c.Sections {
			n[i] = LSection{s.Kind, append([]LRow{}, s.Rows...), s.Hdr}
		}
		return n
	}
	for i := range c.Sections {
		if len(c.Sections) > 1 {
			n := cp()
			out = append(out, &layoutCase{Sections: append(n[:i:i], n[i+1:]...)})
		}
	}
	for i, s := range c.Sections {
		for j := range s.Rows {
			n := cp()
			n[i].Rows = append(n[i].Rows[:j:j], n[i].Rows[j+1:]...)
			out = append(out, &layoutCase{Sections: n})
		}
		for j, r := range s.Rows {
			if r.K == "c" && len(r.Lines) > 1 {
				n := cp()
				n[i].Rows[j].Lines = r.Lines[:1]
				out = append(out, &layoutCase{Sections: n})
			}
			if r.K == "d" && (r.H == 3 || r.Multi) {
				n := cp()
				n[i].Rows[j].H, n[i].Rows[j].Multi = 1, false
				out = append(out, &layoutCase{Sections: n})
			}
			if r.K == "c" && r.Block {
				n := cp()
				n[i].Rows[j].Block = false
				out = append(out, &layoutCase{Sections: n})
			}
		}
		if s.Hdr != "" {
			n := cp()
			n[i].Hdr = ""
			out = append(out, &layoutCase{Sections: n})
		}
		if s.Kind != "top-var" && s.Kind != "linedir" {
			n := cp()
			n[i].Kind = "top-var"
			n[i].Hdr = ""
			out = append(out, &layoutCase{Sections: n})
		}
	}
	return out
}

func (c *layoutCase) Key() string {
	var parts []string
	for _, s := range c.Sections {
		var rs []string
		for _, r := range s.Rows {
			switch r.K {
			case "b":
				rs = append(rs, "blank")
			case "x":
				rs = append(rs, fmt.Sprintf("target(%q:%d)", r.Lines, r.H))
			case "f":
				rs = append(rs, fmt.Sprintf("func%q", r.Lines))
			case "c":
				rs = append(rs, fmt.Sprintf("comment%q", r.Lines))
			case "d":
				rs = append(rs, fmt.Sprintf("decl(h=%d,trail=%q,multi=%v)", max(r.H, 1), r.Trail, r.Multi))
			}
		}
		hdr := ""
		if s.Hdr != "" {
			hdr = fmt.Sprintf("hdr(%q)", s.Hdr)
		}
		parts = append(parts, s.Kind+hdr+"{"+strings.Join(rs, " ")+"}")
	}
	return strings.Join(parts, " ")
}

func (c *layoutCase) Classes() []string {
	m := map[string]bool{}
	for _, s := range c.Sections {
		m["section:"+s.Kind] = true
		if s.Hdr != "" {
			m["comment-after-opening-brace"] = true
		}
		if s.Kind == "linedir" && len(s.Rows) > 0 && s.Rows[0].K == "x" && len(s.Rows[0].Lines) == 1 {
			switch t := s.Rows[0].Lines[0]; {
			case t == "p.go":
				m["line-directive:own-file"] = true
			case strings.HasPrefix(t, "/"):
				m["line-directive:other-directory"] = true
			default:
				m["line-directive:shared-target"] = true
			}
		}
		prev := ""
		for _, r := range s.Rows {
			switch {
			case r.K == "d" && prev == "c":
				m["doc-above"] = true
			case r.K == "d" && prev == "d-trail":
				m["decl-after-trailing"] = true
			case r.K == "b" && prev == "c":
				m["detached-comment"] = true
			}
			if r.K == "c" && r.Block {
				m["block-comment"] = true
			}
			if r.K == "d" && r.Multi {
				m["multi-name"] = true
			}
			for _, l := range r.Lines {
				if strings.HasPrefix(strings.Trim(l, " "), "+") || strings.HasPrefix(strings.Trim(l, " "), "@") {
					m["tag-line"] = true
				}
				if strings.HasPrefix(l, "go:") {
					m["go:-prose"] = true
				}
			}
			prev = r.K
			if r.K == "d" && r.Trail != "" {
				prev = "d-trail"
			}
		}
	}
	var cl []string
	for k := range m {
		cl = append(cl, k)
	}
	sort.Strings(cl)
	return cl
}

func (c *layoutCase) Nontrivial() bool {
	for _, s := range c.Sections {
		for _, r := range s.Rows {
			if r.K == "c" || (r.K == "d" && r.Trail != "") {
				return true
			}
		}
	}
	return false
}

var c12CommentLines = []string{"plain text", "Name does things", "+gengo:rec", "+k=v", "@tag value", "+k=w", "go:generate style prose", "x = y", "  indented", "trailing dots...", "+gengo:rec=false"}

func genLayout(r *Rng) *layoutCase {
	c := &layoutCase{}
	ns := 1 + r.Intn(3)
	id := 0
	for s := 0; s < ns; s++ {
		if r.Chance(15) {
			sec := LSection{Kind: "linedir", Rows: make([]LRow, r.Intn(3))}
			if r.Chance(60) {
				sec.Rows = []LRow{{K: "x", Lines: []string{Pick(r, []string{"gen.y", "gen.y", "p.go", "p.go", "/abs/elsewhere/gen.y"})}, H: Pick(r, []int{1, 2, 3, 4, 6, 9})}}
			}
			c.Sections = append(c.Sections, sec)
		}
		sec := LSection{Kind: Pick(r, []string{"top-var", "top-type", "top-const", "struct", "struct", "const", "var", "type", "nested", "nested"})}
		if !strings.HasPrefix(sec.Kind, "top-") && r.Chance(30) {
			sec.Hdr = Pick(r, []string{"settings", "+gengo:rec", "+k=v", "opens here"})
		}
		n := 1 + r.Intn(7)
		for i := 0; i < n; i++ {
			id++
			if strings.HasPrefix(sec.Kind, "top-") && r.Chance(8) {
				sec.Rows = append(sec.Rows, LRow{K: "f", Lines: []string{Pick(r, []string{"host only", "+gengo:rec", "+k=v"})}})
				continue
			}
			switch r.Intn(5) {
			case 0:
				sec.Rows = append(sec.Rows, LRow{K: "b"})
			case 1:
				if len(sec.Rows) > 0 && sec.Rows[len(sec.Rows)-1].K == "c" {
					sec.Rows = append(sec.Rows, LRow{K: "b"}) // two adjacent groups would be one group
					continue
				}
				k := 1 + r.Intn(3)
				row := LRow{K: "c", Block: r.Chance(20)}
				for j := 0; j < k; j++ {
					l := Pick(r, c12CommentLines)
					if row.Block {
						l = strings.TrimLeft(l, " ")
					}
					if j == 0 || !strings.HasPrefix(l, " ") {
						row.Lines = append(row.Lines, fmt.Sprintf("%s %d", l, id))
					}
				}
				if strings.HasPrefix(row.Lines[0], " ") {
					row.Lines[0] = strings.TrimLeft(row.Lines[0], " ")
				}
				sec.Rows = append(sec.Rows, row)
			default:
				row := LRow{K: "d", H: 1}
				if r.Chance(25) {
					row.H = 3
				} else if r.Chance(25) && sec.Kind != "top-type" && sec.Kind != "type" {
					row.Multi = true
				}
				if r.Chance(45) {
					row.Trail = fmt.Sprintf("%s %d", Pick(r, []string{"t", "trailing", "+not-a-doc-tag", "go:prose"}), id)
				}
				sec.Rows = append(sec.Rows, row)
			}
		}
		c.Sections = append(c.Sections, sec)
	}
	c.CRLF = r.Chance(15)
	return c
}

func layoutBatch(cases []Case) []string {
	res := make([]string, len(cases))
	const chunk = 400
	for start := 0; start < len(cases); start += chunk {
		end := min(start+chunk, len(cases))
		var pkgs []map[string]string
		for _, c := range cases[start:end] {
			src, _, _ := c.(*layoutCase).render()
			sib := siblingFile(src)
			if c.(*layoutCase).CRLF {
				src, sib = strings.ReplaceAll(src, "\n", "\r\n"), strings.ReplaceAll(sib, "\n", "\r\n")
			}
			pkgs = append(pkgs, map[string]string{"p.go": src, "q.go": sib})
		}
		b := loadBatch(pkgs)
		b2 := loadBatchFset(pkgs, true) // the same packages, loaded by a caller that brings its own file set
		for i, c := range cases[start:end] {
			lc := c.(*layoutCase)
			lc.out, lc.have = lc.eval(b.Pkg(i)), true
			if o2 := lc.eval(b2.Pkg(i)); o2 != lc.out {
				lc.out = o2 // judged like any other answer
			}
			res[start+i] = lc.out
		}
		b.Close()
		b2.Close()
	}
	return res
}

func enumLayouts(yield func(*layoutCase)) {
	// all layouts of ≤ 3 declarations × {nothing, doc, detached comment} above × {trailing or not}, in a struct and at top level
	above := []string{"none", "doc", "detached"}
	var rec func(rows []LRow, n int)
	emit := func(rows []LRow) {
		for _, kind := range []string{"struct", "top-var", "const"} {
			yield(&layoutCase{Sections: []LSection{{Kind: kind, Rows: append([]LRow{}, rows...)}}})
			// the same behind a line directive, with an undirected section ahead of it
			yield(&layoutCase{Sections: []LSection{{Kind: "top-var", Rows: []LRow{{K: "c", Lines: []string{"doc 9"}}, {K: "d", H: 1, Trail: "trail 9"}}}, {Kind: "linedir"}, {Kind: kind, Rows: append([]LRow{}, rows...)}}})
			// the header line of a struct / a group carrying a comment of its own
			if kind != "top-var" {
				yield(&layoutCase{Sections: []LSection{{Kind: kind, Rows: append([]LRow{}, rows...), Hdr: "+k=hdr opens"}}})
			} else {
				yield(&layoutCase{Sections: []LSection{{Kind: kind, Rows: append([]LRow{{K: "f", Lines: []string{"+k=fn behind a func"}}}, rows...)}}})
			}
			// and behind a directive that names the file itself: what follows is numbered like the top of the file (F27)
			yield(&layoutCase{Sections: []LSection{{Kind: "top-var", Rows: []LRow{{K: "c", Lines: []string{"doc 9"}}, {K: "d", H: 1, Trail: "trail 9"}}}, {Kind: "linedir", Rows: []LRow{{K: "x", Lines: []string{"p.go"}, H: 2}}}, {Kind: kind, Rows: append([]LRow{}, rows...)}}})
		}
	}
	rec = func(rows []LRow, n int) {
		if n > 0 {
			emit(rows)
		}
		if n == 3 {
			return
		}
		for _, a := range above {
			for _, tr := range []string{"", "t"} {
				nr := append([]LRow{}, rows...)
				switch a {
				case "doc":
					nr = append(nr, LRow{K: "c", Lines: []string{fmt.Sprintf("doc %d", n)}})
				case "detached":
					nr = append(nr, LRow{K: "c", Lines: []string{fmt.Sprintf("loose %d", n)}}, LRow{K: "b"})
				}
				t := ""
				if tr != "" {
					t = fmt.Sprintf("trail %d", n)
				}
				nr = append(nr, LRow{K: "d", H: 1, Trail: t})
				rec(nr, n+1)
			}
		}
	}
	rec(nil, 0)
}

func init() {
	register(&Property{ID: "C12", Streams: []*Stream{
		{
			Name: "tags", Quick: 30000, Thorough: 300000, New: func() Case { return &tagsCase{} },
			Gen: func(r *Rng, i int) Case {
				k := r.Intn(6)
				c := tagsCase{}
				for j := 0; j < k; j++ {
					switch r.Intn(4) {
					case 0:
						c.Lines = append(c.Lines, Pick(r, []string{"+foo=value1", "+bar", "+foo value2", `+baz="qux"`, "@a=b=c", " +lead", "+ ", "+", "", "  ", "plain", "+k= v", "+k=", "#x=1", "+é=ü", "+a b=c"}))
					default:
						c.Lines = append(c.Lines, r.Str([]rune("+@ab= \t:#é"), 8))
					}
				}
				if r.Chance(15) {
					c.Markers = Pick(r, []string{"#", "+", "@#", "a"})
				}
				return c
			},
			Rule: "random comment line lists over markers, '=', spaces, tabs, non-ASCII and the examples of the doc comment, default and custom markers; compared with the model and with an independent re-statement of the classification rule",
		},
		{
			Name: "layout", Quick: 1600, Thorough: 12000, New: func() Case { return &layoutCase{} },
			Gen:      func(r *Rng, i int) Case { return genLayout(r) },
			BatchRun: layoutBatch, ShrinkBudget: 60, MaxShrinks: 6,
			Rule: "source files of 1–3 sections (ungrouped var/type/const, struct fields, grouped const/var/type) × 1–7 rows among blank line, 1–3-line comment group (line or block comments, tag lines, go: prose), one- or three-line declaration with or without trailing comment (one-line declarations whose own line holds a nested field list among them: func types and literals with parameters and results, inline struct types), multi-name declarations; comments that belong to no declaration on lines that hold code (after the opening brace of a struct or the opening parenthesis of a group, behind a one-line function) directly above declarations; in about one file of three a `//line file:N` directive between two sections, naming a file of its own, a file another directive names too, the source file itself or an absolute path in another directory (what follows is then numbered like lines elsewhere); loaded with the real types.Load (400 packages per load), once the plain way and once by a caller that supplies its own token.FileSet through packages.Config — both must give the same answers; Doc and Comment of every declared name compared with the model on the same layout and with the layout's own ground truth; the questions about a freshly loaded package are put by four goroutines at once and all must be told the same; the package holds a second file with the same line structure under other names and with other comment texts; every name is asked twice and the harness scribbles over the first answer (lines, comment, tag map) in between: the second answer must be the same",
		},
		{
			Name: "layout-enum", New: func() Case { return &layoutCase{} },
			Enum:           func(tier string, yield func(Case)) { enumLayouts(func(c *layoutCase) { yield(c) }) },
			EnumExhaustive: true,
			BatchRun:       layoutBatch, ShrinkBudget: 60, MaxShrinks: 6,
			Rule: "every layout of ≤ 3 consecutive declarations × {nothing, doc comment, detached comment} above × {trailing comment or not}, as struct fields, ungrouped vars and grouped consts — each alone, behind a line directive naming a file of its own, and behind one naming the source file itself, with a documented declaration ahead of the directive",
		},
	}})
}
